//go:build verif
// +build verif

// Package chunkref is an independent reference for "valid content-addressed
// chunk" and "valid single-owner chunk" used by the C06 oracles. It does not
// use pkg/bmt, pkg/bmtpool, pkg/cac or pkg/soc: the BMT is computed here as a
// plain recursive keccak256 binary tree. Trusted base: keccak256
// (golang.org/x/crypto/sha3), secp256k1 public key recovery (pkg/crypto.Recover)
// and the geometry constants of pkg/boson.
package chunkref

import (
	"bytes"

	"github.com/gauss-project/aurorafs/pkg/boson"
	"github.com/gauss-project/aurorafs/pkg/crypto"
	"golang.org/x/crypto/sha3"
)

type keccakState interface {
	Reset()
	Write([]byte) (int, error)
	Read([]byte) (int, error) // squeezes the digest without cloning the state
}

func keccak(parts ...[]byte) []byte {
	return keccakWith(sha3.NewLegacyKeccak256().(keccakState), parts...)
}

func keccakWith(h keccakState, parts ...[]byte) []byte {
	h.Reset()
	for _, p := range parts {
		h.Write(p)
	}
	out := make([]byte, 32)
	h.Read(out)
	return out
}

// BMT returns the BMT address of span||payload: the payload is zero-padded
// to BmtBranches*SectionSize bytes, hashed as a binary keccak256 tree over
// 32-byte segments, and the root is hashed with the 8-byte span prepended.
// It returns nil when the input is shorter than a span or longer than a chunk.
func BMT(data []byte) []byte {
	max := boson.BmtBranches * boson.SectionSize
	if len(data) < boson.SpanSize || len(data) > max+boson.SpanSize {
		return nil
	}
	payload := data[boson.SpanSize:]
	h := sha3.NewLegacyKeccak256().(keccakState)
	// level 0: the 32-byte segments that contain payload bytes; everything to
	// the right of them is an all-zero subtree whose hash depends on the level only.
	var level [][]byte
	for i := 0; i < len(payload); i += boson.SectionSize {
		if i+boson.SectionSize <= len(payload) {
			level = append(level, payload[i:i+boson.SectionSize])
			continue
		}
		seg := make([]byte, boson.SectionSize)
		copy(seg, payload[i:])
		level = append(level, seg)
	}
	zero := make([]byte, boson.SectionSize)
	for width := boson.BmtBranches; width > 1; width /= 2 {
		var next [][]byte
		for i := 0; i < len(level); i += 2 {
			right := zero
			if i+1 < len(level) {
				right = level[i+1]
			}
			next = append(next, keccakWith(h, level[i], right))
		}
		zero = keccakWith(h, zero, zero)
		level = next
	}
	root := zero
	if len(level) > 0 {
		root = level[0]
	}
	return keccak(data[:boson.SpanSize], root)
}

// CACValid: 8 <= len(data) <= ChunkSize+8 and BMT(data) == addr.
func CACValid(addr, data []byte) bool {
	h := BMT(data)
	return h != nil && bytes.Equal(h, addr)
}

const (
	socIDSize  = 32
	socSigSize = 65
)

// SOCValid: data = id(32) || sig(65) || span(8) || payload(<= ChunkSize) and
// keccak(id || owner) == addr where owner is the Ethereum address recovered
// from sig over keccak(id || BMT(span||payload)).
func SOCValid(addr, data []byte) bool {
	if len(data) < socIDSize+socSigSize+boson.SpanSize {
		return false
	}
	id := data[:socIDSize]
	sig := data[socIDSize : socIDSize+socSigSize]
	inner := BMT(data[socIDSize+socSigSize:])
	if inner == nil {
		return false
	}
	pub, err := crypto.Recover(sig, keccak(id, inner))
	if err != nil || pub == nil {
		return false
	}
	owner, err := crypto.NewEthereumAddress(*pub)
	if err != nil || len(owner) != 20 {
		return false
	}
	return bytes.Equal(keccak(id, owner), addr)
}

// Valid: a valid CAC or a valid SOC for addr.
func Valid(addr, data []byte) bool {
	return CACValid(addr, data) || SOCValid(addr, data)
}
