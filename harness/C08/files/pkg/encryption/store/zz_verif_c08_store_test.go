//go:build verif
// +build verif

package store

// C08 part (b): the decrypting store restores every encrypted chunk's payload to exactly
// the length the encrypting writer stored.
//
//   - pipeline harness: for every file length the real encrypting pipeline (feeder ->
//     encryption -> bmt -> store -> hashtrie, wired as in builder.newEncryptionPipeline but
//     with a ChunkEncrypter wrapper that records the plaintext of every chunk by key) writes
//     the file; then every chunk is fetched through New(getter).Get by its 64-byte
//     reference, starting from the root, and compared with the recorded plaintext.
//   - fabricated harness: chunks that cannot be materialised as files (large spans, every
//     trie level): plaintext span||payload is built from an independent description of the
//     chunk (level, number of children, span of the last child), encrypted with the real
//     ChunkEncrypter and passed to decryptChunkData.

import (
	"bytes"
	"context"
	crand "crypto/rand"
	"encoding/binary"
	"encoding/hex"
	"fmt"
	"math/bits"
	"testing"

	"github.com/gauss-project/aurorafs/pkg/boson"
	"github.com/gauss-project/aurorafs/pkg/encryption"
	"github.com/gauss-project/aurorafs/pkg/file/pipeline"
	pbmt "github.com/gauss-project/aurorafs/pkg/file/pipeline/bmt"
	penc "github.com/gauss-project/aurorafs/pkg/file/pipeline/encryption"
	"github.com/gauss-project/aurorafs/pkg/file/pipeline/feeder"
	"github.com/gauss-project/aurorafs/pkg/file/pipeline/hashtrie"
	pstore "github.com/gauss-project/aurorafs/pkg/file/pipeline/store"
	"github.com/gauss-project/aurorafs/pkg/storage"
	"github.com/gauss-project/aurorafs/pkg/zzverif/mc"
	"golang.org/x/crypto/sha3"
)

// The chunk encrypter draws keys and padding from crypto/rand. To keep every execution a
// deterministic function of its choices, crypto/rand.Reader is replaced by a SHAKE stream
// that is re-seeded at the start of each execution (the code under test is unchanged; it
// just reads "random" bytes that are the same on every re-run).
func verifC08SeedRand(label string) {
	h := sha3.NewShake128()
	h.Write([]byte(label))
	crand.Reader = h
}

type verifC08Map struct{ m map[string][]byte }

func (s *verifC08Map) Put(_ context.Context, _ storage.ModePut, chs ...boson.Chunk) ([]bool, error) {
	ex := make([]bool, len(chs))
	for i, c := range chs {
		_, ex[i] = s.m[string(c.Address().Bytes())]
		s.m[string(c.Address().Bytes())] = append([]byte{}, c.Data()...)
	}
	return ex, nil
}

func (s *verifC08Map) Get(_ context.Context, _ storage.ModeGet, a boson.Address) (boson.Chunk, error) {
	d, ok := s.m[string(a.Bytes())]
	if !ok {
		return nil, storage.ErrNotFound
	}
	return boson.NewChunk(a, d), nil
}

// recording wrapper around the real chunk encrypter
type verifC08Rec struct {
	real  encryption.ChunkEncrypter
	plain map[string][]byte // key -> span||payload as handed to the encrypter
}

func (r *verifC08Rec) EncryptChunk(d []byte) (encryption.Key, []byte, []byte, error) {
	k, s, e, err := r.real.EncryptChunk(d)
	if err == nil {
		r.plain[string(k)] = append([]byte{}, d...)
	}
	return k, s, e, err
}

func verifC08Pipeline(ctx context.Context, s storage.Putter, rec *verifC08Rec) pipeline.Interface {
	short := func() pipeline.ChainWriter {
		lsw := pstore.NewStoreWriter(ctx, s, storage.ModePutUpload, nil)
		return penc.NewEncryptionWriter(rec, pbmt.NewBmtWriter(lsw))
	}
	tw := hashtrie.NewHashTrieWriter(boson.ChunkSize, boson.Branches/2, boson.HashSize+encryption.KeyLength, short)
	lsw := pstore.NewStoreWriter(ctx, s, storage.ModePutUpload, tw)
	return feeder.NewChunkFeederWriter(boson.ChunkSize, penc.NewEncryptionWriter(rec, pbmt.NewBmtWriter(lsw)))
}

func verifC08Data(l int) []byte {
	d := make([]byte, l)
	for i := range d {
		d[i] = byte(1 + (i*131+(i>>8)*17)%255)
	}
	return d
}

func verifC08Lengths() ([]int, string) {
	c := int(boson.ChunkSize)
	if c > 4096 {
		return []int{0, 1, c - 1, c, c + 1, 2*c + 5}, "production geometry: 0,1,C-1,C,C+1,2C+5"
	}
	eb := int(boson.Branches / 2)
	// number of levels covered: quick up to C*eb^lv
	lv := 4
	if eb >= 4 {
		lv = 2
	}
	if mc.Thorough() {
		lv++
	}
	max := c
	for i := 0; i < lv; i++ {
		max *= eb
	}
	max += 2*c + 3
	var r []int
	for i := 0; i <= max; i++ {
		r = append(r, i)
	}
	return r, fmt.Sprintf("all 0..%d (chunk %d bytes, %d references per encrypted intermediate chunk)", max, c, eb)
}

// one Test function per harness (a replay file addresses one harness)
func TestVerifC08StorePipeline(t *testing.T)   { verifC08PipelineHarness(t) }
func TestVerifC08StoreFabricated(t *testing.T) { verifC08FabricatedHarness(t) }

func verifC08PipelineHarness(t *testing.T) {
	lengths, desc := verifC08Lengths()
	c := uint64(boson.ChunkSize)
	eb := uint64(boson.Branches / 2)
	mc.Run(t, mc.Config{ID: "C08", Name: fmt.Sprintf("C08-pipeline-%dbranches", boson.Branches), MaxDev: -1, ShardLevels: 1,
		Params: map[string]interface{}{"file_lengths": desc, "n_lengths": len(lengths), "chunk_size": c, "encrypted_branches": eb}},
		func(x *mc.X) {
			// two-level choice (block of 32 lengths, then the length): shards partition the blocks,
			// so a shard pays one execution, not 32, for a block it does not own
			const blk = 32
			b := x.Choose((len(lengths) + blk - 1) / blk)
			n := len(lengths) - b*blk
			if n > blk {
				n = blk
			}
			l := lengths[b*blk+x.Choose(n)]
			verifC08SeedRand(fmt.Sprintf("pipeline-%d", l))
			ctx := context.Background()
			st := &verifC08Map{m: map[string][]byte{}}
			rec := &verifC08Rec{real: encryption.NewChunkEncrypter(), plain: map[string][]byte{}}
			p := verifC08Pipeline(ctx, st, rec)
			data := verifC08Data(l)
			nw, err := p.Write(data)
			x.Check(err == nil && nw == l, "encrypting-pipeline-error", "encrypting pipeline Write of %d bytes: %d, %v", l, nw, err)
			root, err := p.Sum()
			x.Check(err == nil, "encrypting-pipeline-error", "encrypting pipeline Sum for %d bytes: %v", l, err)
			if len(root) != encryption.ReferenceSize {
				x.Broken("root reference has %d bytes", len(root))
			}
			x.Logf("file length %d: %d chunks written", l, len(rec.plain))
			ds := New(st)
			type item struct {
				ref   []byte
				level int // distance from the root
			}
			stack := []item{{root, 0}}
			visited, leaves, inter, maxDepth := 0, 0, 0, 0
			leafBytes := 0
			for len(stack) > 0 {
				it := stack[len(stack)-1]
				stack = stack[:len(stack)-1]
				want, ok := rec.plain[string(it.ref[boson.HashSize:])]
				if !ok {
					x.Broken("reference with a key the encrypter never produced")
				}
				var ch boson.Chunk
				var err error
				if pv := mc.Try(func() { ch, err = ds.Get(ctx, storage.ModeGetRequest, boson.NewAddress(it.ref)) }); pv != nil {
					x.Fail("decrypting-get-panic", "file %d: Get of a written chunk (span %d) panics: %v", l, binary.LittleEndian.Uint64(want[:8]), pv)
				}
				x.Check(err == nil, "decrypting-get-error", "file %d: Get of a written chunk: %v", l, err)
				got := ch.Data()
				span := binary.LittleEndian.Uint64(want[:8])
				visited++
				if it.level > maxDepth {
					maxDepth = it.level
				}
				if span <= c {
					leaves++
					leafBytes += len(want) - 8
					if uint64(len(want)-8) != span {
						x.Broken("writer stored a leaf with span %d and %d payload bytes", span, len(want)-8)
					}
					x.Check(len(got) == len(want), "decrypted-leaf-length", "file %d: leaf with span %d restored to %d payload bytes, writer stored %d",
						l, span, len(got)-8, len(want)-8)
					if span < c {
						x.Tag("partial-leaf")
					}
				} else {
					inter++
					nref := (len(want) - 8) / encryption.ReferenceSize
					x.Check(len(got) == len(want), "decrypted-intermediate-length", "file %d: intermediate chunk with span %d and %d child references restored to %d payload bytes, want %d",
						l, span, nref, len(got)-8, len(want)-8)
					var first uint64
					for i := 0; i < nref; i++ {
						r := want[8+i*encryption.ReferenceSize : 8+(i+1)*encryption.ReferenceSize]
						child, ok := rec.plain[string(r[boson.HashSize:])]
						if !ok {
							x.Broken("child reference with unknown key")
						}
						cs := binary.LittleEndian.Uint64(child[:8])
						if i == 0 {
							first = cs
						} else if i == nref-1 && cs*eb <= first && first > c {
							x.Tag("lone-reference-carried-over") // last child is a subtree of a lower level than its siblings
							x.Nontrivial()
						}
						stack = append(stack, item{r, it.level + 1})
					}
					if uint64(nref) < eb {
						x.Tag("intermediate-not-full")
					}
				}
				x.Check(bytes.Equal(got, want), "decrypted-content", "file %d: chunk with span %d differs from what the writer encrypted", l, span)
			}
			if visited != len(rec.plain) || leafBytes != l {
				x.Broken("walk saw %d chunks / %d leaf bytes, writer encrypted %d chunks / %d bytes", visited, leafBytes, len(rec.plain), l)
			}
			x.Outcome(fmt.Sprintf("trie-depth-%d", maxDepth))
			if inter > 0 {
				x.Nontrivial()
			}
		})
}

// one fabricated chunk: level 0 = leaf (payload = span bytes), level k>=1 = intermediate
// chunk with n children, the first n-1 spanning a full level-(k-1) subtree and the last `last` bytes.
type verifC08Fab struct {
	level int
	n     int
	last  uint64
}

func verifC08FabricatedHarness(t *testing.T) {
	c := uint64(boson.ChunkSize)
	eb := uint64(boson.Branches / 2)
	var cases []verifC08Fab
	for _, s := range []uint64{0, 1, 31, 32, 33, 63, 64, 65, c / 2, c - 33, c - 32, c - 1, c} {
		if s <= c {
			cases = append(cases, verifC08Fab{0, 0, s})
		}
	}
	sub := c // span of a full subtree one level below
	maxLevel := 0
	for level := 1; level <= 7; level++ {
		var ns []uint64
		if eb <= 8 {
			for n := uint64(2); n <= eb; n++ {
				ns = append(ns, n)
			}
		} else {
			ns = []uint64{2, 3, eb/2 - 1, eb / 2, eb/2 + 1, eb - 1, eb}
			if !mc.Thorough() {
				ns = []uint64{2, eb/2 + 1, eb}
			}
		}
		lasts := []uint64{1, c - 1, c, c + 1, sub/eb - 1, sub / eb, sub/eb + 1, sub - c, sub - 1, sub}
		if eb > 8 && !mc.Thorough() {
			lasts = []uint64{1, c, sub/eb + 1, sub - 1, sub}
		}
		seen := map[[2]uint64]bool{}
		for _, n := range ns {
			for _, last := range lasts {
				if last < 1 || last > sub || seen[[2]uint64{n, last}] {
					continue
				}
				hi, lo := bits.Mul64(n-1, sub)
				if hi != 0 || lo+last < lo || lo+last >= 1<<63 {
					continue // span does not fit (the pipeline cannot produce it either)
				}
				seen[[2]uint64{n, last}] = true
				cases = append(cases, verifC08Fab{level, int(n), last})
				maxLevel = level
			}
		}
		hi, lo := bits.Mul64(sub, eb)
		if hi != 0 || lo >= 1<<63 {
			break
		}
		sub = lo
	}
	mc.Run(t, mc.Config{ID: "C08", Name: fmt.Sprintf("C08-fabricated-%dbranches", boson.Branches), MaxDev: -1, ShardLevels: 1,
		Params: map[string]interface{}{"chunk_size": c, "encrypted_branches": eb, "cases": len(cases), "max_level": maxLevel,
			"leaf_spans": "0,1,31,32,33,63,64,65,C/2,C-33,C-32,C-1,C",
			"intermediate": "levels 1..max_level; children n (all 2..eb for eb<=8, else boundary set); span = (n-1)*sub + last with sub = C*eb^(level-1), last in {1,C-1,C,C+1,sub/eb-1,sub/eb,sub/eb+1,sub-C,sub-1,sub}; spans < 2^63"}},
		func(x *mc.X) {
			ci := x.Choose(len(cases))
			fc := cases[ci]
			verifC08SeedRand(fmt.Sprintf("fabricated-%d", ci))
			var span uint64
			var payload []byte
			if fc.level == 0 {
				span = fc.last
				payload = verifC08Data(int(span))
				x.Outcome("leaf")
			} else {
				s := c
				for i := 1; i < fc.level; i++ {
					s *= eb
				}
				span = uint64(fc.n-1)*s + fc.last
				payload = verifC08Data(fc.n * encryption.ReferenceSize)
				x.Outcome(fmt.Sprintf("intermediate-level-%d", fc.level))
				x.Nontrivial()
				if fc.last*eb <= s && fc.level > 1 {
					x.Tag("last-child-of-lower-level")
				}
				if span > 1<<40 {
					x.Tag("span-above-2^40")
				}
			}
			x.Logf("level %d children %d last-child span %d => span %d, payload %d bytes", fc.level, fc.n, fc.last, span, len(payload))
			plain := make([]byte, 8+len(payload))
			binary.LittleEndian.PutUint64(plain, span)
			copy(plain[8:], payload)
			key, es, ed, err := encryption.NewChunkEncrypter().EncryptChunk(plain)
			x.Check(err == nil, "encrypt-chunk-error", "EncryptChunk of span %d with %d payload bytes: %v", span, len(payload), err)
			x.Check(len(es) == 8 && uint64(len(ed)) == c, "encrypted-chunk-size", "encrypted span %d bytes, encrypted data %d bytes, want 8 and %d", len(es), len(ed), c)
			var got []byte
			if pv := mc.Try(func() { got, err = decryptChunkData(append(append([]byte{}, es...), ed...), key) }); pv != nil {
				x.Fail("decrypt-panic", "level %d, %d children, span %d: decryptChunkData panics: %v", fc.level, fc.n, span, pv)
			}
			x.Check(err == nil, "decrypt-error", "decryptChunkData: %v", err)
			k := "decrypted-intermediate-length"
			if fc.level == 0 {
				k = "decrypted-leaf-length"
			}
			x.Check(len(got) == len(plain), k, "level %d, %d children, span %d: restored %d payload bytes, want %d", fc.level, fc.n, span, len(got)-8, len(payload))
			if !bytes.Equal(got, plain) {
				x.Fail("decrypted-content", "level %d span %d: content differs (%s...)", fc.level, span, hex.EncodeToString(got[:8]))
			}
		})
}
