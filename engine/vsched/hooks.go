//go:build verif && go1.18
// +build verif,go1.18

package vsched

import "time"

// ---- primitives used by vsync / vatomic / vtime -------------------------------

// Op runs a blocking primitive: parks until cond holds, then runs do atomically.
// Without an active scheduler do runs immediately (cond is assumed to hold).
func Op(what string, cond func() bool, do func()) {
	s := sched()
	if s == nil {
		if cur == nil && cond != nil && !cond() {
			panic("vsched: blocking " + what + " outside a scheduled execution")
		}
		do()
		return
	}
	s.yield(what, cond)
	do()
}

// ---- virtual time ------------------------------------------------------------

type vtimer struct {
	at     time.Duration
	seq    int
	fire   func()
	period time.Duration
	dead   bool
	free   bool // harness-internal (Sleep): not counted against MaxTimers
}

var epochBase = time.Date(2022, 1, 1, 0, 0, 0, 0, time.UTC)

// Now returns the virtual time (real time outside a scheduled execution).
func Now() time.Time {
	s := sched()
	if s == nil {
		return time.Now()
	}
	return epochBase.Add(s.now)
}

// Elapsed returns the virtual time elapsed in this execution.
func (s *S) Elapsed() time.Duration { return s.now }

func (s *S) nextTimer() *vtimer {
	var best *vtimer
	exhausted := s.fired >= s.opt.MaxTimers
	for _, t := range s.timers {
		if t.dead || (exhausted && !t.free) {
			continue
		}
		if best == nil || t.at < best.at || (t.at == best.at && t.seq < best.seq) {
			best = t
		}
	}
	return best
}

// tied returns the live timers due at the same instant as t, in creation order.
func (s *S) tied(t *vtimer) []*vtimer {
	var out []*vtimer
	for _, u := range s.timers {
		if !u.dead && u.at == t.at && (u.free || s.fired < s.opt.MaxTimers) {
			out = append(out, u)
		}
	}
	for i := 1; i < len(out); i++ {
		for j := i; j > 0 && out[j].seq < out[j-1].seq; j-- {
			out[j], out[j-1] = out[j-1], out[j]
		}
	}
	return out
}

func (s *S) fire(t *vtimer) {
	// timers due at the same instant may fire in any order: creation order is the default,
	// another order costs one deviation
	if ts := s.tied(t); len(ts) > 1 {
		t = ts[s.x.ChooseCost(len(ts), 1)]
	}
	if !t.free {
		s.fired++
	}
	if t.at > s.now {
		s.now = t.at
	}
	if s.opt.Trace {
		s.x.Logf("sched: timer fires at +%v", s.now)
	}
	if t.period > 0 {
		t.at += t.period
	} else {
		t.dead = true
	}
	t.fire()
	// compact
	live := s.timers[:0]
	for _, x := range s.timers {
		if !x.dead {
			live = append(live, x)
		}
	}
	s.timers = live
}

// TimerHandle stops a virtual timer.
type TimerHandle struct{ t *vtimer }

// Stop cancels the timer; reports whether it was still pending.
func (h *TimerHandle) Stop() bool {
	if h == nil || h.t == nil {
		return false
	}
	was := !h.t.dead
	h.t.dead = true
	return was
}

// Reset re-arms the timer d from now.
func (h *TimerHandle) Reset(d time.Duration, s *S) {
	h.t.dead = false
	h.t.at = s.now + d
	found := false
	for _, x := range s.timers {
		if x == h.t {
			found = true
		}
	}
	if !found {
		s.timers = append(s.timers, h.t)
	}
}

// AddTimer registers fire to run (in scheduler context, must not block) d from now.
func AddTimer(d, period time.Duration, fire func()) *TimerHandle {
	s := sched()
	if s == nil {
		return &TimerHandle{}
	}
	if d < 0 {
		d = 0
	}
	s.timerSeq++
	t := &vtimer{at: s.now + d, seq: s.timerSeq, fire: fire, period: period}
	s.timers = append(s.timers, t)
	return &TimerHandle{t}
}

// Deliver puts v on the scheduler-managed channel ch from timer context
// (non-blocking: dropped when the buffer is full, like time.Ticker).
func Deliver[T any](ch chan T, v T) {
	s := sched()
	if s == nil {
		return
	}
	cs := s.stateOf(ch, nil)
	if cs.cap > 0 && len(cs.q) < cs.cap {
		cs.q = append(cs.q, v)
		cs.qclk = append(cs.qclk, vc{})
	}
}

// Sleep blocks the running thread until virtual time has advanced by d.
func Sleep(d time.Duration) {
	s := sched()
	if s == nil {
		return
	}
	woke := false
	h := AddTimer(d, 0, func() { woke = true })
	h.t.free = true
	s.yield("sleep", func() bool { return woke })
}

// TimersFired returns the number of (non-harness) timer firings so far.
func (s *S) TimersFired() int { return s.fired }

// Current returns the active scheduler (nil outside Run).
func Current() *S { return sched() }
