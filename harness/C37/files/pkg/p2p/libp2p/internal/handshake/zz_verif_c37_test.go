//go:build verif
// +build verif

package handshake

import (
	"bytes"
	"context"
	"fmt"
	"io"
	"strings"
	"testing"

	"github.com/gauss-project/aurorafs/pkg/aurora"
	"github.com/gauss-project/aurorafs/pkg/crypto"
	"github.com/gauss-project/aurorafs/pkg/logging"
	"github.com/gauss-project/aurorafs/pkg/p2p"
	"github.com/gauss-project/aurorafs/pkg/p2p/libp2p/internal/handshake/pb"
	"github.com/gauss-project/aurorafs/pkg/topology/lightnode"
	"github.com/gauss-project/aurorafs/pkg/zzverif/mc"
	"github.com/gauss-project/aurorafs/pkg/zzverif/wire"
	libp2ppeer "github.com/libp2p/go-libp2p-core/peer"
	ma "github.com/multiformats/go-multiaddr"
)

type c37Resolver struct{}

func (c37Resolver) Resolve(o ma.Multiaddr) (ma.Multiaddr, error) { return o, nil }

type c37Picker struct{ accept bool }

func (p c37Picker) Pick(p2p.Peer) bool { return p.accept }

const c37NetworkID = 3

type c37Env struct {
	ma1, ma2     ma.Multiaddr
	id1, id2     libp2ppeer.ID
	signer1      crypto.Signer
	addr1, addr2 *aurora.Address
	mode         []byte
}

func c37Setup(t *testing.T) *c37Env {
	e := &c37Env{}
	var err error
	must := func(err error) {
		if err != nil {
			t.Fatal(err)
		}
	}
	e.ma1, err = ma.NewMultiaddr("/ip4/127.0.0.1/tcp/1634/p2p/16Uiu2HAkx8ULY8cTXhdVAcMmLcH9AsTKz6uBQ7DPLKRjMLgBVYkA")
	must(err)
	e.ma2, err = ma.NewMultiaddr("/ip4/127.0.0.1/tcp/1634/p2p/16Uiu2HAkx8ULY8cTXhdVAcMmLcH9AsTKz6uBQ7DPLKRjMLgBVYkS")
	must(err)
	i1, err := libp2ppeer.AddrInfoFromP2pAddr(e.ma1)
	must(err)
	i2, err := libp2ppeer.AddrInfoFromP2pAddr(e.ma2)
	must(err)
	e.id1, e.id2 = i1.ID, i2.ID
	k1, err := crypto.DecodeSecp256k1PrivateKey(bytes.Repeat([]byte{0x31}, 32))
	must(err)
	k2, err := crypto.DecodeSecp256k1PrivateKey(bytes.Repeat([]byte{0x32}, 32))
	must(err)
	e.signer1 = crypto.NewDefaultSigner(k1)
	o1, err := crypto.NewOverlayAddress(k1.PublicKey, c37NetworkID)
	must(err)
	o2, err := crypto.NewOverlayAddress(k2.PublicKey, c37NetworkID)
	must(err)
	e.addr1, err = aurora.NewAddress(e.signer1, e.ma1, o1, c37NetworkID)
	must(err)
	e.addr2, err = aurora.NewAddress(crypto.NewDefaultSigner(k2), e.ma2, o2, c37NetworkID)
	must(err)
	e.mode = aurora.NewModel().SetMode(aurora.FullNode).Bv.Bytes()
	return e
}

func (e *c37Env) service(x *mc.X, picker p2p.Picker, lightLimit int) *Service {
	s, err := New(e.signer1, c37Resolver{}, e.addr1.Overlay, c37NetworkID, aurora.NewModel().SetMode(aurora.FullNode), "hello", e.id1,
		logging.New(io.Discard, 0), lightnode.NewContainer(e.addr1.Overlay), lightLimit)
	x.NoErr(err, "handshake.New")
	if picker != nil {
		s.SetPicker(picker)
	}
	return s
}

func (e *c37Env) validAck() *pb.Ack {
	ul, _ := e.addr2.Underlay.MarshalBinary()
	return &pb.Ack{Address: &pb.BzzAddress{Underlay: ul, Overlay: e.addr2.Overlay.Bytes(), Signature: e.addr2.Signature},
		NetworkID: c37NetworkID, NodeMode: e.mode, WelcomeMessage: "hi"}
}

func (e *c37Env) validSyn() *pb.Syn {
	b, _ := e.ma1.MarshalBinary()
	return &pb.Syn{ObservedUnderlay: b}
}

func c37Underlays(valid []byte) []wire.BytesVal {
	vs := wire.BytesField(valid, 64<<10)
	for _, k := range []int{2, 4, 5, 7, 8, 9, len(valid) - 2} {
		if k > 0 && k < len(valid) {
			vs = append(vs, wire.BytesVal{Name: fmt.Sprintf("prefix-%d", k), V: valid[:k]})
		}
	}
	noP2P, _ := ma.NewMultiaddr("/ip4/127.0.0.1/tcp/1634")
	onlyP2P, _ := ma.NewMultiaddr("/p2p/16Uiu2HAkx8ULY8cTXhdVAcMmLcH9AsTKz6uBQ7DPLKRjMLgBVYkS")
	dns, _ := ma.NewMultiaddr("/dns4/example.org/tcp/1/p2p/16Uiu2HAkx8ULY8cTXhdVAcMmLcH9AsTKz6uBQ7DPLKRjMLgBVYkS")
	vs = append(vs, wire.BytesVal{Name: "no-p2p-part", V: noP2P.Bytes()}, wire.BytesVal{Name: "only-p2p-part", V: onlyP2P.Bytes()}, wire.BytesVal{Name: "dns", V: dns.Bytes()})
	return vs
}

// Ack grammar shared by Handle (third message) and Handshake (inside SynAck)
func (e *c37Env) acks() []struct {
	name string
	ack  *pb.Ack
} {
	type na = struct {
		name string
		ack  *pb.Ack
	}
	v := e.validAck()
	var out []na
	modes := []wire.BytesVal{{Name: "full", V: e.mode}, {Name: "absent", V: nil}, {Name: "empty", V: []byte{}}, {Name: "00", V: []byte{0}}, {Name: "ff", V: []byte{0xff}},
		{Name: "2-bytes", V: []byte{0xff, 0xff}}, {Name: "64KiB", V: make([]byte, 64<<10)}}
	nets := []uint64{c37NetworkID, 0, ^uint64(0)}
	var addrs []struct {
		name string
		a    *pb.BzzAddress
	}
	addrs = append(addrs, struct {
		name string
		a    *pb.BzzAddress
	}{"nil", nil}, struct {
		name string
		a    *pb.BzzAddress
	}{"empty-message", &pb.BzzAddress{}})
	for _, u := range c37Underlays(v.Address.Underlay) {
		for _, o := range wire.BytesField(v.Address.Overlay, 64<<10) {
			for _, s := range wire.BytesField(v.Address.Signature, 0) {
				// full product is 19*9*8; keep all single and pairwise deviations from the valid address
				dev := 0
				for _, n := range []string{u.Name, o.Name, s.Name} {
					if n != "valid" {
						dev++
					}
				}
				if dev <= 2 {
					addrs = append(addrs, struct {
						name string
						a    *pb.BzzAddress
					}{fmt.Sprintf("{underlay=%s,overlay=%s,sig=%s}", u.Name, o.Name, s.Name), &pb.BzzAddress{Underlay: u.V, Overlay: o.V, Signature: s.V}})
				}
			}
		}
	}
	for _, a := range addrs {
		for _, m := range modes {
			for _, n := range nets {
				if a.name != "nil" && a.name != "empty-message" && !strings.Contains(a.name, "underlay=valid,overlay=valid,sig=valid") && (m.Name != "full" && n != c37NetworkID) {
					continue // at most pairwise deviations overall for the big address product
				}
				out = append(out, na{fmt.Sprintf("address=%s,mode=%s,network=%d", a.name, m.Name, n),
					&pb.Ack{Address: a.a, NetworkID: n, NodeMode: m.V, WelcomeMessage: "hi"}})
			}
		}
	}
	for _, w := range []wire.BytesVal{{Name: "empty", V: nil}, {Name: "140", V: []byte(strings.Repeat("w", 140))}, {Name: "141", V: []byte(strings.Repeat("w", 141))},
		{Name: "invalid-utf8", V: []byte{0xff, 0xc0, 0x80}}, {Name: "64KiB", V: []byte(strings.Repeat("w", 64<<10))}} {
		a := e.validAck()
		a.WelcomeMessage = string(w.V)
		out = append(out, na{"welcome=" + w.Name, a})
	}
	return out
}

func c37Use(i *aurora.AddressInfo) {
	// what libp2p does with the result of a handshake
	if i == nil {
		return
	}
	_ = i.NodeMode.IsFull()
	_ = i.NodeMode.IsBootNode()
	_ = i.LightString()
	if i.Address != nil {
		_ = i.Address.String()
		_ = i.Address.Overlay.String()
		_, _ = i.Address.MarshalJSON()
	}
}

func TestVerifC37(t *testing.T) {
	e := c37Setup(t)
	synFrame := wire.Frame(e.validSyn())
	ackFrame := wire.Frame(e.validAck())

	// --- Handle (inbound): first message Syn, third message Ack
	var synCases, ackCases []wire.Case
	for _, c := range wire.Standard(e.validSyn()) {
		synCases = append(synCases, wire.Case{Name: c.Name, Data: append(append([]byte{}, c.Data...), ackFrame...)})
	}
	for _, u := range c37Underlays(e.validSyn().ObservedUnderlay) {
		synCases = append(synCases, wire.Case{Name: "observed=" + u.Name, Data: append(wire.Frame(&pb.Syn{ObservedUnderlay: u.V}), ackFrame...)})
	}
	for _, c := range wire.Standard(e.validAck()) {
		ackCases = append(ackCases, wire.Case{Name: c.Name, Data: append(append([]byte{}, synFrame...), c.Data...)})
	}
	for _, a := range e.acks() {
		ackCases = append(ackCases, wire.Case{Name: a.name, Data: append(append([]byte{}, synFrame...), wire.Frame(a.ack)...)})
	}
	// --- Handshake (outbound): the only message read is SynAck
	var saCases []wire.Case
	saCases = append(saCases, wire.Standard(&pb.SynAck{Syn: e.validSyn(), Ack: e.validAck()})...)
	saCases = append(saCases,
		wire.Msg("syn=nil,ack=valid", &pb.SynAck{Ack: e.validAck()}),
		wire.Msg("syn=valid,ack=nil", &pb.SynAck{Syn: e.validSyn()}),
		wire.Msg("syn=nil,ack=nil", &pb.SynAck{}),
		wire.Msg("syn=empty-message,ack=valid", &pb.SynAck{Syn: &pb.Syn{}, Ack: e.validAck()}),
		wire.Msg("syn=valid,ack=empty-message", &pb.SynAck{Syn: e.validSyn(), Ack: &pb.Ack{}}),
	)
	for _, u := range c37Underlays(e.validSyn().ObservedUnderlay) {
		saCases = append(saCases, wire.Msg("syn.observed="+u.Name, &pb.SynAck{Syn: &pb.Syn{ObservedUnderlay: u.V}, Ack: e.validAck()}))
	}
	for _, a := range e.acks() {
		saCases = append(saCases, wire.Msg("ack:"+a.name, &pb.SynAck{Syn: e.validSyn(), Ack: a.ack}))
	}

	handle := func(picker p2p.Picker, limit int) func(x *mc.X, c wire.Case) string {
		return func(x *mc.X, c wire.Case) string {
			s := e.service(x, picker, limit)
			st := wire.NewStream(c.Data)
			info, err := s.Handle(context.Background(), st, e.ma2, e.id2)
			c37Use(info)
			if err == nil {
				x.Tag("handshake-inbound-completed")
			}
			return wire.ErrClass(err)
		}
	}
	targets := []wire.Target{
		{Name: "Handle/syn", Cases: synCases, Run: handle(c37Picker{true}, lightnode.DefaultLightNodeLimit)},
		{Name: "Handle/ack(picker accepts)", Cases: ackCases, Run: handle(c37Picker{true}, lightnode.DefaultLightNodeLimit)},
		{Name: "Handshake/synack", Cases: saCases, Run: func(x *mc.X, c wire.Case) string {
			s := e.service(x, nil, lightnode.DefaultLightNodeLimit)
			st := wire.NewStream(c.Data)
			info, err := s.Handshake(context.Background(), st, e.ma2, e.id2)
			c37Use(info)
			if err == nil {
				x.Tag("handshake-outbound-completed")
			}
			return wire.ErrClass(err)
		}},
	}
	if mc.Thorough() {
		targets = append(targets, wire.Target{Name: "Handle/ack(no picker)", Cases: ackCases, Run: handle(nil, lightnode.DefaultLightNodeLimit)})
		targets = append(targets, wire.Target{Name: "Handle/ack(picker rejects, light limit 0)", Cases: ackCases, Run: handle(c37Picker{false}, 0)})
	}
	wire.Explore(t, func(cfg mc.Config, body func(*mc.X)) { mc.Run(t, cfg, body) }, "C37-handshake", map[string]interface{}{
		"alphabet": "Syn: standard framing/wire faults + ObservedUnderlay{valid,absent,empty,1,len-1,len+1,2len,other,64KiB,prefixes,no /p2p,only /p2p,dns}; Ack: standard faults + Address{nil, empty message, all single and pairwise deviations of underlay(19) x overlay(9) x signature(8)} x NodeMode{full,absent,empty,00,ff,2 bytes,64KiB} x NetworkID{own,0,max} (at most pairwise deviations overall) + WelcomeMessage{empty,140,141,invalid UTF-8,64KiB}; SynAck: standard faults + Syn/Ack nil/empty combinations + the Syn and Ack grammars; Handle is run with an accepting picker and (thorough) without picker and with a rejecting picker/light limit 0",
	}, targets)
}
