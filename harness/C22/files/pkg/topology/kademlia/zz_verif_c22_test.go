//go:build verif
// +build verif

package kademlia

// C22: the neighbourhood depth is consistent with the peer set.
//
//  TestVerifC22Recalc: the internal recalcDepth(pslice, radius, filter) on every
//    (connected, reachable) occupancy vector within the bounds, every radius.
//  TestVerifC22Kad:    a real Kad (manage loop not started) driven through
//    Connected/Outbound/Disconnected/DisconnectForce/Reachable/SetRadius in
//    several event orders that end in the same peer set.
//
// Oracle = the clauses of the statement, evaluated on the occupancy vector:
//  1 depth <= radius
//  2 at most nnLowWatermark(3) peers connected -> depth 0
//  3 depth > 0 -> at least 3 reachable peers in bins >= depth
//  4 depth <= shallowest empty bin
//  5 every bin < depth holds >= quickSaturationPeers reachable peers
//  6 depth is a function of the current set (event-order independence)

import (
	"context"
	"fmt"
	"io"
	"strings"
	"testing"
	"time"

	"github.com/gauss-project/aurorafs/pkg/addressbook"
	"github.com/gauss-project/aurorafs/pkg/aurora"
	"github.com/gauss-project/aurorafs/pkg/boson"
	discmock "github.com/gauss-project/aurorafs/pkg/discovery/mock"
	"github.com/gauss-project/aurorafs/pkg/logging"
	"github.com/gauss-project/aurorafs/pkg/p2p"
	p2pmock "github.com/gauss-project/aurorafs/pkg/p2p/mock"
	pingpongmock "github.com/gauss-project/aurorafs/pkg/pingpong/mock"
	"github.com/gauss-project/aurorafs/pkg/shed"
	shedldb "github.com/gauss-project/aurorafs/pkg/shed/leveldb"
	mockstate "github.com/gauss-project/aurorafs/pkg/statestore/mock"
	"github.com/gauss-project/aurorafs/pkg/subscribe"
	"github.com/gauss-project/aurorafs/pkg/topology/pslice"
	"github.com/gauss-project/aurorafs/pkg/zzverif/mc"
)

var c22Base = func() []byte {
	b := make([]byte, 32)
	for i := range b {
		b[i] = byte(0x5a ^ i*13)
	}
	return b
}()

// c22Addr: proximity `bin` to base, distinguished by a serial number far behind the deciding bit.
func c22Addr(bin, serial int) boson.Address {
	b := append([]byte{}, c22Base...)
	b[bin/8] ^= 0x80 >> uint(bin%8)
	b[20] ^= byte(serial + 1)
	b[21] ^= byte(bin + 1)
	return boson.NewAddress(b)
}

// occupancy of one bin: c peers connected, r of them reachable
type c22Bin struct{ bin, c, r int }

type c22Vec []c22Bin

func (v c22Vec) String() string {
	var s []string
	for _, b := range v {
		if b.c > 0 {
			s = append(s, fmt.Sprintf("bin%d:%d/%d", b.bin, b.r, b.c))
		}
	}
	if len(s) == 0 {
		return "(no peers)"
	}
	return strings.Join(s, " ") + " (reachable/connected)"
}

func (v c22Vec) total() int {
	n := 0
	for _, b := range v {
		n += b.c
	}
	return n
}

func (v c22Vec) get(bin int) (c, r int) {
	for _, b := range v {
		if b.bin == bin {
			return b.c, b.r
		}
	}
	return 0, 0
}

// the largest depth the five clauses allow (informational: the statement only bounds the depth from above)
func c22MaxAllowed(v c22Vec, radius, low, quick int) int {
	best := 0
	for d := 1; d <= int(boson.MaxPO); d++ {
		key := c22Clause(v, radius, d, low, quick)
		if key == "" {
			best = d
		} else if key != "clause3-fewer-than-three-reachable-peers-at-or-beyond-depth" {
			break // clauses 1, 2, 4, 5 are monotone in d
		}
	}
	return best
}

// returns "" or the key of the first violated clause; clause 5 is tested last so that it cannot mask another one
func c22Clause(v c22Vec, radius, d, low, quick int) string {
	if d > radius {
		return "clause1-depth-exceeds-radius"
	}
	if v.total() <= low && d != 0 {
		return "clause2-depth-nonzero-with-at-most-three-peers"
	}
	if d > 0 {
		n := 0
		for _, b := range v {
			if b.bin >= d {
				n += b.r
			}
		}
		if n < 3 {
			return "clause3-fewer-than-three-reachable-peers-at-or-beyond-depth"
		}
	}
	for bin := 0; bin < d; bin++ {
		if c, _ := v.get(bin); c == 0 {
			return "clause4-depth-exceeds-shallowest-empty-bin"
		}
	}
	for bin := 0; bin < d; bin++ {
		if _, r := v.get(bin); r < quick {
			return "clause5-shallower-bin-below-quick-saturation"
		}
	}
	return ""
}

func c22Explain(key string, v c22Vec, radius, d int) string {
	return fmt.Sprintf("%s: depth %d with radius %d and occupancy %s", key, d, radius, v)
}

// chooses an occupancy vector: for every listed bin c in 0..maxPer (total bounded) and r in 0..c.
// The first bin is one choice over all (c, r) pairs so that shards (split on the first two
// choices) are balanced.
func c22ChooseVec(x *mc.X, bins []int, maxPer, maxTotal int, deep int, pre [2]int) c22Vec {
	var v c22Vec
	left := maxTotal
	for i, bin := range bins {
		m := maxPer
		if m > left {
			m = left
		}
		var c, r int
		switch {
		case i == 0:
			c, r = pre[0], pre[1]
		case i == 1:
			p := c22Pairs(m)
			q := p[x.Choose(len(p))]
			c, r = q[0], q[1]
		default:
			c = x.Choose(m + 1)
			if c > 0 {
				r = x.Choose(c + 1)
			}
		}
		left -= c
		v = append(v, c22Bin{bin, c, r})
	}
	if deep >= 0 {
		switch x.Choose(3) {
		case 1:
			v = append(v, c22Bin{deep, 1, 1})
		case 2:
			v = append(v, c22Bin{deep, 1, 0})
		}
	}
	return v
}

// all (c, r) with 0 <= r <= c <= m
func c22Pairs(m int) [][2]int {
	var pairs [][2]int
	for c := m; c >= 0; c-- {
		for r := c; r >= 0; r-- {
			pairs = append(pairs, [2]int{c, r})
		}
	}
	return pairs
}

// first choice: configuration x occupancy of bin 0
type c22First struct {
	ci   int
	pair [2]int
}

func c22Firsts(n int) []c22First {
	var out []c22First
	for ci := 0; ci < n; ci++ {
		for _, p := range c22Pairs(c22Configs[ci].quickSat + 1) {
			out = append(out, c22First{ci, p})
		}
	}
	return out
}

// saturation configurations: the package-level thresholds as kademlia.New derives them from
// Options.BinMaxPeers (0 = built-in defaults 20/8/4; 10 -> 10/4/2)
type c22Config struct {
	name                string
	binMaxPeers         int
	over, sat, quickSat int
}

var c22Configs = []c22Config{
	{"BinMaxPeers=10 (quickSaturation 2)", 10, 10, 4, 2},
	{"default (quickSaturation 4)", 0, 20, 8, 4},
}

func c22SetThresholds(c c22Config) {
	overSaturationPeers, saturationPeers, quickSaturationPeers = c.over, c.sat, c.quickSat
}

// peers of a vector; in even bins the unreachable peers come first, in odd bins last
type c22Peer struct {
	addr      boson.Address
	bin, ser  int
	reachable bool
}

func c22PeersOf(v c22Vec) []c22Peer {
	var ps []c22Peer
	for _, b := range v {
		for i := 0; i < b.c; i++ {
			reach := i < b.r
			if b.bin%2 == 0 {
				reach = i >= b.c-b.r
			}
			ps = append(ps, c22Peer{c22Addr(b.bin, i), b.bin, i, reach})
		}
	}
	return ps
}

func TestVerifC22Recalc(t *testing.T) {
	// per configuration: number of bins, cap on the total
	type bound struct{ nb, maxTotal int }
	bounds := []bound{{mc.Pick(5, 6), mc.Pick(9, 11)}, {mc.Pick(4, 5), mc.Pick(9, 12)}}
	radii := []int{0, 1, 2, 3, 5, 31}
	low := nnLowWatermark
	defer c22SetThresholds(c22Configs[1])
	firsts := c22Firsts(len(c22Configs))

	mc.Run(t, mc.Config{ID: "C22", Name: "C22-recalc", MaxDev: -1, Params: map[string]interface{}{
		"configurations": []string{
			fmt.Sprintf("%s: bins 0..%d with 0..3 peers each, at most %d in total", c22Configs[0].name, bounds[0].nb-1, bounds[0].maxTotal),
			fmt.Sprintf("%s: bins 0..%d with 0..5 peers each, at most %d in total", c22Configs[1].name, bounds[1].nb-1, bounds[1].maxTotal)},
		"deep_peer":      "none / one reachable / one unreachable peer in bin 31",
		"reachability":   "for every bin every number 0..c of reachable peers (complete up to the symmetry of peers inside a bin)",
		"radius":         radii,
		"nnLowWatermark": low,
	}}, func(x *mc.X) {
		first := firsts[x.Choose(len(firsts))]
		ci := first.ci
		cfg := c22Configs[ci]
		c22SetThresholds(cfg) // what kademlia.New does for Options.BinMaxPeers
		quick := cfg.quickSat
		var bins []int
		for i := 0; i < bounds[ci].nb; i++ {
			bins = append(bins, i)
		}
		v := c22ChooseVec(x, bins, quick+1, bounds[ci].maxTotal, 31, first.pair)
		x.Logf("configuration %s", cfg.name)
		ps := pslice.New(int(boson.MaxBins), boson.NewAddress(append([]byte{}, c22Base...)))
		unreachable := map[string]bool{}
		var batch []boson.Address
		for _, p := range c22PeersOf(v) {
			batch = append(batch, p.addr)
			if !p.reachable {
				unreachable[p.addr.ByteString()] = true
			}
		}
		for _, a := range batch {
			ps.Add(a)
		}
		filter := func(a boson.Address) bool { return unreachable[a.ByteString()] }
		x.Logf("occupancy %s", v)
		emptyOnlyUnreachable := false
		for _, b := range v {
			if b.c > 0 && b.r == 0 {
				emptyOnlyUnreachable = true
			}
		}
		if emptyOnlyUnreachable {
			x.Tag("bin-with-only-unreachable-peers")
		}
		for _, radius := range radii {
			d := int(recalcDepth(ps, uint8(radius), filter))
			x.Logf("recalcDepth(radius=%d) = %d", radius, d)
			if key := c22Clause(v, radius, d, low, quick); key != "" {
				x.Fail(key, "%s", c22Explain(key, v, radius, d))
			}
			if d > 0 {
				x.Nontrivial()
			}
			if d == c22MaxAllowed(v, radius, low, quick) {
				x.Tag("depth-is-the-largest-the-clauses-allow")
			} else {
				x.Tag("depth-below-the-largest-the-clauses-allow")
			}
			x.Outcome(fmt.Sprintf("depth=%d", d))
		}
	})
}

// ---- full Kad ------------------------------------------------------------

const c22Driver = "verifc22leveldb"
const c22DriverCfg = `:{"WriteBuffer":16384,"BlockCacheCapacity":16384}`

func init() { shed.Register(c22Driver, shedldb.Driver{}) }

var c22SubPub = subscribe.NewSubPub()

func c22NewKad(x *mc.X, cfg c22Config) (*Kad, func()) {
	// New only writes the package-level thresholds when BinMaxPeers > 0; start from the defaults
	c22SetThresholds(c22Configs[1])
	db, err := shed.NewDB("", &shed.Options{Driver: c22Driver + c22DriverCfg})
	x.NoErr(err, "shed.NewDB")
	ab := addressbook.New(mockstate.NewStateStore())
	p2ps := p2pmock.New(p2pmock.WithDisconnectFunc(func(boson.Address, string) error { return nil }))
	disc := discmock.NewDiscovery()
	disc.SetHive2(true)
	ppm := pingpongmock.New(func(context.Context, boson.Address, ...string) (time.Duration, error) { return 0, nil })
	k, err := New(boson.NewAddress(append([]byte{}, c22Base...)), ab, disc, p2ps, ppm, nil, nil, db,
		logging.New(io.Discard, 0), c22SubPub, Options{NodeMode: aurora.NewModel().SetMode(aurora.FullNode), BinMaxPeers: cfg.binMaxPeers})
	x.NoErr(err, "kademlia.New")
	if quickSaturationPeers != cfg.quickSat {
		x.Broken("kademlia.New(BinMaxPeers=%d) left quickSaturationPeers=%d, harness expects %d", cfg.binMaxPeers, quickSaturationPeers, cfg.quickSat)
	}
	return k, func() {
		k.bgBroadcastCancel()
		_ = k.blocker.Close()
		_ = db.Close()
	}
}

type c22Event struct {
	kind   string // connected outbound disconnected disconnect-force public private radius
	peer   *c22Peer
	radius int
}

func (e c22Event) String() string {
	if e.kind == "radius" {
		return fmt.Sprintf("SetRadius(%d)", e.radius)
	}
	return fmt.Sprintf("%s(bin%d#%d)", e.kind, e.peer.bin, e.peer.ser)
}

func TestVerifC22Kad(t *testing.T) {
	// quick: only the BinMaxPeers=10 configuration (depths up to 3 with few peers);
	// thorough: also the default thresholds and one more bin
	type bound struct {
		bins     []int
		maxTotal int
	}
	bounds := []bound{{[]int{0, 1, 2}, 9}}
	if mc.Thorough() {
		bounds = []bound{{[]int{0, 1, 2, 3}, 10}, {[]int{0, 1, 2}, 12}}
	}
	low := nnLowWatermark
	defer c22SetThresholds(c22Configs[1])
	firsts := c22Firsts(len(bounds))
	radiusSweep := []int{2, 1, 0, 5, 31}
	variants := []string{
		"v0 ascending bins, inbound, status reported right after each connect, radius sweep last",
		"v1 descending bins, outbound/inbound alternating, SetRadius(2) first, an extra public peer in bin 1 connected first and removed last by DisconnectForce",
		"v2 round robin over bins, all connects first, then statuses in reverse order, SetRadius(1) in between",
		"v3 outbound, two extra public peers (bin 0 and bin 4) connected first, removed last by DisconnectForce and Disconnected",
		"v4 as v0, but every peer that ends private is first reported public and downgraded after all connects",
		"v5 as v0, then SetRadius(1) and under that lowered radius one event of every kind on extra peers (connected, public, outbound, public, downgrade to private, disconnected, disconnect-force), then SetRadius(31)",
		"v6 SetRadius(0) first, descending outbound build-up, SetRadius(2) (raise), connected/public/disconnect-force of an extra bin-0 peer, SetRadius(1) (lower), outbound/public/disconnect-force of an extra bin-4 peer, connected/public/disconnected of an extra bin-1 peer, SetRadius(31)",
		"v7 as v0, then every connected peer in turn leaves by Disconnected and comes back (connect + status), then every peer in turn leaves by DisconnectForce and comes back (outbound + status): each departure is judged on the set without that peer",
	}

	var cfgDesc []string
	for i, b := range bounds {
		cfgDesc = append(cfgDesc, fmt.Sprintf("%s: bins %v with 0..%d peers each, at most %d in total", c22Configs[i].name, b.bins, c22Configs[i].quickSat+1, b.maxTotal))
	}
	mc.Run(t, mc.Config{ID: "C22", Name: "C22-kad", MaxDev: -1, Params: map[string]interface{}{
		"configurations": cfgDesc,
		"deep_peer":      "none / one reachable / one unreachable peer in bin 31",
		"reachability":   "for every bin every number 0..c of reachable (= reported public) peers; unreachable peers alternate between never reported and reported private",
		"histories":      variants,
		"radius_sweep":   radiusSweep,
		"nnLowWatermark": low,
	}}, func(x *mc.X) {
		first := firsts[x.Choose(len(firsts))]
		ci := first.ci
		cfg := c22Configs[ci]
		quick := cfg.quickSat
		maxPer := quick + 1
		v := c22ChooseVec(x, bounds[ci].bins, maxPer, bounds[ci].maxTotal, 31, first.pair)
		x.Logf("configuration %s", cfg.name)
		peers := c22PeersOf(v)
		x.Logf("final occupancy %s", v)
		private := func(p *c22Peer) bool { return !p.reachable && p.ser%2 == 0 } // the other unreachable ones are never reported

		byBin := func(desc bool) []*c22Peer {
			var out []*c22Peer
			for i := range peers {
				out = append(out, &peers[i])
			}
			if desc {
				for i, j := 0, len(out)-1; i < j; i, j = i+1, j-1 {
					out[i], out[j] = out[j], out[i]
				}
			}
			return out
		}
		status := func(p *c22Peer) []c22Event {
			if p.reachable {
				return []c22Event{{kind: "public", peer: p}}
			}
			if private(p) {
				return []c22Event{{kind: "private", peer: p}}
			}
			return nil
		}
		build := func(vi int) []c22Event {
			var ev []c22Event
			switch vi {
			case 0:
				for _, p := range byBin(false) {
					ev = append(ev, c22Event{kind: "connected", peer: p})
					ev = append(ev, status(p)...)
				}
			case 1:
				e1 := &c22Peer{addr: c22Addr(1, 42), bin: 1, ser: 42, reachable: true}
				ev = append(ev, c22Event{kind: "radius", radius: 2})
				ev = append(ev, c22Event{kind: "outbound", peer: e1}, c22Event{kind: "public", peer: e1})
				for i, p := range byBin(true) {
					kind := "outbound"
					if i%2 == 1 {
						kind = "connected"
					}
					ev = append(ev, c22Event{kind: kind, peer: p})
					ev = append(ev, status(p)...)
				}
				ev = append(ev, c22Event{kind: "radius", radius: 31})
				ev = append(ev, c22Event{kind: "disconnect-force", peer: e1})
			case 2:
				var rr []*c22Peer
				for ser := 0; ser <= maxPer; ser++ {
					for _, p := range byBin(false) {
						if p.ser == ser {
							rr = append(rr, p)
						}
					}
				}
				for _, p := range rr {
					ev = append(ev, c22Event{kind: "connected", peer: p})
				}
				ev = append(ev, c22Event{kind: "radius", radius: 1})
				for i := len(rr) - 1; i >= 0; i-- {
					ev = append(ev, status(rr[i])...)
				}
				ev = append(ev, c22Event{kind: "radius", radius: 31})
			case 3:
				e0 := &c22Peer{addr: c22Addr(0, 40), bin: 0, ser: 40, reachable: true}
				e4 := &c22Peer{addr: c22Addr(4, 41), bin: 4, ser: 41, reachable: true}
				for _, p := range []*c22Peer{e0, e4} {
					ev = append(ev, c22Event{kind: "connected", peer: p}, c22Event{kind: "public", peer: p})
				}
				for _, p := range byBin(false) {
					ev = append(ev, c22Event{kind: "outbound", peer: p})
					ev = append(ev, status(p)...)
				}
				ev = append(ev, c22Event{kind: "disconnect-force", peer: e4}, c22Event{kind: "disconnected", peer: e0})
			case 4:
				var down []*c22Peer
				for _, p := range byBin(false) {
					ev = append(ev, c22Event{kind: "connected", peer: p})
					if private(p) {
						ev = append(ev, c22Event{kind: "public", peer: p})
						down = append(down, p)
					} else {
						ev = append(ev, status(p)...)
					}
				}
				for _, p := range down {
					ev = append(ev, c22Event{kind: "private", peer: p})
				}
			case 5:
				for _, p := range byBin(false) {
					ev = append(ev, c22Event{kind: "connected", peer: p})
					ev = append(ev, status(p)...)
				}
				e1 := &c22Peer{addr: c22Addr(1, 43), bin: 1, ser: 43, reachable: true}
				e4 := &c22Peer{addr: c22Addr(4, 44), bin: 4, ser: 44, reachable: true}
				ev = append(ev, c22Event{kind: "radius", radius: 1},
					c22Event{kind: "connected", peer: e4}, c22Event{kind: "public", peer: e4},
					c22Event{kind: "outbound", peer: e1}, c22Event{kind: "public", peer: e1},
					c22Event{kind: "private", peer: e1},
					c22Event{kind: "disconnected", peer: e1},
					c22Event{kind: "disconnect-force", peer: e4},
					c22Event{kind: "radius", radius: 31})
			case 6:
				ev = append(ev, c22Event{kind: "radius", radius: 0})
				for _, p := range byBin(true) {
					ev = append(ev, c22Event{kind: "outbound", peer: p})
					ev = append(ev, status(p)...)
				}
				e0 := &c22Peer{addr: c22Addr(0, 45), bin: 0, ser: 45, reachable: true}
				e1 := &c22Peer{addr: c22Addr(1, 46), bin: 1, ser: 46, reachable: true}
				e4 := &c22Peer{addr: c22Addr(4, 47), bin: 4, ser: 47, reachable: true}
				ev = append(ev, c22Event{kind: "radius", radius: 2},
					c22Event{kind: "connected", peer: e0}, c22Event{kind: "public", peer: e0},
					c22Event{kind: "disconnect-force", peer: e0},
					c22Event{kind: "radius", radius: 1},
					c22Event{kind: "outbound", peer: e4}, c22Event{kind: "public", peer: e4},
					c22Event{kind: "disconnect-force", peer: e4},
					c22Event{kind: "connected", peer: e1}, c22Event{kind: "public", peer: e1},
					c22Event{kind: "disconnected", peer: e1},
					c22Event{kind: "radius", radius: 31})
			case 7:
				for _, p := range byBin(false) {
					ev = append(ev, c22Event{kind: "connected", peer: p})
					ev = append(ev, status(p)...)
				}
				for _, p := range byBin(true) {
					ev = append(ev, c22Event{kind: "disconnected", peer: p}, c22Event{kind: "connected", peer: p})
					ev = append(ev, status(p)...)
				}
				for _, p := range byBin(false) {
					ev = append(ev, c22Event{kind: "disconnect-force", peer: p}, c22Event{kind: "outbound", peer: p})
					ev = append(ev, status(p)...)
				}
			}
			return ev
		}

		fullMode := aurora.NewModel().SetMode(aurora.FullNode)
		type obs struct {
			radius, depth, fresh int
		}
		results := make([][]obs, len(variants))
		traces := make([]string, len(variants))
		stale := map[string]string{}
		eventClause := map[string]string{} // first per-event violation of a clause, by key
		for vi := range variants {
			k, cleanup := c22NewKad(x, cfg)
			ev := build(vi)
			var tr []string
			// the harness's own view of the history: current radius, last reported status per peer
			curRadius := int(boson.MaxPO)
			reported := map[string]bool{}
			for _, e := range ev {
				switch e.kind {
				case "public":
					reported[e.peer.addr.ByteString()] = true
				case "private":
					reported[e.peer.addr.ByteString()] = false
				case "radius":
					curRadius = e.radius
				}
				switch e.kind {
				case "connected":
					x.NoErr(k.Connected(context.Background(), p2p.Peer{Address: e.peer.addr, Mode: fullMode}, false), "Connected")
				case "outbound":
					k.Outbound(p2p.Peer{Address: e.peer.addr, Mode: fullMode})
				case "disconnected":
					k.Disconnected(p2p.Peer{Address: e.peer.addr, Mode: fullMode}, "test")
				case "disconnect-force":
					x.NoErr(k.DisconnectForce(e.peer.addr, "test"), "DisconnectForce")
				case "public":
					k.Reachable(e.peer.addr, p2p.ReachabilityStatusPublic)
				case "private":
					k.Reachable(e.peer.addr, p2p.ReachabilityStatusPrivate)
				case "radius":
					k.SetRadius(uint8(e.radius))
				}
				tr = append(tr, e.String())
				// after every event: the five clauses on the reported depth, for the peers connected now (read
				// from the Kad), the statuses reported so far and the radius set last (harness bookkeeping)
				{
					occ := map[int]*c22Bin{}
					_ = k.connectedPeers.EachBin(func(a boson.Address, po uint8) (bool, bool, error) {
						b := occ[int(po)]
						if b == nil {
							b = &c22Bin{bin: int(po)}
							occ[int(po)] = b
						}
						b.c++
						if reported[a.ByteString()] {
							b.r++
						}
						return false, false, nil
					})
					var cur c22Vec
					for bin := 0; bin < int(boson.MaxBins); bin++ {
						if b := occ[bin]; b != nil {
							cur = append(cur, *b)
						}
					}
					d := int(k.NeighborhoodDepth())
					if key := c22Clause(cur, curRadius, d, low, quick); key != "" {
						if _, dup := eventClause[key]; !dup {
							eventClause[key] = fmt.Sprintf("%s after %s (Kad, %s; events so far: %s)", c22Explain(key, cur, curRadius, d), e, variants[vi][:2], strings.Join(tr, " "))
						}
					}
					if curRadius < d {
						x.Tag("event-under-radius-below-depth-violated")
					} else if curRadius < int(recalcDepth(k.connectedPeers, boson.MaxPO, k.peerFilter)) {
						x.Tag("event-under-radius-below-unclamped-depth:" + e.kind)
					}
				}
				// clause 6 after every event: the reported depth is the depth of the current set with the current radius
				if got, fresh := int(k.NeighborhoodDepth()), int(recalcDepth(k.connectedPeers, uint8(curRadius), k.peerFilter)); got != fresh {
					key := "depth-stale-after-" + e.kind
					if e.kind == "private" {
						key = "depth-stale-after-reachability-downgrade"
					}
					if _, dup := stale[key]; !dup {
						stale[key] = fmt.Sprintf("%s: after %s NeighborhoodDepth()=%d but the current peer set gives %d (radius %d); events so far: %s", variants[vi][:2], e, got, fresh, curRadius, strings.Join(tr, " "))
					}
				}
			}
			// the final state is the same in every variant
			if got := k.connectedPeers.Length(); got != len(peers) {
				cleanup()
				x.Broken("variant %d: %d peers connected, harness expects %d", vi, got, len(peers))
			}
			for i := range peers {
				if k.peerFilter(peers[i].addr) == peers[i].reachable {
					cleanup()
					x.Broken("variant %d: peer bin%d#%d reachable=%v but the Kad's filter disagrees", vi, peers[i].bin, peers[i].ser, peers[i].reachable)
				}
			}
			results[vi] = append(results[vi], obs{int(k.radius), int(k.NeighborhoodDepth()), int(recalcDepth(k.connectedPeers, k.radius, k.peerFilter))})
			for _, r := range radiusSweep {
				k.SetRadius(uint8(r))
				results[vi] = append(results[vi], obs{r, int(k.NeighborhoodDepth()), int(recalcDepth(k.connectedPeers, k.radius, k.peerFilter))})
			}
			traces[vi] = strings.Join(tr, " ")
			cleanup()
		}
		for vi := range variants {
			x.Logf("%s: %s", variants[vi][:2], traces[vi])
			var ds []string
			for _, o := range results[vi] {
				ds = append(ds, fmt.Sprintf("r%d:d%d", o.radius, o.depth))
			}
			x.Logf("   depths after history, then after SetRadius %v: %s", radiusSweep, strings.Join(ds, " "))
		}

		// clause 6 first (so that the known clause-5 / downgrade findings cannot mask it)
		for _, kind := range []string{"connected", "outbound", "disconnected", "disconnect-force", "public", "radius"} {
			if msg, ok := stale["depth-stale-after-"+kind]; ok {
				x.Fail("depth-stale-after-"+kind, "%s (final occupancy %s)", msg, v)
			}
		}
		for vi := 1; vi < len(variants); vi++ {
			if vi == 4 {
				continue // v4 (downgrade) is reported below under its own key
			}
			for i := range results[0] {
				if results[vi][i].radius == results[0][i].radius && results[vi][i].depth != results[0][i].depth {
					x.Fail("depth-depends-on-event-order", "same final peer set %s, radius %d: depth %d after [%s] but %d after [%s]", v, results[0][i].radius, results[0][i].depth, traces[0], results[vi][i].depth, traces[vi])
				}
			}
		}
		for vi := range variants {
			for _, o := range results[vi][1:] { // [0] is the end of the history, covered by the per-event check
				if o.depth != o.fresh {
					x.Fail("depth-stale-after-setradius", "%s: after SetRadius(%d) NeighborhoodDepth()=%d, current set gives %d (%s)", variants[vi], o.radius, o.depth, o.fresh, v)
				}
			}
		}
		// clauses 1..4 on every depth the Kad reported, then the downgrade finding, clause 5 last
		clauses := func(five bool) {
			for _, key := range []string{"clause1-depth-exceeds-radius", "clause2-depth-nonzero-with-at-most-three-peers", "clause3-fewer-than-three-reachable-peers-at-or-beyond-depth", "clause4-depth-exceeds-shallowest-empty-bin", "clause5-shallower-bin-below-quick-saturation"} {
				if msg, ok := eventClause[key]; ok && (key == "clause5-shallower-bin-below-quick-saturation") == five {
					x.Fail(key, "%s", msg)
				}
			}
			for vi := range variants {
				for _, o := range results[vi] {
					key := c22Clause(v, o.radius, o.depth, low, quick)
					if key != "" && (key == "clause5-shallower-bin-below-quick-saturation") == five && (vi != 4 || len(stale) == 0) {
						x.Fail(key, "%s (Kad, %s; events: %s)", c22Explain(key, v, o.radius, o.depth), variants[vi][:2], traces[vi])
					}
				}
			}
		}
		clauses(false)
		if msg, ok := stale["depth-stale-after-reachability-downgrade"]; ok {
			x.Fail("depth-stale-after-reachability-downgrade", "%s (final occupancy %s)", msg, v)
		}
		for i := range results[0] {
			if results[4][i].depth != results[0][i].depth {
				x.Fail("depth-depends-on-event-order", "same final peer set %s, radius %d: depth %d after [%s] but %d after [%s]", v, results[0][i].radius, results[0][i].depth, traces[0], results[4][i].depth, traces[4])
			}
		}
		clauses(true)
		if results[0][0].depth > 0 {
			x.Nontrivial()
		}
		for _, b := range v {
			if b.c > 0 && b.r == 0 {
				x.Tag("bin-with-only-unreachable-peers")
			}
		}
		x.Outcome(fmt.Sprintf("depth=%d", results[0][0].depth))
	})
}
