//go:build verif && go1.18
// +build verif,go1.18

package bmt

import (
	"bytes"
	"encoding/binary"
	"fmt"
	"testing"

	realbmt "github.com/gauss-project/aurorafs/pkg/bmt"
	"github.com/gauss-project/aurorafs/pkg/bmtpool"
	"github.com/gauss-project/aurorafs/pkg/boson"
	"github.com/gauss-project/aurorafs/pkg/file/pipeline"
	"github.com/gauss-project/aurorafs/pkg/zzverif/mc"
	"github.com/gauss-project/aurorafs/pkg/zzverif/vsched"
	"golang.org/x/crypto/sha3"
)

func c02k(parts ...[]byte) []byte {
	h := sha3.NewLegacyKeccak256()
	for _, p := range parts {
		h.Write(p)
	}
	return h.Sum(nil)
}

// independent chunk hash: keccak(span || merkle root of the zero-padded data)
func c02ref(span, data []byte) []byte {
	buf := make([]byte, boson.ChunkSize)
	copy(buf, data)
	var root func(b []byte) []byte
	root = func(b []byte) []byte {
		if len(b) == 64 {
			return c02k(b)
		}
		return c02k(root(b[:len(b)/2]), root(b[len(b)/2:]))
	}
	return c02k(span, root(buf))
}

type c02sink struct{}

func (c02sink) ChainWrite(*pipeline.PipeWriteArgs) error { return nil }
func (c02sink) Sum() ([]byte, error)                      { return nil, nil }

// Concurrent uploads share the process-wide hasher pool: the reference of each chunk must
// still depend on its bytes alone, also when the pool is nearly exhausted.
func TestVerifC02Concurrent(t *testing.T) {
	maxDev := mc.Pick(2, 3)
	lens := []int{1, 65, boson.ChunkSize}
	if mc.Thorough() {
		lens = []int{1, 33, 64, 65, boson.ChunkSize - 1, boson.ChunkSize}
	}
	mc.Run(t, mc.Config{ID: "C02", Name: "C02-concurrent-chunk-hashing", MaxDev: maxDev, ShardLevels: 3, Params: map[string]interface{}{
		"threads": "2 (thorough 3) pipeline BMT writers hashing one chunk each at the same time", "pool_capacity": "1 or 2 trees left in the shared pool",
		"chunk_data_lengths": fmt.Sprint(lens), "geometry": fmt.Sprintf("chunk %d bytes", boson.ChunkSize), "preemption_bound": maxDev}},
		func(x *mc.X) {
			pcap := 1 + x.Choose(2)
			n := 2 + x.Choose(mc.Pick(1, 2))
			datas := make([][]byte, n)
			for i := range datas {
				l := lens[x.Choose(len(lens))]
				d := make([]byte, 8+l)
				binary.LittleEndian.PutUint64(d, uint64(l))
				for j := 8; j < len(d); j++ {
					d[j] = byte(j*13+i*7) | 1
				}
				datas[i] = d
			}
			x.Logf("pool capacity %d, chunk lengths %v", pcap, func() (r []int) {
				for _, d := range datas {
					r = append(r, len(d)-8)
				}
				return
			}())
			got := make([][]byte, n)
			errs := make([]error, n)
			verdict := vsched.Run(x, vsched.Options{MaxSteps: 20000}, func(s *vsched.S) {
				old := bmtpool.VerifSetPool(realbmt.NewPool(realbmt.NewConf(boson.NewHasher, boson.BmtBranches, pcap)))
				defer bmtpool.VerifSetPool(old)
				for i := range datas {
					i := i
					s.Go(fmt.Sprintf("upload%d", i), func() {
						w := NewBmtWriter(c02sink{})
						args := &pipeline.PipeWriteArgs{Data: datas[i]}
						errs[i] = w.ChainWrite(args)
						got[i] = append([]byte{}, args.Ref...)
					})
				}
				s.Quiesce()
				if s.Preemptions() > 0 {
					x.Nontrivial()
				}
			})
			if verdict != "" {
				x.Fail("deadlock", "scheduler verdict %s", verdict)
			}
			for i, d := range datas {
				if errs[i] != nil {
					x.Fail("chunk-hash-error", "upload %d: %v", i, errs[i])
				}
				want := c02ref(d[:8], d[8:])
				if !bytes.Equal(got[i], want) {
					x.Fail("reference-depends-on-concurrent-uploads", "chunk of %d bytes hashed while %d other upload(s) ran (pool capacity %d): reference %x, the bytes alone give %x", len(d)-8, n-1, pcap, got[i], want)
				}
			}
			x.Outcome(fmt.Sprintf("n=%d cap=%d", n, pcap))
			x.State(fmt.Sprintf("%d|%d|%x", n, pcap, got))
		})
}
