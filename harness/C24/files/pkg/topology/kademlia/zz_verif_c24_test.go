//go:build verif
// +build verif

package kademlia

// C24: the topology tracks exactly the live connections.
// Operation sequences on a real Kad (manage loop not started) against a
// reference set "full nodes connected and not since disconnected".

import (
	"context"
	"errors"
	"fmt"
	"io"
	"sort"
	"strings"
	"testing"
	"time"

	"github.com/gauss-project/aurorafs/pkg/addressbook"
	"github.com/gauss-project/aurorafs/pkg/aurora"
	"github.com/gauss-project/aurorafs/pkg/boson"
	discmock "github.com/gauss-project/aurorafs/pkg/discovery/mock"
	"github.com/gauss-project/aurorafs/pkg/logging"
	"github.com/gauss-project/aurorafs/pkg/p2p"
	p2pmock "github.com/gauss-project/aurorafs/pkg/p2p/mock"
	pingpongmock "github.com/gauss-project/aurorafs/pkg/pingpong/mock"
	"github.com/gauss-project/aurorafs/pkg/shed"
	shedldb "github.com/gauss-project/aurorafs/pkg/shed/leveldb"
	mockstate "github.com/gauss-project/aurorafs/pkg/statestore/mock"
	"github.com/gauss-project/aurorafs/pkg/subscribe"
	"github.com/gauss-project/aurorafs/pkg/topology"
	"github.com/gauss-project/aurorafs/pkg/topology/model"
	"github.com/gauss-project/aurorafs/pkg/zzverif/mc"
)

var c24Base = func() []byte {
	b := make([]byte, 32)
	for i := range b {
		b[i] = byte(0x77 ^ i*5)
	}
	return b
}()

func c24Addr(bin, serial int) boson.Address {
	b := append([]byte{}, c24Base...)
	b[bin/8] ^= 0x80 >> uint(bin%8)
	b[20] ^= byte(serial + 1)
	return boson.NewAddress(b)
}

type c24Peer struct {
	name string
	addr boson.Address
	bin  int
	boot bool
}

func c24P(name string, bin, serial int) *c24Peer {
	return &c24Peer{name: name, addr: c24Addr(bin, serial), bin: bin}
}

var (
	// preloaded in scenario "loaded": all reported public -> depth 2, bin 1 holds overSaturation-1 reachable peers
	c24Pre = []*c24Peer{c24P("a0", 0, 0), c24P("x1", 1, 1), c24P("x2", 1, 2), c24P("x3", 1, 3), c24P("x4", 1, 4), c24P("z1", 2, 5), c24P("z2", 2, 6), c24P("z3", 2, 7)}
	// free peers
	c24U    = c24P("u", 1, 10)
	c24W    = c24P("w", 1, 11)
	c24B    = c24P("b", 0, 12)
	c24Boot = &c24Peer{name: "BOOT", addr: c24Addr(1, 13), bin: 1, boot: true}
	c24X1   = c24Pre[1]
	c24All  = append(append([]*c24Peer{}, c24Pre...), c24U, c24W, c24B, c24Boot)
)

func c24Name(a boson.Address) string {
	for _, p := range c24All {
		if p.addr.Equal(a) {
			return p.name
		}
	}
	return "?" + a.String()
}

const c24Driver = "verifc24leveldb"
const c24DriverCfg = `:{"WriteBuffer":16384,"BlockCacheCapacity":16384}`

func init() { shed.Register(c24Driver, shedldb.Driver{}) }

var c24SubPub = subscribe.NewSubPub()

const c24BinMaxPeers = 5 // -> overSaturation 5, saturation 2, quickSaturation 1

func c24NewKad(x *mc.X) (*Kad, func()) {
	overSaturationPeers, saturationPeers, quickSaturationPeers = 20, 8, 4
	db, err := shed.NewDB("", &shed.Options{Driver: c24Driver + c24DriverCfg})
	x.NoErr(err, "shed.NewDB")
	ab := addressbook.New(mockstate.NewStateStore())
	p2ps := p2pmock.New(p2pmock.WithDisconnectFunc(func(boson.Address, string) error { return nil }))
	disc := discmock.NewDiscovery()
	disc.SetHive2(true)
	ppm := pingpongmock.New(func(context.Context, boson.Address, ...string) (time.Duration, error) { return 0, nil })
	k, err := New(boson.NewAddress(append([]byte{}, c24Base...)), ab, disc, p2ps, ppm, nil, nil, db,
		logging.New(io.Discard, 0), c24SubPub, Options{NodeMode: aurora.NewModel().SetMode(aurora.FullNode), BinMaxPeers: c24BinMaxPeers})
	x.NoErr(err, "kademlia.New")
	if overSaturationPeers != 5 {
		x.Broken("BinMaxPeers=5 gives overSaturationPeers=%d", overSaturationPeers)
	}
	return k, func() {
		k.bgBroadcastCancel()
		_ = k.blocker.Close()
		_ = db.Close()
		overSaturationPeers, saturationPeers, quickSaturationPeers = 20, 8, 4
	}
}

func c24Mode(p *c24Peer) aurora.Model {
	if p.boot {
		return aurora.NewModel().SetMode(aurora.BootNode)
	}
	return aurora.NewModel().SetMode(aurora.FullNode)
}

type c24Op struct {
	kind string // in in-force out disc force-disc public protect
	peer *c24Peer
	list []*c24Peer
}

func (o c24Op) String() string {
	switch o.kind {
	case "in":
		return "Connected(" + o.peer.name + ", force=false)"
	case "in-force":
		return "Connected(" + o.peer.name + ", force=true)"
	case "out":
		return "Outbound(" + o.peer.name + ")"
	case "disc":
		return "Disconnected(" + o.peer.name + ")"
	case "force-disc":
		return "DisconnectForce(" + o.peer.name + ")"
	case "public":
		return "Reachable(" + o.peer.name + ", public)"
	default:
		var n []string
		for _, p := range o.list {
			n = append(n, p.name)
		}
		return "RefreshProtectPeer([" + strings.Join(n, ",") + "])"
	}
}

func c24Ops() []c24Op {
	var ops []c24Op
	for _, p := range []*c24Peer{c24U, c24W, c24B} {
		for _, k := range []string{"in", "in-force", "out", "disc", "force-disc", "public"} {
			ops = append(ops, c24Op{kind: k, peer: p})
		}
	}
	ops = append(ops,
		c24Op{kind: "disc", peer: c24X1}, c24Op{kind: "force-disc", peer: c24X1},
		c24Op{kind: "out", peer: c24Boot}, c24Op{kind: "disc", peer: c24Boot},
		c24Op{kind: "protect", list: []*c24Peer{c24W}}, c24Op{kind: "protect", list: nil})
	return ops
}

func TestVerifC24(t *testing.T) {
	depth := mc.Pick(4, 6)
	ops := c24Ops()
	var opNames []string
	for _, o := range ops {
		opNames = append(opNames, o.String())
	}
	scenarios := []string{"loaded: a0 (bin 0), x1..x4 (bin 1), z1..z3 (bin 2) connected inbound and reported public (depth 2, bin 1 one short of oversaturation)", "empty"}

	mc.Run(t, mc.Config{ID: "C24", Name: "C24-opseq", MaxDev: -1, Params: map[string]interface{}{
		"depth":      depth,
		"scenarios":  scenarios,
		"operations": opNames,
		"peers":      "u, w, x1..x4, BOOT (boot node): bin 1; b, a0: bin 0; z1..z3: bin 2",
		"thresholds": "Options.BinMaxPeers=5 -> overSaturation 5, saturation 2, quickSaturation 1",
		"observed_after_every_step": "EachPeer, EachPeerRev, EachKnownPeer, Snapshot (Connected, Population, per-bin lists), SnapshotConnected, Pick for u, w, b",
		"pruning":                   "canonical state = ordered connected/known bins, reachability of every peer, protect list, depth",
	}}, func(x *mc.X) {
		sc := x.Choose(len(scenarios))
		k, cleanup := c24NewKad(x)
		defer cleanup()
		ctx := context.Background()
		conn := map[string]bool{}   // reference: connected full nodes
		public := map[string]bool{} // reported public
		var protect []*c24Peer

		if sc == 0 {
			for _, p := range c24Pre {
				x.NoErr(k.Connected(ctx, p2p.Peer{Address: p.addr, Mode: c24Mode(p)}, false), "preload Connected "+p.name)
				k.Reachable(p.addr, p2p.ReachabilityStatusPublic)
				conn[p.name] = true
				public[p.name] = true
			}
			if d := k.NeighborhoodDepth(); d != 2 {
				x.Broken("preloaded scenario has depth %d, harness expects 2", d)
			}
		}
		x.Logf("scenario %s", scenarios[sc])

		isProtected := func(p *c24Peer) bool {
			for _, q := range protect {
				if q == p {
					return true
				}
			}
			return false
		}
		// number of connected peers of a bin; and of those reported public
		binCount := func(bin int) (all, pub int) {
			for _, p := range c24All {
				if p.bin == bin && conn[p.name] {
					all++
					if public[p.name] {
						pub++
					}
				}
			}
			return
		}
		// the bin is oversaturated under every reading: at least overSaturation connected peers, all
		// of them counted by any reachability-aware reading too, and the bin lies below the depth of
		// the connected set and below the depth over the known peers (the two depths the code knows)
		certainlyOversaturated := func(bin int) bool {
			_, pub := binCount(bin)
			if pub < overSaturationPeers {
				return false
			}
			return bin < int(k.NeighborhoodDepth()) && bin < int(recalcDepth(k.knownPeers, boson.MaxPO, k.peerFilter))
		}

		observe := func(when string) {
			var want []string
			for _, p := range c24All {
				if conn[p.name] {
					want = append(want, p.name)
				}
			}
			sort.Strings(want)
			collect := func(what string, iter func(model.EachPeerFunc) error, rev bool) []string {
				var got []string
				last := -1
				err := iter(func(a boson.Address, po uint8) (bool, bool, error) {
					got = append(got, c24Name(a))
					if int(po) != int(boson.Proximity(c24Base, a.Bytes())) {
						x.Fail("peer-in-wrong-bin", "%s %s: %s reported with proximity %d", when, what, c24Name(a), po)
					}
					if last >= 0 && ((rev && int(po) < last) || (!rev && int(po) > last)) {
						x.Fail("iteration-order", "%s %s: bin %d after bin %d", when, what, po, last)
					}
					last = int(po)
					return false, false, nil
				})
				x.Check(err == nil, "iteration-error", "%s %s: %v", when, what, err)
				sort.Strings(got)
				return got
			}
			cmp := func(what string, got []string) {
				for i := 1; i < len(got); i++ {
					if got[i] == got[i-1] {
						x.Fail("connected-peer-reported-twice", "%s %s: %s twice in %v", when, what, got[i], got)
					}
				}
				for _, g := range got {
					if g == c24Boot.name {
						x.Fail("boot-node-counted-as-connected", "%s %s: boot node reported as connected: %v", when, what, got)
					}
				}
				if strings.Join(got, ",") != strings.Join(want, ",") {
					key := "connected-set-mismatch"
					gs := map[string]bool{}
					for _, g := range got {
						gs[g] = true
					}
					for _, w := range want {
						if !gs[w] {
							key = "connected-peer-missing"
						}
					}
					if key == "connected-set-mismatch" {
						key = "disconnected-peer-still-reported"
					}
					x.Fail(key, "%s %s: reports %v, live connections are %v", when, what, got, want)
				}
			}
			cmp("EachPeer", collect("EachPeer", func(f model.EachPeerFunc) error { return k.EachPeer(f, topology.Filter{}) }, false))
			cmp("EachPeerRev", collect("EachPeerRev", func(f model.EachPeerFunc) error { return k.EachPeerRev(f, topology.Filter{}) }, true))
			known := collect("EachKnownPeer", k.EachKnownPeer, false)
			for i := 1; i < len(known); i++ {
				if known[i] == known[i-1] {
					x.Fail("known-peer-reported-twice", "%s: %s twice in the known peers %v", when, known[i], known)
				}
			}
			ks := map[string]bool{}
			for _, g := range known {
				ks[g] = true
			}
			for _, w := range want {
				if !ks[w] {
					x.Fail("connected-peer-not-known", "%s: %s is connected but not among the known peers %v", when, w, known)
				}
			}
			// snapshots
			ss := k.Snapshot()
			x.Check(ss.Connected == len(want), "snapshot-connected-count", "%s: Snapshot().Connected=%d, live connections %v", when, ss.Connected, want)
			x.Check(ss.Population == len(known), "snapshot-population-count", "%s: Snapshot().Population=%d, known peers %v", when, ss.Population, known)
			var snap []string
			for bi, b := range []model.BinInfo{ss.Bins.Bin0, ss.Bins.Bin1, ss.Bins.Bin2} {
				x.Check(int(b.BinConnected) == len(b.ConnectedPeers), "snapshot-bin-count", "%s: bin %d BinConnected=%d but %d peers listed", when, bi, b.BinConnected, len(b.ConnectedPeers))
				for _, pi := range b.ConnectedPeers {
					snap = append(snap, c24Name(pi.Address))
				}
				for _, pi := range b.DisconnectedPeers {
					if conn[c24Name(pi.Address)] {
						x.Fail("snapshot-lists-connected-peer-as-disconnected", "%s: %s", when, c24Name(pi.Address))
					}
				}
			}
			sort.Strings(snap)
			cmp("Snapshot().Bins", snap)
			n, m := k.SnapshotConnected()
			var sc2 []string
			for _, pi := range m {
				sc2 = append(sc2, c24Name(pi.Address))
			}
			sort.Strings(sc2)
			x.Check(n == len(want), "snapshot-connected-count", "%s: SnapshotConnected()=%d, live connections %v", when, n, want)
			cmp("SnapshotConnected()", sc2)
			// admission pre-check
			for _, p := range []*c24Peer{c24U, c24W, c24B} {
				picked := k.Pick(p2p.Peer{Address: p.addr, Mode: c24Mode(p)})
				if certainlyOversaturated(p.bin) && !isProtected(p) {
					x.Tag("pick-into-oversaturated-bin")
					x.Check(!picked, "pick-accepts-into-oversaturated-bin", "%s: Pick(%s)=true although bin %d holds at least %d reachable connected peers (overSaturation) and the peer is not protected", when, p.name, p.bin, overSaturationPeers)
				}
				if isProtected(p) {
					x.Check(picked, "pick-rejects-protected-peer", "%s: Pick(%s)=false for a protected peer", when, p.name)
				}
			}
		}

		canon := func() string {
			var sb strings.Builder
			dump := func(name string, iter func(model.EachPeerFunc) error) {
				sb.WriteString(name + ":")
				_ = iter(func(a boson.Address, po uint8) (bool, bool, error) {
					fmt.Fprintf(&sb, "%s/%d,", c24Name(a), po)
					return false, false, nil
				})
			}
			dump("C", k.connectedPeers.EachBin)
			dump("K", k.knownPeers.EachBin)
			sb.WriteString("R:")
			for _, p := range c24All {
				if !k.peerFilter(p.addr) {
					sb.WriteString(p.name + ",")
				}
			}
			sb.WriteString("P:")
			for _, p := range k.protectPeers {
				sb.WriteString(c24Name(p) + ",")
			}
			fmt.Fprintf(&sb, "D:%d/%d", k.NeighborhoodDepth(), k.radius)
			return sb.String()
		}

		observe("initially")
		for step := 0; step < depth; step++ {
			op := ops[x.Choose(len(ops))]
			when := fmt.Sprintf("after step %d %s", step+1, op)
			p := op.peer
			switch op.kind {
			case "in", "in-force":
				force := op.kind == "in-force"
				all, pub := binCount(p.bin)
				certain := certainlyOversaturated(p.bin)
				err := k.Connected(ctx, p2p.Peer{Address: p.addr, Mode: c24Mode(p)}, force)
				x.Logf("%s -> %v   [bin %d: %d connected, %d public; protected=%v]", op, err, p.bin, all, pub, isProtected(p))
				if err != nil && !errors.Is(err, topology.ErrOversaturated) {
					x.Fail("connected-unexpected-error", "%s: %v", when, err)
				}
				if certain && !force && !isProtected(p) {
					x.Tag("unprotected-inbound-into-oversaturated-bin")
					x.Nontrivial()
					x.Check(err != nil, "oversaturated-bin-admits-unprotected-inbound", "%s: admitted although bin %d holds %d reachable connected peers (overSaturation %d) and the peer is not protected", when, p.bin, pub, overSaturationPeers)
				}
				if err != nil {
					x.Tag("inbound-rejected")
					if all < overSaturationPeers {
						x.Tag("inbound-rejected-below-oversaturation")
					}
				} else {
					if certain && force {
						x.Tag("forced-inbound-into-oversaturated-bin")
					}
					if certain && isProtected(p) {
						x.Tag("protected-inbound-into-oversaturated-bin")
					}
					conn[p.name] = true
				}
			case "out":
				k.Outbound(p2p.Peer{Address: p.addr, Mode: c24Mode(p)})
				x.Logf("%s", op)
				if !p.boot {
					conn[p.name] = true
				} else {
					x.Tag("outbound-to-boot-node")
				}
			case "disc":
				k.Disconnected(p2p.Peer{Address: p.addr, Mode: c24Mode(p)}, "verif")
				x.Logf("%s   [was connected=%v]", op, conn[p.name])
				if conn[p.name] {
					x.Nontrivial()
				}
				conn[p.name] = false
			case "force-disc":
				err := k.DisconnectForce(p.addr, "verif")
				x.Logf("%s -> %v   [was connected=%v]", op, err, conn[p.name])
				x.Check(err == nil, "disconnect-force-error", "%s: %v", when, err)
				if conn[p.name] {
					x.Nontrivial()
				}
				conn[p.name] = false
			case "public":
				k.Reachable(p.addr, p2p.ReachabilityStatusPublic)
				x.Logf("%s", op)
				public[p.name] = true
			case "protect":
				var l []boson.Address
				for _, q := range op.list {
					l = append(l, q.addr)
				}
				k.RefreshProtectPeer(l)
				protect = op.list
				x.Logf("%s", op)
			}
			observe(when)
			if x.Seen(fmt.Sprintf("%d|%s", sc, canon()), depth-step-1) {
				return
			}
		}
		n := 0
		for _, c := range conn {
			if c {
				n++
			}
		}
		x.Outcome(fmt.Sprintf("scenario=%d connected=%d", sc, n))
	})
}
