//go:build verif_never
// +build verif_never

// Overlay replacement: the repository's traffic_test.go imports packages that do
// not build in the pinned tree (pkg/p2p/libp2p, the stale cheque mock), which
// would keep any test binary of this package from compiling. Under the overlay it
// is replaced by this inert file; /repo itself is untouched.
package traffic
