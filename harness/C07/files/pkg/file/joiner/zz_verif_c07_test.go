//go:build verif
// +build verif

package joiner

// C07 — file reads honour the reader contract.
//
// Three harnesses over the real joiner reading files that were uploaded through
// the real pipeline into an in-memory content-addressed store:
//
//	C07-readat  every (file, offset, buffer length, buffer capacity) of a boundary grid
//	C07-seqread every (file, buffer-length pattern, capacity variant): Read until EOF
//	C07-seek    every sequence of Seek / Read / ReadAt operations up to a depth
//
// The oracle is written from the property statement, see NOTES.md.

import (
	"bytes"
	"context"
	"fmt"
	"io"
	"runtime/debug"
	"sort"
	"sync"
	"testing"

	"github.com/gauss-project/aurorafs/pkg/boson"
	"github.com/gauss-project/aurorafs/pkg/file/pipeline/builder"
	"github.com/gauss-project/aurorafs/pkg/storage"
	"github.com/gauss-project/aurorafs/pkg/zzverif/mc"
)

// Many short-lived small objects on a tiny live heap: with the default GOGC the collector runs
// almost continuously. Memory is not a concern here.
func init() {
	if boson.Branches == 4 { // scaled geometry only: at the real geometry fresh heap (page faults) costs more than collecting
		debug.SetGCPercent(2000)
	}
}

// ---------------------------------------------------------------- fixture

// c07Store is a content-addressed in-memory store: Put copies, Get hands out copies.
type c07Store struct {
	mu   sync.Mutex
	m    map[string][]byte
	gets int
}

func (s *c07Store) Put(_ context.Context, _ storage.ModePut, chs ...boson.Chunk) ([]bool, error) {
	s.mu.Lock()
	defer s.mu.Unlock()
	exist := make([]bool, len(chs))
	for i, c := range chs {
		k := string(c.Address().Bytes())
		_, exist[i] = s.m[k]
		s.m[k] = append([]byte(nil), c.Data()...)
	}
	return exist, nil
}

func (s *c07Store) Get(_ context.Context, _ storage.ModeGet, addr boson.Address) (boson.Chunk, error) {
	s.mu.Lock()
	defer s.mu.Unlock()
	s.gets++
	d, ok := s.m[string(addr.Bytes())]
	if !ok {
		return nil, storage.ErrNotFound
	}
	return boson.NewChunk(boson.NewAddress(append([]byte(nil), addr.Bytes()...)), append([]byte(nil), d...)), nil
}

// c07Content is the file content: position dependent with a period (251) coprime to
// every chunk size, so a misplaced, repeated or skipped chunk or byte is visible.
func c07Content(l int) []byte {
	b := make([]byte, l)
	for i := range b {
		b[i] = byte(i%251 + (i/251)*3 + l)
	}
	return b
}

type c07File struct {
	l       int
	enc     bool
	content []byte
	store   *c07Store
	ref     boson.Address
	levels  int
}

func (f *c07File) String() string {
	e := "plain"
	if f.enc {
		e = "encrypted"
	}
	return fmt.Sprintf("file(len=%d,%s,levels=%d)", f.l, e, f.levels)
}

// c07Levels is the height of the chunk tree of a file of l bytes (1 = a single chunk).
func c07Levels(l int, enc bool) int {
	c := int(boson.ChunkSize)
	br := int(boson.Branches)
	if enc {
		br /= 2
	}
	leaves := (l + c - 1) / c
	lv := 1
	for n := 1; n < leaves; n *= br {
		lv++
	}
	return lv
}

var (
	c07Mu    sync.Mutex
	c07Files = map[string]*c07File{}
)

// c07Fixture uploads (once per process) the content of length l through the real
// pipeline. The store is never written again; every execution builds a fresh joiner.
func c07Fixture(x *mc.X, l int, enc bool) *c07File {
	c07Mu.Lock()
	defer c07Mu.Unlock()
	k := fmt.Sprintf("%d/%v", l, enc)
	if f, ok := c07Files[k]; ok {
		return f
	}
	f := &c07File{l: l, enc: enc, content: c07Content(l), store: &c07Store{m: map[string][]byte{}}, levels: c07Levels(l, enc)}
	ctx := context.Background()
	p := builder.NewPipelineBuilder(ctx, f.store, storage.ModePutUpload, enc)
	ref, err := builder.FeedPipeline(ctx, p, bytes.NewReader(f.content))
	x.NoErr(err, "upload fixture")
	f.ref = ref
	c07Files[k] = f
	return f
}

func c07Open(x *mc.X, f *c07File) *joiner {
	ji, span, err := New(context.Background(), f.store, storage.ModeGetRequest, f.ref)
	x.NoErr(err, "joiner.New on fixture")
	j := ji.(*joiner)
	x.Check(span == int64(f.l) && j.Size() == int64(f.l), "size", "%v: New span %d Size() %d", f, span, j.Size())
	return j
}

func c07Dedupe(in []int, lo int) []int {
	seen := map[int]bool{}
	var out []int
	for _, v := range in {
		if v >= lo && !seen[v] {
			seen[v] = true
			out = append(out, v)
		}
	}
	sort.Ints(out)
	return out
}

// c07Spec names one file of the alphabet.
type c07Spec struct {
	l   int
	enc bool
}

// c07Specs: the files of the tier. scaled = 128-byte chunks, 4 (2 encrypted) refs per
// intermediate chunk, every length plain and encrypted; real = production geometry (small
// set: one real chunk hash is ~11 ms, one real chunk decryption ~20 ms).
func c07Specs(seek bool) []c07Spec {
	c := int(boson.ChunkSize)
	if boson.Branches != 4 {
		if seek {
			return []c07Spec{{1, false}, {c + 1, false}, {2*c + 10, false}}
		}
		return []c07Spec{{0, false}, {1, false}, {c - 1, false}, {c, false}, {c + 1, false}, {2*c + 10, false},
			{c + 1, true}}
	}
	var ls []int
	if seek {
		ls = []int{0, 1, 2, c - 1, c, c + 1, 2*c + 1, 4 * c, 4*c + 1, 5 * c, 16*c + 1, 17*c + 3}
		if mc.Thorough() {
			ls = append(ls, 2*c, 3*c+5, 8*c+1, 16*c, 20*c+1, 64*c+1)
		}
	} else {
		ls = []int{0, 1, 2, c - 1, c, c + 1, 2*c - 1, 2 * c, 2*c + 1, 3*c + 5, 4*c - 1, 4 * c, 4*c + 1, 5 * c, 8*c + 1,
			16*c - 1, 16 * c, 16*c + 1, 17*c + 3, 20*c + 1, 32*c + 1, 64 * c, 64*c + 1}
		if mc.Thorough() {
			for l := 0; l <= 2*c+2; l++ {
				ls = append(ls, l)
			}
			for k := 3; k <= 65; k++ {
				ls = append(ls, k*c-1, k*c, k*c+1)
			}
		}
	}
	var out []c07Spec
	for _, l := range c07Dedupe(ls, 0) {
		out = append(out, c07Spec{l, false}, c07Spec{l, true})
	}
	return out
}

func c07SpecSumm(v []c07Spec) string {
	var p, e []int
	for _, s := range v {
		if s.enc {
			e = append(e, s.l)
		} else {
			p = append(p, s.l)
		}
	}
	return "plain " + c07Summ(p) + " encrypted " + c07Summ(e)
}

func c07Geometry() string {
	if boson.Branches == 4 {
		return "scaled"
	}
	if boson.Branches == 8192 && boson.ChunkSize == 262144 {
		return "real"
	}
	return fmt.Sprintf("branches=%d", boson.Branches)
}

// c07Offsets is the boundary grid of read offsets for a file of l bytes: chunk and
// sub-trie boundaries (plain 4^k·C, encrypted 2^k·C) ±1, the middle, the end ±1 and 2l.
func c07Offsets(l int, enc bool) []int {
	c := int(boson.ChunkSize)
	if boson.Branches != 4 && enc {
		// every Get of an encrypted chunk at the real geometry decrypts 256 KiB (~0.1 s)
		return c07Dedupe([]int{0, c - 1, l - 1, l}, 0)
	}
	o := []int{0, 1, c - 1, c, l / 2, l - 1, l, l + 1, 2 * l}
	if boson.Branches == 4 {
		o = append(o, c+1, 2*c, 2*c+1, l-c, l-2)
		o = append(o, 4*c-1, 4*c, 4*c+1, 8*c, 16*c-1, 16*c, 16*c+1, 32*c, 64*c-1, 64*c)
	}
	var out []int
	for _, v := range c07Dedupe(o, 0) {
		if v <= l+1 || v == 2*l {
			out = append(out, v)
		}
	}
	return out
}

func c07BufLens(l int, enc bool) []int {
	c := int(boson.ChunkSize)
	if boson.Branches != 4 && enc {
		return c07Dedupe([]int{1, l}, 0)
	}
	if boson.Branches != 4 {
		return c07Dedupe([]int{0, 1, c, l}, 0)
	}
	return c07Dedupe([]int{0, 1, c - 1, c, c + 1, 2*c + 1, 4*c + 1, l}, 0)
}

// c07Caps: capacity of the buffer for a given length.
func c07Caps(n int) []int {
	c := int(boson.ChunkSize)
	if boson.Branches != 4 {
		return []int{n, n + 33}
	}
	return []int{n, n + 1, n + c, 2*n + 7}
}

// c07Buffer builds a buffer of the given len/cap whose whole backing array is filled
// with a sentinel that differs, at every position, from the byte a read at offset off
// would place there — so any write beyond len (and any correct byte) is visible.
func c07Buffer(f *c07File, off int64, n, cp int) (buf, sentinel []byte) {
	sentinel = make([]byte, cp)
	for i := range sentinel {
		p := off + int64(i)
		if p >= 0 && p < int64(f.l) {
			sentinel[i] = ^f.content[p]
		} else {
			sentinel[i] = 0xEE
		}
	}
	back := append([]byte(nil), sentinel...)
	return back[:n:cp], sentinel
}

func c07SentinelIntact(buf, sentinel []byte) int {
	full := buf[:cap(buf)]
	for i := len(buf); i < len(full); i++ {
		if full[i] != sentinel[i] {
			return i
		}
	}
	return -1
}

func c07Min(a, b int64) int64 {
	if a < b {
		return a
	}
	return b
}

// ---------------------------------------------------------------- C07-readat

func TestVerifC07ReadAt(t *testing.T) {
	specs := c07Specs(false)
	mc.Run(t, mc.Config{ID: "C07", Name: "C07-readat-" + c07Geometry(), MaxDev: -1, Params: map[string]interface{}{
		"geometry": c07Geometry(), "chunk_size": boson.ChunkSize, "branches": boson.Branches,
		"files":      c07SpecSumm(specs),
		"offsets":    "scaled: {0,1,C-1,C,C+1,2C,2C+1,4C-1,4C,4C+1,8C,16C-1,16C,16C+1,32C,64C-1,64C,l/2,l-C,l-2,l-1,l,l+1} up to l+1, and 2l; real: {0,1,C-1,C,l/2,l-1,l,l+1,2l}, real encrypted: {0,C-1,l-1,l}",
		"buffer_len": "{0,1,C-1,C,C+1,2C+1,4C+1,l} (real: {0,1,C,l}, real encrypted: {1,l})",
		"buffer_cap": "{len, len+1, len+C, 2len+7} (real: {len, len+33})"}},
		func(x *mc.X) {
			fi := x.Choose(len(specs))
			f := c07Fixture(x, specs[fi].l, specs[fi].enc)
			offs := c07Offsets(f.l, f.enc)
			off := int64(offs[x.Choose(len(offs))])
			bl := c07BufLens(f.l, f.enc)
			n := bl[x.Choose(len(bl))]
			caps := c07Caps(n)
			cp := caps[x.Choose(len(caps))]
			buf, sentinel := c07Buffer(f, off, n, cp)
			j := c07Open(x, f)
			x.Logf("%v ReadAt(buf len=%d cap=%d, off=%d)", f, n, cp, off)
			var got int
			var err error
			if p := mc.Try(func() { got, err = j.ReadAt(buf, off) }); p != nil {
				x.Fail("readat-panic", "%v ReadAt(len=%d cap=%d, off=%d) panicked: %v", f, n, cp, off, p)
			}
			x.Logf("  -> n=%d err=%v", got, err)
			c07CheckReadAt(x, f, buf, sentinel, off, got, err)
			x.Check(j.off == 0, "readat-moves-position", "%v ReadAt moved the sequential position to %d", f, j.off)

			c := int64(boson.ChunkSize)
			x.Tag(fmt.Sprintf("levels=%d", f.levels))
			if f.enc {
				x.Tag(fmt.Sprintf("encrypted-levels=%d", f.levels))
			}
			want := c07Min(int64(n), int64(f.l)-off)
			switch {
			case off >= int64(f.l):
				x.Outcome("eof")
				x.Tag("offset-at-or-past-end")
			case want < int64(n):
				x.Outcome("short-at-end")
			case n == 0:
				x.Outcome("zero-length")
			default:
				x.Outcome("full")
			}
			if cp > n {
				x.Tag("cap>len")
				if off < int64(f.l) && int64(f.l)-off > int64(n) {
					x.Tag("cap>len-and-more-content-than-len")
				}
			}
			if want > 0 && off/c != (off+want-1)/c {
				x.Tag("read-spans-chunks")
				x.Nontrivial()
			}
			if cp > n || (off < int64(f.l) && want < int64(n)) {
				x.Nontrivial()
			}
		})
}

// c07CheckReadAt is the oracle for one ReadAt (also used inside the seek harness).
func c07CheckReadAt(x *mc.X, f *c07File, buf, sentinel []byte, off int64, got int, err error) {
	n := len(buf)
	x.Check(got <= n, "readat-n-exceeds-len", "%v ReadAt(len=%d cap=%d, off=%d) reported n=%d > len (err=%v)", f, n, cap(buf), off, got, err)
	x.Check(got >= 0, "readat-negative-n", "%v ReadAt reported n=%d", f, got)
	if i := c07SentinelIntact(buf, sentinel); i >= 0 {
		x.Fail("readat-writes-beyond-len", "%v ReadAt(len=%d cap=%d, off=%d) wrote backing byte %d (beyond len), n=%d", f, n, cap(buf), off, i, got)
	}
	if off >= int64(f.l) {
		ok := got == 0 && (err == io.EOF || (n == 0 && err == nil))
		x.Check(ok, "readat-past-end", "%v ReadAt(len=%d, off=%d) at/past the end returned n=%d err=%v, want 0, EOF", f, n, off, got, err)
		return
	}
	want := c07Min(int64(n), int64(f.l)-off)
	x.Check(int64(got) == want, "readat-count", "%v ReadAt(len=%d, off=%d) returned n=%d, want min(len, size-off)=%d (err=%v)", f, n, off, got, want, err)
	if err != nil {
		x.Check(err == io.EOF && off+int64(got) == int64(f.l), "readat-error", "%v ReadAt(len=%d, off=%d) inside the file returned err=%v (n=%d)", f, n, off, err, got)
	}
	if !bytes.Equal(buf[:got], f.content[off:off+int64(got)]) {
		x.Fail("readat-bytes", "%v ReadAt(len=%d, off=%d): first differing byte at +%d", f, n, off, c07FirstDiff(buf[:got], f.content[off:off+int64(got)]))
	}
}

func c07FirstDiff(a, b []byte) int {
	for i := range a {
		if i >= len(b) || a[i] != b[i] {
			return i
		}
	}
	return len(a)
}

func c07Summ(v []int) string {
	if len(v) <= 40 {
		return fmt.Sprint(v)
	}
	return fmt.Sprintf("%d lengths: %v ... %v", len(v), v[:12], v[len(v)-12:])
}

// ---------------------------------------------------------------- C07-seqread

// c07Patterns: cycles of buffer lengths used for reading a whole file sequentially.
func c07Patterns(l int, enc bool) [][]int {
	c := int(boson.ChunkSize)
	var ps [][]int
	if boson.Branches != 4 {
		if enc {
			return [][]int{{c}}
		}
		ps = [][]int{{c}, {c + 1}, {100000, 0, 7}}
		if l <= 64 {
			ps = append(ps, []int{1})
		}
		return ps
	}
	ps = [][]int{{c - 1}, {c}, {c + 1}, {2*c + 3}, {4*c + 1}, {l}, {l + 1}, {1, c}, {c + 1, 0, 7}}
	if l <= 5*c {
		ps = append(ps, []int{1}, []int{3, 1})
	}
	var out [][]int
	for _, p := range ps {
		if len(p) == 1 && p[0] == 0 {
			continue // an all-zero pattern never makes progress
		}
		out = append(out, p)
	}
	return out
}

func TestVerifC07SeqRead(t *testing.T) {
	specs := c07Specs(false)
	mc.Run(t, mc.Config{ID: "C07", Name: "C07-seqread-" + c07Geometry(), MaxDev: -1, Params: map[string]interface{}{
		"geometry": c07Geometry(), "files": c07SpecSumm(specs),
		"buffer_len_cycles": "{C-1},{C},{C+1},{2C+3},{4C+1},{l},{l+1},{1,C},{C+1,0,7}, and {1},{3,1} for l<=5C (real: {C},{C+1},{100000,0,7}, {1} for l<=64; real encrypted {C})",
		"cap_variant":       "cap = len | len+1 | len+C for every buffer of the run"}},
		func(x *mc.X) {
			fi := x.Choose(len(specs))
			f := c07Fixture(x, specs[fi].l, specs[fi].enc)
			pats := c07Patterns(f.l, f.enc)
			pat := pats[x.Choose(len(pats))]
			capv := x.Choose(3)
			j := c07Open(x, f)
			x.Logf("%v sequential Read with buffer lengths %v (cycled), cap variant %d", f, pat, capv)
			minPos := 0
			for _, p := range pat {
				if p > 0 && (minPos == 0 || p < minPos) {
					minPos = p
				}
			}
			maxReads := (f.l/minPos+2)*len(pat) + 4
			var pos int64
			reads, eofs := 0, 0
			for ; reads < maxReads && eofs < 2; reads++ {
				n := pat[reads%len(pat)]
				cp := n
				switch capv {
				case 1:
					cp = n + 1
				case 2:
					cp = n + int(boson.ChunkSize)
				}
				buf, sentinel := c07Buffer(f, pos, n, cp)
				var got int
				var err error
				if p := mc.Try(func() { got, err = j.Read(buf) }); p != nil {
					x.Fail("read-panic", "%v Read(len=%d cap=%d) at position %d panicked: %v", f, n, cp, pos, p)
				}
				if reads < 6 {
					x.Logf("  Read(len=%d cap=%d) at %d -> n=%d err=%v", n, cp, pos, got, err)
				}
				if c07CheckRead(x, f, buf, sentinel, pos, got, err) {
					eofs++
				}
				pos += int64(got)
				x.Check(j.off == pos, "read-position-bookkeeping", "%v after Read(len=%d) -> n=%d the joiner position is %d, content delivered so far %d", f, n, got, j.off, pos)
			}
			x.Check(eofs == 2 && pos == int64(f.l), "read-never-ends", "%v %d sequential reads with lengths %v delivered %d of %d bytes and %d EOFs", f, reads, pat, pos, f.l, eofs)
			x.Tag(fmt.Sprintf("levels=%d", f.levels))
			if f.enc {
				x.Tag(fmt.Sprintf("encrypted-levels=%d", f.levels))
			}
			if capv > 0 {
				x.Tag("cap>len")
			}
			x.Outcome(fmt.Sprintf("reads<=%d", c07Bucket(reads)))
			if reads > 3 || capv > 0 {
				x.Nontrivial()
			}
		})
}

func c07Bucket(n int) int {
	b := 4
	for b < n {
		b *= 4
	}
	return b
}

// c07CheckRead is the oracle for one sequential Read at model position pos; it reports
// whether the read signalled the end of the file.
func c07CheckRead(x *mc.X, f *c07File, buf, sentinel []byte, pos int64, got int, err error) (eof bool) {
	n := len(buf)
	x.Check(got <= n, "read-n-exceeds-len", "%v Read(len=%d cap=%d) at position %d reported n=%d > len (err=%v)", f, n, cap(buf), pos, got, err)
	x.Check(got >= 0, "read-negative-n", "%v Read reported n=%d", f, got)
	if i := c07SentinelIntact(buf, sentinel); i >= 0 {
		x.Fail("read-writes-beyond-len", "%v Read(len=%d cap=%d) at position %d wrote backing byte %d (beyond len), n=%d", f, n, cap(buf), pos, i, got)
	}
	x.Check(err == nil || err == io.EOF, "read-error", "%v Read(len=%d) at position %d returned err=%v", f, n, pos, err)
	remaining := int64(f.l) - pos
	if remaining <= 0 {
		x.Check(got == 0, "read-past-end-data", "%v Read(len=%d) at position %d >= size returned n=%d", f, n, pos, got)
		x.Check(err == io.EOF || n == 0, "read-missing-eof", "%v Read(len=%d) at the end returned n=0 err=nil", f, n)
		return err == io.EOF
	}
	x.Check(int64(got) <= remaining, "read-beyond-size", "%v Read(len=%d) at position %d returned n=%d, only %d bytes remain", f, n, pos, got, remaining)
	if !bytes.Equal(buf[:got], f.content[pos:pos+int64(got)]) {
		x.Fail("read-bytes", "%v Read(len=%d) at position %d: skipped/repeated/wrong content, first differing byte at +%d", f, n, pos, c07FirstDiff(buf[:got], f.content[pos:pos+int64(got)]))
	}
	if n > 0 {
		x.Check(got > 0, "read-no-progress", "%v Read(len=%d) at position %d with %d bytes remaining returned n=0 err=%v", f, n, pos, remaining, err)
	}
	if err == io.EOF {
		x.Check(int64(got) == remaining, "read-premature-eof", "%v Read(len=%d) at position %d returned EOF with n=%d but %d bytes remain", f, n, pos, got, remaining)
	}
	return false
}

// ---------------------------------------------------------------- C07-seek

func TestVerifC07Seek(t *testing.T) {
	specs := c07Specs(true)
	depth := mc.Pick(3, 5)
	if boson.Branches != 4 {
		depth = mc.Pick(2, 3)
	}
	mc.Run(t, mc.Config{ID: "C07", Name: "C07-seek-" + c07Geometry(), MaxDev: -1, Params: map[string]interface{}{
		"geometry": c07Geometry(), "files": c07SpecSumm(specs), "depth": depth,
		"ops": "Seek(whence in {start,current,end}, off in {-1,0,1,C,l/2,l-1,l,l+1}) | Read(len in {0,1,C+1}) | ReadAt(len C+1, off 1); every sequence ends with an observing Read",
		"key": "(file, joiner.off, model position, whether a Read has reported EOF)"}},
		func(x *mc.X) {
			fi := x.Choose(len(specs))
			f := c07Fixture(x, specs[fi].l, specs[fi].enc)
			c := int(boson.ChunkSize)
			soffs := c07Dedupe([]int{-1, 0, 1, c, f.l / 2, f.l - 1, f.l, f.l + 1}, -1)
			rlens := []int{0, 1, c + 1}
			nops := 3*len(soffs) + len(rlens) + 1
			j := c07Open(x, f)
			x.Logf("%v", f)
			var pos int64 // model: the position the next sequential Read continues from
			seeks, fails := 0, 0
			sawEOF := false // a Read has reported end-of-file: part of the pruning key (a reader may latch it)
			read := func(n int) {
				buf, sentinel := c07Buffer(f, pos, n, n)
				var got int
				var err error
				if p := mc.Try(func() { got, err = j.Read(buf) }); p != nil {
					x.Fail("read-panic", "%v Read(len=%d) at position %d panicked: %v", f, n, pos, p)
				}
				x.Logf("  Read(len=%d) at %d -> n=%d err=%v", n, pos, got, err)
				c07CheckRead(x, f, buf, sentinel, pos, got, err)
				pos += int64(got)
				if err == io.EOF {
					sawEOF = true
				}
			}
			for step := 0; step < depth; step++ {
				if x.Seen(fmt.Sprintf("%d/%d/%d/%v", fi, j.off, pos, sawEOF), depth-step) {
					return
				}
				op := x.Choose(nops)
				switch {
				case op < 3*len(soffs):
					whence, o := op/len(soffs), int64(soffs[op%len(soffs)])
					var target int64
					switch whence {
					case io.SeekStart:
						target = o
					case io.SeekCurrent:
						target = pos + o
					case io.SeekEnd:
						target = int64(f.l) - o // the project's definition: end offsets count backwards
					}
					var ret int64
					var err error
					if p := mc.Try(func() { ret, err = j.Seek(o, whence) }); p != nil {
						x.Fail("seek-panic", "%v Seek(%d, %d) panicked: %v", f, o, whence, p)
					}
					x.Logf("  Seek(%d, whence=%d) at %d -> %d err=%v (requested position %d)", o, whence, pos, ret, err, target)
					seeks++
					if err == nil {
						x.Check(target >= 0, "seek-negative-accepted", "%v Seek(%d, whence=%d) from %d requests position %d and succeeded (returned %d)", f, o, whence, pos, target, ret)
						x.Check(ret == target, "seek-lands-wrong", "%v Seek(%d, whence=%d) from %d returned position %d, requested %d", f, o, whence, pos, ret, target)
						pos = target
						x.Tag(fmt.Sprintf("seek-ok-whence=%d", whence))
						if target > int64(f.l) {
							x.Tag("seek-ok-past-end")
						}
					} else {
						fails++
						x.Tag(fmt.Sprintf("seek-error-whence=%d", whence))
						x.Check(target < 0 || target > int64(f.l), "seek-rejects-valid", "%v Seek(%d, whence=%d) from %d requests position %d inside [0,size] but failed: %v", f, o, whence, pos, target, err)
						// A Seek that reports an error has not taken place: the reader stays where it
						// was, otherwise the next sequential read would skip or repeat content (the
						// sequential-read clause of the statement; this is also what io.Seeker users
						// rely on). The model position is left unchanged and the following reads are
						// judged against it.
						x.Check(j.off == pos, "rejected-seek-moved-position", "%v Seek(%d, whence=%d) from %d was rejected (%v) but moved the sequential position to %d", f, o, whence, pos, err, j.off)
						x.Tag("position-unchanged-after-rejected-seek")
					}
				case op < 3*len(soffs)+len(rlens):
					read(rlens[op-3*len(soffs)])
				default:
					n := c + 1
					buf, sentinel := c07Buffer(f, 1, n, n)
					got, err := j.ReadAt(buf, 1)
					x.Logf("  ReadAt(len=%d, off=1) -> n=%d err=%v", n, got, err)
					c07CheckReadAt(x, f, buf, sentinel, 1, got, err)
				}
			}
			// observation: wherever the sequence left the position, reading continues there
			read(c + 1)
			x.Tag(fmt.Sprintf("levels=%d", f.levels))
			if seeks > 0 {
				x.Nontrivial()
			}
			x.Outcome(fmt.Sprintf("seeks=%d rejected=%d", seeks, fails))
		})
}
