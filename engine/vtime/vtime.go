//go:build verif && go1.18
// +build verif,go1.18

// Package vtime mirrors the parts of package time used by scheduled packages on
// top of vsched's virtual clock. Outside a scheduled execution Now is real.
package vtime

import (
	"time"

	"github.com/gauss-project/aurorafs/pkg/zzverif/vsched"
)

type (
	Duration = time.Duration
	Time     = time.Time
	Month    = time.Month
	Location = time.Location
)

const (
	Nanosecond  = time.Nanosecond
	Microsecond = time.Microsecond
	Millisecond = time.Millisecond
	Second      = time.Second
	Minute      = time.Minute
	Hour        = time.Hour
	RFC3339     = time.RFC3339
)

var UTC = time.UTC

func Now() Time                  { return vsched.Now() }
func Since(t Time) Duration      { return vsched.Now().Sub(t) }
func Until(t Time) Duration      { return t.Sub(vsched.Now()) }
func Unix(s, n int64) Time       { return time.Unix(s, n) }
func Sleep(d Duration)           { vsched.Sleep(d) }
func ParseDuration(s string) (Duration, error) { return time.ParseDuration(s) }

// After mirrors time.After.
func After(d Duration) <-chan Time {
	ch := make(chan Time, 1)
	vsched.AddTimer(d, 0, func() { vsched.Deliver(ch, vsched.Now()) })
	return ch
}

// Ticker mirrors time.Ticker.
type Ticker struct {
	C <-chan Time
	h *vsched.TimerHandle
}

func NewTicker(d Duration) *Ticker {
	if d <= 0 {
		panic("non-positive interval for NewTicker")
	}
	ch := make(chan Time, 1)
	h := vsched.AddTimer(d, d, func() { vsched.Deliver(ch, vsched.Now()) })
	return &Ticker{C: ch, h: h}
}
func (t *Ticker) Stop() { t.h.Stop() }

// Tick mirrors time.Tick.
func Tick(d Duration) <-chan Time { return NewTicker(d).C }

// Timer mirrors time.Timer.
type Timer struct {
	C <-chan Time
	h *vsched.TimerHandle
	c chan Time
}

func NewTimer(d Duration) *Timer {
	ch := make(chan Time, 1)
	h := vsched.AddTimer(d, 0, func() { vsched.Deliver(ch, vsched.Now()) })
	return &Timer{C: ch, h: h, c: ch}
}
func (t *Timer) Stop() bool { return t.h.Stop() }
func (t *Timer) Reset(d Duration) bool {
	was := t.h.Stop()
	if s := vsched.Current(); s != nil {
		t.h.Reset(d, s)
	}
	return was
}

// AfterFunc mirrors time.AfterFunc: f runs as a background thread.
func AfterFunc(d Duration, f func()) *Timer {
	h := vsched.AddTimer(d, 0, func() { vsched.Go(f) })
	return &Timer{h: h}
}
