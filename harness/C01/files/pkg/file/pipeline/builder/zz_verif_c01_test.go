//go:build verif
// +build verif

package builder

// C01 — uploaded content reads back byte-identical.
//
//	C01-upload   (length x encrypt x write segmentation): fresh store + fresh pipeline per
//	             execution, then the file is opened by the returned reference and read back
//	             completely in three ways; every stored chunk is checked.
//	C01-readprog (length x encrypt x write segmentation x read program): the product with
//	             single read programs (sequential reads, ReadAt grid, 2-step seeks + read).
//	C01-real3level (thorough, real geometry only): one 8192*C+1 byte file (3 levels).

import (
	"bytes"
	"context"
	"encoding/binary"
	"fmt"
	"io"
	"runtime/debug"
	"sort"
	"strings"
	"sync"
	"testing"

	"github.com/gauss-project/aurorafs/pkg/boson"
	"github.com/gauss-project/aurorafs/pkg/cac"
	"github.com/gauss-project/aurorafs/pkg/encryption"
	encstore "github.com/gauss-project/aurorafs/pkg/encryption/store"
	"github.com/gauss-project/aurorafs/pkg/file"
	"github.com/gauss-project/aurorafs/pkg/file/joiner"
	"github.com/gauss-project/aurorafs/pkg/storage"
	"github.com/gauss-project/aurorafs/pkg/zzverif/mc"
)

// The executions allocate many short-lived small objects on a tiny live heap; with the default
// GOGC the collector runs almost continuously. Memory is not a concern here.
func init() {
	if boson.Branches == 4 { // scaled geometry only: at the real geometry fresh heap (page faults) costs more than collecting
		debug.SetGCPercent(2000)
	}
}

// ---------------------------------------------------------------- store

// c01Store: content-addressed map. Put copies the bytes at the time of the call (as a real
// store serialises them) and records every Put; Get returns copies.
type c01Store struct {
	mu   sync.Mutex
	m    map[string][]byte
	puts int
	dup  int
}

func newC01Store() *c01Store { return &c01Store{m: map[string][]byte{}} }

func (s *c01Store) Put(_ context.Context, _ storage.ModePut, chs ...boson.Chunk) ([]bool, error) {
	s.mu.Lock()
	defer s.mu.Unlock()
	exist := make([]bool, len(chs))
	for i, c := range chs {
		k := string(c.Address().Bytes())
		s.puts++
		if _, ok := s.m[k]; ok {
			exist[i] = true
			s.dup++
			continue // content addressed: same address = same bytes (validity is checked separately)
		}
		s.m[k] = append([]byte(nil), c.Data()...)
	}
	return exist, nil
}

func (s *c01Store) Get(_ context.Context, _ storage.ModeGet, addr boson.Address) (boson.Chunk, error) {
	s.mu.Lock()
	defer s.mu.Unlock()
	d, ok := s.m[string(addr.Bytes())]
	if !ok {
		return nil, storage.ErrNotFound
	}
	return boson.NewChunk(boson.NewAddress(append([]byte(nil), addr.Bytes()...)), append([]byte(nil), d...)), nil
}

// ---------------------------------------------------------------- content, geometry

func c01Scaled() bool { return boson.Branches == 4 }

func c01Geometry() string {
	if c01Scaled() {
		return "scaled"
	}
	if boson.Branches == 8192 && boson.ChunkSize == 262144 {
		return "real"
	}
	return fmt.Sprintf("branches=%d", boson.Branches)
}

// content byte i of a file of l bytes; period 251 is coprime to every chunk size.
func c01Content(l int) []byte {
	b := make([]byte, l)
	for i := range b {
		b[i] = byte(i%251 + (i/251)*5 + l*7)
	}
	return b
}

func c01Levels(l int, enc bool) int {
	c := int(boson.ChunkSize)
	br := int(boson.Branches)
	if enc {
		br /= 2
	}
	leaves := (l + c - 1) / c
	lv := 1
	for n := 1; n < leaves; n *= br {
		lv++
	}
	return lv
}

func c01Dedupe(in []int, lo, hi int) []int {
	seen := map[int]bool{}
	var out []int
	for _, v := range in {
		if v >= lo && v <= hi && !seen[v] {
			seen[v] = true
			out = append(out, v)
		}
	}
	sort.Ints(out)
	return out
}

func c01Summ(v []int) string {
	if len(v) <= 48 {
		return fmt.Sprint(v)
	}
	return fmt.Sprintf("%d lengths: %v ... %v", len(v), v[:14], v[len(v)-14:])
}

type c01Spec struct {
	l   int
	enc bool
}

func c01SpecSumm(v []c01Spec) string {
	var p, e []int
	for _, s := range v {
		if s.enc {
			e = append(e, s.l)
		} else {
			p = append(p, s.l)
		}
	}
	return "plain " + c01Summ(p) + "; encrypted " + c01Summ(e)
}

// c01BoundaryLengths: the level-boundary-dense scaled lengths (plain levels change at C, 4C, 16C, 64C;
// encrypted at C, 2C, 4C, 8C, 16C, 32C, 64C).
func c01BoundaryLengths() []int {
	c := int(boson.ChunkSize)
	ls := []int{0, 1, 2, 31, 32, 33, c - 1, c, c + 1, 2*c - 1, 2 * c, 2*c + 1, 3 * c, 3*c + 1, 4*c - 1, 4 * c, 4*c + 1,
		5 * c, 5*c + 1, 8 * c, 8*c + 1, 15*c + 7, 16*c - 1, 16 * c, 16*c + 1, 17*c + 3, 20*c + 1, 21 * c, 32*c + 1, 63*c + 5, 64*c - 1, 64 * c, 64*c + 1, 65*c + 1}
	return c01Dedupe(ls, 0, 1<<30)
}

func c01UploadSpecs() []c01Spec {
	c := int(boson.ChunkSize)
	var out []c01Spec
	if !c01Scaled() {
		ls := []int{0, 1, c - 1, c, c + 1, 2*c + 10}
		if mc.Thorough() {
			ls = []int{0, 1, 31, 32, 33, c - 1, c, c + 1, 2 * c, 2*c + 10, 3*c + 1}
		}
		for _, l := range ls {
			out = append(out, c01Spec{l, false})
		}
		// one real encrypted chunk costs ~0.1-0.2 s to encrypt and again to decrypt
		out = append(out, c01Spec{c + 1, true})
		if mc.Thorough() {
			out = append(out, c01Spec{33, true}, c01Spec{c, true}, c01Spec{2*c + 10, true})
		}
		return out
	}
	ls := c01BoundaryLengths()
	top := 2*c + 2
	if !mc.Thorough() {
		for l := 0; l <= top; l += 1 {
			if l <= c+2 || l >= 2*c-2 || l%7 == 0 { // quick: the inside of the second chunk every 7th length
				ls = append(ls, l)
			}
		}
	} else {
		for l := 0; l <= 5*c+2; l++ {
			ls = append(ls, l)
		}
		for k := 6; k <= 65; k++ {
			ls = append(ls, k*c-1, k*c, k*c+1)
		}
	}
	for _, l := range c01Dedupe(ls, 0, 1<<30) {
		out = append(out, c01Spec{l, false}, c01Spec{l, true})
	}
	return out
}

// ---------------------------------------------------------------- write segmentations

// c01Seg is one way of handing the content to the pipeline.
type c01Seg struct {
	name   string
	writes []int // sizes of the Write calls (kind "write")
	feed   int   // >0: FeedPipeline through a reader returning at most feed bytes per Read
	eofTog bool  // the reader returns the last bytes together with io.EOF
	reader bool  // FeedPipeline
	stalls []int // reader: byte offsets at which Read returns (0, nil) before going on (legal for an io.Reader)
	stallN int   // how many times in a row at each of those offsets (0 = 1)
}

func (s c01Seg) key() string {
	if s.reader {
		return fmt.Sprintf("feed/%d/%v/%v/%d", s.feed, s.eofTog, s.stalls, s.stallN)
	}
	return "w/" + fmt.Sprint(s.writes)
}

func c01Steps(l, s int) []int {
	var w []int
	for l > 0 {
		n := s
		if n > l {
			n = l
		}
		w = append(w, n)
		l -= n
	}
	return w
}

// c01Segs enumerates the segmentations for a file of l bytes. full=false gives the reduced set
// used by the quick read-program product.
var (
	c01SegMu    sync.Mutex
	c01SegCache = map[string][]c01Seg{}
)

func c01Segs(l int, full bool) []c01Seg {
	c01SegMu.Lock()
	defer c01SegMu.Unlock()
	k := fmt.Sprintf("%d/%v", l, full)
	if v, ok := c01SegCache[k]; ok {
		return v
	}
	v := c01SegsBuild(l, full)
	c01SegCache[k] = v
	return v
}

func c01SegsBuild(l int, full bool) []c01Seg {
	c := int(boson.ChunkSize)
	var out []c01Seg
	seen := map[string]bool{}
	add := func(s c01Seg) {
		if k := s.key(); !seen[k] {
			seen[k] = true
			out = append(out, s)
		}
	}
	add(c01Seg{name: "single-write", writes: []int{l}})
	add(c01Seg{name: "feedpipeline", reader: true, feed: c, eofTog: false})
	if !c01Scaled() {
		// real geometry: a handful of shapes
		add(c01Seg{name: "step-C+1", writes: c01Steps(l, c+1)})
		add(c01Seg{name: "step-2C+3", writes: c01Steps(l, 2*c+3)})
		if l > 1 {
			add(c01Seg{name: "split@1", writes: []int{1, l - 1}})
		}
		if l > c-1 {
			add(c01Seg{name: "split@C-1+empty", writes: []int{c - 1, 0, l - (c - 1)}})
		}
		add(c01Seg{name: "feed-100000-eof-with-data", reader: true, feed: 100000, eofTog: true})
		zr := []int{c, l / 2}
		if full {
			zr = []int{0, c, l / 2, l}
		}
		for _, o := range c01Dedupe(zr, 0, l) {
			add(c01Seg{name: fmt.Sprintf("feed-C-zero-read@%d", o), reader: true, feed: c, stalls: []int{o}})
		}
		add(c01Seg{name: "feed-100000-zero-read-twice@C,l", reader: true, feed: 100000, stalls: c01Dedupe([]int{c, l}, 0, l), stallN: 2})
		if full {
			add(c01Seg{name: "step-65537", writes: c01Steps(l, 65537)})
			if l <= 64 {
				add(c01Seg{name: "step-1", writes: c01Steps(l, 1)})
			}
		}
		return out
	}
	if !full {
		add(c01Seg{name: "step-7", writes: c01Steps(l, 7)})
		add(c01Seg{name: "step-C+1", writes: c01Steps(l, c+1)})
		add(c01Seg{name: "step-2C+3", writes: c01Steps(l, 2*c+3)})
		if l > 1 {
			add(c01Seg{name: "split@1", writes: []int{1, l - 1}})
		}
		if l > c {
			add(c01Seg{name: "split@C-1,C+1", writes: []int{c - 1, 2, l - c - 1}})
		}
		add(c01Seg{name: "feed-7-eof-with-data", reader: true, feed: 7, eofTog: true})
		add(c01Seg{name: "feed-C-zero-read@C|l/2", reader: true, feed: c, stalls: c01Dedupe([]int{c, l / 2}, 0, l)})
		add(c01Seg{name: "feed-C-zero-read-before-eof", reader: true, feed: c, stalls: []int{l}})
		add(c01Seg{name: "feed-7-zero-read-twice@0,l/2", reader: true, feed: 7, stalls: c01Dedupe([]int{0, l / 2}, 0, l), stallN: 2})
		return out
	}
	if l == 0 {
		add(c01Seg{name: "no-write", writes: nil})
		add(c01Seg{name: "empty-writes", writes: []int{0, 0}})
	}
	cuts := c01Dedupe([]int{0, 1, c - 1, c, c + 1, l - 1, l}, 0, l)
	for _, p := range cuts {
		add(c01Seg{name: fmt.Sprintf("split@%d", p), writes: []int{p, l - p}})
	}
	cuts3 := c01Dedupe([]int{1, c - 1, c, c + 1, 2 * c, 2*c + 1, l - 1}, 1, l-1)
	for i, p := range cuts3 {
		for _, q := range cuts3[i+1:] {
			add(c01Seg{name: fmt.Sprintf("split@%d,%d", p, q), writes: []int{p, q - p, l - q}})
		}
	}
	for _, s := range []int{1, 7, c - 1, c, c + 1, 2*c + 3, 4 * c, 5*c + 1} {
		add(c01Seg{name: fmt.Sprintf("step-%d", s), writes: c01Steps(l, s)})
	}
	// chunk-size writes with an empty write between them
	var we []int
	for _, n := range c01Steps(l, c) {
		we = append(we, n, 0)
	}
	add(c01Seg{name: "step-C-with-empty-writes", writes: we})
	// growing writes 1,2,3,... (every buffer phase)
	var wg []int
	for rest, n := l, 1; rest > 0; n++ {
		k := n
		if k > rest {
			k = rest
		}
		wg = append(wg, k)
		rest -= k
	}
	add(c01Seg{name: "growing-1,2,3..", writes: wg})
	for _, k := range []int{1, 7, c - 1} {
		if k == 1 && l > 5*c {
			continue
		}
		add(c01Seg{name: fmt.Sprintf("feed-%d", k), reader: true, feed: k, eofTog: false})
		add(c01Seg{name: fmt.Sprintf("feed-%d-eof-with-data", k), reader: true, feed: k, eofTog: true})
	}
	add(c01Seg{name: "feed-C-eof-with-data", reader: true, feed: c, eofTog: true})
	// readers that return (0, nil): once at the start / after k bytes (incl. exactly at a chunk
	// boundary) / right before EOF, twice in a row, and at several places of one stream
	for _, o := range c01Dedupe([]int{0, 1, c - 1, c, c + 1, l / 2, 2 * c, l}, 0, l) {
		add(c01Seg{name: fmt.Sprintf("feed-C-zero-read@%d", o), reader: true, feed: c, stalls: []int{o}})
	}
	for _, o := range c01Dedupe([]int{0, c, l}, 0, l) {
		add(c01Seg{name: fmt.Sprintf("feed-C-zero-read-twice@%d", o), reader: true, feed: c, stalls: []int{o}, stallN: 2})
	}
	add(c01Seg{name: "feed-C-zero-reads@0,C,l/2,l", reader: true, feed: c, stalls: c01Dedupe([]int{0, c, l / 2, l}, 0, l)})
	add(c01Seg{name: "feed-7-zero-read@C", reader: true, feed: 7, stalls: c01Dedupe([]int{c}, 0, l)})
	add(c01Seg{name: "feed-7-zero-read-twice@l/2", reader: true, feed: 7, stalls: []int{l / 2}, stallN: 2})
	add(c01Seg{name: "feed-C-zero-read@C-eof-with-data", reader: true, feed: c, eofTog: true, stalls: c01Dedupe([]int{c}, 0, l)})
	return out
}

// c01Reader hands out at most k bytes per Read; with eofTog the final bytes come with io.EOF.
// At every offset listed in stalls (bytes delivered so far) it first returns (0, nil) stallN
// times -- "nothing happened", which an io.Reader may do at any time -- and no Read crosses a
// pending stall offset, so the empty read happens exactly there.
type c01Reader struct {
	data      []byte
	k         int
	eofTog    bool
	stalls    []int
	stallN    int
	delivered int
	stalled   map[int]int
	zeroReads int
}

func (r *c01Reader) Read(p []byte) (int, error) {
	want := r.stallN
	if want == 0 {
		want = 1
	}
	limit := -1
	for _, o := range r.stalls {
		if o == r.delivered && r.stalled[o] < want {
			if r.stalled == nil {
				r.stalled = map[int]int{}
			}
			r.stalled[o]++
			r.zeroReads++
			return 0, nil
		}
		if o > r.delivered && (limit < 0 || o < limit) {
			limit = o
		}
	}
	if len(r.data) == 0 {
		return 0, io.EOF
	}
	n := r.k
	if n > len(p) {
		n = len(p)
	}
	if n > len(r.data) {
		n = len(r.data)
	}
	if limit >= 0 && r.delivered+n > limit {
		n = limit - r.delivered
	}
	copy(p, r.data[:n])
	r.data = r.data[n:]
	r.delivered += n
	if len(r.data) == 0 && r.eofTog {
		return n, io.EOF
	}
	return n, nil
}

type c01Upload struct {
	l       int
	enc     bool
	seg     c01Seg
	content []byte
	store   *c01Store
	ref     boson.Address
}

func (u *c01Upload) String() string {
	e := "plain"
	if u.enc {
		e = "encrypted"
	}
	return fmt.Sprintf("file(len=%d,%s,levels=%d,%s)", u.l, e, c01Levels(u.l, u.enc), u.seg.name)
}

// c01DoUpload pushes the content through a fresh real pipeline into a fresh store.
func c01DoUpload(x *mc.X, l int, enc bool, seg c01Seg) *c01Upload {
	u := &c01Upload{l: l, enc: enc, seg: seg, content: c01Content(l), store: newC01Store()}
	ctx := context.Background()
	p := NewPipelineBuilder(ctx, u.store, storage.ModePutUpload, enc)
	var sum []byte
	if seg.reader {
		// FeedPipeline gets its own copy: the pipeline must not depend on the caller keeping the bytes
		var ref boson.Address
		var err error
		if pv := mc.Try(func() {
			ref, err = FeedPipeline(ctx, p, &c01Reader{data: append([]byte(nil), u.content...), k: seg.feed, eofTog: seg.eofTog, stalls: seg.stalls, stallN: seg.stallN})
		}); pv != nil {
			x.Fail("upload-panic", "%v: FeedPipeline panicked: %v", u, pv)
		}
		x.Check(err == nil, "upload-error", "%v: FeedPipeline failed: %v", u, err)
		sum = ref.Bytes()
	} else {
		off := 0
		for i, n := range seg.writes {
			// every Write gets its own buffer, scribbled over afterwards: the pipeline must have
			// consumed the bytes when Write returns (io.Writer: must not retain p)
			b := append([]byte(nil), u.content[off:off+n]...)
			var got int
			var err error
			if pv := mc.Try(func() { got, err = p.Write(b) }); pv != nil {
				x.Fail("upload-panic", "%v: Write #%d of %d bytes at offset %d panicked: %v", u, i, n, off, pv)
			}
			for j := range b {
				b[j] = 0x5A
			}
			x.Check(err == nil, "upload-error", "%v: Write #%d of %d bytes failed: %v", u, i, n, err)
			x.Check(got == n, "write-count", "%v: Write #%d of %d bytes at offset %d returned %d", u, i, n, off, got)
			off += n
		}
		if off != l {
			x.Broken("segmentation %q sums to %d, want %d", seg.name, off, l)
		}
		var err error
		if pv := mc.Try(func() { sum, err = p.Sum() }); pv != nil {
			x.Fail("upload-panic", "%v: Sum panicked: %v", u, pv)
		}
		x.Check(err == nil, "upload-error", "%v: Sum failed: %v", u, err)
		sum = append([]byte(nil), sum...)
	}
	wantRef := boson.HashSize
	if enc {
		wantRef = encryption.ReferenceSize
	}
	x.Check(len(sum) == wantRef, "ref-length", "%v: reference has %d bytes, want %d", u, len(sum), wantRef)
	u.ref = boson.NewAddress(sum)
	c01ValidateTree(x, u)
	return u
}

// c01ValidateTree walks the stored tree from the returned reference (through the real decrypting
// getter) and checks that it has the shape the joiner's span arithmetic relies on: a chunk with
// span <= C is a leaf holding exactly span bytes; a chunk with a larger span holds
// ceil(span/cap) references (cap = C*b^k, the smallest with cap*b >= span; b = C/refLen), the
// first n-1 children have span cap and the last one the rest. The joiner fetches chunks on worker
// goroutines, and a tree that breaks these assumptions makes it slice out of range there, which
// would kill the whole test process instead of producing a verdict -- so such a tree is reported
// here ("stored-tree-malformed") and never handed to the joiner.
func c01ValidateTree(x *mc.X, u *c01Upload) {
	getter := encstore.New(u.store)
	c := int64(boson.ChunkSize)
	refLen := int64(len(u.ref.Bytes()))
	var walk func(addr []byte, want int64, depth int)
	walk = func(addr []byte, want int64, depth int) {
		var ch boson.Chunk
		var err error
		if p := mc.Try(func() { ch, err = getter.Get(context.Background(), storage.ModeGetRequest, boson.NewAddress(addr)) }); p != nil {
			x.Fail("stored-tree-malformed", "%v: fetching/decrypting a chunk at depth %d panicked: %v", u, depth, p)
		}
		x.Check(err == nil, "stored-tree-malformed", "%v: a chunk referenced at depth %d is not in the store: %v", u, depth, err)
		d := ch.Data()
		x.Check(len(d) >= boson.SpanSize, "stored-tree-malformed", "%v: chunk at depth %d has %d bytes", u, depth, len(d))
		span := int64(binary.LittleEndian.Uint64(d[:boson.SpanSize]))
		payload := int64(len(d) - boson.SpanSize)
		if want >= 0 {
			x.Check(span == want, "stored-tree-malformed", "%v: chunk at depth %d has span %d, its parent's span implies %d", u, depth, span, want)
		} else {
			x.Check(span == int64(u.l), "size", "%v: the root chunk's span is %d", u, span)
		}
		if span <= c {
			x.Check(payload == span, "stored-tree-malformed", "%v: leaf at depth %d has span %d but %d bytes of data", u, depth, span, payload)
			return
		}
		x.Check(depth < 12 && payload%refLen == 0 && payload <= c, "stored-tree-malformed", "%v: intermediate chunk at depth %d (span %d) has %d bytes of references", u, depth, span, payload)
		n := payload / refLen
		b := c / refLen
		capa := c
		for capa*b < span {
			capa *= b
		}
		x.Check(n == (span+capa-1)/capa, "stored-tree-malformed", "%v: intermediate chunk at depth %d with span %d holds %d references, the format implies %d of capacity %d", u, depth, span, n, (span+capa-1)/capa, capa)
		for i := int64(0); i < n; i++ {
			w := capa
			if i == n-1 {
				w = span - (n-1)*capa
			}
			walk(d[boson.SpanSize+i*refLen:boson.SpanSize+(i+1)*refLen], w, depth+1)
		}
	}
	walk(u.ref.Bytes(), -1, 0)
}

func c01TagSeg(x *mc.X, l int, seg c01Seg) {
	c := int(boson.ChunkSize)
	if seg.reader {
		x.Tag("seg:feedpipeline")
		if seg.feed < c {
			x.Tag("seg:feedpipeline-short-reads")
		}
		if seg.eofTog && l > 0 {
			x.Tag("seg:feedpipeline-data-with-eof")
		}
		for _, o := range seg.stalls {
			if o == l && seg.eofTog && l > 0 {
				continue // the last bytes come with EOF: the reader is never asked again at l
			}
			switch {
			case o == l:
				x.Tag("seg:reader-zero-read-right-before-eof")
			case o == 0:
				x.Tag("seg:reader-zero-read-at-start")
			default:
				x.Tag("seg:reader-zero-read-mid-stream")
			}
			if o > 0 && o < l && o%c == 0 {
				x.Tag("seg:reader-zero-read-at-chunk-boundary")
			}
			if seg.stallN >= 2 {
				x.Tag("seg:reader-zero-read-twice-in-a-row")
			}
		}
		return
	}
	off := 0
	for _, n := range seg.writes {
		switch {
		case n == 0:
			x.Tag("seg:empty-write")
		case n == 1:
			x.Tag("seg:1-byte-write")
		}
		if n > c {
			x.Tag("seg:write-larger-than-one-chunk")
		}
		if n >= 2*c {
			x.Tag("seg:write-holds-2+-whole-chunks")
		}
		if n > 0 && off/c != (off+n-1)/c && off%c != 0 {
			x.Tag("seg:write-crosses-chunk-boundary-unaligned")
		}
		if n > 0 && off%c != 0 && (off+n)%c == 0 {
			x.Tag("seg:write-ends-exactly-on-chunk-boundary")
		}
		off += n
	}
	if len(seg.writes) == 0 {
		x.Tag("seg:no-write-at-all")
	}
}

func c01TagLevels(x *mc.X, l int, enc bool) {
	if enc {
		x.Tag(fmt.Sprintf("encrypted-levels=%d", c01Levels(l, enc)))
	} else {
		x.Tag(fmt.Sprintf("plain-levels=%d", c01Levels(l, enc)))
	}
}

func c01Open(x *mc.X, u *c01Upload) file.Joiner {
	var j file.Joiner
	var span int64
	var err error
	if p := mc.Try(func() { j, span, err = joiner.New(context.Background(), u.store, storage.ModeGetRequest, u.ref) }); p != nil {
		x.Fail("open-panic", "%v: joiner.New panicked: %v", u, p)
	}
	x.Check(err == nil, "open-failed", "%v: the returned reference does not open: %v", u, err)
	x.Check(span == int64(u.l), "size", "%v: joiner.New reports size %d", u, span)
	x.Check(j.Size() == int64(u.l), "size", "%v: Size() = %d", u, j.Size())
	return j
}

func c01FirstDiff(a, b []byte) int {
	for i := range a {
		if i >= len(b) || a[i] != b[i] {
			return i
		}
	}
	return len(a)
}

// c01ReadSeq reads sequentially with buffers of bl bytes from model position pos to the end.
func c01ReadSeq(x *mc.X, u *c01Upload, j file.Joiner, pos int64, bl int, key string) {
	if bl <= 0 {
		x.Broken("buffer length %d", bl)
	}
	limit := u.l/bl + 4
	for i := 0; ; i++ {
		x.Check(i < limit, key, "%v: sequential reads (buffer %d) do not reach EOF after %d reads, position %d", u, bl, i, pos)
		buf := make([]byte, bl)
		var n int
		var err error
		if p := mc.Try(func() { n, err = j.Read(buf) }); p != nil {
			x.Fail(key+"-panic", "%v: Read(len=%d) at %d panicked: %v", u, bl, pos, p)
		}
		x.Check(err == nil || err == io.EOF, key, "%v: Read(len=%d) at %d failed: %v", u, bl, pos, err)
		rem := int64(u.l) - pos
		x.Check(n >= 0 && n <= bl && int64(n) <= rem || (rem < 0 && n == 0), key, "%v: Read(len=%d) at %d returned n=%d with %d bytes remaining", u, bl, pos, n, rem)
		if n > 0 && !bytes.Equal(buf[:n], u.content[pos:pos+int64(n)]) {
			x.Fail(key, "%v: Read(len=%d) at %d returned wrong bytes, first difference at file offset %d", u, bl, pos, pos+int64(c01FirstDiff(buf[:n], u.content[pos:pos+int64(n)])))
		}
		pos += int64(n)
		if err == io.EOF {
			x.Check(pos >= int64(u.l), key, "%v: Read(len=%d) reported EOF at %d of %d bytes", u, bl, pos, u.l)
			return
		}
		x.Check(n > 0, key, "%v: Read(len=%d) at %d returned 0, nil with %d bytes remaining", u, bl, pos, rem)
	}
}

func c01ReadAt(x *mc.X, u *c01Upload, j file.Joiner, off int64, bl int, key string) {
	buf := make([]byte, bl)
	var n int
	var err error
	if p := mc.Try(func() { n, err = j.ReadAt(buf, off) }); p != nil {
		x.Fail(key+"-panic", "%v: ReadAt(len=%d, off=%d) panicked: %v", u, bl, off, p)
	}
	if off >= int64(u.l) {
		x.Check(n == 0 && (err == io.EOF || (bl == 0 && err == nil)), key, "%v: ReadAt(len=%d, off=%d) at/past the end returned n=%d err=%v", u, bl, off, n, err)
		return
	}
	want := int64(bl)
	if int64(u.l)-off < want {
		want = int64(u.l) - off
	}
	x.Check(int64(n) == want, key, "%v: ReadAt(len=%d, off=%d) returned n=%d, want %d (err=%v)", u, bl, off, n, want, err)
	x.Check(err == nil || (err == io.EOF && off+int64(n) == int64(u.l)), key, "%v: ReadAt(len=%d, off=%d) failed: %v", u, bl, off, err)
	if !bytes.Equal(buf[:n], u.content[off:off+int64(n)]) {
		x.Fail(key, "%v: ReadAt(len=%d, off=%d) returned wrong bytes, first difference at file offset %d", u, bl, off, off+int64(c01FirstDiff(buf[:n], u.content[off:off+int64(n)])))
	}
}

func c01CheckStored(x *mc.X, u *c01Upload) {
	u.store.mu.Lock()
	defer u.store.mu.Unlock()
	keys := make([]string, 0, len(u.store.m))
	for k := range u.store.m {
		keys = append(keys, k)
	}
	sort.Strings(keys)
	for _, k := range keys {
		d := u.store.m[k]
		ch := boson.NewChunk(boson.NewAddress([]byte(k)), d)
		x.Check(cac.Valid(ch), "stored-chunk-invalid", "%v: a stored chunk of %d bytes is not a valid content-addressed chunk (address is not the BMT hash of its data, or it is oversized)", u, len(d))
	}
}

// ---------------------------------------------------------------- C01-upload

func TestVerifC01Upload(t *testing.T) {
	specs := c01UploadSpecs()
	mc.Run(t, mc.Config{ID: "C01", Name: "C01-upload-" + c01Geometry(), MaxDev: -1, Params: map[string]interface{}{
		"geometry": c01Geometry(), "chunk_size": boson.ChunkSize, "branches": boson.Branches,
		"files":         c01SpecSumm(specs),
		"segmentations": "single Write; FeedPipeline(bytes); no write / empty writes (l=0); 2 writes cut at {0,1,C-1,C,C+1,l-1,l}; 3 writes cut at pairs of {1,C-1,C,C+1,2C,2C+1,l-1}; fixed steps {1,7,C-1,C,C+1,2C+3,4C,5C+1}; C-steps with empty writes between; growing 1,2,3,..; FeedPipeline through readers returning at most {1,7,C-1} bytes, final bytes with or without io.EOF; FeedPipeline readers returning (0,nil): once after {0,1,C-1,C,C+1,l/2,2C,l} bytes, twice in a row after {0,C,l}, at 0+C+l/2+l of one stream, with 7-byte reads at C and twice at l/2, at C with data-with-EOF; (real: single, FeedPipeline, step C+1, step 2C+3, split@1, C-1|empty|rest, reader 100000+EOF-with-data, (0,nil) once after {0,C,l/2,l} bytes, twice after C and l, thorough: step 65537, step 1 for l<=64)",
		"read_back":     "Size; sequential Read(buffer C) to EOF, then ReadAt(len min(l,C+1), off 0) on the same reader; ReadAt(len l, off 0) on a fresh reader; Seek(l/2,start)+Read to EOF with buffer C+1; every stored chunk cac.Valid"}},
		func(x *mc.X) {
			si := x.Choose(len(specs))
			sp := specs[si]
			// quick: files beyond 5C+1 (19 lengths up to 65C+1) get the reduced segmentation set
			segs := c01Segs(sp.l, mc.Thorough() || (c01Scaled() && sp.l <= 5*int(boson.ChunkSize)+1))
			if !c01Scaled() && sp.enc {
				// a real encrypted chunk costs ~0.3 s to write and read
				if mc.Thorough() {
					segs = segs[:3] // single Write, FeedPipeline, step C+1
				} else {
					segs = []c01Seg{segs[0], segs[2]}
				}
			}
			seg := segs[x.Choose(len(segs))]
			x.Logf("upload %v writes=%s", &c01Upload{l: sp.l, enc: sp.enc, seg: seg}, c01WritesSumm(seg))
			u := c01DoUpload(x, sp.l, sp.enc, seg)
			j := c01Open(x, u)
			c := int(boson.ChunkSize)
			c01ReadSeq(x, u, j, 0, c, "readback-sequential")
			// state reached first: a read at an offset on the reader that has just been read to its end
			if bl := c + 1; u.l > 0 {
				if u.l < bl {
					bl = u.l
				}
				c01ReadAt(x, u, j, 0, bl, "readat-after-sequential-read")
			}
			j2 := c01Open(x, u)
			c01ReadAt(x, u, j2, 0, u.l, "readback-readat")
			if u.l > 1 && (c01Scaled() || !sp.enc) {
				j3 := c01Open(x, u)
				pos, err := j3.Seek(int64(u.l/2), io.SeekStart)
				x.Check(err == nil && pos == int64(u.l/2), "readback-after-seek", "%v: Seek(%d, start) = %d, %v", u, u.l/2, pos, err)
				c01ReadSeq(x, u, j3, int64(u.l/2), c+1, "readback-after-seek")
			}
			if c01Scaled() || mc.Thorough() || sp.l <= c+1 {
				c01CheckStored(x, u)
			}
			c01TagLevels(x, sp.l, sp.enc)
			c01TagSeg(x, sp.l, seg)
			x.Outcome(fmt.Sprintf("levels=%d", c01Levels(sp.l, sp.enc)))
			if len(seg.writes) > 1 || seg.reader || sp.l > c {
				x.Nontrivial()
			}
		})
}

func c01WritesSumm(s c01Seg) string {
	if s.reader {
		if len(s.stalls) > 0 {
			n := s.stallN
			if n == 0 {
				n = 1
			}
			return fmt.Sprintf("FeedPipeline(reader: <=%d bytes per Read, last bytes with EOF=%v, %dx (0,nil) after %v bytes)", s.feed, s.eofTog, n, s.stalls)
		}
		return fmt.Sprintf("FeedPipeline(reader: <=%d bytes per Read, last bytes with EOF=%v)", s.feed, s.eofTog)
	}
	if len(s.writes) <= 12 {
		return fmt.Sprint(s.writes)
	}
	return fmt.Sprintf("%d writes %v...%v", len(s.writes), s.writes[:6], s.writes[len(s.writes)-3:])
}

// ---------------------------------------------------------------- C01-readprog

var (
	c01FixMu sync.Mutex
	c01Fix   = map[string]*c01Upload{}
)

// c01Fixture: the upload of (l, enc, seg) is done once per process for the read-program product
// (C01-upload does a fresh upload per execution); the store is read-only afterwards and every
// execution opens a fresh joiner.
func c01Fixture(x *mc.X, l int, enc bool, seg c01Seg) *c01Upload {
	c01FixMu.Lock()
	defer c01FixMu.Unlock()
	k := fmt.Sprintf("%d/%v/%s", l, enc, seg.key())
	if u, ok := c01Fix[k]; ok {
		return u
	}
	u := c01DoUpload(x, l, enc, seg)
	c01Fix[k] = u
	return u
}

type c01Prog struct {
	kind string // "seq", "readat", "seek"
	a, b int
	s    [2][2]int // seek: (whence, offset) x 2
}

func (p c01Prog) String() string {
	switch p.kind {
	case "seq":
		return fmt.Sprintf("sequential Read(len=%d) to EOF", p.a)
	case "readat":
		return fmt.Sprintf("ReadAt(len=%d, off=%d)", p.b, p.a)
	}
	return fmt.Sprintf("Seek(%d,whence=%d); Seek(%d,whence=%d); Read", p.s[0][1], p.s[0][0], p.s[1][1], p.s[1][0])
}

func c01Progs(l int) []c01Prog {
	c := int(boson.ChunkSize)
	var ps []c01Prog
	bls := []int{c - 1, c, c + 1, l, l + 1}
	if l <= 5*c && c01Scaled() {
		bls = append(bls, 1)
	}
	for _, b := range c01Dedupe(bls, 1, 1<<30) {
		ps = append(ps, c01Prog{kind: "seq", a: b})
	}
	offs := []int{0, 1, c - 1, c, c + 1, l / 2, l - 1, l, l + 1}
	if c01Scaled() {
		offs = append(offs, 4*c-1, 4*c, 4*c+1, 16*c, 16*c+1)
	}
	for _, o := range c01Dedupe(offs, 0, l+1) {
		for _, b := range c01Dedupe([]int{0, 1, c, l - o, l}, 0, 1<<30) {
			ps = append(ps, c01Prog{kind: "readat", a: o, b: b})
		}
	}
	so := c01Dedupe([]int{0, 1, l / 2, l}, 0, 1<<30)
	if !c01Scaled() {
		so = c01Dedupe([]int{1, l / 2}, 0, 1<<30)
	}
	for w1 := 0; w1 < 3; w1++ {
		for _, o1 := range so {
			for w2 := 0; w2 < 3; w2++ {
				for _, o2 := range so {
					ps = append(ps, c01Prog{kind: "seek", s: [2][2]int{{w1, o1}, {w2, o2}}})
				}
			}
		}
	}
	return ps
}

func TestVerifC01ReadProg(t *testing.T) {
	c := int(boson.ChunkSize)
	var specs []c01Spec
	if c01Scaled() {
		ls := []int{0, 1, c - 1, c, c + 1, 2 * c, 2*c + 1, 3*c + 1, 4 * c, 4*c + 1, 5*c + 1, 8*c + 1, 16 * c, 16*c + 1, 17*c + 3, 21 * c}
		if mc.Thorough() {
			ls = c01BoundaryLengths()
		}
		for _, l := range c01Dedupe(ls, 0, 1<<30) {
			specs = append(specs, c01Spec{l, false}, c01Spec{l, true})
		}
	} else {
		specs = []c01Spec{{c + 1, false}, {2*c + 10, false}}
	}
	full := mc.Thorough()
	mc.Run(t, mc.Config{ID: "C01", Name: "C01-readprog-" + c01Geometry(), MaxDev: -1, Params: map[string]interface{}{
		"geometry": c01Geometry(), "files": c01SpecSumm(specs),
		"segmentations": map[bool]string{true: "the full set of C01-upload", false: "single Write, FeedPipeline(bytes), step 7, step C+1, step 2C+3, split@1, cuts at C-1 and C+1, FeedPipeline reader 7 bytes + data-with-EOF, (0,nil) at C|l/2, before EOF, twice at 0 and l/2 (real: the real-geometry set)"}[full],
		"read_programs": "sequential Read to EOF with buffer {1 (l<=5C), C-1, C, C+1, l, l+1}; ReadAt(off in {0,1,C-1,C,C+1,4C-1,4C,4C+1,16C,16C+1,l/2,l-1,l,l+1}, len in {0,1,C,l-off,l}); Seek(w1,o1);Seek(w2,o2);Read(C+1) for w in {start,current,end}, o in {0,1,l/2,l} (real: o in {1,l/2})"}},
		func(x *mc.X) {
			sp := specs[x.Choose(len(specs))]
			segs := c01Segs(sp.l, full)
			if !c01Scaled() && !full {
				// real geometry, quick: the segmentations without empty reads plus the one reader with a
				// (0,nil) read exactly at the first chunk boundary
				var keep []c01Seg
				for _, sg := range segs {
					if len(sg.stalls) == 0 || (len(sg.stalls) == 1 && sg.stalls[0] == c && sg.stallN == 0) {
						keep = append(keep, sg)
					}
				}
				segs = keep
			}
			seg := segs[x.Choose(len(segs))]
			progs := c01Progs(sp.l)
			pr := progs[x.Choose(len(progs))]
			x.Logf("%v: %v", &c01Upload{l: sp.l, enc: sp.enc, seg: seg}, pr)
			u := c01Fixture(x, sp.l, sp.enc, seg)
			j := c01Open(x, u)
			switch pr.kind {
			case "seq":
				c01ReadSeq(x, u, j, 0, pr.a, "read-sequential")
				x.Tag("prog:sequential")
			case "readat":
				c01ReadAt(x, u, j, int64(pr.a), pr.b, "read-at-offset")
				x.Tag("prog:readat")
			case "seek":
				var pos int64
				known := true
				for i := 0; i < 2 && known; i++ {
					w, o := pr.s[i][0], int64(pr.s[i][1])
					var target int64
					switch w {
					case io.SeekStart:
						target = o
					case io.SeekCurrent:
						target = pos + o
					case io.SeekEnd:
						target = int64(u.l) - o // end offsets count backwards in this project
					}
					ret, err := j.Seek(o, w)
					x.Logf("  Seek(%d, whence=%d) -> %d, %v (requested %d)", o, w, ret, err, target)
					if err == nil {
						x.Check(ret == target && target >= 0, "read-after-seek", "%v: Seek(%d, whence=%d) from %d returned %d, requested position %d", u, o, w, pos, ret, target)
						pos = target
						x.Tag(fmt.Sprintf("seek-ok-whence=%d", w))
					} else {
						x.Check(target < 0 || target > int64(u.l), "read-after-seek", "%v: Seek(%d, whence=%d) from %d to position %d inside the file failed: %v", u, o, w, pos, target, err)
						x.Tag("seek-rejected")
						cur, err2 := j.Seek(0, io.SeekCurrent)
						if err2 != nil {
							known = false
						}
						pos = cur
					}
				}
				if known {
					buf := make([]byte, c+1)
					n, err := j.Read(buf)
					x.Logf("  Read(len=%d) at %d -> %d, %v", c+1, pos, n, err)
					rem := int64(u.l) - pos
					if rem <= 0 {
						x.Check(n == 0 && err == io.EOF, "read-after-seek", "%v: %v: Read at position %d >= size returned n=%d err=%v", u, pr, pos, n, err)
					} else {
						x.Check(err == nil || err == io.EOF, "read-after-seek", "%v: %v: Read at %d failed: %v", u, pr, pos, err)
						x.Check(n > 0 && int64(n) <= rem && n <= len(buf), "read-after-seek", "%v: %v: Read at %d returned n=%d (remaining %d)", u, pr, pos, n, rem)
						x.Check(bytes.Equal(buf[:n], u.content[pos:pos+int64(n)]), "read-after-seek", "%v: %v: Read at position %d returned bytes of another position", u, pr, pos)
					}
				}
				x.Tag("prog:seek")
			}
			c01TagLevels(x, sp.l, sp.enc)
			c01TagSeg(x, sp.l, seg)
			x.Outcome(pr.kind + "/" + strings.SplitN(seg.name, "@", 2)[0])
			x.Nontrivial()
		})
}

// ---------------------------------------------------------------- C01-real3level (thorough, real geometry)

// A file of 8192*C+1 bytes (2 GiB + 1) is the smallest one with a 3-level tree at the production
// geometry. Leaf k holds block k%7 of 7 distinct C-byte blocks (7 is coprime to 8192, so a
// misplaced or repeated leaf shows), so the content-addressed store holds 7 leaves, the 1-byte
// tail and 3 intermediate chunks; input and read-back are streamed.
const c01BigBlocks = 7

func c01BigByte(blocks [][]byte, pos int64) byte {
	c := int64(boson.ChunkSize)
	return blocks[(pos/c)%c01BigBlocks][pos%c]
}

// c01BigFill fills p with the content starting at pos.
func c01BigFill(blocks [][]byte, p []byte, pos int64) {
	c := int64(boson.ChunkSize)
	for len(p) > 0 {
		b := blocks[(pos/c)%c01BigBlocks][pos%c:]
		n := copy(p, b)
		p = p[n:]
		pos += int64(n)
	}
}

var (
	c01BigOnce    sync.Once
	c01BigStore   *c01Store
	c01BigRef     boson.Address
	c01BigErr     string
	c01BigBlocksV [][]byte
	c01BigWrites  int
)

func TestVerifC01Real3Level(t *testing.T) {
	if c01Scaled() || !mc.Thorough() {
		t.Skip("thorough tier at the real geometry only")
	}
	c := int64(boson.ChunkSize)
	total := int64(boson.Branches)*c + 1
	sizes := []int64{3*c + 5, 1, c - 1, c, 0, 2 * c}
	mc.Run(t, mc.Config{ID: "C01", Name: "C01-real3level", MaxDev: -1, Params: map[string]interface{}{
		"geometry": "real", "length": total, "levels": 3, "writes": "sizes cycle {3C+5, 1, C-1, C, 0, 2C}",
		"read_back": "Size; sequential Read(buffer C) of all bytes; ReadAt around the 3-level boundary and the end",
		"note":      "the upload (8193 real chunk hashes) is done once per process; every execution re-opens and re-reads"}},
		func(x *mc.X) {
			c01BigOnce.Do(func() {
				blocks := make([][]byte, c01BigBlocks)
				for k := range blocks {
					blocks[k] = make([]byte, c)
					for i := range blocks[k] {
						blocks[k][i] = byte(i%251 + k*37 + i/251)
					}
				}
				c01BigBlocksV = blocks
				st := newC01Store()
				p := NewPipelineBuilder(context.Background(), st, storage.ModePutUpload, false)
				buf := make([]byte, 3*c+5)
				var pos int64
				for i := 0; pos < total; i++ {
					n := sizes[i%len(sizes)]
					if n > total-pos {
						n = total - pos
					}
					c01BigFill(blocks, buf[:n], pos)
					got, err := p.Write(buf[:n])
					if err != nil || int64(got) != n {
						c01BigErr = fmt.Sprintf("Write #%d of %d bytes at %d returned %d, %v", i, n, pos, got, err)
						return
					}
					pos += n
					c01BigWrites++
				}
				sum, err := p.Sum()
				if err != nil {
					c01BigErr = fmt.Sprintf("Sum failed: %v", err)
					return
				}
				c01BigStore, c01BigRef = st, boson.NewAddress(append([]byte(nil), sum...))
			})
			x.Check(c01BigErr == "", "upload-error", "3-level file: %s", c01BigErr)
			blocks := c01BigBlocksV
			x.Logf("file of %d bytes written with %d writes; store holds %d chunks after %d puts", total, c01BigWrites, len(c01BigStore.m), c01BigStore.puts)
			x.Check(len(c01BigRef.Bytes()) == boson.HashSize, "ref-length", "reference has %d bytes", len(c01BigRef.Bytes()))
			j, span, err := joiner.New(context.Background(), c01BigStore, storage.ModeGetRequest, c01BigRef)
			x.Check(err == nil, "open-failed", "3-level file does not open: %v", err)
			x.Check(span == total && j.Size() == total, "size", "3-level file: size %d / %d, want %d", span, j.Size(), total)
			buf := make([]byte, c)
			want := make([]byte, c)
			var pos int64
			for pos < total {
				n, err := j.Read(buf)
				x.Check(err == nil || err == io.EOF, "readback-sequential", "3-level file: Read at %d failed: %v", pos, err)
				x.Check(n > 0 && int64(n) <= total-pos, "readback-sequential", "3-level file: Read at %d returned n=%d", pos, n)
				c01BigFill(blocks, want[:n], pos)
				if !bytes.Equal(buf[:n], want[:n]) {
					x.Fail("readback-sequential", "3-level file: Read at %d returned wrong bytes (first difference at %d)", pos, pos+int64(c01FirstDiff(buf[:n], want[:n])))
				}
				pos += int64(n)
			}
			n, err := j.Read(buf)
			x.Check(n == 0 && err == io.EOF, "readback-sequential", "3-level file: Read at the end returned %d, %v", n, err)
			for _, ra := range [][2]int64{{int64(boson.Branches)*c - 1, 2}, {int64(boson.Branches) * c, 1}, {(int64(boson.Branches)-1)*c - 1, c + 2}, {total - 1, 5}, {total, 1}, {c*4099 + 77, 2*c + 1}} {
				off, l := ra[0], ra[1]
				b := make([]byte, l)
				n, err := j.ReadAt(b, off)
				exp := l
				if total-off < exp {
					exp = total - off
				}
				if off >= total {
					x.Check(n == 0 && err == io.EOF, "readback-readat", "3-level file: ReadAt(len=%d, off=%d) past the end returned %d, %v", l, off, n, err)
					continue
				}
				x.Check(int64(n) == exp && (err == nil || err == io.EOF), "readback-readat", "3-level file: ReadAt(len=%d, off=%d) returned %d, %v; want %d", l, off, n, err, exp)
				w := make([]byte, n)
				c01BigFill(blocks, w, off)
				x.Check(bytes.Equal(b[:n], w), "readback-readat", "3-level file: ReadAt(len=%d, off=%d) returned wrong bytes", l, off)
			}
			x.Tag("plain-levels=3")
			x.Tag("seg:write-larger-than-one-chunk")
			x.Nontrivial()
			x.Outcome("levels=3")
		})
}
