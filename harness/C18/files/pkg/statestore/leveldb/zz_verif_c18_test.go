//go:build verif
// +build verif

package leveldb

// C18: both state stores behave as the same persistent string-keyed map.
//
// One execution = one freshly built store (choice 0: which implementation) and
// one operation sequence over a tiny, prefix-sharing key universe. A plain Go
// map + sort is the reference. After every step the complete observable
// content of the real store is compared with the reference.

import (
	"bytes"
	"encoding/json"
	"errors"
	"fmt"
	"io"
	"os"
	"reflect"
	"sort"
	"strings"
	"testing"

	"github.com/gauss-project/aurorafs/pkg/logging"
	"github.com/gauss-project/aurorafs/pkg/statestore/mock"
	"github.com/gauss-project/aurorafs/pkg/storage"
	"github.com/gauss-project/aurorafs/pkg/zzverif/mc"
)

// ---- value alphabet -------------------------------------------------------

type c18Struct struct {
	N int
	S string
	B []byte
}

// c18Bin takes the BinaryMarshaler / BinaryUnmarshaler path of the stores.
type c18Bin struct{ b []byte }

func (v c18Bin) MarshalBinary() ([]byte, error) { return append([]byte{}, v.b...), nil }
func (v *c18Bin) UnmarshalBinary(d []byte) error {
	v.b = append([]byte{}, d...)
	return nil
}

var c18Values = []interface{}{
	int(7),
	"s\x00é\"",
	c18Struct{N: -1, S: "x", B: []byte{0, 255}},
	c18Bin{b: []byte{0x00, 0xff, '{'}},
	c18Bin{b: []byte{}}, // zero-length stored value
}

var c18ValueNames = []string{"int7", "str", "struct", "bin3", "binEmpty"}

// c18ReadBack reads key through Get into a fresh variable of the value kind
// `kind` and reports whether the result equals the written value.
func c18ReadBack(s storage.StateStorer, key string, kind int) (equal bool, err error) {
	switch kind {
	case 0:
		var v int
		err = s.Get(key, &v)
		return err == nil && v == c18Values[0].(int), err
	case 1:
		var v string
		err = s.Get(key, &v)
		return err == nil && v == c18Values[1].(string), err
	case 2:
		var v c18Struct
		err = s.Get(key, &v)
		return err == nil && reflect.DeepEqual(v, c18Values[2]), err
	default:
		var v c18Bin
		err = s.Get(key, &v)
		return err == nil && bytes.Equal(v.b, c18Values[kind].(c18Bin).b), err
	}
}

// c18RawMatches decides whether the raw bytes handed to an iteration callback
// decode to the value of kind `kind` (decoded comparison = weakest reading: the
// exact JSON spelling is not part of the statement).
func c18RawMatches(raw []byte, kind int) bool {
	switch kind {
	case 0:
		var v int
		return json.Unmarshal(raw, &v) == nil && v == c18Values[0].(int)
	case 1:
		var v string
		return json.Unmarshal(raw, &v) == nil && v == c18Values[1].(string)
	case 2:
		var v c18Struct
		return json.Unmarshal(raw, &v) == nil && reflect.DeepEqual(v, c18Values[2])
	default:
		return bytes.Equal(raw, c18Values[kind].(c18Bin).b)
	}
}

// ---- key / prefix alphabet ------------------------------------------------

// Two key universes (c18Run installs the one of its size class before exploring):
// the prefix-chain universe of the main harnesses, and the byte-boundary universe
// of TestVerifC18Bytes: the empty key, a key equal to a prefix, the smallest
// (0x00) and largest (0xff) byte right after a prefix, prefix+"\xff\xff", the
// first key after the prefix range ("q" = "p"+1) and a key that starts with 0xff;
// prefixes ending in 0x00 / 0xff and the all-0xff prefix (no upper bound exists).
var c18KeysMain = []string{"a", "ab", "ab\x00", "abc", "b"} // ascending byte order
var c18PrefixesMain = []string{"", "a", "ab", "b", "c"}
var c18KeysBytes = []string{"", "p", "p\x00", "p\xff", "p\xff\xff", "q", "\xff"} // ascending byte order
var c18PrefixesBytes = []string{"", "p", "p\x00", "p\xff", "p\xff\xff", "\xff"}

var c18Keys = c18KeysMain
var c18Prefixes = c18PrefixesMain

// keys the implementations keep for themselves; the statement is about the
// caller's keys, so they are filtered out of every iteration (weakest reading).
var c18Internal = map[string]bool{dbSchemaKey: true, "schema_name": true}

// ---- implementations ------------------------------------------------------

const (
	c18ImplLdbMem = iota
	c18ImplMock
	c18ImplLdbDisk
	c18NImpl
)

var c18ImplNames = []string{"leveldb-mem", "mock", "leveldb-disk"}

var errC18Callback = errors.New("c18 callback error")

type c18Op struct {
	kind   string // put get del iter reopen
	key    int
	val    int
	prefix int
	cb     int // 0 collect, 1 stop@1, 2 stop@2, 3 err@1, 4 err@2, 5 stop+err@1, 6 stop+err@2
}

var c18CbNames = []string{"collect", "stop@1", "stop@2", "err@1", "err@2", "stop+err@1", "stop+err@2"}

// c18Alphabet builds the operation alphabet for a size class:
//
//	0 full:  5 keys x 5 values, 5 prefixes x 5 callbacks
//	1 in-memory: like full with 4 values (JSON int and JSON string: different encoded lengths, raw binary, empty binary)
//	2 small (file-backed store, thorough): 3 keys, 2 values, 2 prefixes x 3 callbacks
//	3 tiny  (file-backed store, quick): 2 keys, 2 values, 3 iterations, no Get
//	  (every step is followed by a full read-back anyway)
//	4 byte-boundary universe (in-memory stores): 7 keys x 2 values, 6 prefixes x 4 callbacks
func c18Alphabet(withReopen bool, size int) []c18Op {
	keys := []int{0, 1, 2, 3, 4}
	vals := []int{0, 1, 2, 3, 4}
	prefixes := []int{0, 1, 2, 3, 4}
	cbs := []int{0, 1, 2, 3, 4, 5, 6}
	gets := true
	switch size {
	case 1:
		vals = []int{0, 1, 3, 4} // two JSON kinds of different encoded length (int, string), raw binary, empty binary
	case 2:
		keys = []int{0, 1, 4}   // a, ab, b
		vals = []int{0, 4}      // int7, binEmpty
		prefixes = []int{0, 1}  // "", a
		cbs = []int{0, 1, 3, 5} // collect, stop@1, err@1, stop+err@1
	case 3:
		keys = []int{0, 1} // a, ab
		vals = []int{0, 4}
		gets = false
	case 4:
		keys = []int{0, 1, 2, 3, 4, 5, 6}
		vals = []int{1, 4} // JSON string, empty binary
		prefixes = []int{0, 1, 2, 3, 4, 5}
		cbs = []int{0, 1, 4, 5} // collect, stop@1, err@2, stop+err@1
	}
	// op 0 ends the sequence
	ops := []c18Op{{kind: "stop"}}
	for _, k := range keys {
		for _, v := range vals {
			ops = append(ops, c18Op{kind: "put", key: k, val: v})
		}
	}
	for _, k := range keys {
		if gets {
			ops = append(ops, c18Op{kind: "get", key: k})
		}
	}
	for _, k := range keys {
		ops = append(ops, c18Op{kind: "del", key: k})
	}
	if size == 3 {
		ops = append(ops, c18Op{kind: "iter", prefix: 0, cb: 0}, c18Op{kind: "iter", prefix: 1, cb: 1}, c18Op{kind: "iter", prefix: 1, cb: 3})
	} else {
		for _, p := range prefixes {
			for _, cb := range cbs {
				ops = append(ops, c18Op{kind: "iter", prefix: p, cb: cb})
			}
		}
	}
	if withReopen {
		ops = append(ops, c18Op{kind: "reopen"})
	}
	return ops
}

// per-key bookkeeping for the canonical key: the logical content plus a
// two-layer abstraction of where the information lives (see NOTES.md).
type c18KeyState struct {
	persisted int // value kind present in the store as of the last reopen, -1 none
	fresh     int // -2 no write since last reopen, -1 deleted since, >=0 put kind since
}

func (k c18KeyState) logical() int {
	if k.fresh == -2 {
		return k.persisted
	}
	return k.fresh
}

type c18Visit struct {
	key string
	raw []byte
}

// c18Iterate runs one real Iterate with the chosen callback behaviour and
// returns the caller-key visits and the returned error. Internal schema keys
// are skipped without being counted.
func c18Iterate(s storage.StateStorer, prefix string, cb int) (visits []c18Visit, cbErrReturned bool, ret error) {
	n := 0
	ret = s.Iterate(prefix, func(k, v []byte) (bool, error) {
		if c18Internal[string(k)] {
			return false, nil
		}
		visits = append(visits, c18Visit{string(k), append([]byte{}, v...)})
		n++
		switch cb {
		case 1, 2:
			if n == cb {
				return true, nil
			}
		case 3, 4:
			if n == cb-2 {
				cbErrReturned = true
				return false, errC18Callback
			}
		case 5, 6:
			// asks to stop AND reports an error in the same call
			if n == cb-4 {
				cbErrReturned = true
				return true, errC18Callback
			}
		}
		return false, nil
	})
	return visits, cbErrReturned, ret
}

func c18Quote(keys []string) string {
	q := make([]string, len(keys))
	for i, k := range keys {
		q[i] = fmt.Sprintf("%q", k)
	}
	return "[" + strings.Join(q, " ") + "]"
}

// TestVerifC18Mem explores the two in-memory implementations over the
// prefix-chain universe with three value kinds (the value kind is orthogonal to
// keys, order and callbacks; TestVerifC18MemValues adds the other kinds).
func TestVerifC18Mem(t *testing.T) {
	c18Run(t, "C18-statestore-mem-mock", []int{c18ImplLdbMem, c18ImplMock},
		mc.EnvInt("VERIF_C18_SIZE", 1), mc.EnvInt("VERIF_C18_DEPTH", mc.Pick(4, 5)))
}

// TestVerifC18MemValues (thorough only): all five value kinds, one step shallower.
func TestVerifC18MemValues(t *testing.T) {
	if !mc.Thorough() {
		t.Skip("thorough tier only")
	}
	c18Run(t, "C18-statestore-mem-mock-all-values", []int{c18ImplLdbMem, c18ImplMock}, 0, mc.EnvInt("VERIF_C18_VALUES_DEPTH", 4))
}

// TestVerifC18Bytes explores the two in-memory implementations over the
// byte-boundary key universe (range-end arithmetic of prefix iteration).
func TestVerifC18Bytes(t *testing.T) {
	c18Run(t, "C18-statestore-byte-boundaries", []int{c18ImplLdbMem, c18ImplMock}, 4, mc.EnvInt("VERIF_C18_BYTES_DEPTH", mc.Pick(3, 5)))
}

// TestVerifC18Disk explores the file-backed store including close + reopen.
// Opening a file-backed goleveldb costs 12-25 ms (unconditional fsync of
// CURRENT and the manifest), hence the smaller alphabets.
func TestVerifC18Disk(t *testing.T) {
	c18Run(t, "C18-statestore-disk-reopen", []int{c18ImplLdbDisk},
		mc.EnvInt("VERIF_C18_DISK_SIZE", mc.Pick(3, 2)), mc.EnvInt("VERIF_C18_DISK_DEPTH", 4))
}

// TestVerifC18DiskDeep (thorough only): long sequences with several reopens
// over the tiny alphabet.
func TestVerifC18DiskDeep(t *testing.T) {
	if !mc.Thorough() {
		t.Skip("thorough tier only")
	}
	c18Run(t, "C18-statestore-disk-reopen-deep", []int{c18ImplLdbDisk}, 3, mc.EnvInt("VERIF_C18_DISK_DEEP_DEPTH", 7))
}

func c18Run(t *testing.T, harness string, impls []int, size int, depth int) {
	c18Keys, c18Prefixes = c18KeysMain, c18PrefixesMain
	if size == 4 {
		c18Keys, c18Prefixes = c18KeysBytes, c18PrefixesBytes
	}
	mockRepeat := mc.EnvInt("VERIF_C18_MOCK_REPEAT", 300)
	workRoot := os.Getenv("VERIF_WORK")
	if workRoot == "" {
		workRoot = os.TempDir()
	}
	logger := logging.New(io.Discard, 0)
	implNames := []string{}
	for _, i := range impls {
		implNames = append(implNames, c18ImplNames[i])
	}
	describe := func(ops []c18Op) []string {
		var d []string
		for _, o := range ops {
			switch o.kind {
			case "put":
				d = append(d, fmt.Sprintf("Put(%q,%s)", c18Keys[o.key], c18ValueNames[o.val]))
			case "get":
				d = append(d, fmt.Sprintf("Get(%q)", c18Keys[o.key]))
			case "del":
				d = append(d, fmt.Sprintf("Delete(%q)", c18Keys[o.key]))
			case "iter":
				d = append(d, fmt.Sprintf("Iterate(%q,%s)", c18Prefixes[o.prefix], c18CbNames[o.cb]))
			default:
				d = append(d, o.kind)
			}
		}
		return d
	}
	withReopen := impls[0] == c18ImplLdbDisk

	mc.Run(t, mc.Config{ID: "C18", Name: harness, MaxDev: -1, Params: map[string]interface{}{
		"implementations": implNames, "depth": depth, "ops_per_step": len(c18Alphabet(withReopen, size)),
		"mock_iterate_repetitions": mockRepeat, "alphabet_size_class": size,
		"alphabet": describe(c18Alphabet(withReopen, size))}},
		func(x *mc.X) {
			impl := impls[x.Choose(len(impls))]
			name := c18ImplNames[impl]
			var s storage.StateStorer
			var dir string
			var err error
			switch impl {
			case c18ImplLdbMem:
				s, err = NewInMemoryStateStore(logger)
				x.NoErr(err, "NewInMemoryStateStore")
			case c18ImplMock:
				s = mock.NewStateStore()
			case c18ImplLdbDisk:
				dir, err = os.MkdirTemp(workRoot, "c18-db-")
				x.NoErr(err, "MkdirTemp")
				defer os.RemoveAll(dir)
				s, err = NewStateStore(dir, logger)
				x.NoErr(err, "NewStateStore")
			}
			defer func() {
				if s != nil {
					s.Close()
				}
			}()
			x.Logf("store %s", name)
			ops := c18Alphabet(impl == c18ImplLdbDisk, size)
			fail := func(key, format string, a ...interface{}) {
				x.Fail(name+":"+key, format, a...)
			}

			st := make([]c18KeyState, len(c18Keys))
			for i := range st {
				st[i] = c18KeyState{persisted: -1, fresh: -2}
			}
			matching := func(prefix string) (keys []string) {
				for i, k := range c18Keys {
					if st[i].logical() >= 0 && strings.HasPrefix(k, prefix) {
						keys = append(keys, k)
					}
				}
				return keys // c18Keys is ascending, so this is ascending
			}
			kindOf := func(key string) int {
				for i, k := range c18Keys {
					if k == key {
						return st[i].logical()
					}
				}
				return -1
			}

			// audit: complete observable content == reference (contents only; the
			// visiting order is judged by the Iterate operations of the alphabet so
			// that an ordering defect cannot mask everything behind it).
			audit := func(when string) {
				for i, k := range c18Keys {
					want := st[i].logical()
					if want < 0 {
						var v int
						err := s.Get(k, &v)
						if err == nil {
							fail("absent-key-readable", "%s: Get(%q) succeeded although the key is absent in the reference", when, k)
						}
						if !errors.Is(err, storage.ErrNotFound) {
							fail("absent-key-wrong-error", "%s: Get(%q) on an absent key returned %v, want storage.ErrNotFound", when, k, err)
						}
						continue
					}
					eq, err := c18ReadBack(s, k, want)
					if err != nil {
						fail("present-key-unreadable", "%s: Get(%q) = %v, reference holds %s", when, k, err, c18ValueNames[want])
					}
					if !eq {
						fail("value-differs", "%s: Get(%q) does not equal the value written (%s)", when, k, c18ValueNames[want])
					}
				}
				visits, _, ret := c18Iterate(s, "", 0)
				if ret != nil {
					fail("iterate-error", "%s: Iterate(\"\") returned %v", when, ret)
				}
				got := make([]string, 0, len(visits))
				for _, v := range visits {
					got = append(got, v.key)
				}
				sort.Strings(got)
				want := matching("")
				if c18Quote(got) != c18Quote(want) {
					fail("content-differs", "%s: store holds keys %s, reference %s", when, c18Quote(got), c18Quote(want))
				}
				for _, v := range visits {
					if !c18RawMatches(v.raw, kindOf(v.key)) {
						fail("iterate-wrong-value", "%s: Iterate(\"\") hands %q a value that does not decode to the written one", when, v.key)
					}
				}
			}

			// one Iterate call judged against the reference; returns a violation
			// key ("" = fine) and a deterministic message.
			judgeIterate := func(prefix string, cb int) (string, string) {
				match := matching(prefix)
				want := match
				wantErr := false
				switch cb {
				case 1, 2:
					if len(match) > cb {
						want = match[:cb]
					}
				case 3, 4:
					if len(match) >= cb-2 {
						want = match[:cb-2]
						wantErr = true
					}
				case 5, 6:
					if len(match) >= cb-4 {
						want = match[:cb-4]
						wantErr = true
					}
				}
				visits, cbErr, ret := c18Iterate(s, prefix, cb)
				got := make([]string, 0, len(visits))
				for _, v := range visits {
					got = append(got, v.key)
					if !strings.HasPrefix(v.key, prefix) || kindOf(v.key) < 0 {
						return "iterate-visits-nonmatching-key", fmt.Sprintf("Iterate(%q,%s) visited a key that is absent or does not carry the prefix; matching keys are %s", prefix, c18CbNames[cb], c18Quote(match))
					}
					if !c18RawMatches(v.raw, kindOf(v.key)) {
						return "iterate-wrong-value", fmt.Sprintf("Iterate(%q,%s) handed a key a value that does not decode to the written one", prefix, c18CbNames[cb])
					}
				}
				if len(got) > len(want) {
					if cb == 1 || cb == 2 || cb == 5 || cb == 6 {
						return "iterate-ignores-stop", fmt.Sprintf("Iterate(%q,%s) made %d visits, the callback asked to stop after %d", prefix, c18CbNames[cb], len(got), len(want))
					}
					if (cb == 3 || cb == 4) && wantErr {
						// visiting on after a callback error is not excluded by the statement
						got = got[:len(want)]
					} else {
						return "iterate-repeats-key", fmt.Sprintf("Iterate(%q,%s) made %d visits for %d matching keys", prefix, c18CbNames[cb], len(got), len(want))
					}
				}
				if len(got) < len(want) {
					return "iterate-misses-key", fmt.Sprintf("Iterate(%q,%s) made %d visits, want %d: %s", prefix, c18CbNames[cb], len(got), len(want), c18Quote(want))
				}
				if c18Quote(got) != c18Quote(want) {
					sorted := append([]string{}, got...)
					sort.Strings(sorted)
					if cb == 0 && c18Quote(sorted) != c18Quote(want) {
						return "iterate-misses-key", fmt.Sprintf("Iterate(%q,%s) did not visit exactly %s", prefix, c18CbNames[cb], c18Quote(want))
					}
					return "iterate-not-ascending", fmt.Sprintf("Iterate(%q,%s) did not visit the matching keys in ascending byte order; want %s", prefix, c18CbNames[cb], c18Quote(want))
				}
				if wantErr != cbErr {
					return "harness", "callback bookkeeping out of step"
				}
				if wantErr {
					if ret == nil {
						return "iterate-callback-error-lost", fmt.Sprintf("Iterate(%q,%s): the callback returned an error but Iterate returned nil", prefix, c18CbNames[cb])
					}
					if !errors.Is(ret, errC18Callback) {
						return "iterate-callback-error-replaced", fmt.Sprintf("Iterate(%q,%s): the callback's error was replaced by %v", prefix, c18CbNames[cb], ret)
					}
				} else if ret != nil {
					return "iterate-error", fmt.Sprintf("Iterate(%q,%s) returned %v although the callback returned no error", prefix, c18CbNames[cb], ret)
				}
				return "", ""
			}

			audit("fresh store")
			wroteSinceReopen := false
			for step := 0; step < depth; step++ {
				op := ops[x.Choose(len(ops))]
				when := fmt.Sprintf("step %d", step)
				if op.kind == "stop" {
					x.Logf("stop")
					return
				}
				switch op.kind {
				case "put":
					k := c18Keys[op.key]
					x.Logf("Put(%q, %s)", k, c18ValueNames[op.val])
					if old := st[op.key].logical(); old >= 0 && old != op.val {
						x.Tag("overwrite-with-other-value")
						x.Nontrivial()
					}
					if st[op.key].fresh == -1 || (st[op.key].fresh == -2 && st[op.key].persisted < 0 && wroteSinceReopen) {
						x.Tag("put-after-delete-or-other-writes")
					}
					err := s.Put(k, c18Values[op.val])
					if err != nil {
						fail("put-error", "%s: Put(%q,%s) = %v", when, k, c18ValueNames[op.val], err)
					}
					st[op.key].fresh = op.val
					wroteSinceReopen = true
				case "get":
					k := c18Keys[op.key]
					want := st[op.key].logical()
					if want < 0 {
						var v int
						err := s.Get(k, &v)
						x.Logf("Get(%q) -> %v", k, err)
						if st[op.key].fresh == -1 {
							x.Tag("get-after-delete")
							x.Nontrivial()
						}
						x.Outcome("get:absent")
						if err == nil {
							fail("absent-key-readable", "%s: Get(%q) succeeded although the key is absent in the reference", when, k)
						}
						if !errors.Is(err, storage.ErrNotFound) {
							fail("absent-key-wrong-error", "%s: Get(%q) on an absent key returned %v, want storage.ErrNotFound", when, k, err)
						}
					} else {
						eq, err := c18ReadBack(s, k, want)
						x.Logf("Get(%q) as %s -> equal=%v err=%v", k, c18ValueNames[want], eq, err)
						x.Outcome("get:" + c18ValueNames[want])
						if err != nil {
							fail("present-key-unreadable", "%s: Get(%q) = %v, reference holds %s", when, k, err, c18ValueNames[want])
						}
						if !eq {
							fail("value-differs", "%s: Get(%q) does not equal the value written (%s)", when, k, c18ValueNames[want])
						}
					}
				case "del":
					k := c18Keys[op.key]
					was := st[op.key].logical()
					err := s.Delete(k)
					x.Logf("Delete(%q) -> %v", k, err)
					if was >= 0 {
						x.Outcome("delete:present")
						if err != nil {
							fail("delete-error", "%s: Delete(%q) of a present key = %v", when, k, err)
						}
					} else {
						// the statement does not say what deleting an absent key returns
						x.Outcome(fmt.Sprintf("delete:absent:err=%v", err != nil))
					}
					st[op.key].fresh = -1
					wroteSinceReopen = true
				case "iter":
					prefix := c18Prefixes[op.prefix]
					match := matching(prefix)
					x.Logf("Iterate(%q, %s) over matching %s", prefix, c18CbNames[op.cb], c18Quote(match))
					if len(match) >= 2 {
						x.Nontrivial()
						x.Tag("iterate-2+-matches")
					}
					if len(match) < len(matching("")) && len(match) > 0 {
						x.Tag("iterate-prefix-excludes-some")
					}
					if (op.cb == 1 || op.cb == 2) && len(match) > op.cb {
						x.Tag("iterate-stop-truncates")
					}
					if (op.cb == 3 || op.cb == 4) && len(match) >= op.cb-2 || op.cb >= 5 && len(match) >= op.cb-4 {
						x.Tag("iterate-callback-error-raised")
						x.Nontrivial()
					}
					// leveldb iteration is a function of the store state: one call is
					// representative. The mock ranges over a Go map, whose order is
					// drawn at random per call: repeat the call so that every order the
					// runtime can produce is seen with overwhelming probability; each
					// repetition is judged by the same oracle, so code that satisfies
					// the statement can never fail here. The verdict message does not
					// contain the random order.
					reps := 1
					if impl == c18ImplMock && len(match) >= 2 {
						reps = mockRepeat
					}
					verdict, msg := "", ""
					for r := 0; r < reps && verdict == ""; r++ {
						verdict, msg = judgeIterate(prefix, op.cb)
					}
					if verdict == "harness" {
						x.Broken("%s", msg)
					}
					if verdict != "" {
						x.Outcome("iterate:" + verdict)
						fail(verdict, "%s: %s", when, msg)
					}
					x.Outcome(fmt.Sprintf("iterate:%s:ok:matches=%d", c18CbNames[op.cb], len(match)))
				case "reopen":
					x.Logf("Close + reopen")
					if len(matching("")) > 0 {
						x.Nontrivial()
						x.Tag("reopen-nonempty")
					}
					for i := range st {
						if st[i].fresh == -1 && st[i].persisted >= 0 {
							x.Tag("reopen-after-delete-of-persisted-key")
						}
					}
					if err := s.Close(); err != nil {
						s = nil
						fail("close-error", "%s: Close() = %v", when, err)
					}
					s = nil
					ns, err := NewStateStore(dir, logger)
					if err != nil {
						fail("reopen-failed", "%s: reopening the persistent store failed: %v", when, err)
					}
					s = ns
					for i := range st {
						st[i] = c18KeyState{persisted: st[i].logical(), fresh: -2}
					}
					wroteSinceReopen = false
				}
				audit(when + " (" + op.kind + ")")
				var key strings.Builder
				fmt.Fprintf(&key, "%d", impl)
				for i := range st {
					fmt.Fprintf(&key, "|%d,%d", st[i].persisted, st[i].fresh)
				}
				if x.Seen(key.String(), depth-step-1) {
					return
				}
			}
		})
}
