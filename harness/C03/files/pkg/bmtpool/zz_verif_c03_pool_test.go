//go:build verif
// +build verif

package bmtpool

// C03 part (a), shared pool: bmtpool hands out trees of a 32-tree pool in FIFO order.
// The package-level instance is process-wide state, so every execution first replaces it
// by a fresh pool built with the same expression as the package's init() (the pool init()
// built is checked once for its capacity) and then goes through the package functions
// Get/Put only: 32 sequential Get/Write/Hash/Put cycles (one rotation of the FIFO), the
// first with "dirty" data of the chosen length and the other 31 with one byte; the 33rd
// Get therefore returns the tree of the first cycle and the observed data is hashed on
// it. All 33 results are compared with the naive recursive definition.

import (
	"bytes"
	"encoding/binary"
	"fmt"
	"io"
	"sort"
	"testing"

	"github.com/gauss-project/aurorafs/pkg/bmt"
	"github.com/gauss-project/aurorafs/pkg/boson"
	"github.com/gauss-project/aurorafs/pkg/zzverif/mc"
	"golang.org/x/crypto/sha3"
)

var verifC03Sponge = sha3.NewLegacyKeccak256()

func verifC03Keccak(parts ...[]byte) []byte {
	h := verifC03Sponge
	h.Reset()
	for _, p := range parts {
		h.Write(p)
	}
	out := make([]byte, 32)
	if n, err := h.(io.Reader).Read(out); n != 32 || err != nil {
		panic("keccak squeeze failed")
	}
	return out
}

func verifC03Root(d []byte) []byte {
	if len(d) == 64 {
		return verifC03Keccak(d)
	}
	half := len(d) / 2
	return verifC03Keccak(verifC03Root(d[:half]), verifC03Root(d[half:]))
}

func verifC03Ref(span []byte, data []byte, capacity int) []byte {
	padded := make([]byte, capacity)
	copy(padded, data)
	return verifC03Keccak(span, verifC03Root(padded))
}

func verifC03Data(l int, salt byte) []byte {
	d := make([]byte, l)
	for i := range d {
		d[i] = byte(1 + (i*131+(i>>8)*17+int(salt)*29)%255)
	}
	return d
}

func verifC03Uniq(cand []int, lo, hi int) []int {
	seen := map[int]bool{}
	var r []int
	for _, c := range cand {
		if c >= lo && c <= hi && !seen[c] {
			seen[c] = true
			r = append(r, c)
		}
	}
	sort.Ints(r)
	return r
}

func TestVerifC03Pool(t *testing.T) {
	capacity := boson.ChunkSize // definition: the shared pool hashes chunks (32 bytes * BmtBranches)
	var lengths []int
	var lenDesc string
	dirtyLens := []int{capacity, 65}
	if capacity <= 1024 {
		for i := 0; i <= capacity; i++ {
			lengths = append(lengths, i)
		}
		lenDesc = "all 0..capacity"
		dirtyLens = []int{capacity, 65, 1}
	} else if mc.Thorough() {
		c := []int{0, 1, 65}
		for s := 128; s < capacity; s *= 4 {
			c = append(c, s+1)
		}
		c = append(c, capacity/2+capacity/4+65, capacity-63, capacity)
		lengths = verifC03Uniq(c, 0, capacity)
		lenDesc = "0,1,65, 128*4^k+1, 3/4cap+65, cap-63, cap"
	} else {
		lengths = verifC03Uniq([]int{0, 65, capacity/2 + 65, capacity}, 0, capacity)
		lenDesc = "0,65,cap/2+65,cap"
	}
	memo := map[int][]byte{}
	orig := instance
	defer func() { instance = orig }()
	nCuts, nSpans := 3, 2
	if capacity > 1024 {
		nCuts, nSpans = 2, 1
		if mc.Thorough() {
			nCuts = 3
		}
	}
	mc.Run(t, mc.Config{ID: "C03", Name: fmt.Sprintf("C03-data-bmtpool-%dsegments", boson.BmtBranches), MaxDev: -1, ShardLevels: 1, Params: map[string]interface{}{
		"pool": "bmtpool.Get/Put on a fresh 32-tree instance per execution", "pool_capacity": Capacity, "segments": boson.BmtBranches, "capacity": capacity,
		"lengths": lenDesc, "n_lengths": len(lengths), "dirty_lengths": dirtyLens, "cuts": []string{"none", "65", "l-1"}[:nCuts], "spans": []string{"length", "2^64-1"}[:nSpans]}},
		func(x *mc.X) {
			instance = orig
			oh := Get()
			ocap := oh.Capacity()
			Put(oh)
			x.Check(ocap == capacity, "bmtpool-capacity-not-chunk-size", "capacity of the hashers of the pool built by init() is %d, chunk size %d", ocap, capacity)
			instance = bmt.NewPool(bmt.NewConf(boson.NewHasher, boson.BmtBranches, Capacity))
			l := lengths[x.Choose(len(lengths))]
			dl := dirtyLens[x.Choose(len(dirtyLens))]
			cutKind := x.Choose(nCuts)
			spanKind := x.Choose(nSpans)
			x.Logf("length=%d dirty=%d cut=%d span=%d", l, dl, cutKind, spanKind)

			// one rotation of the FIFO pool: tree 0 gets the dirty data, the others one byte
			dspan := []byte{0xee, 0xee, 0xee, 0xee, 0xee, 0xee, 0xee, 0xee}
			for i := 0; i < Capacity; i++ {
				n := 1
				if i == 0 {
					n = dl
				}
				dirty := verifC03Data(n, 7)
				want, ok := memo[n]
				if !ok {
					want = verifC03Ref(dspan, dirty, capacity)
					memo[n] = want // pure function of n
				}
				h := Get()
				h.SetHeader(dspan)
				_, err := h.Write(dirty)
				x.Check(err == nil, "write-error", "Write: %v", err)
				got, err := h.Hash(nil)
				x.Check(err == nil, "hash-error", "Hash: %v", err)
				x.Check(bytes.Equal(got, want), "bmtpool-hash-mismatch-rotation", "cycle %d of the rotation, length %d: got %x want %x", i, n, got, want)
				Put(h)
			}
			if dl > l {
				x.Tag("stale-buffer-longer-than-data")
				x.Nontrivial()
			}
			data := verifC03Data(l, 0)
			span := make([]byte, 8)
			h := Get()
			if spanKind == 0 {
				binary.LittleEndian.PutUint64(span, uint64(l))
				h.SetHeaderInt64(int64(l))
			} else {
				for i := range span {
					span[i] = 0xff
				}
				h.SetHeader(span)
			}
			cut := -1
			switch cutKind {
			case 1:
				cut = 65
			case 2:
				cut = l - 1
			}
			if cut > 0 && cut < l {
				h.Write(data[:cut])
				h.Write(data[cut:])
				x.Tag("split-write")
			} else if l > 0 {
				h.Write(data)
			}
			got, err := h.Hash(nil)
			x.Check(err == nil, "hash-error", "Hash: %v", err)
			want := verifC03Ref(span, data, capacity)
			x.Check(bytes.Equal(got, want), "bmtpool-hash-mismatch-reused-tree", "length %d after a %d-byte hash on the same pooled tree, cut %d: got %x want %x", l, dl, cut, got, want)
			Put(h)
			switch {
			case l == 0:
				x.Outcome("empty")
			case l == capacity:
				x.Outcome("full")
			case l%64 == 0:
				x.Outcome("section-aligned")
			default:
				x.Outcome("unaligned")
			}
		})
}
