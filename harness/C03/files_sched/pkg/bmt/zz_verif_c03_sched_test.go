//go:build verif && go1.18
// +build verif,go1.18

package bmt

import (
	"bytes"
	"encoding/binary"
	"fmt"
	"testing"

	"github.com/gauss-project/aurorafs/pkg/zzverif/mc"
	"github.com/gauss-project/aurorafs/pkg/zzverif/vsched"
	"golang.org/x/crypto/sha3"
)

func c03keccak(parts ...[]byte) []byte {
	h := sha3.NewLegacyKeccak256()
	for _, p := range parts {
		h.Write(p)
	}
	return h.Sum(nil)
}

// naive reference: keccak(span || root), root = binary merkle tree over the zero-padded data
func c03ref(data []byte, span []byte, capacity int) []byte {
	buf := make([]byte, capacity)
	copy(buf, data)
	var root func(b []byte) []byte
	root = func(b []byte) []byte {
		if len(b) == 64 {
			return c03keccak(b)
		}
		return c03keccak(root(b[:len(b)/2]), root(b[len(b)/2:]))
	}
	return c03keccak(span, root(buf))
}

func c03data(n int, salt byte) []byte {
	d := make([]byte, n)
	for i := range d {
		d[i] = byte(i*7+3) ^ salt
	}
	return d
}

// one hash through a pooled hasher; returns the digest
func c03hash(p *Pool, data []byte, split int) []byte {
	h := p.Get()
	defer p.Put(h)
	span := make([]byte, 8)
	binary.LittleEndian.PutUint64(span, uint64(len(data)))
	h.SetHeader(span)
	if split > 0 && split < len(data) {
		_, _ = h.Write(data[:split])
		_, _ = h.Write(data[split:])
	} else {
		_, _ = h.Write(data)
	}
	d, err := h.Hash(nil)
	if err != nil {
		panic(err)
	}
	return d
}

func TestVerifC03Sched(t *testing.T) {
	maxDev := mc.Pick(2, 3)
	segsMenu := []int{4}
	if mc.Thorough() {
		segsMenu = []int{4, 8}
	}
	mc.Run(t, mc.Config{ID: "C03", Name: "C03-sched", MaxDev: maxDev, ShardLevels: 3, Params: map[string]interface{}{
		"preemption_bound": maxDev, "segment_counts": segsMenu,
		"scenarios": "A: one hasher, every section-fill length, then a second hash on the same tree; B: two pool users hashing concurrently with pool capacity 1 or 2",
		"watched":   []string{"node.left", "node.right"}}},
		func(x *mc.X) {
			segs := segsMenu[x.Choose(len(segsMenu))]
			capacity := segs * 32
			var lens []int
			for s := 0; s*64 < capacity; s++ {
				lens = append(lens, s*64+1, s*64+32, s*64+63, s*64+64)
			}
			scenario := x.Choose(3) // 0: single, 1: two users cap 1, 2: two users cap 2
			var l1, l2, split int
			if scenario == 0 {
				l1 = lens[x.Choose(len(lens))]
				l2 = []int{1, capacity}[x.Choose(2)]
				split = x.Choose(2) // second write split at a section boundary
			} else {
				l1 = []int{1, 64, 65, capacity}[x.Choose(4)]
				l2 = []int{33, capacity}[x.Choose(2)]
			}
			x.Logf("segs=%d scenario=%d len1=%d len2=%d split=%d", segs, scenario, l1, l2, split)
			d1, d2 := c03data(l1, 0), c03data(l2, 0x5a)
			sp := func(d []byte) []byte {
				s := make([]byte, 8)
				binary.LittleEndian.PutUint64(s, uint64(len(d)))
				return s
			}
			want1, want2 := c03ref(d1, sp(d1), capacity), c03ref(d2, sp(d2), capacity)
			var got1, got2 []byte
			verdict := vsched.Run(x, vsched.Options{MaxSteps: 20000}, func(s *vsched.S) {
				pcap := 1
				if scenario == 2 {
					pcap = 2
				}
				p := NewPool(NewConf(sha3.NewLegacyKeccak256, segs, pcap))
				cut := 0
				if split == 1 {
					cut = 64
				}
				if scenario == 0 {
					got1 = c03hash(p, d1, cut)
					got2 = c03hash(p, d2, 0) // reuse of the same tree
					return
				}
				s.Go("user1", func() { got1 = c03hash(p, d1, cut) })
				s.Go("user2", func() { got2 = c03hash(p, d2, 0) })
				s.Quiesce()
				if s.Preemptions() > 0 {
					x.Nontrivial()
				}
			})
			if verdict != "" {
				x.Fail("deadlock", "scheduler verdict %s", verdict)
			}
			if !bytes.Equal(got1, want1) {
				x.Fail("wrong-hash", "scenario %d: hash of %d bytes is %x, reference %x", scenario, l1, got1, want1)
			}
			if !bytes.Equal(got2, want2) {
				x.Fail("wrong-hash-second", "scenario %d: second hash (%d bytes, after %d) is %x, reference %x", scenario, l2, l1, got2, want2)
			}
			if scenario == 0 {
				x.Nontrivial()
			}
			x.Outcome(fmt.Sprintf("scenario=%d", scenario))
		})
}
