//go:build verif
// +build verif

package netstore_test

import (
	"context"
	"fmt"
	"strings"
	"testing"

	"github.com/gauss-project/aurorafs/pkg/boson"
	"github.com/gauss-project/aurorafs/pkg/sctx"
	"github.com/gauss-project/aurorafs/pkg/storage"
	"github.com/gauss-project/aurorafs/pkg/zzverif/mc"
	"github.com/gauss-project/aurorafs/pkg/zzverif/nodelite"
)

// C13: outside a collection run the persisted gcSize equals the sum of the
// per-file counters in gcIndex (= what localstore.New recomputes); whenever
// collection has quiesced that total does not exceed the capacity.

type c13Op struct {
	name string
	kind string // violation keys name the kind of the operation after which the equality first fails
	run  func(n *nodelite.Node) string
	race bool // may be executed at the interleaving point inside a collection run
}

func c13Err(err error) string {
	if err == nil {
		return "ok"
	}
	s := err.Error()
	if i := strings.IndexByte(s, ':'); i > 0 {
		s = s[:i]
	}
	if len(s) > 24 {
		s = s[:24]
	}
	return "err:" + s
}

func c13Ops(u *nodelite.Universe, thorough bool) []c13Op {
	bg := context.Background()
	file := func(f string) *nodelite.File { return u.ByName[f] }
	cache := func(f string) c13Op {
		return c13Op{name: "cache(" + f + ")", kind: "request-put", race: true, run: func(n *nodelite.Node) string { return c13Err(n.Cache(file(f))) }}
	}
	// batch: the file's pyramid arrives as usual, then all data chunks are stored by ONE
	// Put(ModePutRequest) call under the file's root context (sources reported first, as retrieval does)
	batch := func(f string) c13Op {
		return c13Op{name: "batchput(" + f + ")", kind: "request-put-batch", race: true, run: func(n *nodelite.Node) string {
			fl := file(f)
			if err := n.CachePyramid(fl); err != nil {
				return c13Err(err)
			}
			var chs []boson.Chunk
			for _, a := range fl.DataCid {
				if err := n.CI.OnChunkRetrieved(a, fl.Root, nodelite.PeerAddr); err != nil {
					return c13Err(err)
				}
				chs = append(chs, boson.NewChunk(a, u.Chunks[a.String()]))
			}
			_, err := n.DB.Put(sctx.SetRootHash(bg, fl.Root), storage.ModePutRequest, chs...)
			return c13Err(err)
		}}
	}
	get := func(f, chunk string, withRoot bool) c13Op {
		nm := fmt.Sprintf("get(%s|%s)", chunk, f)
		if !withRoot {
			nm = fmt.Sprintf("get(%s|-)", chunk)
		}
		return c13Op{name: nm, kind: "get-request", race: true, run: func(n *nodelite.Node) string {
			var addr boson.Address
			for k, v := range u.Names {
				if v == chunk {
					addr = boson.MustParseHexAddress(k)
				}
			}
			n.Deliverable = func(boson.Address) bool { return false } // a pure local Get: misses stay misses
			defer func() { n.Deliverable = nil }()
			root := boson.ZeroAddress
			if withRoot {
				root = file(f).Root
			}
			return c13Err(n.FetchChunk(root, addr))
		}}
	}
	remove := func(f, chunk string) c13Op {
		return c13Op{name: fmt.Sprintf("remove(%s|%s)", chunk, f), kind: "set-remove", race: true, run: func(n *nodelite.Node) string {
			var addr boson.Address
			for k, v := range u.Names {
				if v == chunk {
					addr = boson.MustParseHexAddress(k)
				}
			}
			return c13Err(n.DB.Set(sctx.SetRootHash(bg, file(f).Root), storage.ModeSetRemove, addr))
		}}
	}
	del := func(f string) c13Op {
		return c13Op{name: "delete(" + f + ")", kind: "delete-file", race: true, run: func(n *nodelite.Node) string { return fmt.Sprint(n.DeleteAPI(file(f).Root)) }}
	}
	pin := func(f string) c13Op {
		return c13Op{name: "pin(" + f + ")", kind: "pin", race: true, run: func(n *nodelite.Node) string { return fmt.Sprint(n.PinAPI(file(f).Root)) }}
	}
	unpin := func(f string) c13Op {
		return c13Op{name: "unpin(" + f + ")", kind: "unpin", race: true, run: func(n *nodelite.Node) string { return fmt.Sprint(n.UnpinAPI(file(f).Root)) }}
	}
	// one Set(ModeSetPin) call naming several chunks of a file (the localstore API takes a list)
	pinset := func(f string, chunks ...string) c13Op {
		return c13Op{name: fmt.Sprintf("pinset(%s|%s)", strings.Join(chunks, ","), f), kind: "set-pin", race: true, run: func(n *nodelite.Node) string {
			var addrs []boson.Address
			for _, c := range chunks {
				for k, v := range u.Names {
					if v == c {
						addrs = append(addrs, boson.MustParseHexAddress(k))
					}
				}
			}
			return c13Err(n.DB.Set(sctx.SetRootHash(bg, file(f).Root), storage.ModeSetPin, addrs...))
		}}
	}
	restart := c13Op{name: "restart", kind: "reopen", run: func(n *nodelite.Node) string { return c13Err(n.Restart()) }}
	ops := []c13Op{cache("A"), cache("B"), cache("D"), batch("A"), get("A", "A.R", true), get("A", "x", false),
		remove("A", "y"), del("A"), pin("A"), unpin("A"), pin("D"), unpin("D"), pinset("A", "x", "y"), restart}
	if thorough {
		ops = append(ops, cache("C"), batch("B"), get("B", "x", true), remove("B", "x"), pin("B"), unpin("B"))
	}
	return ops
}

// c13RootGets: Get(ModeGetRequest) of each file's root under the file's own context.
func c13RootGets(u *nodelite.Universe) []c13Op {
	var out []c13Op
	for _, f := range u.Files {
		f := f
		out = append(out, c13Op{name: fmt.Sprintf("get(%s|%s)", u.Name(f.Root), f.Name), kind: "get-request", race: true, run: func(n *nodelite.Node) string {
			n.Deliverable = func(boson.Address) bool { return false }
			defer func() { n.Deliverable = nil }()
			return c13Err(n.FetchChunk(f.Root, f.Root))
		}})
	}
	return out
}

func TestVerifC13(t *testing.T) {
	names := []string{"A", "B", "C", "D"}
	letters := map[string]string{"A": "xy", "B": "xz", "C": "y", "D": "ww"}
	u, err := nodelite.BuildUniverse(names, letters)
	if err != nil {
		t.Fatalf("universe: %v", err)
	}
	thorough := mc.Thorough()
	depth := mc.Pick(3, 4)
	maxDev := mc.Pick(1, 1)
	capacities := []uint64{8, 1000} // 8: two cached files overflow; 1000: collection never triggers (pure accounting histories)
	ops := c13Ops(u, thorough)
	var opNames, raceNames []string
	var raceOps []c13Op
	for _, o := range ops {
		opNames = append(opNames, o.name)
		if o.race {
			raceOps = append(raceOps, o)
			raceNames = append(raceNames, o.name)
		}
	}
	// racers only: a request-get of every file that can be an eviction candidate (access to the file being evicted)
	for _, o := range c13RootGets(u) {
		have := false
		for _, r := range raceOps {
			have = have || r.name == o.name
		}
		if !have {
			raceOps = append(raceOps, o)
			raceNames = append(raceNames, o.name)
		}
	}
	const gcCap = 8
	mc.Run(t, mc.Config{ID: "C13", Name: "C13-gc-accounting", MaxDev: maxDev, Params: map[string]interface{}{
		"depth": depth, "alphabet": opNames, "race_alphabet": raceNames, "max_racing_ops": maxDev, "capacities": capacities,
		"files": letters, "chunk_size": boson.ChunkSize,
		"scenarios": "capacity 8 empty | capacity 1000 empty | capacity 8 warm (cache(A); cache(C)+run; cache(A): two small gc entries, depth-1 steps)",
		"gc": "worker loop run synchronously after every operation that left a trigger pending; one racing operation per execution may run at testHookGCIteratorDone or at the entry of any chunkinfo.DelFile call of the collector (one per candidate)",
	}}, func(x *mc.X) {
		// scenario: empty store with capacity 8 or 1000, or a "warm" store (capacity 8) holding two small gc
		// entries — cache(A); cache(C) [run evicts A]; cache(A) leaves C.R#2 and A.R#4 — so that the next
		// overflow selects SEVERAL candidates in one run (with one candidate a racer can only hit that one)
		sc := x.Choose(len(capacities) + 1)
		warm := sc == len(capacities)
		capacity := uint64(8)
		if !warm {
			capacity = capacities[sc]
		}
		x.Logf("capacity %d warm=%v", capacity, warm)
		n, err := nodelite.New(nodelite.Options{Capacity: capacity, Universe: u})
		x.NoErr(err, "node")
		defer n.Close()
		steps := depth
		if warm {
			steps = depth - 1
			x.NoErr(n.Cache(u.ByName["A"]), "warm-up cache(A)")
			x.NoErr(n.Cache(u.ByName["C"]), "warm-up cache(C)")
			if r := n.GC(8); r.CapHit || r.Err != nil {
				x.Broken("warm-up collection: %+v", r)
			}
			x.NoErr(n.Cache(u.ByName["A"]), "warm-up cache(A) again")
			ws, err := n.Snap()
			x.NoErr(err, "snapshot")
			if ws.Trigger || len(ws.GC) < 2 {
				x.Broken("warm-up state unusable: %s", ws.Key())
			}
			x.Logf("warm-up: cache(A); cache(C)+run; cache(A)   [%s]", ws.Key())
		}
		// roots whose deletion callback had already run when the racing operation executed (set per collection run)
		var processedAtRace map[string]bool
		delFileFailed := map[string]bool{} // roots for which the collector's DelFile call returned an error (current run)
		check := func(kind, what string) nodelite.Snapshot {
			s, err := n.Snap()
			x.NoErr(err, "snapshot")
			if run, _ := n.DB.VerifGCRunning(); run {
				x.Broken("gcRunning still set outside a collection run")
			}
			// the counters are "recorded for collectable files": an entry must belong to a file whose root is
			// stored, agree with the access index, and be the only entry of that root
			seenRoot := map[string]bool{}
			for _, e := range s.GC {
				if !s.Data[e.Root] {
					x.Logf("      [%s]", s.Key())
					k := "gc-entry-of-removed-file-after-" + kind
					if kind == "raced-gc" && processedAtRace != nil {
						// which side of the file's deletion callback the racing operation ran on
						switch {
						case processedAtRace[e.Root]:
							k += "-racer-ran-after-the-files-deletion-was-decided"
						case delFileFailed[e.Root]:
							// chunkinfo could not enumerate the file; the collector drops such entries
							k += "-racer-ran-before-the-unenumerable-file-was-dropped"
						default:
							k += "-racer-ran-before-the-files-deletion-was-decided"
						}
					}
					x.Fail(k, "after %s: gc index holds %s#%d but the file's root chunk is not stored (its %d chunks are counted in gcSize=%d)   [%s]", what, e.Root, e.Counter, e.Counter, s.GCSize, s.Key())
				}
				if at, ok := s.Access[e.Root]; !ok || at != e.TS {
					x.Logf("      [%s]", s.Key())
					x.Fail("gc-entry-without-matching-access-entry-after-"+kind, "after %s: gc entry %s#%d has no access-index entry with its time stamp   [%s]", what, e.Root, e.Counter, s.Key())
				}
				if seenRoot[e.Root] {
					x.Logf("      [%s]", s.Key())
					x.Fail("duplicate-gc-entries-after-"+kind, "after %s: two gc entries for %s   [%s]", what, e.Root, s.Key())
				}
				seenRoot[e.Root] = true
			}
			if sum := s.GCSum(); s.GCSize != sum {
				x.Logf("      [%s]", s.Key())
				x.Fail("gcsize-ne-counter-total-after-"+kind, "after %s: persisted gcSize=%d but the gc index counters total %d   [%s]", what, s.GCSize, sum, s.Key())
			}
			return s
		}
		gcs, raced := 0, 0
		for step := 0; step < steps; step++ {
			op := ops[x.Choose(len(ops))]
			out := op.run(n)
			x.Logf("%s -> %s", op.name, out)
			x.Outcome(op.kind + ":" + out)
			kindNow := op.kind
			if op.kind == "set-pin" && strings.HasPrefix(out, "err") {
				// a Set call naming several chunks that fails at a later chunk: judged under its own key
				kindNow = "failed-set-pin"
			}
			s := check(kindNow, op.name)
			x.Logf("      [%s]", s.Key())
			if s.Trigger {
				racedNow := ""
				processedAtRace = nil
				delFileFailed = map[string]bool{}
				var doneRoots []string
				race := func(point string) {
					k := x.Deviate(1 + len(raceOps))
					if k == 0 {
						return
					}
					r := raceOps[k-1]
					out := r.run(n)
					racedNow += r.kind + " "
					raced++
					processedAtRace = map[string]bool{}
					for _, d := range doneRoots {
						processedAtRace[d] = true
					}
					x.Logf("   .. inside the collection run, at %s: %s -> %s", point, r.name, out)
				}
				nCand := 0
				n.OnGCDelFile = func(root boson.Address) {
					nCand++
					race("entry of DelFile(" + u.Name(root) + ")")
				}
				n.AfterGCDelFile = func(root boson.Address, err error) {
					doneRoots = append(doneRoots, u.Name(root))
					if err != nil {
						delFileFailed[u.Name(root)] = true
					}
				}
				res := n.GCHooked(gcCap, func(run int) { race(fmt.Sprintf("the iterator hook of collectGarbage #%d", run+1)) })
				n.OnGCDelFile, n.AfterGCDelFile = nil, nil
				if nCand > res.Runs {
					x.Tag("collection-run-with-several-candidates")
				}
				gcs += res.Runs
				kind, what := "gc", "a collection run"
				if racedNow != "" {
					kind, what = "raced-gc", "a collection run raced by "+strings.TrimSpace(racedNow)
					x.Tag("gc-raced")
				}
				if res.Err != nil {
					x.Tag("gc-returned-error")
				}
				if res.CapHit {
					// never quiesces within the cap: the second sentence of the property does not apply; recorded, not judged
					x.Tag("gc-worker-loop-still-triggered-after-8-runs")
					x.Logf("GC runs=%d: still triggered after the cap", res.Runs)
					return
				}
				s2 := check(kind, what)
				x.Logf("GC runs=%d collected=%d done=%v err=%v   [%s]", res.Runs, res.Collected, res.Done, res.Err, s2.Key())
				x.Nontrivial()
				// quiesced: no trigger pending, last run reported done
				if sum := s2.GCSum(); sum > capacity {
					x.Fail("quiesced-above-capacity-after-"+kind, "collection quiesced after %s but the recorded cached-chunk total is %d > capacity %d   [%s]", what, sum, capacity, s2.Key())
				}
				x.Outcome(fmt.Sprintf("gc:runs=%d,raced=%v,err=%v", res.Runs, racedNow != "", res.Err != nil))
			} else if sum := s.GCSum(); sum > capacity {
				// no collection requested although the total exceeds the capacity
				x.Fail("idle-above-capacity-after-"+op.kind, "no collection pending after %s but the recorded cached-chunk total is %d > capacity %d   [%s]", op.name, sum, capacity, s.Key())
			}
			ik, err := n.InfoKey()
			x.NoErr(err, "infokey")
			sk, err := n.Snap()
			x.NoErr(err, "snapshot")
			if x.Seen(fmt.Sprintf("cap%d#", capacity)+sk.Key()+"#"+ik, steps-step-1) {
				return
			}
		}
		if gcs > 0 {
			x.Tag("execution-with-gc-run")
		}
	})
}
