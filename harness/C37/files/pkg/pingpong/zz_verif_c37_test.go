//go:build verif
// +build verif

package pingpong

import (
	"context"
	"io"
	"strings"
	"testing"

	"github.com/gauss-project/aurorafs/pkg/boson"
	"github.com/gauss-project/aurorafs/pkg/logging"
	"github.com/gauss-project/aurorafs/pkg/p2p"
	"github.com/gauss-project/aurorafs/pkg/pingpong/pb"
	"github.com/gauss-project/aurorafs/pkg/zzverif/mc"
	"github.com/gauss-project/aurorafs/pkg/zzverif/wire"
)

func c37Strings() []wire.BytesVal {
	return []wire.BytesVal{
		{Name: "empty", V: nil},
		{Name: "1-char", V: []byte("a")},
		{Name: "invalid-utf8", V: []byte{0xff, 0xfe, 0x80}},
		{Name: "nul-bytes", V: []byte{0, 0, 0}},
		{Name: "64KiB", V: []byte(strings.Repeat("x", 64<<10))},
		{Name: "1MiB-minus-8", V: []byte(strings.Repeat("y", 1<<20-8))}, // the echoed Pong exceeds the 1 MiB frame limit
	}
}

func TestVerifC37(t *testing.T) {
	peer := p2p.Peer{Address: boson.MustParseHexAddress("ca1e9f3938cc1425c6061b96ad9eb93e134dfe8734ad490164ef20af9d1cf59c")}
	logger := logging.New(io.Discard, 0)

	hcases := wire.Standard(&pb.Ping{Greeting: "hey"})
	ccases := wire.Standard(&pb.Pong{Response: "{hey}"})
	for _, s := range c37Strings() {
		hcases = append(hcases, wire.Msg("greeting-"+s.Name, &pb.Ping{Greeting: string(s.V)}))
		ccases = append(ccases, wire.Msg("response-"+s.Name, &pb.Pong{Response: string(s.V)}))
	}
	targets := []wire.Target{
		{Name: "handler(pingpong)", Cases: hcases, Run: func(x *mc.X, c wire.Case) string {
			s := New(nil, logger, nil)
			h := s.Protocol().StreamSpecs[0].Handler
			st := wire.NewStream(c.Data)
			return wire.ErrClass(h(context.Background(), peer, st))
		}},
		{Name: "client(Ping)", Cases: ccases, Run: func(x *mc.X, c wire.Case) string {
			sr := &wire.Streamer{Reply: func(boson.Address, string, string, int) []byte { return c.Data }}
			s := New(sr, logger, nil)
			_, err := s.Ping(context.Background(), peer.Address, "hey", "there")
			return wire.ErrClass(err)
		}},
	}
	wire.Explore(t, func(cfg mc.Config, body func(*mc.X)) { mc.Run(t, cfg, body) }, "C37-pingpong", map[string]interface{}{
		"alphabet": "valid; framing faults (every strict prefix, lying/oversized/overflowing length prefixes, empty frame, trailing garbage, repeated frame, garbage); wire faults (every single-bit flip, every field1..8 x wiretype0..7 tag prepended/appended/alone, lying bytes lengths, varint extremes); string field in {empty, 1 char, invalid UTF-8, NUL bytes, 64 KiB, 1 MiB-8}",
	}, targets)
}
