//go:build verif
// +build verif

package mem

// C36 (in-memory keystore): Key/Exists histories over 4 names x 4 passwords.
// ExportKey / ImportKey / ImportPrivateKey panic "implement me" in this
// implementation; the harness does not call them (see NOTES.md).

import (
	"crypto/ecdsa"
	"errors"
	"fmt"
	"sort"
	"strings"
	"testing"

	"github.com/gauss-project/aurorafs/pkg/keystore"
	"github.com/gauss-project/aurorafs/pkg/zzverif/mc"
)

func TestVerifC36Mem(t *testing.T) {
	depth := mc.EnvInt("VERIF_C36_MEM_DEPTH", mc.Pick(4, 5))
	names := []string{"a", "", "ключ", "a.b"}
	pws := []string{"", "p", "q", "пароль"} // "p"/"q": same length, different content
	type entry struct {
		key *ecdsa.PrivateKey
		pw  int
	}
	same := func(a, b *ecdsa.PrivateKey) bool {
		return a != nil && b != nil && a.D.Cmp(b.D) == 0 && a.PublicKey.X.Cmp(b.PublicKey.X) == 0
	}
	mc.Run(t, mc.Config{ID: "C36", Name: "C36-mem-histories", MaxDev: -1, Params: map[string]interface{}{
		"names": names, "passwords": []string{`""`, `"p"`, `"q"`, `"пароль"`}, "depth": depth, "ops_per_step": 1 + len(names)*len(pws),
		"alphabet": "stop | Key(n,p); Exists(all names) after every step"}},
		func(x *mc.X) {
			s := New()
			model := map[int]*entry{}
			for step := 0; step < depth; step++ {
				c := x.Choose(1 + len(names)*len(pws))
				if c == 0 {
					x.Logf("stop")
					return
				}
				n, p := (c-1)/len(pws), (c-1)%len(pws)
				k, created, err := s.Key(names[n], pws[p])
				x.Logf("Key(%q,%q) -> created=%v err=%v", names[n], pws[p], created, err)
				e, present := model[n]
				switch {
				case !present:
					x.Check(err == nil && created && k != nil, "create-failed", "step %d: Key(%q,%q) of a new name = created %v, err %v", step, names[n], pws[p], created, err)
					for o, oe := range model {
						x.Check(!same(oe.key, k), "new-key-equals-existing-key", "step %d: key created for %q equals the key of %q", step, names[n], names[o])
					}
					model[n] = &entry{k, p}
					x.Outcome("key:created")
				case e.pw == p:
					x.Check(err == nil && !created && same(k, e.key), "second-key-differs", "step %d: Key(%q,%q) on the stored name = created %v, err %v, same key %v", step, names[n], pws[p], created, err, err == nil && same(k, e.key))
					x.Nontrivial()
					x.Outcome("key:same")
				default:
					x.Check(err != nil, "wrong-password-accepted", "step %d: Key(%q,%q) succeeded (created=%v) although stored with %q", step, names[n], pws[p], created, pws[e.pw])
					x.Check(k == nil, "wrong-password-returns-key", "step %d: Key(%q,%q) was rejected but still returned a key", step, names[n], pws[p])
					x.Nontrivial()
					if errors.Is(err, keystore.ErrInvalidPassword) {
						x.Outcome("key:rejected:ErrInvalidPassword")
					} else {
						x.Outcome("key:rejected:other-error")
					}
					if len(pws[p]) == len(pws[e.pw]) {
						x.Tag("wrong-password-of-equal-length")
					}
				}
				for i, name := range names {
					ex, err := s.Exists(name)
					_, want := model[i]
					x.Check(err == nil && ex == want, "exists-wrong", "step %d: Exists(%q) = %v, %v; want %v", step, name, ex, err, want)
				}
				idx := make([]int, 0)
				for i := range model {
					idx = append(idx, i)
				}
				sort.Ints(idx)
				var b strings.Builder
				for _, i := range idx {
					fmt.Fprintf(&b, "%d:%d,", i, model[i].pw)
				}
				if x.Seen(b.String(), depth-step-1) {
					return
				}
			}
		})
}
