//go:build verif
// +build verif

package auth

import (
	"bytes"
	"encoding/base64"
	"encoding/json"
	"errors"
	"fmt"
	"io"
	"net/http"
	"net/http/httptest"
	"net/url"
	"sort"
	"strings"
	"testing"
	"time"

	"github.com/gauss-project/aurorafs/pkg/logging"
	"github.com/gauss-project/aurorafs/pkg/zzverif/mc"
)

// ---------------------------------------------------------------------------
// Reference policy: the harness's own copy of the role/path/method table (the
// specification snapshot) and an independent formulation of the matching rules
// of the access model:
//   - a role matches a row if it is the row's role, or it is "master";
//   - a row path without '*' matches exactly; with '*' everything that starts
//     with the text before the first '*' matches; the same with "/v1" in front;
//   - a row method pattern "(A)|(B)" / "A" matches a method that contains one of
//     the alternatives (the model uses an unanchored regular expression).
// ---------------------------------------------------------------------------

type verifRow struct{ role, path, act string }

var verifPolicy = []verifRow{
	{"consumer", "/apiPort", "GET"},
	{"consumer", "/bytes/*", "GET"},
	{"creator", "/bytes", "POST"},
	{"consumer", "/chunks/*", "GET"},
	{"creator", "/chunks", "POST"},
	{"creator", "/soc/*/*", "POST"},
	{"consumer", "/aurora", "GET"},
	{"creator", "/aurora", "POST"},
	{"consumer", "/aurora/*", "GET"},
	{"creator", "/aurora/*", "DELETE"},
	{"consumer", "/aurora/*/*", "GET"},
	{"consumer", "/manifest/*", "GET"},
	{"consumer", "/manifest/*/*", "GET"},
	{"creator", "/pins/*", "(GET)|(DELETE)|(POST)"},
	{"consumer", "/group/peers/*", "GET"},
	{"consumer", "/group/multicast/*", "POST"},
	{"consumer", "/group/send/*/*", "POST"},
	{"consumer", "/group/notify/*/*", "POST"},
	{"consumer", "/group/join/*", "(DELETE)|(POST)"},
	{"consumer", "/group/observe/*", "(DELETE)|(POST)"},
	{"maintainer", "/pins", "GET"},
	{"maintainer", "/addresses", "GET"},
	{"maintainer", "/pingpong/*", "POST"},
	{"maintainer", "/connect/*", "POST"},
	{"maintainer", "/peers", "GET"},
	{"maintainer", "/peers/*", "DELETE"},
	{"maintainer", "/blocklist", "GET"},
	{"maintainer", "/blocklist/*", "(DELETE)|(POST)"},
	{"maintainer", "/chunks/*", "(GET)|(DELETE)"},
	{"maintainer", "/topology", "GET"},
	{"maintainer", "/route/*", "(GET)|(DELETE)|(POST)"},
	{"maintainer", "/route/findunderlay/*", "GET"},
	{"maintainer", "/welcome-message", "(GET)|(POST)"},
	{"maintainer", "/chunk/discover/*", "GET"},
	{"maintainer", "/chunk/server/*", "GET"},
	{"maintainer", "/chunk/init/*", "GET"},
	{"maintainer", "/chunk/source/*", "GET"},
	{"maintainer", "/aco/*", "GET"},
	{"maintainer", "/keystore", "(GET)|(POST)"},
	{"maintainer", "/privatekey", "GET"},
	{"maintainer", "/transaction", "POST"},
	{"maintainer", "/topology/group", "GET"},
}

func verifPathMatch(path, pat string) bool {
	i := strings.IndexByte(pat, '*')
	if i < 0 {
		return path == pat
	}
	return strings.HasPrefix(path, pat[:i])
}

func verifActMatch(method, pat string) bool {
	for _, alt := range strings.Split(pat, "|") {
		alt = strings.TrimSuffix(strings.TrimPrefix(alt, "("), ")")
		if strings.Contains(method, alt) {
			return true
		}
	}
	return false
}

// verifAllows returns whether the policy allows (role, path, method) and the
// index of the first row that does (-1 if none).
func verifAllows(role, path, method string) (bool, int) {
	for i, r := range verifPolicy {
		if role != r.role && role != "master" {
			continue
		}
		if !verifPathMatch(path, r.path) && !verifPathMatch(path, "/v1"+r.path) {
			continue
		}
		if verifActMatch(method, r.act) {
			return true, i
		}
	}
	return false, -1
}

var verifRoles = []string{"consumer", "creator", "maintainer", "master", "", "unknown", "Consumer", "consumer "}
var verifMethods = []string{"GET", "POST", "DELETE", "PUT", "HEAD", "get", "GETX", ""}

// verifPaths instantiates every policy row with concrete segments plus the
// near-misses listed in NOTES.md; sorted and de-duplicated.
func verifPaths(full bool) []string {
	set := map[string]bool{"": true, "/": true, "/v1": true, "/v1/": true, "*": true, "/*": true, "/unknown": true}
	for _, r := range verifPolicy {
		segs := []string{"abc", "def"}
		n := 0
		inst := ""
		for _, c := range r.path {
			if c == '*' {
				inst += segs[n%2]
				n++
			} else {
				inst += string(c)
			}
		}
		set[inst] = true
		set["/v1"+inst] = true
		set[inst+"/x"] = true
		set[inst+"x"] = true
		set[inst[:strings.LastIndexByte(inst, '/')]] = true
		if full {
			set["/v2"+inst] = true
			set["/v1/v1"+inst] = true
			set["/v1"+inst+"/x"] = true
			set[inst+"/"] = true
			set[inst[1:]] = true
			set["/"+strings.ToUpper(inst[1:2])+inst[2:]] = true
			set[strings.ReplaceAll(r.path, "*", "")] = true
			set["/v1"+inst[:strings.LastIndexByte(inst, '/')]] = true
			set[inst[:len(inst)-1]] = true
		}
	}
	out := make([]string, 0, len(set))
	for p := range set {
		out = append(out, p)
	}
	sort.Strings(out)
	return out
}

const verifKey = "mZIODMvjsiS2VdK1xgI1cOTizhGVNoVz"

func verifNew(x *mc.X, key string) *Authenticator {
	a, err := New(key, "$2a$12$mZIODMvjsiS2VdK1xgI1cOTizhGVNoVz2Xn48H8ddFFLzX2B3lD3m", logging.New(io.Discard, 0))
	x.NoErr(err, "auth.New")
	return a
}

// verifSeal builds a token exactly the way GenerateKey does (JSON record sealed
// with this Authenticator's AES-GCM key, nonce in front, std base64), but with a
// caller-chosen nonce and plaintext so that the bytes are reproducible.
func verifSeal(a *Authenticator, nonceByte byte, plain []byte) (string, []byte) {
	nonce := bytes.Repeat([]byte{nonceByte}, a.ciph.gcm.NonceSize())
	raw := a.ciph.gcm.Seal(nonce, nonce, plain, nil)
	return base64.StdEncoding.EncodeToString(raw), raw
}

func verifRecord(x *mc.X, role string, exp time.Time) []byte {
	data, err := json.Marshal(authRecord{Role: role, Expiry: exp})
	x.NoErr(err, "marshal record")
	return data
}

// verifOpen is the harness's own opening of a token (used to inspect what
// GenerateKey / RefreshKey sealed).
func verifOpen(a *Authenticator, tok string) (authRecord, error) {
	var ar authRecord
	raw, err := base64.StdEncoding.DecodeString(tok)
	if err != nil {
		return ar, err
	}
	ns := a.ciph.gcm.NonceSize()
	if len(raw) < ns {
		return ar, errors.New("short")
	}
	plain, err := a.ciph.gcm.Open(nil, raw[:ns], raw[ns:], nil)
	if err != nil {
		return ar, err
	}
	err = json.Unmarshal(plain, &ar)
	return ar, err
}

// verifPanicKey: one key for the one known crash shape (a token that decodes to
// fewer bytes than the GCM nonce), a per-entry-point key for anything else.
func verifPanicKey(entry, tok string) string {
	tok = strings.TrimPrefix(tok, "Bearer ")
	if raw, err := base64.StdEncoding.DecodeString(tok); err == nil && len(raw) < 12 {
		return "short-token-panic"
	}
	return "panic-" + entry
}

func verifEnforce(x *mc.X, a *Authenticator, tok, path, method string) (ok bool, err error) {
	if p := mc.Try(func() { ok, err = a.Enforce(tok, path, method) }); p != nil {
		x.Fail(verifPanicKey("enforce", tok), "Enforce(%d-char token, %q, %q) panicked: %v", len(tok), path, method, p)
	}
	return
}

func verifRefresh(x *mc.X, a *Authenticator, tok string, d int) (nt string, err error) {
	if p := mc.Try(func() { nt, err = a.RefreshKey(tok, d) }); p != nil {
		x.Fail(verifPanicKey("refresh", tok), "RefreshKey(%d-char token, %d) panicked: %v", len(tok), d, p)
	}
	return
}

// verifServe presents an Authorization header through PermissionCheckHandler.
// passed = the wrapped handler was reached.
func verifServe(x *mc.X, a *Authenticator, setHeader bool, header, path, method string) (passed bool, status int) {
	next := http.HandlerFunc(func(w http.ResponseWriter, r *http.Request) { passed = true; w.WriteHeader(http.StatusOK) })
	h := PermissionCheckHandler(a)(next)
	req := &http.Request{Method: method, URL: &url.URL{Path: path}, Header: http.Header{}, Proto: "HTTP/1.1", ProtoMajor: 1, ProtoMinor: 1}
	if setHeader {
		req.Header.Set("Authorization", header)
	}
	rec := httptest.NewRecorder()
	if p := mc.Try(func() { h.ServeHTTP(rec, req) }); p != nil {
		x.Fail(verifPanicKey("handler", header), "PermissionCheckHandler(header %d chars, %q, %q) panicked: %v", len(header), path, method, p)
	}
	return passed, rec.Code
}

// verifBracket checks that the sealed record has the wanted role and an expiry
// of issue time + d seconds (issue time bracketed by t0/t1 read around the call).
func verifBracket(x *mc.X, a *Authenticator, what, tok, role string, d int, t0, t1 time.Time) {
	ar, err := verifOpen(a, tok)
	x.Check(err == nil, what+"-token-not-sealed-with-node-key", "%s returned a token that does not open under the node key: %v", what, err)
	x.Check(ar.Role == role, what+"-role-changed", "%s sealed role %q, want %q", what, ar.Role, role)
	lo := t0.Round(0).Add(time.Duration(d) * time.Second)
	hi := t1.Round(0).Add(time.Duration(d) * time.Second)
	x.Check(!ar.Expiry.Before(lo) && !ar.Expiry.After(hi), what+"-expiry-not-issue-time-plus-duration",
		"%s(%d s) sealed an expiry %v outside [issue+%ds]: off by %v", what, d, ar.Expiry, d, ar.Expiry.Sub(lo))
}

// ---------------------------------------------------------------------------
// Harness 1: role x expiry x path x method through the real GenerateKey/Enforce
// ---------------------------------------------------------------------------

type verifExpiry struct {
	name    string
	gen     int           // GenerateKey duration (seconds), 0 = hand-sealed
	abs     time.Time     // hand-sealed absolute expiry (if !zero)
	rel     time.Duration // hand-sealed expiry relative to now
	expired bool
}

var verifExpiries = []verifExpiry{
	{name: "gen+3600", gen: 3600},
	{name: "gen-1", gen: -1, expired: true},
	{name: "gen-3600", gen: -3600, expired: true},
	{name: "gen+1e6", gen: 1000000},
	{name: "sealed-2000-01-01", abs: time.Date(2000, 1, 1, 0, 0, 0, 0, time.UTC), expired: true},
	{name: "sealed-2100-01-01", abs: time.Date(2100, 1, 1, 0, 0, 0, 123456789, time.UTC)},
	{name: "sealed-now-1s", rel: -time.Second, expired: true},
	{name: "sealed-now+1h", rel: time.Hour},
}

func verifIssue(x *mc.X, a *Authenticator, role string, e verifExpiry) string {
	if e.gen != 0 {
		t0 := time.Now()
		tok, err := a.GenerateKey(role, e.gen)
		t1 := time.Now()
		x.Check(err == nil, "generate-failed", "GenerateKey(%q,%d): %v", role, e.gen, err)
		verifBracket(x, a, "generate", tok, role, e.gen, t0, t1)
		return tok
	}
	exp := e.abs
	if exp.IsZero() {
		exp = time.Now().Add(e.rel)
	}
	tok, _ := verifSeal(a, 0x42, verifRecord(x, role, exp))
	return tok
}

func TestVerifC35Policy(t *testing.T) {
	paths := verifPaths(mc.Thorough())
	roles := verifRoles
	exps := verifExpiries
	if !mc.Thorough() {
		roles = verifRoles[:6]
		exps = []verifExpiry{verifExpiries[0], verifExpiries[1], verifExpiries[4], verifExpiries[7]}
	}
	mc.Run(t, mc.Config{ID: "C35", Name: "C35-policy", MaxDev: -1, Params: map[string]interface{}{
		"roles": roles, "methods": verifMethods, "paths": len(paths), "path_sample": paths[:8],
		"expiries": func() []string {
			var s []string
			for _, e := range exps {
				s = append(s, e.name)
			}
			return s
		}(), "entry": []string{"Enforce", "PermissionCheckHandler"}}},
		func(x *mc.X) {
			// one flat choice for (path, role, method) followed by a one-valued choice:
			// the engine shards on the first two choice levels and balances best this way
			flat := x.Choose(len(paths) * len(roles) * len(verifMethods))
			x.Choose(1)
			path := paths[flat/(len(roles)*len(verifMethods))]
			role := roles[flat/len(verifMethods)%len(roles)]
			method := verifMethods[flat%len(verifMethods)]
			e := exps[x.Choose(len(exps))]
			viaHandler := x.Bool()
			x.Logf("case role=%q expiry=%s %s %q handler=%v", role, e.name, method, path, viaHandler)
			a := verifNew(x, verifKey)
			tok := verifIssue(x, a, role, e)
			polOK, row := verifAllows(role, path, method)
			want := polOK && !e.expired
			var got bool
			var err error
			if viaHandler {
				var st int
				got, st = verifServe(x, a, true, "Bearer "+tok, path, method)
				x.Logf("handler role=%q exp=%s %s %q -> passed=%v status=%d (policy row %d)", role, e.name, method, path, got, st, row)
				x.Check(got || st >= 400, "handler-refusal-without-error-status", "request not passed on but status %d", st)
				x.Outcome(fmt.Sprintf("handler-status-%d", st))
			} else {
				got, err = verifEnforce(x, a, tok, path, method)
				x.Logf("enforce role=%q exp=%s %s %q -> %v err=%v (policy row %d)", role, e.name, method, path, got, err, row)
				if e.expired {
					x.Check(err != nil, "expired-token-no-error", "expired token (%s) gave allow=%v without an error", e.name, got)
				}
				x.Outcome(fmt.Sprintf("enforce-allow=%v-err=%v", got, err != nil))
			}
			if got && e.expired {
				x.Fail("expired-token-honoured", "role %q expiry %s: %s %q honoured although the token is expired", role, e.name, method, path)
			}
			if got && !polOK {
				x.Fail("policy-denied-request-honoured", "role %q: %s %q honoured but no policy row allows it", role, method, path)
			}
			if !got && want {
				x.Fail("genuine-token-refused", "role %q expiry %s: %s %q refused (err=%v) although policy row %d %v allows it", role, e.name, method, path, err, row, verifPolicy[row])
			}
			if want {
				x.Nontrivial()
				x.Tag(fmt.Sprintf("allowed-by-row-%02d", row))
			}
			if polOK && e.expired {
				x.Tag("expired-but-policy-would-allow")
			}
			if polOK && role == "master" {
				x.Tag("master-allowed")
			}
		})
}

// ---------------------------------------------------------------------------
// Harness 2: refresh sequences
// ---------------------------------------------------------------------------

func TestVerifC35Refresh(t *testing.T) {
	depth := mc.Pick(3, 4)
	durs := []int{3600, -1, 0, 7200, -3600}
	roles := []string{"consumer", "creator", "maintainer", "master", "", "unknown"}
	// a request each role may make, and one only another role may make
	probe := map[string][2][2]string{
		"consumer":   {{"/bytes/abc", "GET"}, {"/keystore", "POST"}},
		"creator":    {{"/bytes", "POST"}, {"/privatekey", "GET"}},
		"maintainer": {{"/privatekey", "GET"}, {"/bytes", "POST"}},
		"master":     {{"/transaction", "POST"}, {"/transaction", "PUT"}},
		"":           {{"/bytes/abc", "GET"}, {"/privatekey", "GET"}},
		"unknown":    {{"/bytes/abc", "GET"}, {"/privatekey", "GET"}},
	}
	mc.Run(t, mc.Config{ID: "C35", Name: "C35-refresh", MaxDev: -1, Params: map[string]interface{}{
		"roles": roles, "initial": []string{"gen+3600", "gen-1", "sealed-2000-01-01", "sealed-now+1h"}, "refresh_durations_s": durs, "depth": depth}},
		func(x *mc.X) {
			role := roles[x.Choose(len(roles))]
			init := []verifExpiry{verifExpiries[0], verifExpiries[1], verifExpiries[4], verifExpiries[7]}[x.Choose(4)]
			x.Logf("issue role=%q %s", role, init.name)
			a := verifNew(x, verifKey)
			tok := verifIssue(x, a, role, init)
			expired := init.expired
			pr := probe[role]
			observe := func(when string) {
				for i, p := range pr {
					polOK, _ := verifAllows(role, p[0], p[1])
					got, err := verifEnforce(x, a, tok, p[0], p[1])
					x.Logf("  %s: enforce %s %s -> %v err=%v", when, p[1], p[0], got, err != nil)
					if got && expired {
						x.Fail("expired-token-honoured-after-refresh-sequence", "%s: role %q %s %s honoured although the token is expired", when, role, p[1], p[0])
					}
					if got && !polOK {
						x.Fail("refresh-escalated-role", "%s: role %q %s %s honoured, policy denies it", when, role, p[1], p[0])
					}
					if !got && polOK && !expired {
						x.Fail("genuine-token-refused", "%s: role %q %s %s refused (err=%v)", when, role, p[1], p[0], err)
					}
					_ = i
				}
			}
			observe("initial")
			refreshes, revivals := 0, 0
			for step := 0; step < depth; step++ {
				c := x.Choose(len(durs) + 1)
				if c == len(durs) {
					x.Logf("stop")
					break
				}
				d := durs[c]
				t0 := time.Now()
				nt, err := verifRefresh(x, a, tok, d)
				t1 := time.Now()
				x.Logf("refresh(%d) of %s token -> err=%v", d, map[bool]string{true: "expired", false: "live"}[expired], err)
				if expired {
					revivals++
					x.Tag("refresh-of-expired-token")
					x.Check(err != nil, "refresh-revived-expired-token", "RefreshKey(%d) of an expired %q token succeeded", d, role)
					if nt != "" {
						ok, _ := verifEnforce(x, a, nt, pr[0][0], pr[0][1])
						x.Check(!ok, "refresh-revived-expired-token", "RefreshKey(%d) of an expired token returned a token that is honoured", d)
					}
					x.Outcome("refresh-expired-rejected")
					continue
				}
				if d == 0 {
					// the statement says nothing about a zero duration: only look at it
					if err != nil {
						x.Outcome("refresh-zero-duration-rejected")
						continue
					}
					x.Outcome("refresh-zero-duration-accepted")
					verifBracket(x, a, "refresh", nt, role, d, t0, t1)
					return // validity of an expiry of exactly "now" is not decidable without a clock
				}
				x.Check(err == nil, "refresh-of-live-token-failed", "RefreshKey(%d) of a live %q token: %v", d, role, err)
				verifBracket(x, a, "refresh", nt, role, d, t0, t1)
				x.Check(nt != tok, "refresh-returned-same-token", "refresh returned the identical string")
				tok = nt
				expired = d < 0
				refreshes++
				x.Outcome(fmt.Sprintf("refresh-ok-expired=%v", expired))
				observe(fmt.Sprintf("after refresh %d", step+1))
			}
			if refreshes >= 2 || (refreshes >= 1 && revivals >= 1) {
				x.Nontrivial()
			}
			if refreshes >= 1 && revivals >= 1 {
				x.Tag("refreshed-to-expired-then-refresh-attempt")
			}
		})
}

// ---------------------------------------------------------------------------
// Harness 3: malformed / tampered tokens at all three entry points
// ---------------------------------------------------------------------------

type verifBad struct {
	desc string
	tok  string
}

const verifB64 = "ABCDEFGHIJKLMNOPQRSTUVWXYZabcdefghijklmnopqrstuvwxyz0123456789+/"

// verifMalformed derives the menu of altered tokens from a reproducible genuine
// token. The second result lists, per entry, whether the string still decodes to
// exactly the genuine bytes (then it IS the genuine token).
func verifMalformed(x *mc.X, a *Authenticator, other *Authenticator) (good string, raw []byte, bad []verifBad) {
	far := time.Date(2100, 1, 1, 0, 0, 0, 123456789, time.UTC)
	plain := verifRecord(x, "consumer", far)
	good, raw = verifSeal(a, 0x42, plain)
	add := func(d, t string) { bad = append(bad, verifBad{d, t}) }
	enc := base64.StdEncoding.EncodeToString
	for k := 0; k < len(good); k++ {
		add(fmt.Sprintf("string truncated to %d of %d chars", k, len(good)), good[:k])
	}
	for k := 0; k < len(raw); k++ {
		add(fmt.Sprintf("bytes truncated to %d of %d, re-encoded", k, len(raw)), enc(raw[:k]))
	}
	for k := 1; k < len(raw); k++ {
		add(fmt.Sprintf("first %d bytes removed, re-encoded", k), enc(raw[k:]))
	}
	for bit := 0; bit < 8*len(raw); bit++ {
		m := append([]byte{}, raw...)
		m[bit/8] ^= 1 << uint(bit%8)
		add(fmt.Sprintf("bit %d of byte %d flipped", bit%8, bit/8), enc(m))
	}
	for p := 0; p < len(good); p++ {
		if good[p] == '=' {
			for _, c := range []byte{'A', 'B', '/'} {
				add(fmt.Sprintf("padding char %d replaced by %q", p, c), good[:p]+string(c)+good[p+1:])
			}
			continue
		}
		idx := strings.IndexByte(verifB64, good[p])
		for _, delta := range []int{1, 2, 32, 63} {
			c := verifB64[(idx+delta)%64]
			add(fmt.Sprintf("char %d shifted by %d in the base64 alphabet", p, delta), good[:p]+string(c)+good[p+1:])
		}
		for _, c := range []byte{'-', ' ', '\n', '=', 0} {
			add(fmt.Sprintf("char %d replaced by %q", p, c), good[:p]+string(c)+good[p+1:])
		}
	}
	for _, extra := range [][]byte{{0}, {0xff}, {1, 2, 3}} {
		add(fmt.Sprintf("%d bytes appended", len(extra)), enc(append(append([]byte{}, raw...), extra...)))
		add(fmt.Sprintf("%d bytes prepended", len(extra)), enc(append(append([]byte{}, extra...), raw...)))
	}
	add("token twice", good+good)
	add("newline appended", good+"\n")
	add("newline inserted", good[:20]+"\r\n"+good[20:])
	add("space appended", good+" ")
	add("url-safe alphabet", base64.URLEncoding.EncodeToString(raw))
	add("no padding", base64.RawStdEncoding.EncodeToString(raw))
	add("hex", fmt.Sprintf("%x", raw))
	for _, s := range []string{"!", "!!!!", "Bearer", "=", "====", "A", "AA", "AAA", "A===", "null", "{}", "\x00", "ключ", strings.Repeat("A", 16), strings.Repeat("A", 15), strings.Repeat("/", 4096)} {
		add(fmt.Sprintf("fixed string %q", s[:verifMin(len(s), 20)]), s)
	}
	// sealed under a different key, same nonce and record
	ft, _ := verifSeal(other, 0x42, plain)
	add("sealed under another key", ft)
	// nonce of the genuine token with another key's ciphertext
	_, fraw := verifSeal(other, 0x42, plain)
	add("genuine nonce + foreign ciphertext", enc(append(append([]byte{}, raw[:12]...), fraw[12:]...)))
	// correctly sealed plaintexts that are not a token record: must not crash
	for _, p := range []string{"", "null", "{}", "[]", "\"x\"", "{\"r\":1}", "{\"r\":\"master\"}", "{\"r\":\"master\",\"e\":\"never\"}", "{\"r\":\"master\",\"e\":null}", "not json", "{\"r\":\"master\",\"e\":\"2100-01-01T00:00:00Z\""} {
		st, _ := verifSeal(a, 0x43, []byte(p))
		add(fmt.Sprintf("node-key-sealed non-record %q", p), st)
	}
	return
}

func verifMin(a, b int) int {
	if a < b {
		return a
	}
	return b
}

func TestVerifC35Malformed(t *testing.T) {
	// the menu is a pure function of fixed inputs (fixed keys, nonce, record):
	// it is computed once per process; the Authenticator is still fresh per execution
	var good string
	var raw []byte
	var bad []verifBad
	{
		a, err := New(verifKey, "x", logging.New(io.Discard, 0))
		if err != nil {
			t.Fatal(err)
		}
		b, err := New("another key", "x", logging.New(io.Discard, 0))
		if err != nil {
			t.Fatal(err)
		}
		good, raw, bad = verifMalformed(&mc.X{}, a, b)
	}
	n := len(bad)
	entries := []string{"Enforce", "RefreshKey", "PermissionCheckHandler"}
	mc.Run(t, mc.Config{ID: "C35", Name: "C35-malformed", MaxDev: -1, Params: map[string]interface{}{
		"altered_tokens": n, "entries": entries, "genuine_token_chars": len(good), "genuine_token_bytes": len(raw),
		"menu": "every string truncation; every byte truncation (front and back) re-encoded; every single-bit flip; every char shifted by {1,2,32,63} in the base64 alphabet or replaced by {-,space,\\n,=,NUL}; appended/prepended bytes; other encodings; fixed garbage strings; foreign key; node-key-sealed non-records"}},
		func(x *mc.X) {
			a := verifNew(x, verifKey)
			b := bad[x.Choose(n)]
			entry := x.Choose(len(entries))
			x.Logf("case: %s via %s", b.desc, entries[entry])
			// the genuine token itself must be honoured, otherwise nothing below means anything
			ok, err := verifEnforce(x, a, good, "/apiPort", "GET")
			x.Check(ok && err == nil, "genuine-token-refused", "hand-sealed genuine consumer token refused: %v", err)
			dec, derr := base64.StdEncoding.DecodeString(b.tok)
			same := derr == nil && bytes.Equal(dec, raw)
			rec, oerr := verifOpen(a, b.tok)
			sealedRecord := oerr == nil && !rec.Expiry.IsZero()
			x.Logf("decodes=%v same-bytes=%v", derr == nil, same)
			class := "altered"
			if same {
				class = "same-bytes"
				x.Tag("string-change-that-decodes-to-the-genuine-bytes")
			} else if derr != nil {
				class = "not-base64"
			} else if len(dec) < 12 {
				class = "shorter-than-nonce"
				x.Tag("decodes-to-fewer-bytes-than-the-nonce")
			} else if oerr == nil || !strings.Contains(oerr.Error(), "authentication") {
				class = "node-key-sealed-non-record"
			}
			x.Nontrivial()
			var honoured bool
			switch entry {
			case 0:
				var e error
				honoured, e = verifEnforce(x, a, b.tok, "/apiPort", "GET")
				if !same {
					x.Check(e != nil || sealedRecord, "malformed-token-no-error", "%s: Enforce returned allow=%v with a nil error", b.desc, honoured)
				}
				x.Outcome(fmt.Sprintf("enforce-%s-allow=%v-err=%v", class, honoured, e != nil))
			case 1:
				nt, e := verifRefresh(x, a, b.tok, 3600)
				honoured = e == nil
				if nt != "" && !same {
					h2, _ := verifEnforce(x, a, nt, "/apiPort", "GET")
					x.Check(!h2 || sealedRecord, "refresh-laundered-altered-token", "%s: RefreshKey returned a token that is honoured", b.desc)
				}
				x.Outcome(fmt.Sprintf("refresh-%s-ok=%v", class, e == nil))
			case 2:
				var st int
				honoured, st = verifServe(x, a, true, "Bearer "+b.tok, "/apiPort", "GET")
				x.Check(honoured || st >= 400, "handler-refusal-without-error-status", "%s: not passed on but status %d", b.desc, st)
				x.Outcome(fmt.Sprintf("handler-%s-status-%d", class, st))
			}
			if honoured && !same && !sealedRecord {
				x.Fail("altered-token-honoured", "%s: honoured by %s", b.desc, entries[entry])
			}
			if honoured && sealedRecord && !same {
				// a record really sealed with the node key (only the harness can make these)
				x.Tag("node-key-sealed-record-honoured")
			}
		})
}

// ---------------------------------------------------------------------------
// Harness 4: Authorization header shapes
// ---------------------------------------------------------------------------

func TestVerifC35Header(t *testing.T) {
	shapes := []string{"<missing>", "T", "Bearer T", "Bearer  T", "Bearer TBearer T", "bearer T", "Bearer ", "Bearer    ", "Basic T", "Bearer T ", "Bearer Bearer T", "BearerT", " Bearer T", "Bearer T Bearer ", "Bearer\tT", ""}
	tokens := []string{"live-consumer", "live-maintainer", "live-master", "expired-consumer", "bit-flipped", "foreign-key", "short-AAAA", "not-base64", "empty"}
	reqs := [][2]string{{"/bytes/abc", "GET"}, {"/v1/bytes/abc", "GET"}, {"/privatekey", "GET"}, {"/bytes/abc", "PATCH"}}
	mc.Run(t, mc.Config{ID: "C35", Name: "C35-header", MaxDev: -1, Params: map[string]interface{}{
		"header_shapes": shapes, "tokens": tokens, "requests": reqs}},
		func(x *mc.X) {
			shape := shapes[x.Choose(len(shapes))]
			tk := x.Choose(len(tokens))
			rq := reqs[x.Choose(len(reqs))]
			x.Logf("case: header shape %q with %s token, %s %s", shape, tokens[tk], rq[1], rq[0])
			a := verifNew(x, verifKey)
			var tok, role string
			live := false
			gen := func(r string, d int) string {
				s, err := a.GenerateKey(r, d)
				x.NoErr(err, "GenerateKey")
				return s
			}
			switch tokens[tk] {
			case "live-consumer":
				tok, role, live = gen("consumer", 3600), "consumer", true
			case "live-maintainer":
				tok, role, live = gen("maintainer", 3600), "maintainer", true
			case "live-master":
				tok, role, live = gen("master", 3600), "master", true
			case "expired-consumer":
				tok, role = gen("consumer", -1), "consumer"
			case "bit-flipped":
				raw, _ := base64.StdEncoding.DecodeString(gen("master", 3600))
				raw[len(raw)/2] ^= 0x10
				tok = base64.StdEncoding.EncodeToString(raw)
			case "foreign-key":
				s, err := verifNew(x, "another key").GenerateKey("master", 3600)
				x.NoErr(err, "GenerateKey")
				tok = s
			case "short-AAAA":
				tok = "AAAA"
			case "not-base64":
				tok = "!!!!"
			case "empty":
				tok = ""
			}
			set := shape != "<missing>"
			header := strings.ReplaceAll(shape, "T", tok)
			polOK, _ := verifAllows(role, rq[0], rq[1])
			good := live && polOK
			passed, st := verifServe(x, a, set, header, rq[0], rq[1])
			x.Logf("header shape %q with %s token, %s %s -> passed=%v status=%d", shape, tokens[tk], rq[1], rq[0], passed, st)
			x.Outcome(fmt.Sprintf("passed=%v-status-%d", passed, st))
			if passed && !good {
				x.Fail("handler-passed-bad-token", "shape %q token %s %s %s: request passed on", shape, tokens[tk], rq[1], rq[0])
			}
			if !passed && good && shape == "Bearer T" {
				x.Fail("genuine-token-refused", "well-formed header with live %s token refused for %s %s: status %d", role, rq[1], rq[0], st)
			}
			x.Check(passed || st >= 400, "handler-refusal-without-error-status", "not passed on but status %d", st)
			if passed {
				x.Nontrivial()
			}
			if passed && shape != "Bearer T" {
				// the header carried the genuine token in a shape the handler tolerates
				x.Tag("passed-with-nonstandard-header-shape")
			}
		})
}
