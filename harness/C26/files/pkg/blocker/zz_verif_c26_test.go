//go:build verif && go1.18
// +build verif,go1.18

package blocker

import (
	"fmt"
	"io"
	"testing"
	"time"

	"github.com/gauss-project/aurorafs/pkg/boson"
	"github.com/gauss-project/aurorafs/pkg/logging"
	"github.com/gauss-project/aurorafs/pkg/p2p"
	"github.com/gauss-project/aurorafs/pkg/zzverif/mc"
	"github.com/gauss-project/aurorafs/pkg/zzverif/vsched"
)

const c26TimeoutTicks = 3 // flagTimeout / sequencerResolution

type c26lister struct {
	avail  bool
	onList func(boson.Address) error
}

func (l *c26lister) NetworkStatus() p2p.NetworkStatus {
	if l.avail {
		return p2p.NetworkStatusAvailable
	}
	return p2p.NetworkStatusUnavailable
}
func (l *c26lister) Blocklist(a boson.Address, _ time.Duration, _ string) error {
	return l.onList(a)
}

// per-peer monitor automaton, fed with events in the order the scheduler executed them
type c26mon struct {
	flagged   bool
	sinceCall time.Duration // virtual time when the accepted Flag was called (most permissive start)
	sinceRet  time.Duration // virtual time when it returned (most conservative start)
	blocks    int
}

// network availability history: toggles at virtual times
type c26net struct {
	at  []time.Duration
	val []bool
}

// availAt reports the availability at instant k; at the exact instant of a toggle the
// answer is `tie` (true = permissive, false = conservative).
func (n *c26net) availAt(k time.Duration, tie bool) bool {
	v := true
	for i, t := range n.at {
		if t < k {
			v = n.val[i]
		} else if t == k {
			return tie
		}
	}
	return v
}

// ticks counts the sequencer ticks (one per whole second of virtual time, the sequencer
// re-arms at the instant it fires) between from and to during which the network was
// available. permissive: both ends closed and toggle ties count; conservative: both open.
func (n *c26net) ticks(from, to time.Duration, permissive bool) int {
	c := 0
	for k := time.Second; k <= to; k += time.Second {
		if permissive {
			if k >= from && k <= to && n.availAt(k, true) {
				c++
			}
		} else if k > from && k < to && n.availAt(k, false) {
			c++
		}
	}
	return c
}

func TestVerifC26(t *testing.T) {
	// all operations, short histories
	c26run(t, "C26-blocker", mc.Pick(3, 4), mc.Pick(2, 3), mc.Pick(8, 9), nil)
}

// TestVerifC26Outage: longer histories over the operations that matter for the clause
// "counted only while the network is available": flag, network toggles and sleeps.
func TestVerifC26Outage(t *testing.T) {
	c26run(t, "C26-blocker-outage", mc.Pick(5, 6), mc.Pick(1, 2), 0, []int{1, 4, 5, 6})
}

// TestVerifC26Recovery: histories over flag, the two ways a flagged peer stops being flagged
// (a success, a prune), network toggles and a sleep longer than the timeout: a peer whose
// success or prune arrives during an outage is no longer flagged when the network returns.
func TestVerifC26Recovery(t *testing.T) {
	c26run(t, "C26-blocker-recovery-during-outage", mc.Pick(5, 6), mc.Pick(1, 2), 0, []int{1, 2, 3, 4, 6})
}

// c26run explores driver histories of up to depth operations; the alphabet is ops 1..nOps-1
// or, when menu is given, exactly the listed operation numbers.
func c26run(t *testing.T, name string, depth, maxDev, nOps int, menu []int) {
	if menu != nil {
		nOps = len(menu) + 1
	}
	// the package's own TestMain shortens the resolution for its wall-clock tests; under the
	// virtual clock the shipped value is used
	sequencerResolution = time.Second
	peers := []boson.Address{boson.MustParseHexAddress("aa00000000000000000000000000000000000000000000000000000000000000"), boson.MustParseHexAddress("bb00000000000000000000000000000000000000000000000000000000000000")}
	idx := func(a boson.Address) int {
		if a.Equal(peers[0]) {
			return 0
		}
		return 1
	}
	mc.Run(t, mc.Config{ID: "C26", Name: name, MaxDev: maxDev, ShardLevels: 3, Params: map[string]interface{}{
		"driver_ops": depth, "operation_menu": fmt.Sprint(menu), "deviation_bound": maxDev, "flag_timeout": "3s", "wakeup": "1s", "resolution": "1s", "timer_horizon": 60,
		"alphabet":  "Flag(p) Flag(q) Unflag(p) PruneUnseen({q}) PruneUnseen({p,q}) ToggleNetwork Sleep(1s) Sleep(4s); plus at most one racer thread (Unflag(p)|Unflag(q)|PruneUnseen({})) started while a Blocklist call is in progress",
		"deviations": "a timer firing while the driver could run; a non-default order of timers due at the same instant; a preemption"}},
		func(x *mc.X) {
			mon := [2]*c26mon{{}, {}}
			var b *Blocker
			lister := &c26lister{avail: true}
			seq := func() uint64 { return b.sequence.Peek() }
			net := &c26net{}
			vnow := func() time.Duration { return vsched.Current().Elapsed() }
			violation, vkey := "", ""
			racers := 0
			faults := 0
			lister.onList = func(a boson.Address) error {
				i := idx(a)
				m := mon[i]
				now := seq()
				x.Logf("  Blocklist(%d) at seq %d (+%v)", i, now, vsched.Current().Elapsed())
				switch {
				case !m.flagged:
					if violation == "" {
						vkey, violation = "blocklisted-while-not-flagged", fmt.Sprintf("peer %d blocklisted at seq %d although it is not flagged (succeeded, pruned, already blocklisted or never flagged)", i, now)
					}
				case net.ticks(m.sinceCall, vnow(), true) <= c26TimeoutTicks:
					if violation == "" {
						vkey, violation = "blocklisted-too-early", fmt.Sprintf("peer %d blocklisted at +%v, flagged since +%v: at most %d sequencer ticks with the network available lie in between; it must stay flagged for more than %d", i, vnow(), m.sinceCall, net.ticks(m.sinceCall, vnow(), true), c26TimeoutTicks)
					}
				}
				m.flagged = false
				m.blocks++
				x.Tag("blocklisted")
				// the blocklister is another component (I/O): while this call is in progress another
				// goroutine may run a Blocker operation to completion, if the Blocker lets it
				if racers < 1 {
					if r := x.Deviate(4); r > 0 {
						racers++
						s := vsched.Current()
						s.Go("racer", func() {
							switch r {
							case 1, 2:
								b.Unflag(peers[r-1])
								mon[r-1].flagged = false
								x.Logf("  racer: Unflag(%d) returned", r-1)
							case 3:
								b.PruneUnseen(nil)
								mon[0].flagged, mon[1].flagged = false, false
								x.Logf("  racer: PruneUnseen({}) returned")
							}
						})
						s.Quiesce()
						x.Tag("racer-during-blocklist")
					}
				}
				// the blocklister may fail (implementation-side fault); the flag period has still
				// led to its one blocklisting
				if faults < 1 && x.Deviate(2) == 1 {
					faults++
					x.Tag("blocklist-call-failed")
					return fmt.Errorf("blocklist unavailable")
				}
				return nil
			}
			verdict := vsched.Run(x, vsched.Options{MaxSteps: 20000, MaxTimers: 60, DelayBounded: true, Trace: mc.EnvInt("VERIF_TRACE", 0) == 1}, func(s *vsched.S) {
				b = New(lister, 3*time.Second, time.Minute, time.Second, nil, logging.New(io.Discard, 0))
				for step := 0; step < depth; step++ {
					op := x.Choose(nOps)
					if op == 0 {
						x.Logf("stop")
						break
					}
					if menu != nil {
						op = menu[op-1]
					}
					switch op {
					case 1, 7:
						i := 0
						if op == 7 {
							i = 1
						}
						m := mon[i]
						accepted := lister.avail
						before := vnow()
						if accepted && !m.flagged {
							m.flagged, m.sinceCall = true, before
						}
						b.Flag(peers[i])
						if accepted && !m.flagged {
							// blocklisted from an older period while Flag was running, then flagged anew
							m.flagged, m.sinceCall = true, before
						}
						if accepted && m.sinceCall == before {
							m.sinceRet = vnow()
						}
						x.Logf("Flag(%d) avail=%v seq=%d", i, accepted, seq())
					case 2:
						b.Unflag(peers[0])
						mon[0].flagged = false
						x.Logf("Unflag(0) seq=%d", seq())
					case 3:
						b.PruneUnseen([]boson.Address{peers[1]})
						mon[0].flagged = false
						x.Logf("PruneUnseen({1}) seq=%d", seq())
					case 8:
						b.PruneUnseen([]boson.Address{peers[0], peers[1]})
						x.Logf("PruneUnseen({0,1}) seq=%d", seq())
					case 4:
						lister.avail = !lister.avail
						net.at, net.val = append(net.at, vnow()), append(net.val, lister.avail)
						x.Logf("network available=%v", lister.avail)
					case 5:
						vsched.Sleep(time.Second)
						x.Logf("Sleep(1s) -> +%v seq=%d", s.Elapsed(), seq())
					case 6:
						vsched.Sleep(4 * time.Second)
						x.Logf("Sleep(4s) -> +%v seq=%d", s.Elapsed(), seq())
					}
				}
				// liveness inside the horizon: a peer that has been flagged for more than the timeout
				// before a quiet period containing two full sweeps must have been blocklisted by its end
				due := [2]bool{}
				for i, m := range mon {
					due[i] = m.flagged && net.ticks(m.sinceRet, vnow(), false) > c26TimeoutTicks
				}
				if due[0] || due[1] || mon[0].flagged || mon[1].flagged {
					// (also when merely flagged: a too-early blocklisting would show up here)
					vsched.Sleep(2500 * time.Millisecond)
				}
				x.Logf("final quiet period -> +%v seq=%d fired=%d", s.Elapsed(), seq(), s.TimersFired())
				if s.TimersFired() >= 60 {
					x.Tag("timer-horizon-hit")
				} else if s.TimeSkewed() {
					// a runnable goroutine was starved while virtual time advanced: the whole-second
					// tick model behind the liveness clause does not apply to this schedule
					x.Tag("liveness-skipped-time-skew")
				} else {
					for i, m := range mon {
						if due[i] && m.flagged && violation == "" {
							vkey, violation = "not-blocklisted-after-timeout", fmt.Sprintf("peer %d stayed flagged for more than %d available ticks and two further sweeps passed, but it was not blocklisted", i, c26TimeoutTicks)
						}
					}
				}
				_ = b.Close()
				if s.Preemptions() > 0 {
					x.Nontrivial()
				}
			})
			if verdict != "" {
				x.Fail("deadlock", "scheduler verdict %s", verdict)
			}
			if violation != "" {
				x.Fail(vkey, "%s", violation)
			}
			for i, m := range mon {
				_ = i
				if m.blocks > 0 {
					x.Nontrivial()
				}
			}
			x.Outcome(fmt.Sprintf("blocks=%d/%d", mon[0].blocks, mon[1].blocks))
			x.State(fmt.Sprintf("%d/%d|%v/%v|%d|%v", mon[0].blocks, mon[1].blocks, mon[0].flagged, mon[1].flagged, b.sequence.Peek(), lister.avail))
		})
}
