//go:build verif
// +build verif

package handshake

import (
	"bytes"
	"context"
	"errors"
	"io"
	"testing"

	"github.com/gauss-project/aurorafs/pkg/aurora"
	"github.com/gauss-project/aurorafs/pkg/crypto"
	"github.com/gauss-project/aurorafs/pkg/logging"
	"github.com/gauss-project/aurorafs/pkg/p2p/libp2p/internal/handshake/mock"
	"github.com/gauss-project/aurorafs/pkg/p2p/libp2p/internal/handshake/pb"
	"github.com/gauss-project/aurorafs/pkg/p2p/protobuf"
	"github.com/gauss-project/aurorafs/pkg/topology/lightnode"
	"github.com/gauss-project/aurorafs/pkg/zzverif/c34ref"
	"github.com/gauss-project/aurorafs/pkg/zzverif/mc"
	libp2ppeer "github.com/libp2p/go-libp2p-core/peer"
	ma "github.com/multiformats/go-multiaddr"
)

func verifChooseIdx(x *mc.X, n int) int {
	const k = 8
	hi := x.Choose((n + k - 1) / k)
	rem := n - hi*k
	if rem > k {
		rem = k
	}
	return hi*k + x.Choose(rem)
}

type verifResolver struct{}

func (verifResolver) Resolve(m ma.Multiaddr) (ma.Multiaddr, error) { return m, nil }

// the local (verifying) node's address; the remote node uses c34ref.Underlays
const verifLocalUnderlay = "/ip4/10.0.0.7/tcp/1634/p2p/16Uiu2HAkx8ULY8cTXhdVAcMmLcH9AsTKz6uBQ7DPLKRjMLgBVYkS"

type verifNode struct {
	svc     *Service
	full    ma.Multiaddr // with /p2p
	addr    ma.Multiaddr // transport part
	id      libp2ppeer.ID
	overlay []byte
}

func verifNewNode(x *mc.X, key []byte, underlay string, networkID uint64) *verifNode {
	priv := crypto.Secp256k1PrivateKeyFromBytes(key)
	ov, err := crypto.NewOverlayAddress(priv.PublicKey, networkID)
	x.NoErr(err, "NewOverlayAddress")
	full, err := ma.NewMultiaddr(underlay)
	x.NoErr(err, "NewMultiaddr")
	info, err := libp2ppeer.AddrInfoFromP2pAddr(full)
	x.NoErr(err, "AddrInfoFromP2pAddr")
	svc, err := New(crypto.NewDefaultSigner(priv), verifResolver{}, ov, networkID, aurora.NewModel().SetMode(aurora.FullNode), "hi", info.ID,
		logging.New(io.Discard, 0), lightnode.NewContainer(ov), lightnode.DefaultLightNodeLimit)
	x.NoErr(err, "handshake.New")
	return &verifNode{svc: svc, full: full, addr: info.Addrs[0], id: info.ID, overlay: ov.Bytes()}
}

func verifEncode(x *mc.X, msgs ...interface {
	Reset()
	String() string
	ProtoMessage()
}) *bytes.Buffer {
	var buf, sink bytes.Buffer
	w, _ := protobuf.NewWriterAndReader(mock.NewStream(&sink, &buf))
	for _, m := range msgs {
		x.NoErr(w.WriteMsg(m), "encode message")
	}
	return &buf
}

func verifTimeout(x *mc.X, err error) {
	if err != nil && (errors.Is(err, context.DeadlineExceeded) || errors.Is(err, context.Canceled)) {
		x.Broken("handshake hit its wall-clock timeout (machine overloaded?): %v", err)
	}
}

// verifRemoteSynAck runs the remote node's real Handle on the local node's Syn
// and returns the SynAck it wrote (it then fails reading the Ack, which has
// not been produced yet).
func verifRemoteSynAck(x *mc.X, remote, local *verifNode) *pb.SynAck {
	rfull, err := remote.full.MarshalBinary()
	x.NoErr(err, "marshal underlay")
	in := verifEncode(x, &pb.Syn{ObservedUnderlay: rfull})
	var out bytes.Buffer
	_, herr := remote.svc.Handle(context.Background(), mock.NewStream(in, &out), local.addr, local.id)
	verifTimeout(x, herr)
	if herr == nil {
		x.Broken("remote Handle succeeded without an Ack")
	}
	var sa pb.SynAck
	_, r := protobuf.NewWriterAndReader(mock.NewStream(&out, &bytes.Buffer{}))
	x.NoErr(r.ReadMsg(&sa), "decode SynAck written by the remote Handle")
	if sa.Ack == nil || sa.Ack.Address == nil {
		x.Broken("remote SynAck carries no address")
	}
	return &sa
}

func TestVerifC34Handshake(t *testing.T) {
	if c34ref.InitErr != nil {
		t.Fatalf("BROKEN-CHECK %v", c34ref.InitErr)
	}
	nk := len(c34ref.Keys)
	type base struct {
		rec c34ref.Record
		ops []c34ref.Op
	}
	memo := map[int]*base{}
	mc.Run(t, mc.Config{ID: "C34", Name: "C34-handshake", MaxDev: -1, Params: map[string]interface{}{
		"keys":        c34ref.KeyNames,
		"roles":       "remote node: each key; local (verifying) node: the next key",
		"underlays":   c34ref.Underlays,
		"network_ids": []string{"0", "1", "2^64-1"},
		"entry":       []string{"Handle (record arrives in the Ack)", "Handshake (record arrives in the SynAck)"},
		"combos":      "all (key, underlay, network): every operator except the per-byte ones; per-byte mutations on one combo per key (underlay index = key mod 3, network index = (key+underlay) mod 3) in quick / all combos in thorough",
		"mutations":   "same operator set as C34-aurora-parseaddress, applied to the record the remote node's real Handle produced; for a network id mutation the verifying node runs on the other network and the Ack's NetworkID field claims that network",
		"own_records": "unmutated: full three-message exchange between two real Services, both directions must accept",
	}}, func(x *mc.X) {
		combo := x.Choose(nk * 9)
		ki, ui, ni := combo/9, (combo/3)%3, combo%3
		nid := c34ref.NetworkIDs[ni]
		lk := (ki + 1) % nk

		b := memo[combo]
		if b == nil {
			remote := verifNewNode(x, c34ref.Keys[ki], c34ref.Underlays[ui], nid)
			local := verifNewNode(x, c34ref.Keys[lk], verifLocalUnderlay, nid)
			sa := verifRemoteSynAck(x, remote, local)
			a := sa.Ack.Address
			b = &base{rec: c34ref.Record{Underlay: a.Underlay, Overlay: a.Overlay, Signature: a.Signature, NetworkID: nid}.Clone()}
			b.ops = c34ref.Ops(b.rec, ki, mc.Thorough() || (ui == ki%3 && ni == (ki+ui)%3))
			memo[combo] = b
		}
		op := b.ops[verifChooseIdx(x, len(b.ops))]
		entry := x.Choose(2)
		m, field := c34ref.Apply(b.rec, op, func(k int) []byte {
			// key k's genuine record for the same underlay / network, through its own Handle
			o := verifNewNode(x, c34ref.Keys[k], c34ref.Underlays[ui], nid)
			l := verifNewNode(x, c34ref.Keys[lk], verifLocalUnderlay, nid)
			return verifRemoteSynAck(x, o, l).Ack.Address.Signature
		})
		entryName := []string{"Handle", "Handshake"}[entry]
		x.Logf("remote key %d underlay %s network %d, local verifies on network %d via %s: %s (%s)", ki, c34ref.Underlays[ui], nid, m.NetworkID, entryName, field, op)

		// fresh services per execution; the verifier runs on m.NetworkID
		rfull, err := ma.NewMultiaddr(c34ref.Underlays[ui])
		x.NoErr(err, "NewMultiaddr")
		rinfo, err := libp2ppeer.AddrInfoFromP2pAddr(rfull)
		x.NoErr(err, "AddrInfoFromP2pAddr")
		remoteAddr, remoteID := rinfo.Addrs[0], rinfo.ID
		local := verifNewNode(x, c34ref.Keys[lk], verifLocalUnderlay, m.NetworkID)
		mode := aurora.NewModel().SetMode(aurora.FullNode).Bv.Bytes()
		ack := &pb.Ack{Address: &pb.BzzAddress{Underlay: m.Underlay, Overlay: m.Overlay, Signature: m.Signature}, NetworkID: m.NetworkID, NodeMode: mode, WelcomeMessage: "hi"}
		lfull, err := local.full.MarshalBinary()
		x.NoErr(err, "marshal underlay")

		var info *aurora.AddressInfo
		var herr error
		var localOut bytes.Buffer
		if entry == 0 {
			in := verifEncode(x, &pb.Syn{ObservedUnderlay: lfull}, ack)
			if pv := mc.Try(func() {
				info, herr = local.svc.Handle(context.Background(), mock.NewStream(in, &localOut), remoteAddr, remoteID)
			}); pv != nil {
				x.Fail("panic-handle-"+field, "Handle panicked: %v", pv)
			}
		} else {
			in := verifEncode(x, &pb.SynAck{Syn: &pb.Syn{ObservedUnderlay: lfull}, Ack: ack})
			if pv := mc.Try(func() {
				info, herr = local.svc.Handshake(context.Background(), mock.NewStream(in, &localOut), remoteAddr, remoteID)
			}); pv != nil {
				x.Fail("panic-handshake-"+field, "Handshake panicked: %v", pv)
			}
		}
		verifTimeout(x, herr)
		want, why := c34ref.Accept(m)
		x.Logf("%s err=%v; reference accepts=%v %s", entryName, herr, want, why)
		if op.Kind == c34ref.OpNone {
			x.Check(bytes.Equal(m.Overlay, c34ref.OverlayOf(c34ref.PublicKey(ki))), "overlay-is-not-the-keys-overlay", "the remote node's overlay is %x for key %d [%s], SHA3-256(keccak256(X||Y)) is %x", m.Overlay, ki, c34ref.KeyNames[ki], c34ref.OverlayOf(c34ref.PublicKey(ki)))
			x.Check(bytes.Equal(local.overlay, c34ref.OverlayOf(c34ref.PublicKey(lk))), "overlay-is-not-the-keys-overlay", "the local node's overlay is %x for key %d [%s], SHA3-256(keccak256(X||Y)) is %x", local.overlay, lk, c34ref.KeyNames[lk], c34ref.OverlayOf(c34ref.PublicKey(lk)))
			if ki >= 3 || lk >= 3 {
				x.Tag("boundary-key-own-record")
			}
		}
		x.Check(herr != nil || want, "accepts-unauthenticated-"+field+"-"+entryName, "%s accepted a record the reference rejects (%s): %s", entryName, field, why)

		if op.Kind == c34ref.OpNone {
			x.Check(want, "reference-rejects-own-record", "reference rejects the record the remote Handle produced: %s", why)
			x.Check(herr == nil && info != nil && info.Address != nil, "own-record-rejected-"+entryName, "%s rejected a genuine record: %v", entryName, herr)
			ub, _ := info.Address.Underlay.MarshalBinary()
			x.Check(bytes.Equal(info.Address.Overlay.Bytes(), m.Overlay) && bytes.Equal(ub, m.Underlay) && bytes.Equal(info.Address.Signature, m.Signature),
				"handshake-result-differs", "%s returned a record different from the one presented", entryName)
			if entry == 1 {
				// complete the exchange: what the local Handshake wrote (Syn + Ack with
				// its own record) must be accepted by the remote node's real Handle
				remote := verifNewNode(x, c34ref.Keys[ki], c34ref.Underlays[ui], nid)
				var back *aurora.AddressInfo
				var berr error
				if pv := mc.Try(func() {
					back, berr = remote.svc.Handle(context.Background(), mock.NewStream(&localOut, &bytes.Buffer{}), local.addr, local.id)
				}); pv != nil {
					x.Fail("panic-handle-unmutated", "remote Handle panicked: %v", pv)
				}
				verifTimeout(x, berr)
				x.Check(berr == nil && back != nil, "own-record-rejected-full-exchange", "remote Handle rejected the local node's own record: %v", berr)
				x.Check(bytes.Equal(back.Address.Overlay.Bytes(), local.overlay), "handshake-result-differs", "remote Handle reports overlay %x, local node is %x", back.Address.Overlay.Bytes(), local.overlay)
				ok, why2 := c34ref.Accept(c34ref.Record{Underlay: back.Address.Underlay.Bytes(), Overlay: back.Address.Overlay.Bytes(), Signature: back.Address.Signature, NetworkID: nid})
				x.Check(ok, "reference-rejects-own-record", "reference rejects the local node's record: %s", why2)
				x.Tag("full-exchange-both-accept")
			}
			x.Outcome("own->accepted")
			return
		}
		x.Nontrivial()
		x.Tag("mutated-" + field)
		if want {
			x.Tag("equivalent-encoding-" + field)
			x.Outcome("equivalent-encoding(" + field + ")->accepted=" + map[bool]string{true: "true", false: "false"}[herr == nil])
			return
		}
		switch {
		case errors.Is(herr, ErrInvalidAck):
			x.Outcome("mutated->ErrInvalidAck")
		case errors.Is(herr, ErrNetworkIDIncompatible):
			x.Outcome("mutated->ErrNetworkIDIncompatible")
		default:
			x.Outcome("mutated->other-error")
		}
	})
}

// TestVerifC34HandshakeMissingFields: messages that carry no record at all
// must not be accepted either. A panic is not an acceptance, so it does not
// violate C34; it is counted as an observation (tag) and reported in NOTES.md.
func TestVerifC34HandshakeMissingFields(t *testing.T) {
	shapes := []string{"Handle: Ack without Address", "Handshake: SynAck.Ack without Address", "Handshake: SynAck without Ack", "Handshake: SynAck without Syn"}
	mc.Run(t, mc.Config{ID: "C34", Name: "C34-handshake-missing-fields", MaxDev: -1, Params: map[string]interface{}{"shapes": shapes}}, func(x *mc.X) {
		shape := x.Choose(len(shapes))
		nid := uint64(1)
		local := verifNewNode(x, c34ref.Keys[0], verifLocalUnderlay, nid)
		rfull, err := ma.NewMultiaddr(c34ref.Underlays[0])
		x.NoErr(err, "NewMultiaddr")
		rinfo, err := libp2ppeer.AddrInfoFromP2pAddr(rfull)
		x.NoErr(err, "AddrInfoFromP2pAddr")
		lfull, err := local.full.MarshalBinary()
		x.NoErr(err, "marshal")
		mode := aurora.NewModel().SetMode(aurora.FullNode).Bv.Bytes()
		ack := &pb.Ack{NetworkID: nid, NodeMode: mode}
		syn := &pb.Syn{ObservedUnderlay: lfull}
		var info *aurora.AddressInfo
		var herr error
		var out bytes.Buffer
		x.Logf("%s", shapes[shape])
		pv := mc.Try(func() {
			switch shape {
			case 0:
				info, herr = local.svc.Handle(context.Background(), mock.NewStream(verifEncode(x, syn, ack), &out), rinfo.Addrs[0], rinfo.ID)
			case 1:
				info, herr = local.svc.Handshake(context.Background(), mock.NewStream(verifEncode(x, &pb.SynAck{Syn: syn, Ack: ack}), &out), rinfo.Addrs[0], rinfo.ID)
			case 2:
				info, herr = local.svc.Handshake(context.Background(), mock.NewStream(verifEncode(x, &pb.SynAck{Syn: syn}), &out), rinfo.Addrs[0], rinfo.ID)
			default:
				info, herr = local.svc.Handshake(context.Background(), mock.NewStream(verifEncode(x, &pb.SynAck{Ack: ack}), &out), rinfo.Addrs[0], rinfo.ID)
			}
		})
		verifTimeout(x, herr)
		x.Nontrivial()
		if pv != nil {
			x.Logf("panicked: %v", pv)
			x.Tag("observation-panic-on-missing-field")
			x.Outcome("missing-field->panic")
			return
		}
		x.Check(herr != nil && info == nil, "accepts-message-without-record", "%s: accepted (info=%v)", shapes[shape], info)
		x.Outcome("missing-field->error")
	})
}
