//go:build verif
// +build verif

package leveldb

import (
	"github.com/gauss-project/aurorafs/pkg/logging"
	"github.com/gauss-project/aurorafs/pkg/shed/driver"
	"github.com/gauss-project/aurorafs/pkg/storage"
)

// VerifNewOnDB is NewInMemoryStateStore over a backend opened by the caller
// (so the same in-memory storage can be re-opened after a simulated restart).
func VerifNewOnDB(db driver.BatchDB, l logging.Logger) (storage.StateStorer, error) {
	s := &store{db: db, logger: l}
	if err := migrate(s); err != nil {
		return nil, err
	}
	return s, nil
}
