//go:build verif
// +build verif

package hive2

import (
	"context"
	"errors"
	"fmt"
	"io"
	"testing"
	"time"

	"github.com/gauss-project/aurorafs/pkg/addressbook"
	"github.com/gauss-project/aurorafs/pkg/aurora"
	"github.com/gauss-project/aurorafs/pkg/boson"
	"github.com/gauss-project/aurorafs/pkg/hive2/pb"
	"github.com/gauss-project/aurorafs/pkg/logging"
	"github.com/gauss-project/aurorafs/pkg/p2p"
	p2pmock "github.com/gauss-project/aurorafs/pkg/p2p/mock"
	pingpongmock "github.com/gauss-project/aurorafs/pkg/pingpong/mock"
	"github.com/gauss-project/aurorafs/pkg/shed"
	shedldb "github.com/gauss-project/aurorafs/pkg/shed/leveldb"
	mockstate "github.com/gauss-project/aurorafs/pkg/statestore/mock"
	"github.com/gauss-project/aurorafs/pkg/subscribe"
	"github.com/gauss-project/aurorafs/pkg/topology"
	"github.com/gauss-project/aurorafs/pkg/topology/kademlia"
	"github.com/gauss-project/aurorafs/pkg/zzverif/mc"
	"github.com/gauss-project/aurorafs/pkg/zzverif/wire"
	ma "github.com/multiformats/go-multiaddr"
)

// shed registers "leveldb" only under the `leveldb` build tag; register the same
// real driver under a private name with small buffers (path "" = in-memory).
const c37Driver = "verifc37leveldb"

func init() { shed.Register(c37Driver, shedldb.Driver{}) }

type c37Streamer struct {
	*wire.Streamer
	pingOK func(ma.Multiaddr) bool
}

func (s *c37Streamer) Ping(_ context.Context, a ma.Multiaddr) (time.Duration, error) {
	if s.pingOK != nil && s.pingOK(a) {
		return 0, nil
	}
	return 0, errors.New("unreachable")
}

type c37Node struct {
	sharedKadTouched bool

	svc  *Service
	kad  *kademlia.Kad
	book addressbook.Interface
	db   *shed.DB
}

var (
	c37Base = boson.MustParseHexAddress("8000000000000000000000000000000000000000000000000000000000000001")
	c37Peer = p2p.Peer{Address: boson.MustParseHexAddress("c000000000000000000000000000000000000000000000000000000000000002"), Mode: aurora.NewModel().SetMode(aurora.FullNode)}
)

func c37Overlay(i int) boson.Address {
	b := make([]byte, 32)
	b[0] = byte(0x10 * (i + 1))
	b[31] = byte(i)
	return boson.NewAddress(b)
}

func c37BuildKad(x *mc.X, ab addressbook.Interface, disc *Service) (*kademlia.Kad, *shed.DB) {
	db, err := shed.NewDB("", &shed.Options{Driver: c37Driver + `:{"WriteBuffer":16384,"BlockCacheCapacity":16384}`})
	x.NoErr(err, "shed")
	ppm := pingpongmock.New(func(context.Context, boson.Address, ...string) (time.Duration, error) { return 0, nil })
	kad, err := kademlia.New(c37Base, ab, disc, p2pmock.New(), ppm, nil, nil, db, logging.New(io.Discard, 0), subscribe.NewSubPub(),
		kademlia.Options{BinMaxPeers: 5, NodeMode: aurora.NewModel().SetMode(aurora.FullNode)})
	x.NoErr(err, "kademlia")
	for i := 0; i < 4; i++ {
		kad.AddPeers(c37Overlay(i))
	}
	return kad, db
}

func c37Book(x *mc.X) addressbook.Interface {
	ab := addressbook.New(mockstate.NewStateStore())
	// a few honest known peers with address book entries
	for i := 0; i < 4; i++ {
		u, _ := ma.NewMultiaddr(fmt.Sprintf("/ip4/8.8.8.%d/tcp/7070", i+1))
		o := c37Overlay(i)
		x.NoErr(ab.Put(o, aurora.Address{Overlay: o, Underlay: u, Signature: []byte{1, 2, 3}}), "book put")
	}
	return ab
}

// One Kademlia instance is shared by all executions that cannot modify it:
// onFindNode only reads it, and a DoFindNode whose peers are all reported
// unreachable never reaches addPeersHandler. Executions that can add peers
// (mutable = true) get a fresh instance. The service and its address book are
// always fresh.
var c37SharedKad *kademlia.Kad

func c37NewNode(x *mc.X, sr p2p.StreamerPinger, mutable bool) *c37Node {
	ab := c37Book(x)
	svc := New(sr, ab, 0, logging.New(io.Discard, 0))
	n := &c37Node{svc: svc, book: ab}
	if mutable {
		n.kad, n.db = c37BuildKad(x, ab, svc)
		svc.SetAddPeersHandler(n.kad.AddPeers)
	} else {
		if c37SharedKad == nil {
			c37SharedKad, _ = c37BuildKad(x, c37Book(x), nil)
		}
		n.kad = c37SharedKad
		// (runs in a goroutine of the service: only record, check after the join)
		svc.SetAddPeersHandler(func(...boson.Address) { n.sharedKadTouched = true })
	}
	svc.SetConfig(Config{Kad: n.kad, Base: c37Base, AllowPrivateCIDRs: false})
	return n
}

func (n *c37Node) close() {
	_ = n.svc.Close()
	if n.db != nil {
		_ = n.db.Close()
	}
}

// followUp: local operations that consume what a peers message created.
func (n *c37Node) followUp(x *mc.X) {
	_, _ = n.book.Overlays()
	addrs, _ := n.book.Addresses()
	for _, a := range addrs {
		_, _ = n.book.Get(a.Overlay)
		_ = a.String()
	}
	_ = n.kad.EachKnownPeer(func(a boson.Address, po uint8) (bool, bool, error) { return false, false, nil })
	_ = n.kad.EachPeer(func(a boson.Address, po uint8) (bool, bool, error) { return false, false, nil }, topology.Filter{})
	_, _ = n.kad.ClosestPeers(c37Overlay(9), 8, topology.Filter{})
	_ = n.kad.Snapshot()
	// serve a well-formed FindNode request from the (possibly polluted) state
	pos := make([]int32, 0, 32)
	for i := int32(0); i < 32; i++ {
		pos = append(pos, i)
	}
	st := wire.NewStream(wire.Frame(&pb.FindNodeReq{Target: c37Overlay(7).Bytes(), Pos: pos, Limit: 16}))
	_ = n.svc.onFindNode(context.Background(), c37Peer, st)
}

func c37ReqCases() []wire.Case {
	target := c37Overlay(5).Bytes()
	valid := &pb.FindNodeReq{Target: target, Pos: []int32{0, 1, 2, 3, 4}, Limit: 4}
	cs := wire.Standard(valid)
	poss := map[string][]int32{
		"nil": nil, "empty": {}, "one": {1}, "all": {0, 1, 2, 3, 4, 5, 6, 7, 8, 9, 10, 11, 12, 13, 14, 15, 16, 17, 18, 19, 20, 21, 22, 23, 24, 25, 26, 27, 28, 29, 30, 31},
		"negative": {-1, -2147483648}, "huge": {2147483647, 256, 255, 32},
	}
	limits := []int32{0, 1, 2, 3, 16, 17, -1, -2147483648, 2147483647}
	// full product: 9 targets x 6 pos x 9 limits
	for _, tv := range wire.BytesField(target, 64<<10) {
		for _, pn := range []string{"nil", "empty", "one", "all", "negative", "huge"} {
			for _, l := range limits {
				cs = append(cs, wire.Msg(fmt.Sprintf("target=%s,pos=%s,limit=%d", tv.Name, pn, l), &pb.FindNodeReq{Target: tv.V, Pos: poss[pn], Limit: l}))
			}
		}
	}
	return cs
}

func c37ValidUnderlay() []byte {
	u, _ := ma.NewMultiaddr("/ip4/9.9.9.9/tcp/7070/p2p/16Uiu2HAkx8ULY8cTXhdVAcMmLcH9AsTKz6uBQ7DPLKRjMLgBVYkS")
	return u.Bytes()
}

type c37PeersCase struct {
	wire.Case
	pingOK bool
}

func c37PeersCases() []c37PeersCase {
	ul := c37ValidUnderlay()
	ov := c37Overlay(6).Bytes()
	sig := make([]byte, 65)
	valid := &pb.Peers{Peers: []*pb.AuroraAddress{{Underlay: ul, Signature: sig, Overlay: ov}}}
	var out []c37PeersCase
	for _, c := range wire.Standard(valid) {
		out = append(out, c37PeersCase{c, false})
	}
	// underlay grammar, one peer per message, peers reported reachable
	var uls []wire.BytesVal
	uls = append(uls, wire.BytesField(ul, 64<<10)...)
	for k := 1; k < len(ul); k++ {
		uls = append(uls, wire.BytesVal{Name: fmt.Sprintf("prefix-%d", k), V: ul[:k]})
	}
	for p := 0; p < len(ul) && p < 12; p++ {
		for bit := 0; bit < 8; bit++ {
			d := append([]byte{}, ul...)
			d[p] ^= 1 << uint(bit)
			uls = append(uls, wire.BytesVal{Name: fmt.Sprintf("bitflip@%d.%d", p, bit), V: d})
		}
	}
	for _, extra := range []struct {
		n string
		s string
	}{{"private-ip", "/ip4/192.168.1.7/tcp/7070"}, {"dns", "/dns4/example.org/tcp/443"}, {"ip6", "/ip6/::1/udp/9/quic"}, {"p2p-only", "/p2p/16Uiu2HAkx8ULY8cTXhdVAcMmLcH9AsTKz6uBQ7DPLKRjMLgBVYkS"}} {
		m, err := ma.NewMultiaddr(extra.s)
		if err == nil {
			uls = append(uls, wire.BytesVal{Name: extra.n, V: m.Bytes()})
		}
	}
	// all underlay variants in messages of 16 peers each (they are validated concurrently)
	for i := 0; i < len(uls); i += 16 {
		j := i + 16
		if j > len(uls) {
			j = len(uls)
		}
		m := &pb.Peers{}
		name := "underlays["
		for k, u := range uls[i:j] {
			o := append([]byte{}, ov...)
			o[1] = byte(i + k)
			m.Peers = append(m.Peers, &pb.AuroraAddress{Underlay: u.V, Signature: sig, Overlay: o})
			name += u.Name + " "
		}
		out = append(out, c37PeersCase{wire.Msg(name+"]", m), true})
	}
	// overlay x signature grammar in one message (all reachable)
	m := &pb.Peers{}
	for _, o := range wire.BytesField(ov, 64<<10) {
		for _, sg := range wire.BytesField(sig, 0) {
			m.Peers = append(m.Peers, &pb.AuroraAddress{Underlay: ul, Signature: sg.V, Overlay: o.V})
		}
	}
	out = append(out, c37PeersCase{wire.Msg("overlay{valid,absent,empty,1,31,33,64,other,64KiB} x signature{valid,absent,empty,1,64,66,130,other}", m), true})
	// empty nested messages, no peers, own address, the requester's address, duplicates
	out = append(out,
		c37PeersCase{wire.Msg("no-peers", &pb.Peers{}), true},
		c37PeersCase{wire.Msg("three-empty-peers", &pb.Peers{Peers: []*pb.AuroraAddress{{}, {}, {}}}), true},
		c37PeersCase{wire.Msg("self-and-duplicates", &pb.Peers{Peers: []*pb.AuroraAddress{
			{Underlay: ul, Signature: sig, Overlay: c37Base.Bytes()},
			{Underlay: ul, Signature: sig, Overlay: ov}, {Underlay: ul, Signature: sig, Overlay: ov},
			{Underlay: ul, Signature: sig, Overlay: c37Overlay(0).Bytes()}}}), true},
	)
	return out
}

func TestVerifC37(t *testing.T) {
	reqCases := c37ReqCases()
	peersCases := c37PeersCases()
	var pc []wire.Case
	for _, c := range peersCases {
		pc = append(pc, c.Case)
	}
	pingOK := map[string]bool{}
	for _, c := range peersCases {
		pingOK[c.Name] = c.pingOK
	}
	targets := []wire.Target{
		{Name: "handler(hive2/findNode)", Cases: reqCases, Run: func(x *mc.X, c wire.Case) string {
			n := c37NewNode(x, &c37Streamer{Streamer: &wire.Streamer{}}, false)
			defer n.close()
			h := n.svc.Protocol().StreamSpecs[0].Handler
			st := wire.NewStream(c.Data)
			err := h(context.Background(), c37Peer, st)
			if err == nil && len(st.Written()) == 0 {
				return "ok-without-response"
			}
			return wire.ErrClass(err)
		}},
		{Name: "client(DoFindNode)+checkAndAddPeers", Cases: pc, Run: func(x *mc.X, c wire.Case) string {
			ok := pingOK[c.Name]
			sr := &c37Streamer{Streamer: &wire.Streamer{Reply: func(boson.Address, string, string, int) []byte { return c.Data }},
				pingOK: func(ma.Multiaddr) bool { return ok }}
			n := c37NewNode(x, sr, ok)
			defer n.close()
			res, err := n.svc.DoFindNode(context.Background(), c37Overlay(5), c37Peer.Address, []int32{0, 1, 2}, 4)
			added := 0
			if err == nil {
				// checkAndAddPeers runs in goroutines owned by the service; the result
				// channel is closed when all of them have finished.
				for range res {
					added++
				}
			}
			if n.sharedKadTouched {
				x.Broken("peers added although every peer was reported unreachable")
			}
			n.followUp(x)
			if err != nil {
				return "error"
			}
			if added > 0 {
				x.Tag("hive2-peers-added")
				return "ok-added"
			}
			return "ok-none-added"
		}},
	}
	wire.Explore(t, func(cfg mc.Config, body func(*mc.X)) { mc.Run(t, cfg, body) }, "C37-hive2", map[string]interface{}{
		"alphabet": "FindNodeReq: standard framing/wire faults + full product target{valid,absent,empty,1,31,33,64,other,64KiB} x pos{nil,empty,one,all 0..31,negative,huge} x limit{0,1,2,3,16,17,-1,min,max}; Peers (client read): standard faults (peers unreachable) + every underlay variant (field grammar, every strict prefix, bit flips of the first 12 bytes, private/dns/ip6/p2p-only) + overlay x signature product + empty nested peers + self/duplicates (peers reachable), each followed by address book, kademlia and onFindNode follow-ups",
	}, targets)
}
