//go:build verif
// +build verif

package leveldb

// Verification-only tuning: goleveldb allocates (and zeroes) the whole write
// buffer for every opened database. With the production default of 32 MiB one
// open costs ~17 ms (measured), with 64 KiB ~1.5 ms; a model checker that builds
// a fresh store per execution spends nearly all its time there. The size changes
// no code path that a handful of tiny keys can reach (neither size is ever
// filled, so no flush or compaction is triggered by it).
func init() {
	defaultWriteBufferSize = 64 * 1024
	defaultBlockCacheCapacity = 1024 * 1024
}
