//go:build verif
// +build verif

package bmt

// C03 part (a): data dimension of the BMT hasher.
//
// Every execution builds a fresh pool of capacity 1 with the real Hasher, optionally
// uses it once before (stale tree.buffer / stale node.left/right), then hashes the data
// of the chosen length with the chosen span header and write split and compares the
// result with a naive recursive reference written here from the definition:
//
//	bmt(span, data) = keccak256(span || root(data zero-padded to capacity))
//	root(d)         = keccak256(d)                       if len(d) == 64 (two 32-byte segments)
//	                = keccak256(root(left) || root(right)) otherwise
//
// The hasher's section goroutines are free running; the harness only observes the value
// Hash returns (Hash is synchronous), which is schedule-independent when the hasher is
// correct. The schedule dimension is part (b) (separate test entry).

import (
	"bytes"
	"encoding/binary"
	"fmt"
	"io"
	"sort"
	"testing"

	"github.com/gauss-project/aurorafs/pkg/zzverif/mc"
	"golang.org/x/crypto/sha3"
)

// keccak256 of the concatenation (one sponge, squeezed through Read to avoid the state copy Sum makes)
var verifC03Sponge = sha3.NewLegacyKeccak256()

func verifC03Keccak(parts ...[]byte) []byte {
	h := verifC03Sponge
	h.Reset()
	for _, p := range parts {
		h.Write(p)
	}
	out := make([]byte, 32)
	if n, err := h.(io.Reader).Read(out); n != 32 || err != nil {
		panic("keccak squeeze failed")
	}
	return out
}

// root of a zero-padded buffer whose length is 64 * 2^k
func verifC03Root(d []byte) []byte {
	if len(d) == 64 {
		return verifC03Keccak(d)
	}
	half := len(d) / 2
	return verifC03Keccak(verifC03Root(d[:half]), verifC03Root(d[half:]))
}

func verifC03Ref(span []byte, data []byte, capacity int) []byte {
	padded := make([]byte, capacity)
	copy(padded, data)
	return verifC03Keccak(span, verifC03Root(padded))
}

// capacity by the definition: 32 bytes * smallest power of two >= max(segs, 2)
func verifC03Cap(segs int) int {
	c := 2
	for c < segs {
		c *= 2
	}
	return 32 * c
}

// data pattern: never zero (so padding is distinguishable), position dependent with a
// period that is coprime to 32/64 (so swapped or shifted sections change the hash).
func verifC03Data(l int, salt byte) []byte {
	d := make([]byte, l)
	for i := range d {
		d[i] = byte(1 + (i*131+(i>>8)*17+int(salt)*29)%255)
	}
	return d
}

func verifC03Uniq(cand []int, lo, hi int) []int {
	seen := map[int]bool{}
	var r []int
	for _, c := range cand {
		if c >= lo && c <= hi && !seen[c] {
			seen[c] = true
			r = append(r, c)
		}
	}
	sort.Ints(r)
	return r
}

type verifC03Conf struct {
	segs    int
	lengths []int  // data lengths
	lenDesc string // description for the evidence
	cutsFn  func(l, capacity int) []int
	cutDesc string
	priors  []int // indices into verifC03Priors
	spans   []int // indices into verifC03SpanNames
}

// prior use of the pool/hasher before the observed hash
type verifC03Prior struct {
	name   string
	putget bool // true: Put + Get (pool capacity 1 => same tree), false: Reset on the same Hasher
	length int  // -1 none, -2 = capacity, otherwise literal
}

var verifC03Priors = []verifC03Prior{
	{"fresh", false, -1},
	{"reset-after-full", false, -2},
	{"putget-after-full", true, -2},
	{"reset-after-1-byte", false, 1},
	{"putget-after-1-byte", true, 1},    // not used by the current tiers
	{"reset-after-65-bytes", false, 65}, // not used by the current tiers
	{"putget-after-half+1", true, -3},
}

func verifC03AllLengths(capacity int) []int {
	r := make([]int, capacity+1)
	for i := range r {
		r[i] = i
	}
	return r
}

// boundary-dense: +-1 around every multiple of `step`
func verifC03Dense(capacity, step int) []int {
	var c []int
	for m := 0; m <= capacity; m += step {
		c = append(c, m-1, m, m+1)
	}
	return verifC03Uniq(c, 0, capacity)
}

// boundary-dense for big trees: +-1 (and +-32/33 bytes) around every power-of-two section count
func verifC03Pow2(capacity int) []int {
	c := []int{0, 1, 31, 32, 33, 63, 64, 65, 95, 96, 97}
	for s := 128; s <= capacity; s *= 2 {
		c = append(c, s-65, s-64, s-63, s-33, s-32, s-31, s-1, s, s+1, s+31, s+32, s+33, s+63, s+64, s+65)
	}
	// three quarters: a length whose binary section count has several bits set
	c = append(c, capacity/2+capacity/4+64+1, capacity-129)
	return verifC03Uniq(c, 0, capacity)
}

func verifC03CutsSmall(l, capacity int) []int {
	return verifC03Uniq([]int{0, 1, 63, 64, 65, l - 1, l}, 0, l)
}

func verifC03CutsBig(l, capacity int) []int {
	return verifC03Uniq([]int{0, 1, 63, 64, 65, capacity / 2, l - 64, l - 1, l}, 0, l)
}

func verifC03CutsReal(l, capacity int) []int {
	return verifC03Uniq([]int{0, 1, 64, 65, capacity / 2, l - 64, l - 1, l}, 0, l)
}

func verifC03CutsRealQuick(l, capacity int) []int {
	return verifC03Uniq([]int{0, 65, l - 64, l}, 0, l)
}

// reduced boundary set for the production geometry in the quick tier
func verifC03Pow2Quick(capacity int) []int {
	c := []int{0, 1, 65}
	for s := 8192; s < capacity; s *= 2 {
		c = append(c, s+1)
	}
	c = append(c, capacity-63, capacity)
	return verifC03Uniq(c, 0, capacity)
}

func verifC03Confs() []verifC03Conf {
	confs := verifC03Confs0()
	for i := range confs {
		if confs[i].spans == nil {
			confs[i].spans = []int{0, 1, 2, 3}
		}
	}
	return confs
}

func verifC03Confs0() []verifC03Conf {
	var confs []verifC03Conf
	allPriors := []int{0, 1, 2, 3, 6}
	quickPriors := []int{0, 1, 2, 3}
	pow2Desc := "0,1,31..33,63..65,95..97 and s+{-65..-63,-33..-31,-1,0,1,31..33,63..65} for s=128*2^k, 3/4cap+65, cap-129"
	if mc.Thorough() {
		for _, s := range []int{1, 2, 3, 4, 8, 16} {
			confs = append(confs, verifC03Conf{segs: s, lengths: verifC03AllLengths(verifC03Cap(s)), lenDesc: "all 0..capacity",
				cutsFn: verifC03CutsBig, cutDesc: "{0,1,63,64,65,cap/2,l-64,l-1,l}", priors: allPriors})
		}
		for _, s := range []int{5, 32} {
			confs = append(confs, verifC03Conf{segs: s, lengths: verifC03AllLengths(verifC03Cap(s)), lenDesc: "all 0..capacity",
				cutsFn: verifC03CutsSmall, cutDesc: "{0,1,63,64,65,l-1,l}", priors: quickPriors})
		}
		confs = append(confs, verifC03Conf{segs: 128, lengths: verifC03Dense(4096, 32), lenDesc: "m-1,m,m+1 for every multiple m of 32",
			cutsFn: verifC03CutsSmall, cutDesc: "{0,1,63,64,65,l-1,l}", priors: quickPriors, spans: []int{1, 2, 3}})
		confs = append(confs, verifC03Conf{segs: 8192, lengths: verifC03Pow2(262144), lenDesc: pow2Desc,
			cutsFn: func(l, c int) []int { return verifC03Uniq([]int{65, l - 64}, 0, l) }, cutDesc: "{65,l-64}", priors: []int{0, 2}, spans: []int{1, 2}})
		return confs
	}
	for _, s := range []int{1, 2, 3, 4, 8} {
		confs = append(confs, verifC03Conf{segs: s, lengths: verifC03AllLengths(verifC03Cap(s)), lenDesc: "all 0..capacity",
			cutsFn: func(l, c int) []int { return verifC03Uniq([]int{0, 64, 65, l - 1}, 0, l) }, cutDesc: "{0,64,65,l-1}", priors: quickPriors})
	}
	confs = append(confs, verifC03Conf{segs: 16, lengths: verifC03AllLengths(512), lenDesc: "all 0..capacity",
		cutsFn: verifC03CutsRealQuick, cutDesc: "{0,65,l-64,l}", priors: quickPriors})
	confs = append(confs, verifC03Conf{segs: 128, lengths: verifC03Pow2(4096), lenDesc: pow2Desc,
		cutsFn: verifC03CutsRealQuick, cutDesc: "{0,65,l-64,l}", priors: []int{0, 2}, spans: []int{1, 2}})
	confs = append(confs, verifC03Conf{segs: 8192, lengths: verifC03Pow2Quick(262144), lenDesc: "0,1,65, 8192*2^k+1 (k=0..4), cap-63, cap",
		cutsFn: func(l, c int) []int { return verifC03Uniq([]int{65}, 0, l) }, cutDesc: "{65}", priors: []int{0, 2}, spans: []int{1}})
	return confs
}

var verifC03SpanNames = []string{"zero", "length", "2^64-1", "0x0102030405060708"}

func verifC03Span(kind, l int) []byte {
	s := make([]byte, 8)
	switch kind {
	case 0:
	case 1:
		binary.LittleEndian.PutUint64(s, uint64(l))
	case 2:
		for i := range s {
			s[i] = 0xff
		}
	case 3:
		copy(s, []byte{1, 2, 3, 4, 5, 6, 7, 8})
	}
	return s
}

// split k of the write of data[0:l] over the cut candidates c: 0 = one write, then all
// single cuts, then all pairs c1 <= c2 (equal cuts and cuts at 0 / l give empty writes).
func verifC03Split(k int, c []int) []int {
	if k == 0 {
		return nil
	}
	k--
	if k < len(c) {
		return []int{c[k]}
	}
	k -= len(c)
	for i := 0; i < len(c); i++ {
		for j := i; j < len(c); j++ {
			if k == 0 {
				return []int{c[i], c[j]}
			}
			k--
		}
	}
	panic("split index out of range")
}

func verifC03NumSplits(c []int) int { return 1 + len(c) + len(c)*(len(c)+1)/2 }

func TestVerifC03Data(t *testing.T) { verifC03DataRun(t, false) }

// Same enumeration, but every Write is issued from one scratch buffer that the caller
// overwrites (0xAA) as soon as Write has returned and re-uses for the next Write - the
// io.Copy pattern. io.Writer forbids the hasher to retain the slice, so the result must
// not change. The spec runs this harness with GOMAXPROCS=1: the section workers a Write
// spawns then cannot run before the caller has overwritten its buffer, which makes the
// outcome of a hasher that does retain the slice the same in every run.
func TestVerifC03DataScratch(t *testing.T) { verifC03DataRun(t, true) }

func verifC03DataRun(t *testing.T, scratch bool) {
	confs := verifC03Confs()
	name := "C03-data"
	if scratch {
		name = "C03-data-scratch-writes"
		for i := range confs {
			confs[i].spans = []int{1}
			confs[i].priors = []int{0, 1}
		}
	}
	params := map[string]interface{}{
		"spans":       verifC03SpanNames,
		"splits":      "one write; every single cut; every pair of cuts c1<=c2 from the cut set (equal cuts / cuts at 0 or l are empty writes)",
		"pool":        "NewPool(NewConf(keccak256, segments, 1)); prior use then observed hash then a full-capacity hash on the same tree",
		"prior_modes": verifC03Priors,
	}
	for i, c := range confs {
		var pn []string
		for _, p := range c.priors {
			pn = append(pn, verifC03Priors[p].name)
		}
		var sn []string
		for _, p := range c.spans {
			sn = append(sn, verifC03SpanNames[p])
		}
		params[fmt.Sprintf("conf%d", i)] = map[string]interface{}{"segments": c.segs, "spans": sn, "capacity": verifC03Cap(c.segs),
			"lengths": c.lenDesc, "n_lengths": len(c.lengths), "cut_set": c.cutDesc, "priors": pn}
	}
	// memo of the reference value of the full-capacity "post" data per capacity (pure function of the key)
	postRef := map[int][]byte{}
	var flat [][2]int
	for ci, c := range confs {
		for li := range c.lengths {
			flat = append(flat, [2]int{ci, li})
		}
	}
	if scratch {
		params["write_mode"] = "every Write (prior, observed, post) from one scratch buffer that is filled with 0xAA right after Write returns and re-used for the next Write"
	} else {
		params["write_mode"] = "Write from slices of one immutable array"
	}
	mc.Run(t, mc.Config{ID: "C03", Name: name, MaxDev: -1, ShardLevels: 1, Params: params}, func(x *mc.X) {
		// (geometry, length) is one flattened first choice so that shards balance
		gl := flat[x.Choose(len(flat))]
		conf := confs[gl[0]]
		l := conf.lengths[gl[1]]
		capacity := verifC03Cap(conf.segs)
		cuts := conf.cutsFn(l, capacity)
		split := verifC03Split(x.Choose(verifC03NumSplits(cuts)), cuts)
		spanKind := conf.spans[x.Choose(len(conf.spans))]
		prior := verifC03Priors[conf.priors[x.Choose(len(conf.priors))]]

		pool := NewPool(NewConf(sha3.NewLegacyKeccak256, conf.segs, 1))
		h := pool.Get()
		x.Check(h.Capacity() == capacity, "capacity", "segments %d: Capacity()=%d, want 32*pow2ceil = %d", conf.segs, h.Capacity(), capacity)
		x.Logf("segments=%d capacity=%d length=%d span=%s split=%v prior=%s", conf.segs, capacity, l, verifC03SpanNames[spanKind], split, prior.name)

		// write mode
		var scratchBuf []byte
		if scratch {
			scratchBuf = make([]byte, capacity)
		}
		write := func(p []byte) (int, error) {
			if !scratch {
				return h.Write(p)
			}
			buf := scratchBuf[:len(p)]
			copy(buf, p)
			n, err := h.Write(buf)
			for i := range buf {
				buf[i] = 0xAA // the caller's buffer is its own again once Write has returned
			}
			return n, err
		}
		reuse := func(putget bool) {
			if putget {
				old := h.bmt
				pool.Put(h)
				h = pool.Get()
				if h.bmt != old {
					x.Broken("pool of capacity 1 handed out a different tree")
				}
				x.Tag("tree-reused-via-put-get")
			} else {
				h.Reset()
				x.Tag("hasher-reused-via-reset")
			}
		}

		if prior.length != -1 {
			pl := prior.length
			switch pl {
			case -2:
				pl = capacity
			case -3:
				pl = capacity/2 + 1
			}
			if pl > capacity {
				pl = capacity
			}
			pd := verifC03Data(pl, 7)
			pspan := []byte{0xee, 0xee, 0xee, 0xee, 0xee, 0xee, 0xee, 0xee}
			h.SetHeader(pspan)
			_, err := write(pd)
			x.Check(err == nil, "write-error", "prior Write: %v", err)
			got := h.Sum(nil)
			want := verifC03Ref(pspan, pd, capacity)
			x.Check(bytes.Equal(got, want), map[bool]string{false: "hash-mismatch-fresh", true: "hash-mismatch-caller-buffer-reused"}[scratch], "prior hash (segments %d, length %d, one write, fresh tree): got %x want %x", conf.segs, pl, got, want)
			reuse(prior.putget)
			if pl > l {
				x.Tag("stale-buffer-longer-than-data")
				x.Nontrivial()
			} else if pl < l {
				x.Tag("stale-tree-from-shorter-data")
			}
		}

		data := verifC03Data(l, 0)
		span := verifC03Span(spanKind, l)
		if spanKind == 1 {
			h.SetHeaderInt64(int64(l))
		} else {
			h.SetHeader(span)
		}
		// writes: data[0:c1], data[c1:c2], data[c2:l]; with no cut and l == 0 there is no Write at all
		from := 0
		for _, c := range append(append([]int{}, split...), l) {
			if len(split) == 0 && l == 0 {
				break
			}
			n, err := write(data[from:c])
			x.Check(err == nil && n == c-from, "write-short", "Write(data[%d:%d]) = %d, %v", from, c, n, err)
			if c == from {
				x.Tag("empty-write")
			}
			from = c
		}
		if len(split) > 0 {
			x.Nontrivial()
		}
		got, err := h.Hash(nil)
		want := verifC03Ref(span, data, capacity)
		key := "hash-mismatch"
		switch {
		case prior.length != -1 && prior.putget:
			key = "hash-mismatch-after-put-get"
		case prior.length != -1:
			key = "hash-mismatch-after-reset"
		case len(split) > 0:
			key = "hash-mismatch-split-write"
		}
		if scratch {
			key = "hash-mismatch-caller-buffer-reused"
			x.Nontrivial()
		}
		x.Check(err == nil, "hash-error", "Hash: %v", err)
		x.Check(bytes.Equal(got, want), key, "segments %d capacity %d length %d span %s split %v prior %s: got %x want %x",
			conf.segs, capacity, l, verifC03SpanNames[spanKind], split, prior.name, got, want)

		// situations
		switch {
		case l == 0:
			x.Outcome("empty")
		case l == capacity:
			x.Outcome("full")
		case l%64 == 0:
			x.Outcome("section-aligned")
		case l%32 == 0:
			x.Outcome("segment-aligned")
		default:
			x.Outcome("unaligned")
		}
		if l > 0 && l < capacity {
			secs := (l + 63) / 64
			if secs&(secs-1) == 0 {
				x.Tag("power-of-two-sections")
			} else {
				x.Tag("unbalanced-sections")
			}
		}

		// the tree must be left reusable: hash full-capacity data next (every node is written again)
		reuse(prior.putget)
		post := verifC03Data(capacity, 3)
		pspan := []byte{9, 8, 7, 6, 5, 4, 3, 2}
		h.SetHeader(pspan)
		_, err = write(post)
		x.Check(err == nil, "write-error", "post Write: %v", err)
		got, err = h.Hash(nil)
		x.Check(err == nil, "hash-error", "post Hash: %v", err)
		pw, ok := postRef[capacity]
		if !ok {
			pw = verifC03Ref(pspan, post, capacity)
			postRef[capacity] = pw
		}
		x.Check(bytes.Equal(got, pw), map[bool]string{false: "hash-mismatch-full-after-reuse", true: "hash-mismatch-caller-buffer-reused"}[scratch], "full-capacity hash after (length %d split %v): got %x want %x", l, split, got, pw)
		pool.Put(h)
	})
}
