//go:build verif
// +build verif

package routetab

import (
	"bytes"
	"context"
	"errors"
	"io"
	"testing"
	"time"

	"github.com/gauss-project/aurorafs/pkg/addressbook"
	"github.com/gauss-project/aurorafs/pkg/aurora"
	"github.com/gauss-project/aurorafs/pkg/boson"
	"github.com/gauss-project/aurorafs/pkg/crypto"
	"github.com/gauss-project/aurorafs/pkg/logging"
	"github.com/gauss-project/aurorafs/pkg/p2p"
	"github.com/gauss-project/aurorafs/pkg/p2p/protobuf"
	"github.com/gauss-project/aurorafs/pkg/routetab/pb"
	mockstate "github.com/gauss-project/aurorafs/pkg/statestore/mock"
	"github.com/gauss-project/aurorafs/pkg/zzverif/c34ref"
	"github.com/gauss-project/aurorafs/pkg/zzverif/mc"
	ma "github.com/multiformats/go-multiaddr"
)

func verifChooseIdx(x *mc.X, n int) int {
	const k = 8
	hi := x.Choose((n + k - 1) / k)
	rem := n - hi*k
	if rem > k {
		rem = k
	}
	return hi*k + x.Choose(rem)
}

// verifStream is a synchronous in-memory p2p.Stream: reads come from a prepared
// buffer (the adversary's reply), writes go to a sink.
type verifStream struct {
	in, out bytes.Buffer
}

func (s *verifStream) Read(p []byte) (int, error)   { return s.in.Read(p) }
func (s *verifStream) Write(p []byte) (int, error)  { return s.out.Write(p) }
func (s *verifStream) Close() error                 { return nil }
func (s *verifStream) FullClose() error             { return nil }
func (s *verifStream) Reset() error                 { return nil }
func (s *verifStream) Headers() p2p.Headers         { return nil }
func (s *verifStream) ResponseHeaders() p2p.Headers { return nil }

// verifStreamer hands out the prepared stream for the find-underlay protocol only.
type verifStreamer struct {
	stream *verifStream
	calls  int
}

func (v *verifStreamer) NewStream(ctx context.Context, a boson.Address, h p2p.Headers, protocol, version, stream string) (p2p.Stream, error) {
	return nil, errors.New("verif: unexpected NewStream")
}
func (v *verifStreamer) NewRelayStream(ctx context.Context, a boson.Address, h p2p.Headers, protocol, version, stream string, midCall bool) (p2p.Stream, error) {
	if protocol != ProtocolName || stream != streamOnFindUnderlay {
		return nil, errors.New("verif: unexpected relay stream " + stream)
	}
	v.calls++
	return v.stream, nil
}
func (v *verifStreamer) NewConnChainRelayStream(ctx context.Context, target boson.Address, h p2p.Headers, protocolName, protocolVersion, streamName string) (p2p.Stream, error) {
	return nil, errors.New("verif: unexpected NewConnChainRelayStream")
}

func verifGenuine(x *mc.X, ki, ui, ni int) c34ref.Record {
	return verifGenuineKey(x, c34ref.Keys[ki], ui, ni)
}

func verifGenuineKey(x *mc.X, key []byte, ui, ni int) c34ref.Record {
	priv := crypto.Secp256k1PrivateKeyFromBytes(key)
	nid := c34ref.NetworkIDs[ni]
	ov, err := crypto.NewOverlayAddress(priv.PublicKey, nid)
	x.NoErr(err, "NewOverlayAddress")
	u, err := ma.NewMultiaddr(c34ref.Underlays[ui])
	x.NoErr(err, "NewMultiaddr")
	a, err := aurora.NewAddress(crypto.NewDefaultSigner(priv), u, ov, nid)
	x.NoErr(err, "aurora.NewAddress")
	ub, err := a.Underlay.MarshalBinary()
	x.NoErr(err, "underlay MarshalBinary")
	return c34ref.Record{Underlay: ub, Overlay: a.Overlay.Bytes(), Signature: a.Signature, NetworkID: nid}.Clone()
}

func verifBookOverlays(x *mc.X, ab addressbook.Interface) [][]byte {
	var r [][]byte
	x.NoErr(ab.IterateOverlays(func(a boson.Address) (bool, error) {
		r = append(r, a.Bytes())
		return false, nil
	}), "IterateOverlays")
	return r
}

func TestVerifC34Routetab(t *testing.T) {
	if c34ref.InitErr != nil {
		t.Fatalf("BROKEN-CHECK %v", c34ref.InitErr)
	}
	nk := len(c34ref.Keys)
	type base struct {
		rec, witness c34ref.Record
		ops          []c34ref.Op
	}
	memo := map[int]*base{}
	mc.Run(t, mc.Config{ID: "C34", Name: "C34-routetab-underlay", MaxDev: -1, Params: map[string]interface{}{
		"keys":        c34ref.KeyNames,
		"underlays":   c34ref.Underlays,
		"network_ids": []string{"0", "1", "2^64-1"},
		"combos":      "all (key, underlay, network): every operator except the per-byte ones; per-byte mutations on one combo per key (underlay index = key mod 3, network index = (key+underlay) mod 3) in quick / all combos in thorough",
		"entry":       []string{"saveUnderlay([record under test, genuine record of a fourth (witness) key])", "FindUnderlay with the record under test as the reply"},
		"mutations":   "same operator set as C34-aurora-parseaddress; for a network id mutation the receiving Service runs on the other network",
		"observed":    "returned error/address and the complete address book (in-memory state store) afterwards",
	}}, func(x *mc.X) {
		combo := x.Choose(nk * 9)
		ki, ui, ni := combo/9, (combo/3)%3, combo%3
		b := memo[combo]
		if b == nil {
			b = &base{rec: verifGenuine(x, ki, ui, ni), witness: verifGenuineKey(x, c34ref.WitnessKey, (ui+1)%3, ni)}
			b.ops = c34ref.Ops(b.rec, ki, mc.Thorough() || (ui == ki%3 && ni == (ki+ui)%3))
			memo[combo] = b
		}
		op := b.ops[verifChooseIdx(x, len(b.ops))]
		entry := x.Choose(2)
		m, field := c34ref.Apply(b.rec, op, func(k int) []byte { return verifGenuine(x, k, ui, ni).Signature })
		entryName := []string{"saveUnderlay", "FindUnderlay"}[entry]
		x.Logf("key %d underlay %s network %d, receiver on network %d via %s: %s (%s)", ki, c34ref.Underlays[ui], b.rec.NetworkID, m.NetworkID, entryName, field, op)

		ab := addressbook.New(mockstate.NewStateStore())
		st := &verifStreamer{stream: &verifStream{}}
		svc := &Service{addressbook: ab, logger: logging.New(io.Discard, 0), networkID: m.NetworkID, stream: st, self: boson.NewAddress(c34ref.OverlayOf(c34ref.PublicKey((ki + 2) % nk)))}
		want, why := c34ref.Accept(m)

		accepted := false
		if entry == 0 {
			// the witness is genuine for the original network; it is expected in the
			// book exactly when the receiver runs on that network
			wit := b.witness
			list := []*pb.UnderlayResp{
				{Dest: m.Overlay, Underlay: m.Underlay, Signature: m.Signature},
				{Dest: wit.Overlay, Underlay: wit.Underlay, Signature: wit.Signature},
			}
			if pv := mc.Try(func() { svc.saveUnderlay(list) }); pv != nil {
				x.Fail("panic-saveunderlay-"+field, "saveUnderlay panicked: %v", pv)
			}
			got := verifBookOverlays(x, ab)
			witWant, _ := c34ref.Accept(c34ref.Record{Underlay: wit.Underlay, Overlay: wit.Overlay, Signature: wit.Signature, NetworkID: m.NetworkID})
			hasWit := false
			for _, o := range got {
				switch {
				case bytes.Equal(o, m.Overlay):
					accepted = true
				case bytes.Equal(o, wit.Overlay):
					hasWit = true
				default:
					x.Fail("addressbook-foreign-entry-"+field, "address book holds overlay %x which is neither the record's claimed overlay nor the witness", o)
				}
			}
			x.Logf("address book after saveUnderlay: %d entries, record stored=%v witness stored=%v; reference accepts=%v %s", len(got), accepted, hasWit, want, why)
			x.Check(!hasWit || witWant, "accepts-unauthenticated-witness", "witness record stored although the reference rejects it on network %d", m.NetworkID)
			x.Check(hasWit || !witWant, "genuine-record-dropped-after-"+field, "a genuine record later in the list was not stored (first record: %s)", field)
		} else {
			x.NoErr(protobuf.NewWriter(&st.stream.in).WriteMsg(&pb.UnderlayResp{Dest: m.Overlay, Underlay: m.Underlay, Signature: m.Signature}), "encode reply")
			var addr *aurora.Address
			var err error
			if pv := mc.Try(func() {
				addr, err = svc.FindUnderlay(context.Background(), boson.NewAddress(b.rec.Overlay), 10*time.Minute)
			}); pv != nil {
				x.Fail("panic-findunderlay-"+field, "FindUnderlay panicked: %v", pv)
			}
			if err != nil && (errors.Is(err, context.DeadlineExceeded) || errors.Is(err, context.Canceled)) {
				x.Broken("FindUnderlay timed out: %v", err)
			}
			if st.calls != 1 {
				x.Broken("FindUnderlay opened %d relay streams", st.calls)
			}
			accepted = err == nil && addr != nil
			got := verifBookOverlays(x, ab)
			x.Logf("FindUnderlay err=%v; address book has %d entries; reference accepts=%v %s", err, len(got), want, why)
			if accepted {
				x.Check(len(got) == 1 && bytes.Equal(got[0], m.Overlay), "addressbook-differs-from-result", "FindUnderlay succeeded but the address book holds %d entries", len(got))
			} else {
				x.Check(len(got) == 0, "addressbook-touched-on-reject-"+field, "FindUnderlay failed (%v) but the address book holds %d entries", err, len(got))
			}
		}
		if op.Kind == c34ref.OpNone {
			x.Check(bytes.Equal(m.Overlay, c34ref.OverlayOf(c34ref.PublicKey(ki))), "overlay-is-not-the-keys-overlay", "crypto.NewOverlayAddress gives %x for key %d [%s], SHA3-256(keccak256(X||Y)) is %x", m.Overlay, ki, c34ref.KeyNames[ki], c34ref.OverlayOf(c34ref.PublicKey(ki)))
			if ki >= 3 {
				x.Tag("boundary-key-own-record")
			}
		}
		x.Check(!accepted || want, "accepts-unauthenticated-"+field+"-"+entryName, "%s stored a record the reference rejects (%s): %s", entryName, field, why)

		if op.Kind == c34ref.OpNone {
			x.Check(want, "reference-rejects-own-record", "reference rejects a record made by NewAddress: %s", why)
			x.Check(accepted, "own-record-rejected-"+entryName, "%s did not store a genuine record", entryName)
			stored, err := ab.Get(boson.NewAddress(m.Overlay))
			x.Check(err == nil && stored != nil, "own-record-rejected-"+entryName, "address book Get failed: %v", err)
			sb, _ := stored.Underlay.MarshalBinary()
			x.Check(bytes.Equal(sb, m.Underlay) && bytes.Equal(stored.Signature, m.Signature) && bytes.Equal(stored.Overlay.Bytes(), m.Overlay), "stored-record-differs", "address book holds a different record")
			x.Outcome("own->stored")
			return
		}
		x.Nontrivial()
		x.Tag("mutated-" + field)
		if want {
			x.Tag("equivalent-encoding-" + field)
			x.Outcome("equivalent-encoding(" + field + ")->stored=" + map[bool]string{true: "true", false: "false"}[accepted])
			return
		}
		x.Outcome("mutated->not-stored")
	})
}
