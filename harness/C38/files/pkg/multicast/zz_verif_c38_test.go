//go:build verif
// +build verif

package multicast

// C38: multicast groups partition peers and flood each message once.
//
//   TestVerifC38Groups  (a) opseq over the real Group/Service membership code
//   TestVerifC38Flood   (b) netsim: 3-4 real Services, every delivery order
//
// See harness/C38/NOTES.md.

import (
	"bytes"
	"context"
	"encoding/binary"
	"fmt"
	"io"
	"runtime/debug"
	"sort"
	"strings"
	"sync"
	"testing"
	"time"

	"github.com/gauss-project/aurorafs/pkg/aurora"
	"github.com/gauss-project/aurorafs/pkg/boson"
	"github.com/gauss-project/aurorafs/pkg/logging"
	"github.com/gauss-project/aurorafs/pkg/multicast/model"
	"github.com/gauss-project/aurorafs/pkg/multicast/pb"
	"github.com/gauss-project/aurorafs/pkg/p2p"
	"github.com/gauss-project/aurorafs/pkg/routetab"
	"github.com/gauss-project/aurorafs/pkg/subscribe"
	kadmock "github.com/gauss-project/aurorafs/pkg/topology/kademlia/mock"
	"github.com/gauss-project/aurorafs/pkg/zzverif/mc"
	"github.com/gogf/gf/v2/os/gcache"
	"github.com/sirupsen/logrus"
)

// ---------------------------------------------------------------- stubs ----

var c38Logger = logging.New(io.Discard, logrus.PanicLevel)

// The kademlia mock is stateless for everything pkg/multicast asks of it here
// (GetPeersWithLatencyEWMA returns its argument, RefreshProtectPeer is empty),
// but its constructor starts a goroutine, so one instance serves all executions.
var c38Kad = kadmock.NewMockKademlia()

// c38Addr gives participant i a fixed 32-byte overlay address.
func c38Addr(tag byte, i int) boson.Address {
	b := make([]byte, 32)
	b[0] = tag
	b[1] = byte(i + 1)
	b[31] = byte(i + 1)
	return boson.NewAddress(b)
}

// c38Route answers IsNeighbor from a table the harness controls. Any other
// RouteTab method the code under test might call panics on the nil embedded
// interface, which the engine reports as BROKEN (never as a violation).
type c38Route struct {
	routetab.RouteTab
	nb map[string]bool
}

func (r *c38Route) IsNeighbor(a boson.Address) bool { return r.nb[a.ByteString()] }
func (r *c38Route) Connect(ctx context.Context, a boson.Address) error {
	return nil
}

// c38SubPub is a synchronous stand-in for subscribe.SubPub: it records what
// would be handed to every notifier registered for (namespace, kind, param).
type c38Pub struct {
	kind, param string
	msg         interface{}
}
type c38SubPub struct{ pubs []c38Pub }

var _ subscribe.SubPub = (*c38SubPub)(nil)

func (s *c38SubPub) Subscribe(subscribe.INotifier, string, string, string) error { return nil }
func (s *c38SubPub) Publish(ns, kind, param string, m interface{}) error {
	if ns == "group" && kind != "logContent" {
		s.pubs = append(s.pubs, c38Pub{kind, param, m})
	}
	return nil
}
func (s *c38SubPub) PublishArray(string, string, string, []interface{}) error { return nil }

// c38FreshCache: the same gcache.Cache type and memory adapter the package
// global uses, minus the once-a-second sweeper job gcache.New registers in a
// process-wide timer (it only reclaims memory of entries that every read
// already treats as absent once expired).
func c38FreshCache() *gcache.Cache { return gcache.NewWithAdapter(gcache.NewAdapterMemory()) }

// c38NoThrottle makes notifyPeers' 500 ms real-time rate limiter a no-op for
// the next membership change (as if the previous notification was long ago).
func c38NoThrottle(s *Service) {
	for _, g := range s.getGroupAll() {
		g.groupPeersLastSend = time.Time{}
	}
}

func c38Names(list []boson.Address, name func(boson.Address) string, sorted bool) []string {
	out := make([]string, 0, len(list))
	for _, a := range list {
		out = append(out, name(a))
	}
	if sorted {
		sort.Strings(out)
	}
	return out
}

// ------------------------------------------------------- (a) membership ----

type c38Lists struct{ conn, keep, known []string }

func (l c38Lists) where(p string) string {
	w := ""
	for _, v := range l.conn {
		if v == p {
			w += "C"
		}
	}
	for _, v := range l.keep {
		if v == p {
			w += "K"
		}
	}
	for _, v := range l.known {
		if v == p {
			w += "N"
		}
	}
	if w == "" {
		return "-"
	}
	return w
}

func TestVerifC38Groups(t *testing.T) {
	depth := mc.EnvInt("VERIF_C38_DEPTH", mc.Pick(4, 6))
	const nFill = maxKnownPeers + 2
	peerNames := []string{"p", "q", "r"}
	gidSets := [][]int{{}, {0}, {1}, {0, 1}}
	gidSetNames := []string{"[]", "[G]", "[H]", "[G,H]"}

	self := c38Addr(0xaa, 0)
	peers := []boson.Address{c38Addr(0x10, 0), c38Addr(0x10, 1), c38Addr(0x10, 2)}
	fill := make([]boson.Address, nFill)
	names := map[string]string{}
	for i, p := range peers {
		names[p.ByteString()] = peerNames[i]
	}
	for i := range fill {
		fill[i] = c38Addr(0x20, i)
		names[fill[i].ByteString()] = fmt.Sprintf("f%d", i)
	}
	name := func(a boson.Address) string {
		if n, ok := names[a.ByteString()]; ok {
			return n
		}
		return "?" + a.String()[:6]
	}
	gids := []boson.Address{GenerateGID("verif-G"), GenerateGID("verif-H")}
	gnames := []string{"G", "H"}

	gidStr := []string{gids[0].String(), gids[1].String()}
	peerStr := []string{peers[0].String(), peers[1].String(), peers[2].String()}

	mc.Run(t, mc.Config{ID: "C38", Name: "C38-groups-opseq", MaxDev: -1, ShardLevels: mc.EnvInt("VERIF_C38_SHARDLEVELS", 2), Params: map[string]interface{}{
		"depth": depth, "peers": peerNames, "groups": "G (joined), H (known)",
		"alphabet": "add(G,p,keep) x6 | remove(G,p,intoKnown) x6 | fill(G: add 22 further known peers) | pruneKnown(G) | updatePeerGroupsJoin(p, {[],[G],[H],[G,H]}) x12 | flipNeighbour(p) x3 | disconnectEffect(p) x3",
		"max_known": maxKnownPeers, "fill": nFill}},
		func(x *mc.X) {
			orig := cache
			defer func() { cache = orig }()
			cache = c38FreshCache()

			route := &c38Route{nb: map[string]bool{}}
			sp := &c38SubPub{}
			s := NewService(self, aurora.NewModel(), nil, nil, c38Kad, route, c38Logger, sp, Option{Dev: true})
			G := s.newGroup(gids[0], model.ConfigNodeGroup{Name: "G", GType: model.GTypeJoin})
			// H is the group other nodes report in handshakes; it is created up
			// front (by the real getGroupOrCreate) because a group created in the
			// same call that first changes its membership sleeps 500 ms of real time
			// in notifyPeers.
			s.getGroupOrCreate(gids[1])

			read := func() []c38Lists {
				out := make([]c38Lists, len(gids))
				for i, gid := range gids {
					g := s.getGroup(gid)
					if g == nil {
						x.Broken("group %s vanished", gnames[i])
					}
					gp, err := s.GetGroupPeers(gidStr[i])
					x.NoErr(err, "GetGroupPeers")
					out[i] = c38Lists{
						conn:  c38Names(gp.Connected, name, false),
						keep:  c38Names(gp.Keep, name, false),
						known: c38Names(g.knownPeers.BinPeers(0), name, false),
					}
				}
				return out
			}
			canon := func(ls []c38Lists) string {
				var b strings.Builder
				for i, l := range ls {
					c := append([]string{}, l.conn...)
					k := append([]string{}, l.keep...)
					sort.Strings(c)
					sort.Strings(k)
					// known keeps its order: pruneKnown removes from the front.
					fmt.Fprintf(&b, "%s c=%v k=%v n=%v|", gnames[i], c, k, l.known)
				}
				for i, p := range peers {
					fmt.Fprintf(&b, "%s nb=%v pg=", peerNames[i], route.nb[p.ByteString()])
					var pg []string
					for _, g := range s.peerGroups[peerStr[i]] {
						for j := range gids {
							if g.gid.Equal(gids[j]) {
								pg = append(pg, gnames[j])
							}
						}
					}
					sort.Strings(pg)
					fmt.Fprintf(&b, "%v|", pg)
				}
				return b.String()
			}

			before := read()
			for step := 0; step < depth; step++ {
				op := x.Choose(32)
				c38NoThrottle(s)
				disconnected := -1
				var desc string
				switch {
				case op < 6:
					p, keep := op/2, op%2 == 1
					desc = fmt.Sprintf("G.add(%s, keep=%v)", peerNames[p], keep)
					G.add(peers[p], keep)
				case op < 12:
					p, into := (op-6)/2, (op-6)%2 == 1
					desc = fmt.Sprintf("G.remove(%s, intoKnown=%v)", peerNames[p], into)
					G.remove(peers[p], into)
				case op == 12:
					desc = fmt.Sprintf("G.add(f0..f%d, keep=false)", nFill-1)
					for _, f := range fill {
						G.add(f, false)
					}
				case op == 13:
					desc = "G.pruneKnown()"
					G.pruneKnown()
				case op < 26:
					p, gs := (op-14)/4, (op-14)%4
					desc = fmt.Sprintf("updatePeerGroupsJoin(%s, %s)", peerNames[p], gidSetNames[gs])
					var l []boson.Address
					for _, j := range gidSets[gs] {
						l = append(l, gids[j])
					}
					s.updatePeerGroupsJoin(peers[p], l)
				case op < 29:
					p := op - 26
					k := peers[p].ByteString()
					route.nb[k] = !route.nb[k]
					desc = fmt.Sprintf("neighbour(%s) := %v", peerNames[p], route.nb[k])
				default:
					p := op - 29
					disconnected = p
					desc = fmt.Sprintf("disconnect event effect for %s (remove(%s, true) on every group)", peerNames[p], peerNames[p])
					// body of `case p2p.PeerStateDisconnect` in Service.Start
					for _, g := range s.getGroupAll() {
						g.remove(peers[p], true)
					}
				}
				after := read()
				x.Logf("step %d: %s -> %s", step, desc, canon(after))

				for gi, l := range after {
					// every address (named peers and fillers) in at most one list
					seen := map[string]string{}
					for li, lst := range [][]string{l.conn, l.keep, l.known} {
						ln := []string{"connected", "kept", "known"}[li]
						for _, n := range lst {
							if prev, dup := seen[n]; dup && prev != ln {
								a, b := prev, ln
								x.Fail("lists-not-disjoint/"+a+"+"+b,
									"after %s: peer %s of group %s is in both the %s and the %s list (%+v)", desc, n, gnames[gi], a, b, l)
							}
							seen[n] = ln
						}
					}
					// connected => neighbour at the time it was listed
					for _, n := range l.conn {
						was := false
						for _, m := range before[gi].conn {
							if m == n {
								was = true
							}
						}
						if was {
							continue
						}
						isNb := false
						for pi, pn := range peerNames {
							if pn == n {
								isNb = route.nb[peers[pi].ByteString()]
							}
						}
						x.Check(isNb, "connected-listed-while-not-neighbour",
							"%s listed %s as connected in group %s although route.IsNeighbor answers false", desc, n, gnames[gi])
						x.Tag("listed-connected")
					}
					if disconnected >= 0 {
						x.Check(l.where(peerNames[disconnected]) != "C" && !strings.Contains(l.where(peerNames[disconnected]), "C"),
							"connected-after-disconnect",
							"group %s still lists %s as connected after its disconnect event was processed", gnames[gi], peerNames[disconnected])
					}
					for _, pn := range peerNames {
						a, b := before[gi].where(pn), l.where(pn)
						if a != b {
							x.Tag(gnames[gi] + ":" + a + "->" + b)
							x.Nontrivial()
						}
					}
					if len(before[gi].known) > maxKnownPeers && len(l.known) < len(before[gi].known) && op == 13 {
						x.Tag("prune-removed-" + fmt.Sprint(len(before[gi].known)-len(l.known)))
						for _, pn := range peerNames {
							if before[gi].where(pn) == "N" && l.where(pn) == "-" {
								x.Tag("prune-removed-named-peer")
							}
						}
					}
				}
				before = after
				if x.Seen(canon(after), depth-step-1) {
					return
				}
			}
			x.Outcome("invariants-held")
		})
}

// ---------------------------------------------------------- (b) netsim ----

type c38Stream struct {
	mu       sync.Mutex
	from, to int
	name     string
	relay    bool
	in       *bytes.Reader
	out      bytes.Buffer
	closed   int
}

func (s *c38Stream) Read(p []byte) (int, error) {
	if s.in == nil {
		return 0, io.EOF
	}
	return s.in.Read(p)
}
func (s *c38Stream) Write(p []byte) (int, error) {
	s.mu.Lock()
	defer s.mu.Unlock()
	return s.out.Write(p)
}
func (s *c38Stream) Headers() p2p.Headers         { return nil }
func (s *c38Stream) ResponseHeaders() p2p.Headers { return nil }
func (s *c38Stream) Close() error                 { return s.FullClose() }
func (s *c38Stream) FullClose() error {
	s.mu.Lock()
	s.closed++
	s.mu.Unlock()
	return nil
}
func (s *c38Stream) Reset() error { return s.FullClose() }

type c38Msg struct {
	from, to   int
	origin     int
	id         uint64
	relay      bool
	bytes      []byte
}

func (m c38Msg) key() string { return fmt.Sprintf("n%d>n%d(n%d#%d)", m.from, m.to, m.origin, m.id) }
func (m c38Msg) mid() string { return fmt.Sprintf("n%d#%d", m.origin, m.id) }

type c38Node struct {
	idx      int
	addr     boson.Address
	svc      *Service
	cache    *gcache.Cache
	sub      *c38SubPub
	route    *c38Route
	role     byte // 'J' joined+subscribed, 'O' observer, 'N' no group for gid
	handler  p2p.HandlerFunc
	notified map[string]int // (origin,id) -> notifications to multicast subscribers
	fwdInv   map[string]int // (origin,id) -> invocations that sent it on
	received map[string]int // (origin,id) -> handler invocations
	life     map[string]time.Duration // expiring cache key -> virtual remaining life
}

type c38Net struct {
	x        *mc.X
	nodes    []*c38Node
	inflight []c38Msg
	originated []string   // every (origin,id) originated in this execution
	out      []*c38Stream // streams opened by the running invocation
	running  int          // node whose code runs, -1 = none
}

type c38Streamer struct {
	net  *c38Net
	node int
}

func (s *c38Streamer) open(addr boson.Address, proto, ver, stream string, relay bool) (p2p.Stream, error) {
	n := s.net
	if n.running != s.node {
		n.x.Broken("node n%d opened a stream while n%d's code was running", s.node, n.running)
	}
	if proto != protocolName || ver != protocolVersion {
		n.x.Broken("unexpected protocol %s/%s", proto, ver)
	}
	to := -1
	for _, d := range n.nodes {
		if d.addr.Equal(addr) {
			to = d.idx
		}
	}
	if to < 0 {
		n.x.Broken("stream to unknown address %s", addr)
	}
	st := &c38Stream{from: s.node, to: to, name: stream, relay: relay}
	n.out = append(n.out, st)
	return st, nil
}
func (s *c38Streamer) NewStream(ctx context.Context, a boson.Address, h p2p.Headers, proto, ver, stream string) (p2p.Stream, error) {
	return s.open(a, proto, ver, stream, false)
}
func (s *c38Streamer) NewConnChainRelayStream(ctx context.Context, a boson.Address, h p2p.Headers, proto, ver, stream string) (p2p.Stream, error) {
	return s.open(a, proto, ver, stream, true)
}
func (s *c38Streamer) NewRelayStream(ctx context.Context, a boson.Address, h p2p.Headers, proto, ver, stream string, midCall bool) (p2p.Stream, error) {
	s.net.x.Broken("NewRelayStream is not used by pkg/multicast")
	return nil, nil
}

type c38Topo struct {
	name  string
	n     int
	edges [][2]int
	mid   int // the "middle" node whose role varies
	line  bool
}

var c38Topos = []c38Topo{
	{"line3", 3, [][2]int{{0, 1}, {1, 2}}, 1, true},
	{"triangle", 3, [][2]int{{0, 1}, {1, 2}, {0, 2}}, 1, false},
	{"line4", 4, [][2]int{{0, 1}, {1, 2}, {2, 3}}, 1, true},
	{"star4", 4, [][2]int{{0, 1}, {0, 2}, {0, 3}}, 0, false},
	{"cycle4", 4, [][2]int{{0, 1}, {1, 2}, {2, 3}, {3, 0}}, 1, false},
	// thorough only:
	{"diamond4", 4, [][2]int{{0, 1}, {1, 2}, {2, 3}, {3, 0}, {0, 2}}, 0, false},
	{"complete4", 4, [][2]int{{0, 1}, {0, 2}, {0, 3}, {1, 2}, {1, 3}, {2, 3}}, 0, false},
}

// c38Clocks: how far the first origin's clock is off when it stamps CreateTime
// (the field is written by the origin and never validated by a receiver).
// "accurate" goes through the ordinary Multicast() path (empty Origin); the
// others hand Multicast() the exact message an origin with such a clock would
// build: own address as Origin, an id, CreateTime = its idea of "now".
var c38Clocks = []struct {
	name string
	zero bool
	off  time.Duration
}{
	{"accurate", false, 0},
	{"30s-behind", false, -30 * time.Second},
	{"2min-behind", false, -2 * time.Minute},
	{"CreateTime=0", true, 0},
	{"2min-ahead", false, 2 * time.Minute},
}

// c38Jump is the one step of virtual time an execution may take: "40 s pass
// on every node". It stays inside the one-minute window counted from any
// receipt; real time plays no part (see "virtual time" at the end of the file).
const c38Jump = 40 * time.Second

var c38Variants = []string{"all-joined", "observer-in-the-middle", "last-edge-kept-not-neighbour", "middle-has-no-group(relay)"}

// run executes code of node i with the package-global de-duplication cache
// swapped to that node's own instance (the keys carry no node id), then turns
// every stream the node opened into an in-flight message.
func (n *c38Net) run(i int, what string, f func() error) {
	x := n.x
	nd := n.nodes[i]
	n.arm(nd)
	cache = nd.cache
	n.running, n.out = i, nil
	pubsBefore := len(nd.sub.pubs)
	t0 := time.Now()
	err := f()
	n.running = -1
	n.capture(nd, time.Since(t0))
	n.arm(nd)
	if err != nil {
		x.Broken("%s at n%d returned %v", what, i, err)
	}
	// notifications to this node's multicast subscribers
	for _, p := range nd.sub.pubs[pubsBefore:] {
		if p.kind != "multicastMsg" {
			continue
		}
		m, ok := p.msg.(Message)
		if !ok {
			x.Broken("multicastMsg publication of type %T", p.msg)
		}
		o := n.index(m.Origin)
		mid := fmt.Sprintf("n%d#%d", o, m.ID)
		nd.notified[mid]++
		x.Check(nd.notified[mid] <= 1, "subscriber-notified-twice",
			"n%d (%s) notified its multicast subscribers of message %s %d times (last: %s)", i, string(nd.role), mid, nd.notified[mid], what)
	}
	// forwarded copies
	sent := map[string]bool{}
	for _, st := range n.out {
		if st.name != streamMulticast {
			x.Broken("n%d opened an unexpected %q stream during %s", i, st.name, what)
		}
		var m pb.MulticastMsg
		raw := st.out.Bytes()
		l, k := binary.Uvarint(raw) // varint-delimited, as protobuf.NewWriter frames it
		if k <= 0 || int(l) != len(raw)-k {
			x.Broken("n%d wrote %d bytes that are not exactly one delimited message", i, len(raw))
		}
		if err := m.Unmarshal(raw[k:]); err != nil {
			x.Broken("n%d wrote an undecodable multicast message: %v", i, err)
		}
		msg := c38Msg{from: i, to: st.to, origin: n.index(boson.NewAddress(m.Origin)), id: m.Id, relay: st.relay,
			bytes: append([]byte{}, st.out.Bytes()...)}
		n.inflight = append(n.inflight, msg)
		sent[msg.mid()] = true
		if st.relay {
			x.Tag("sent-over-kept-(non-neighbour)-link")
		}
	}
	mids := make([]string, 0, len(sent))
	for mid := range sent {
		mids = append(mids, mid)
	}
	sort.Strings(mids)
	for _, mid := range mids {
		nd.fwdInv[mid]++
		x.Check(nd.fwdInv[mid] <= 1, "node-forwarded-message-twice",
			"n%d (%s) sent message %s on in %d separate invocations (last: %s)", i, string(nd.role), mid, nd.fwdInv[mid], what)
		switch nd.role {
		case 'O':
			x.Tag("observer-forwarded")
		case 'N':
			x.Tag("relay-without-group-forwarded")
		}
	}
}

func (n *c38Net) index(a boson.Address) int {
	for _, d := range n.nodes {
		if d.addr.Equal(a) {
			return d.idx
		}
	}
	n.x.Broken("unknown origin address %s", a)
	return -1
}

func (n *c38Net) canon(pending string) string {
	var b strings.Builder
	for _, nd := range n.nodes {
		all, err := nd.cache.KeyStrings(cacheCtx)
		n.x.NoErr(err, "cache keys")
		keys := all[:0]
		for _, k := range all {
			if k != "" { // expired entries show up as padding
				keys = append(keys, k)
			}
		}
		sort.Strings(keys)
		fmt.Fprintf(&b, "n%d seq=%d cache=%v", nd.idx, nd.svc.msgSeq, keys)
		for _, mp := range []map[string]int{nd.notified, nd.fwdInv} {
			ks := make([]string, 0, len(mp))
			for k, v := range mp {
				ks = append(ks, fmt.Sprintf("%s=%d", k, v))
			}
			sort.Strings(ks)
			fmt.Fprintf(&b, " %v", ks)
		}
		b.WriteString("|")
	}
	fl := make([]string, 0, len(n.inflight))
	for _, m := range n.inflight {
		fl = append(fl, m.key())
	}
	sort.Strings(fl)
	fmt.Fprintf(&b, "flight=%v pending=%s", fl, pending)
	return b.String()
}

func TestVerifC38Flood(t *testing.T) {
	// every delivery allocates the 1 MiB bufio buffer of protobuf.NewReader in
	// the real handler; collect less often
	defer debug.SetGCPercent(debug.SetGCPercent(400))
	nTopo := mc.EnvInt("VERIF_C38_TOPOS", mc.Pick(5, len(c38Topos)))
	topo0 := mc.EnvInt("VERIF_C38_TOPO0", 0)
	maxMsgs := 2
	maxDev := mc.EnvInt("VERIF_C38_DEV", mc.Pick(1, 3))
	// second message only on topologies with at most this many edges
	jumps := mc.EnvInt("VERIF_C38_JUMPS", 1)
	// skewed origin clocks and the time jump only on topologies up to this size
	timeMaxEdges := mc.EnvInt("VERIF_C38_TIME_EDGES", 4)
	twoMsgMaxEdges := mc.EnvInt("VERIF_C38_TWOMSG_EDGES", 3)
	// two interleaved floods multiply the state space: fewer deviations there
	twoMsgDev := mc.EnvInt("VERIF_C38_TWOMSG_DEV", mc.Pick(1, 2))
	// ... and on dense topologies (>= 6 edges)
	denseDev := mc.EnvInt("VERIF_C38_DENSE_DEV", 2)
	twoMsgMaxNodes := mc.EnvInt("VERIF_C38_TWOMSG_NODES", mc.Pick(3, 4))
	// per delivery: 0 deliver, 1 deliver and leave a duplicate in flight, 2 drop.
	// A drop is the same as delaying the message beyond the end of the run as far
	// as any node can tell, so it adds no (node state, message) pair; thorough only.
	fates := mc.EnvInt("VERIF_C38_FATES", mc.Pick(2, 3))
	// all (topology, role variant, first origin, second origin or none) as ONE
	// first choice, so that shards balance
	type config struct {
		tp              c38Topo
		variant, o1, o2 int
		clock           int // index into c38Clocks: how the first origin stamps CreateTime
	}
	// origin clocks explored for single-message configurations (index 0 = accurate)
	nClocks := mc.EnvInt("VERIF_C38_CLOCKS", mc.Pick(4, len(c38Clocks)))
	var configs []config
	for _, tp := range c38Topos[topo0:nTopo] {
		nVar := 3
		if tp.line {
			nVar = 4
		}
		for v := 0; v < nVar; v++ {
			for o1 := 0; o1 < tp.n; o1++ {
				for ck := 0; ck < nClocks; ck++ {
					if ck > 0 && len(tp.edges) > timeMaxEdges {
						break
					}
					configs = append(configs, config{tp, v, o1, -1, ck})
				}
				if maxMsgs > 1 && len(tp.edges) <= twoMsgMaxEdges && tp.n <= twoMsgMaxNodes {
					for o2 := 0; o2 < tp.n; o2++ {
						configs = append(configs, config{tp, v, o1, o2, 0})
					}
				}
			}
		}
	}
	var clockNames []string
	for _, c := range c38Clocks[:nClocks] {
		clockNames = append(clockNames, c.name)
	}
	var topoNames []string
	for _, tp := range c38Topos[topo0:nTopo] {
		topoNames = append(topoNames, tp.name)
	}
	mc.Run(t, mc.Config{ID: "C38", Name: "C38-flood-netsim", MaxDev: maxDev, ShardLevels: 1, Params: map[string]interface{}{
		"topologies": topoNames, "configurations": len(configs), "variants": c38Variants, "messages": fmt.Sprintf("1..%d (second one only when edges<=%d and nodes<=%d), originated at any node, the second at any point of the run", maxMsgs, twoMsgMaxEdges, twoMsgMaxNodes),
		"per_delivery": []string{"deliver", "deliver and keep a network duplicate in flight (1 deviation)", "drop (1 deviation)"}[:fates], "max_deviations": maxDev, "max_deviations_with_two_messages": twoMsgDev, "max_deviations_with_6_or_more_edges": denseDev,
		"origin_clock_of_first_message(single-message configurations)": clockNames, "virtual_time": fmt.Sprintf("at most %d jump(s) of %s on every node, at any point (single-message configurations)", jumps, c38Jump),
		"delivery_order": "every order of the distinct in-flight messages"}},
		func(x *mc.X) {
			orig := cache
			defer func() { cache = orig }()

			cf := configs[x.Choose(len(configs))]
			tp, variant, origin1, origin2 := cf.tp, cf.variant, cf.o1, cf.o2
			x.Logf("topology %s, %s, first message from n%d, second from n%d", tp.name, c38Variants[variant], origin1, origin2)

			gid := GenerateGID("verif-flood")
			other := GenerateGID("verif-other")
			net := &c38Net{x: x, running: -1}
			for i := 0; i < tp.n; i++ {
				nd := &c38Node{idx: i, addr: c38Addr(0x30, i), cache: c38FreshCache(), sub: &c38SubPub{}, route: &c38Route{nb: map[string]bool{}},
					role: 'J', notified: map[string]int{}, fwdInv: map[string]int{}, received: map[string]int{}, life: map[string]time.Duration{}}
				if i == tp.mid && variant == 1 {
					nd.role = 'O'
				}
				if i == tp.mid && variant == 3 {
					nd.role = 'N'
				}
				nd.svc = NewService(nd.addr, aurora.NewModel(), nil, &c38Streamer{net: net, node: i},
					c38Kad, nd.route, c38Logger, nd.sub, Option{Dev: true})
				for _, ss := range nd.svc.Protocol().StreamSpecs {
					if ss.Name == streamMulticast {
						nd.handler = ss.Handler
					}
				}
				if nd.handler == nil {
					x.Broken("no %s handler registered", streamMulticast)
				}
				net.nodes = append(net.nodes, nd)
			}
			// group membership through the real newGroup/add code
			members := 0
			for _, nd := range net.nodes {
				cache = nd.cache
				var g *Group
				switch nd.role {
				case 'J':
					g = nd.svc.newGroup(gid, model.ConfigNodeGroup{Name: "flood", GType: model.GTypeJoin})
					g.multicastSub = true // what SubscribeMulticastMsg sets
					members++
				case 'O':
					g = nd.svc.newGroup(gid, model.ConfigNodeGroup{Name: "flood", GType: model.GTypeObserve})
					g.multicastSub = true
				case 'N':
					g = nd.svc.newGroup(other, model.ConfigNodeGroup{Name: "other", GType: model.GTypeKnown})
				}
				for ei, e := range tp.edges {
					peer := -1
					if e[0] == nd.idx {
						peer = e[1]
					} else if e[1] == nd.idx {
						peer = e[0]
					}
					if peer < 0 {
						continue
					}
					kept := variant == 2 && ei == len(tp.edges)-1
					nd.route.nb[net.nodes[peer].addr.ByteString()] = !kept
					c38NoThrottle(nd.svc)
					g.add(net.nodes[peer].addr, true)
				}
				want := 0
				for _, e := range tp.edges {
					if e[0] == nd.idx || e[1] == nd.idx {
						want++
					}
				}
				if got := g.connectedPeers.Length() + g.keepPeers.Length(); got != want {
					x.Broken("setup: n%d has %d group peers, want %d", nd.idx, got, want)
				}
				nd.sub.pubs = nil
			}

			originate := func(o int, clock int) {
				nd := net.nodes[o]
				ck := c38Clocks[clock]
				info := &pb.MulticastMsg{Gid: gid.Bytes(), Data: []byte{byte(o)}}
				id := nd.svc.msgSeq + 1
				if clock != 0 {
					id = 1000 // cannot collide with the node's own sequence numbers
					info.Origin, info.Id = nd.addr.Bytes(), id
					if !ck.zero {
						info.CreateTime = time.Now().Add(ck.off).UnixMilli()
					}
					x.Tag("origin-clock-" + ck.name)
				}
				net.run(o, fmt.Sprintf("Multicast() at n%d", o), func() error { return nd.svc.Multicast(info) })
				net.originated = append(net.originated, fmt.Sprintf("n%d#%d", o, id))
				x.Logf("n%d (clock %s) originates message n%d#%d", o, ck.name, o, id)
			}
			originate(origin1, cf.clock)
			jumpLeft := jumps

			msgs := 1
			if origin2 >= 0 {
				msgs = 2
			}
			// one forward per node and message = at most sum(deg) = 2|E| copies per
			// message, plus duplicates, plus the step that originates message 2
			// (the bound below is four times that: it is a safety net that turns a
			// runaway flood into a reported violation instead of a hung check; any
			// such flood trips node-forwarded-message-twice first)
			maxSteps := 4*msgs*2*len(tp.edges) + maxDev + msgs + 2
			dropped, dups, devUsed := 0, 0, 0
			devCap := maxDev
			if msgs == 2 && twoMsgDev < devCap {
				devCap = twoMsgDev
			}
			if len(tp.edges) >= 6 && denseDev < devCap {
				devCap = denseDev
			}
			step := 0
			for ; ; step++ {
				// distinct in-flight messages, sorted
				sort.SliceStable(net.inflight, func(a, b int) bool { return net.inflight[a].key() < net.inflight[b].key() })
				var distinct []int
				for i := range net.inflight {
					if i == 0 || net.inflight[i].key() != net.inflight[i-1].key() {
						distinct = append(distinct, i)
					}
				}
				opts := len(distinct)
				if origin2 >= 0 {
					opts++
				}
				if opts == 0 {
					break
				}
				jumpOpt := -1
				if jumpLeft > 0 && msgs == 1 && len(tp.edges) <= timeMaxEdges {
					jumpOpt = opts
					opts++
				}
				if step >= maxSteps {
					x.Fail("flooding-does-not-stop", "%d messages still in flight after %d steps (bound: one forward per node and message)", len(net.inflight), step)
				}
				c := x.Choose(opts)
				if c == jumpOpt {
					jumpLeft--
					net.elapse(c38Jump)
					x.Tag("virtual-time-jump")
					x.Logf("step %d: %s pass on every node", step, c38Jump)
				} else if c == len(distinct) && origin2 >= 0 {
					if len(net.inflight) > 0 {
						x.Tag("second-message-while-first-in-flight")
					}
					originate(origin2, 0)
					origin2 = -1
				} else {
					mi := distinct[c]
					m := net.inflight[mi]
					fate := 0
					if devUsed < devCap {
						fate = x.Deviate(fates)
					}
					if fate != 0 {
						devUsed++
					}
					switch fate {
					case 0:
						net.inflight = append(net.inflight[:mi:mi], net.inflight[mi+1:]...)
					case 1:
						dups++
						x.Tag("network-duplicate")
					case 2:
						dropped++
						x.Tag("message-dropped")
						net.inflight = append(net.inflight[:mi:mi], net.inflight[mi+1:]...)
					}
					if fate == 2 {
						x.Logf("step %d: drop %s", step, m.key())
					} else {
						dst := net.nodes[m.to]
						dst.received[m.mid()]++
						if dst.received[m.mid()] > 1 {
							x.Tag("repeat-receipt-at-node")
							x.Nontrivial()
						}
						if m.origin == m.to {
							x.Tag("message-back-at-origin")
							x.Nontrivial()
						}
						before := len(net.inflight)
						net.run(m.to, "delivery of "+m.key(), func() error {
							st := &c38Stream{from: m.from, to: m.to, name: streamMulticast, in: bytes.NewReader(m.bytes)}
							return dst.handler(context.Background(), p2p.Peer{Address: net.nodes[m.from].addr}, st)
						})
						x.Logf("step %d: deliver %s%s -> n%d sends %d", step, m.key(), map[int]string{0: "", 1: " (+duplicate stays in flight)"}[fate], m.to, len(net.inflight)-before)
					}
				}
				pend := "-"
				if origin2 >= 0 {
					pend = fmt.Sprint(origin2)
				}
				if x.Seen(fmt.Sprintf("%s/%d/%d/%s/jumps=%d|%s|dropped=%v", tp.name, variant, origin1, c38Clocks[cf.clock].name, jumpLeft, net.canon(pend), dropped > 0), maxSteps-step) {
					return
				}
			}
			// quiescent: nothing in flight, nothing left to originate
			reached := 0
			for _, nd := range net.nodes {
				if nd.role != 'J' {
					continue
				}
				all := true
				for _, mid := range net.originated {
					if !strings.HasPrefix(mid, fmt.Sprintf("n%d#", nd.idx)) && nd.notified[mid] == 0 {
						all = false
					}
				}
				if all {
					reached++
				}
			}
			if dropped == 0 {
				x.Outcome(fmt.Sprintf("quiescent, no drop: %s", map[bool]string{true: "every member's subscribers got every foreign message exactly once", false: "some member not reached"}[reached == members]))
			} else {
				x.Outcome("quiescent, with drops")
			}
		})
}

// ---- virtual time -----------------------------------------------------
//
// gcache reads the wall clock, which the harness cannot steer, so the
// de-duplication lifetime is kept virtual: for every expiring entry of a
// node's cache the harness remembers its remaining life R at the moment the
// code under test created it (read back through GetExpire right after the
// invocation, rounded UP by the invocation's real duration). Virtual time only
// moves in elapse(). Before any code of a node runs, arm() rewrites the real
// expiry of each remembered entry from R alone: far in the future (R + 1 h)
// when R > 0, in the past otherwise. Real time - milliseconds normally, many
// seconds when the box stalls - therefore never decides whether an entry is
// alive, and the unchanged code (fixed 60 s from receipt, R >= 60 s at
// creation) can never lose an entry to the single 40 s jump.

const c38Pad = time.Hour

func (n *c38Net) arm(nd *c38Node) {
	keys := make([]string, 0, len(nd.life))
	for k := range nd.life {
		keys = append(keys, k)
	}
	sort.Strings(keys)
	for _, k := range keys {
		d := -time.Second
		if r := nd.life[k]; r > 0 {
			d = r + c38Pad
		}
		old, err := nd.cache.UpdateExpire(cacheCtx, k, d)
		n.x.NoErr(err, "cache expiry update")
		if old == -1 {
			n.x.Broken("cache entry %s of n%d vanished", k, nd.idx)
		}
	}
}

// capture records entries the invocation that just ended (re)created.
func (n *c38Net) capture(nd *c38Node, took time.Duration) {
	keys, err := nd.cache.Keys(cacheCtx)
	n.x.NoErr(err, "cache keys")
	for _, ki := range keys {
		k, ok := ki.(string)
		if !ok { // gcache pads Keys() with nil for expired entries
			continue
		}
		left, err := nd.cache.GetExpire(cacheCtx, k)
		n.x.NoErr(err, "cache expiry")
		if left > 24*365*time.Hour { // Set(..., 0): never expires, e.g. notifyGroupPeers
			continue
		}
		if r, tracked := nd.life[k]; tracked && r > 0 && left > c38Pad/2 {
			continue // armed before the invocation and not touched by it
		}
		nd.life[k] = left + took
	}
}

// elapse lets d of virtual time pass on every node.
func (n *c38Net) elapse(d time.Duration) {
	for _, nd := range n.nodes {
		for k := range nd.life {
			nd.life[k] -= d
		}
		n.arm(nd)
	}
}
