//go:build verifmasked
// +build verifmasked

// The repository's traffic_test.go imports pkg/p2p/libp2p and the stale
// traffic/cheque/mock and does not compile in the pinned tree; the overlay
// replaces it with this empty file so the injected harness builds.
package traffic
