//go:build verif
// +build verif

package netstore_test

import (
	"bytes"
	"fmt"
	"sort"
	"strings"
	"testing"

	"github.com/gauss-project/aurorafs/pkg/boson"
	"github.com/gauss-project/aurorafs/pkg/zzverif/mc"
	"github.com/gauss-project/aurorafs/pkg/zzverif/nodelite"
)

// C16: deleting a file (DELETE /aurora/{root}) or evicting it (GC) never
// removes a chunk another locally known file needs; afterwards no unpinned
// chunk used only by the deleted file remains stored.

type c16Op struct {
	name string
	kind string // "up", "cache", "delete", "pin", "unpin", "restart"
	file string
	run  func(n *nodelite.Node) string
}

func c16Ops(u *nodelite.Universe, thorough bool) []c16Op {
	var ops []c16Op
	file := func(f string) *nodelite.File { return u.ByName[f] }
	up := func(f string) c16Op {
		return c16Op{name: "upload(" + f + ")", kind: "up", file: f, run: func(n *nodelite.Node) string {
			c, ref := n.UploadAurora(f, file(f).Data, false)
			if c == 201 && !ref.Equal(file(f).Root) {
				return "201-other-root"
			}
			return fmt.Sprint(c)
		}}
	}
	cache := func(f string) c16Op {
		return c16Op{name: "cache(" + f + ")", kind: "cache", file: f, run: func(n *nodelite.Node) string {
			if err := n.Cache(file(f)); err != nil {
				return "err:" + strings.SplitN(err.Error(), ":", 2)[0]
			}
			return "ok"
		}}
	}
	del := func(f string) c16Op {
		return c16Op{name: "delete(" + f + ")", kind: "delete", file: f, run: func(n *nodelite.Node) string { return fmt.Sprint(n.DeleteAPI(file(f).Root)) }}
	}
	pin := func(f string) c16Op {
		return c16Op{name: "pin(" + f + ")", kind: "pin", file: f, run: func(n *nodelite.Node) string { return fmt.Sprint(n.PinAPI(file(f).Root)) }}
	}
	unpin := func(f string) c16Op {
		return c16Op{name: "unpin(" + f + ")", kind: "unpin", file: f, run: func(n *nodelite.Node) string { return fmt.Sprint(n.UnpinAPI(file(f).Root)) }}
	}
	restart := c16Op{name: "restart", kind: "restart", run: func(n *nodelite.Node) string {
		if err := n.Restart(); err != nil {
			return "err"
		}
		return "ok"
	}}
	// A=[x,y]; E = the same content under another name (identical file under two manifests);
	// P=[x] chunk-aligned prefix of A; D=[w,w] repeated chunk; B=[x,z] shares x with A.
	// R=[x,x]: a chunk repeated inside one file AND shared with A, E, P, B (reference counting per
	// file vs. per occurrence); D=[w,w] is the unrelated filler whose caching overflows the store.
	ops = append(ops, up("E"), up("P"), up("R"), cache("A"), cache("R"), cache("D"),
		del("A"), del("E"), del("P"), del("R"), restart)
	if thorough {
		ops = append(ops, up("A"), up("B"), cache("B"), cache("E"), cache("P"), del("B"), pin("A"), unpin("A"))
	}
	return ops
}

func c16Has(l []string, s string) bool {
	for _, e := range l {
		if e == s {
			return true
		}
	}
	return false
}

func c16Set(m map[string]bool) string {
	var ks []string
	for k := range m {
		ks = append(ks, k)
	}
	sort.Strings(ks)
	return strings.Join(ks, ",")
}

func TestVerifC16(t *testing.T) {
	names := []string{"A", "E", "P", "D", "B", "R"}
	letters := map[string]string{"A": "xy", "E": "xy", "P": "x", "D": "ww", "B": "xz", "R": "xx"}
	u, err := nodelite.BuildUniverse(names, letters)
	if err != nil {
		t.Fatalf("universe: %v", err)
	}
	if !u.ByName["A"].Ref.Equal(u.ByName["E"].Ref) || u.ByName["A"].Root.Equal(u.ByName["E"].Root) {
		t.Fatalf("A and E must share the file entry and differ in the manifest")
	}
	thorough := mc.Thorough()
	depth := 5
	capacity := uint64(8)
	ops := c16Ops(u, thorough)
	var opNames []string
	for _, o := range ops {
		opNames = append(opNames, o.name)
	}
	closure := func(f string) map[string]bool {
		m := map[string]bool{}
		for _, a := range u.ByName[f].Closure {
			m[u.Name(a)] = true
		}
		return m
	}
	mc.Run(t, mc.Config{ID: "C16", Name: "C16-delete-isolation", MaxDev: -1, Params: map[string]interface{}{
		"depth": depth, "alphabet": opNames, "initial_states": "empty (depth steps) | E,P,R uploaded + A cached (depth-1 steps)", "capacity": capacity, "files": letters, "chunk_size": boson.ChunkSize,
		"gc": "worker loop run synchronously after every operation that left a trigger pending",
	}}, func(x *mc.X) {
		n, err := nodelite.New(nodelite.Options{Capacity: capacity, Universe: u})
		x.NoErr(err, "node")
		defer n.Close()
		// initial state: empty store (history of `depth` steps), or a store that already holds the
		// overlapping files — E, P, R uploaded, A cached — so that delete -> re-register -> delete
		// sequences over a fully shared chunk fit into a history of depth-1 steps
		populated := x.Choose(2) == 1
		known := map[string]bool{} // files uploaded through POST /aurora or fully cached, not deleted/evicted since
		limbo := map[string]bool{} // files whose delete request failed: nothing is required of them any more
		// files the user uploaded (POST /aurora) and has not deleted: when the cache entry of such a file
		// (it was cached before it was uploaded) is evicted, the statement does not say whether its chunks
		// must go, so the "nothing remains" clause is not applied to it and its chunks count as possibly needed
		uploadedByUser := map[string]bool{}
		removals := 0

		// judge: called after a delete request or a collection run that removed the files in `gone`
		judge := func(how string, gone []string, leftoverCheck bool) {
			s, err := n.Snap()
			x.NoErr(err, "snapshot")
			var ks []string
			for f := range known {
				ks = append(ks, f)
			}
			sort.Strings(ks)
			// 1. every other known file is complete and reads back through the local store
			for _, f := range ks {
				for _, a := range u.ByName[f].Closure {
					if !s.Data[u.Name(a)] {
						x.Fail(how+"-removed-chunk-of-other-file", "%s of %v removed chunk %s that known file %s needs; known {%s}   [%s]", how, gone, u.Name(a), f, c16Set(known), s.Key())
					}
				}
				data, err := n.ReadFile(u.ByName[f], true)
				if err != nil || !bytes.Equal(data, u.ByName[f].Data) {
					x.Fail(how+"-other-file-unreadable", "%s of %v: known file %s no longer reads back (err %v)", how, gone, f, err)
				}
			}
			// 2. no unpinned chunk used only by the removed file remains
			if !leftoverCheck {
				return
			}
			needed := map[string]bool{}
			for _, f := range ks {
				for c := range closure(f) {
					needed[c] = true
				}
			}
			for f := range limbo {
				for c := range closure(f) {
					needed[c] = true
				}
			}
			if how == "eviction" {
				for f := range uploadedByUser {
					for c := range closure(f) {
						needed[c] = true
					}
				}
			}
			for _, g := range gone {
				var cs []string
				for c := range closure(g) {
					cs = append(cs, c)
				}
				sort.Strings(cs)
				for _, c := range cs {
					if !needed[c] && s.Data[c] && s.Pin[c] == 0 {
						x.Fail(how+"-left-unpinned-chunk-of-removed-file", "after %s of %s the unpinned chunk %s, used by no other known file, is still stored; known {%s}   [%s]", how, g, c, c16Set(known), s.Key())
					}
				}
			}
		}

		// prune: a known file that an operation other than a delete/eviction damaged is no
		// longer C16's subject (the statement speaks about what deletions and evictions remove)
		prune := func(s nodelite.Snapshot, after string) {
			for f := range known {
				for _, a := range u.ByName[f].Closure {
					if !s.Data[u.Name(a)] {
						x.Logf("   (known file %s lost %s by %s: dropped from the known set)", f, u.Name(a), after)
						x.Tag("known-file-damaged-by-non-removal-op")
						delete(known, f)
						break
					}
				}
			}
		}
		steps := depth
		if populated {
			steps = depth - 1
			for _, f := range []string{"E", "P", "R"} {
				c, ref := n.UploadAurora(f, u.ByName[f].Data, false)
				if c != 201 || !ref.Equal(u.ByName[f].Root) {
					x.Broken("initial upload of %s: %d", f, c)
				}
				known[f], uploadedByUser[f] = true, true
			}
			x.NoErr(n.Cache(u.ByName["A"]), "initial cache(A)")
			known["A"] = true
			s, err := n.Snap()
			x.NoErr(err, "snapshot")
			if s.Trigger {
				x.Broken("initial state requests a collection run")
			}
			x.Logf("initial state: upload(E), upload(P), upload(R), cache(A)   [%s]", s.Key())
		}
		for step := 0; step < steps; step++ {
			op := ops[x.Choose(len(ops))]
			out := op.run(n)
			s1, err := n.Snap()
			x.NoErr(err, "snapshot")
			if op.kind != "delete" {
				prune(s1, op.name)
			}
			x.Logf("%s -> %s   [%s]", op.name, out, s1.Key())
			x.Outcome(op.kind + ":" + out)
			switch op.kind {
			case "up":
				if out == "201" {
					known[op.file] = true
					uploadedByUser[op.file] = true
					delete(limbo, op.file)
				}
			case "cache":
				if out == "ok" {
					known[op.file] = true
					delete(limbo, op.file)
				}
			case "delete":
				wasKnown := known[op.file]
				delete(known, op.file)
				delete(uploadedByUser, op.file)
				if out == "200" {
					delete(limbo, op.file)
					if wasKnown {
						removals++
						x.Tag("deleted-a-known-file")
						if len(known) > 0 {
							x.Nontrivial()
						}
					}
					judge("delete", []string{op.file}, wasKnown)
				} else {
					if wasKnown {
						limbo[op.file] = true
						x.Tag("delete-of-known-file-failed")
					}
					judge("failed-delete", []string{op.file}, false)
				}
			}
			if s1.Trigger {
				res := n.GC(8)
				s2, err := n.Snap()
				x.NoErr(err, "snapshot")
				var gone []string
				for _, e := range s1.GC {
					still := false
					for _, e2 := range s2.GC {
						// entries are identified by root AND access time: after delete + re-cache a root can
						// have a stale and a fresh entry, and the run may take either
						if e2.Root == e.Root && e2.TS == e.TS {
							still = true
						}
					}
					if !still {
						for _, f := range u.Files {
							if u.Name(f.Root) == e.Root && !c16Has(gone, f.Name) {
								gone = append(gone, f.Name)
							}
						}
					}
				}
				x.Logf("GC runs=%d collected=%d done=%v err=%v capHit=%v evicted=%v   [%s]", res.Runs, res.Collected, res.Done, res.Err, res.CapHit, gone, s2.Key())
				for _, g := range gone {
					delete(known, g)
				}
				if len(gone) > 0 {
					removals++
					x.Tag("evicted-a-file")
					if len(known) > 0 {
						x.Nontrivial()
					}
				}
				if res.CapHit {
					x.Tag("gc-loop-cap-hit")
				}
				judge("eviction", gone, true)
			}
			ik, err := n.InfoKey()
			x.NoErr(err, "infokey")
			sk, err := n.Snap()
			x.NoErr(err, "snapshot")
			if x.Seen(sk.Key()+"#"+ik+"#K:"+c16Set(known)+"#L:"+c16Set(limbo)+"#U:"+c16Set(uploadedByUser), steps-step-1) {
				return
			}
		}
		if removals > 1 {
			x.Tag("execution-with-two-removals")
		}
	})
}
