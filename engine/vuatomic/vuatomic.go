//go:build verif && go1.18
// +build verif,go1.18

// Package vuatomic mirrors the go.uber.org/atomic types used by scheduled packages.
package vuatomic

import "github.com/gauss-project/aurorafs/pkg/zzverif/vsched"

func op(addr interface{}, f func()) {
	vsched.Op("atomic", nil, func() { vsched.Acquire(addr); f(); vsched.Release(addr) })
}

type Uint64 struct{ v uint64 }

func NewUint64(v uint64) *Uint64       { return &Uint64{v} }

// Peek reads the value without a scheduling point (harness oracles only).
func (a *Uint64) Peek() uint64 { return a.v }
func (a *Uint64) Load() (n uint64)     { op(a, func() { n = a.v }); return }
func (a *Uint64) Store(v uint64)       { op(a, func() { a.v = v }) }
func (a *Uint64) Add(d uint64) (n uint64) { op(a, func() { a.v += d; n = a.v }); return }
func (a *Uint64) Sub(d uint64) (n uint64) { op(a, func() { a.v -= d; n = a.v }); return }
func (a *Uint64) Inc() uint64          { return a.Add(1) }
func (a *Uint64) Dec() uint64          { return a.Sub(1) }
func (a *Uint64) CAS(o, n uint64) (ok bool) {
	op(a, func() {
		if a.v == o {
			a.v, ok = n, true
		}
	})
	return
}

type Int64 struct{ v int64 }

func NewInt64(v int64) *Int64        { return &Int64{v} }
func (a *Int64) Load() (n int64)     { op(a, func() { n = a.v }); return }
func (a *Int64) Store(v int64)       { op(a, func() { a.v = v }) }
func (a *Int64) Add(d int64) (n int64) { op(a, func() { a.v += d; n = a.v }); return }
func (a *Int64) Sub(d int64) (n int64) { op(a, func() { a.v -= d; n = a.v }); return }
func (a *Int64) Inc() int64          { return a.Add(1) }
func (a *Int64) Dec() int64          { return a.Sub(1) }

type Int32 struct{ v int32 }

func NewInt32(v int32) *Int32        { return &Int32{v} }
func (a *Int32) Load() (n int32)     { op(a, func() { n = a.v }); return }
func (a *Int32) Store(v int32)       { op(a, func() { a.v = v }) }
func (a *Int32) Add(d int32) (n int32) { op(a, func() { a.v += d; n = a.v }); return }
func (a *Int32) Inc() int32          { return a.Add(1) }
func (a *Int32) Dec() int32          { return a.Add(-1) }

type Bool struct{ v bool }

func NewBool(v bool) *Bool         { return &Bool{v} }
func (a *Bool) Load() (n bool)     { op(a, func() { n = a.v }); return }
func (a *Bool) Store(v bool)       { op(a, func() { a.v = v }) }
func (a *Bool) Toggle() (old bool) { op(a, func() { old = a.v; a.v = !a.v }); return }
func (a *Bool) CAS(o, n bool) (ok bool) {
	op(a, func() {
		if a.v == o {
			a.v, ok = n, true
		}
	})
	return
}
