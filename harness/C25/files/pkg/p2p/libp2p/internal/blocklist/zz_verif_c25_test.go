//go:build verif
// +build verif

package blocklist

// C25: blocklisting never shortens a block.
//
// Operation sequences over two peers with a virtual clock (the package-level
// timeNow hook). The oracle is not a copy of the implementation: it keeps, per
// peer, what the statement talks about (requests since the last explicit
// removal) and derives an interval of allowed answers:
//
//	must be blocked   : some request since the last Remove still covers `now`
//	                    (now < t+d), or a zero-duration (forever) request was made
//	must be unblocked : no request since the last Remove, or now is past
//	                    latestRequest + longestDuration (and no forever request)
//	otherwise         : either answer satisfies the statement
//
// plus the white-box "never shortens" check on the stored entry around Add.

import (
	"fmt"
	"io"
	"sort"
	"strings"
	"testing"
	"time"

	"github.com/gauss-project/aurorafs/pkg/boson"
	"github.com/gauss-project/aurorafs/pkg/logging"
	"github.com/gauss-project/aurorafs/pkg/statestore/leveldb"
	"github.com/gauss-project/aurorafs/pkg/statestore/mock"
	"github.com/gauss-project/aurorafs/pkg/storage"
	"github.com/gauss-project/aurorafs/pkg/zzverif/mc"
)

type c25Model struct {
	active  bool  // at least one request since the last explicit removal
	forever bool  // one of them had duration zero
	lb      int64 // max over requests of t+d: blocked at least while now < lb
	latest  int64 // time of the latest request
	longest int64 // longest duration requested since the last removal
}

func (m c25Model) mustBlock(now int64) bool { return m.active && (m.forever || now < m.lb) }
func (m c25Model) mustNotBlock(now int64) bool {
	return !m.active || (!m.forever && now > m.latest+m.longest)
}

type c25Op struct {
	kind string // stop add remove exists advance
	peer int
	arg  int64
}

func TestVerifC25Mock(t *testing.T) {
	c25Run(t, "C25-blocklist-mockstore", false, mc.EnvInt("VERIF_C25_DEPTH", mc.Pick(7, 12)))
}

func TestVerifC25Leveldb(t *testing.T) {
	c25Run(t, "C25-blocklist-leveldbstore", true, mc.EnvInt("VERIF_C25_LDB_DEPTH", mc.Pick(5, 8)))
}

func c25Run(t *testing.T, harness string, useLeveldb bool, depth int) {
	peers := []boson.Address{
		boson.NewAddress(append(make([]byte, 31), 0x01)),
		boson.NewAddress(append(make([]byte, 31), 0x02)),
	}
	durations := []int64{0, 1, 5} // seconds; 0 = forever
	advances := []int64{1, 2, 6}
	ops := []c25Op{{kind: "stop"}}
	for p := range peers {
		for _, d := range durations {
			ops = append(ops, c25Op{kind: "add", peer: p, arg: d})
		}
	}
	for p := range peers {
		ops = append(ops, c25Op{kind: "remove", peer: p})
	}
	for p := range peers {
		ops = append(ops, c25Op{kind: "exists", peer: p})
	}
	for _, a := range advances {
		ops = append(ops, c25Op{kind: "advance", arg: a})
	}
	logger := logging.New(io.Discard, 0)
	const base = int64(1600000000)

	mc.Run(t, mc.Config{ID: "C25", Name: harness, MaxDev: -1, Params: map[string]interface{}{
		"peers": 2, "durations_s": durations, "clock_advances_s": advances, "depth": depth, "ops_per_step": len(ops),
		"alphabet": "stop | Add(p,d) | Remove(p) | Exists(p) (+Peers before and after) | advance clock; Peers() audited after every step",
		"store":    map[bool]string{false: "statestore/mock", true: "statestore/leveldb in-memory"}[useLeveldb]}},
		func(x *mc.X) {
			var store storage.StateStorer
			if useLeveldb {
				s, err := leveldb.NewInMemoryStateStore(logger)
				x.NoErr(err, "NewInMemoryStateStore")
				store = s
			} else {
				store = mock.NewStateStore()
			}
			defer store.Close()
			now := int64(0)
			saved := timeNow
			timeNow = func() time.Time { return time.Unix(base+now, 0).UTC() }
			defer func() { timeNow = saved }()
			bl := NewBlocklist(store)
			model := make([]c25Model, len(peers))

			// white-box view of the stored entry: (present, forever, end, stale)
			type entryView struct {
				present, forever, stale bool
				ts, dur                 int64
			}
			view := func(p int) entryView {
				ts, d, err := bl.get(generateKey(peers[p]))
				if err != nil {
					if err != storage.ErrNotFound {
						x.Broken("reading entry of peer %d: %v", p, err)
					}
					return entryView{}
				}
				if d%time.Second != 0 || ts.Nanosecond() != 0 {
					x.Fail("entry-not-roundtripped", "stored entry of peer %d is (%v,%v): not the whole seconds that were written", p, ts, d)
				}
				v := entryView{present: true, forever: d == 0, ts: ts.Unix() - base, dur: int64(d / time.Second)}
				v.stale = !v.forever && now-v.ts > v.dur
				return v
			}
			listing := func(when string) map[int]bool {
				got, err := bl.Peers()
				if err != nil {
					x.Fail("peers-error", "%s: Peers() = %v", when, err)
				}
				set := map[int]bool{}
				for _, bp := range got {
					idx := -1
					for i, p := range peers {
						if p.Equal(bp.Address) {
							idx = i
						}
					}
					if idx < 0 {
						x.Fail("peers-lists-unknown-address", "%s: Peers() lists %s which was never added", when, bp.Address)
					}
					if set[idx] {
						x.Fail("peers-lists-duplicate", "%s: Peers() lists peer %d twice", when, idx)
					}
					set[idx] = true
				}
				return set
			}
			audit := func(when string) map[int]bool {
				set := listing(when)
				for p := range peers {
					if model[p].mustBlock(now) && !set[p] {
						x.Fail("peers-omits-blocked-peer", "%s: t=%d: peer %d is inside a requested block period (model %+v) but Peers() does not list it", when, now, p, model[p])
					}
					if model[p].mustNotBlock(now) && set[p] {
						if !model[p].active {
							x.Fail("peers-lists-removed-peer", "%s: t=%d: peer %d has no request since its last removal but Peers() lists it", when, now, p)
						}
						x.Fail("peers-lists-beyond-bound", "%s: t=%d: peer %d listed although now > latest request %d + longest duration %d", when, now, p, model[p].latest, model[p].longest)
					}
				}
				return set
			}
			fmtSet := func(s map[int]bool) string {
				var l []string
				for p := range s {
					l = append(l, fmt.Sprint(p))
				}
				sort.Strings(l)
				return "{" + strings.Join(l, ",") + "}"
			}

			advanced := false
			for step := 0; step < depth; step++ {
				op := ops[x.Choose(len(ops))]
				when := fmt.Sprintf("step %d", step)
				switch op.kind {
				case "stop":
					x.Logf("stop")
					return
				case "add":
					p, d := op.peer, op.arg
					before := view(p)
					err := bl.Add(peers[p], time.Duration(d)*time.Second)
					after := view(p)
					x.Logf("t=%d Add(peer%d, %ds) -> %v; entry %+v -> %+v", now, p, d, err, before, after)
					if err != nil {
						x.Fail("add-error", "%s: Add(peer%d,%ds) = %v", when, p, d, err)
					}
					if !after.present {
						x.Fail("add-stores-nothing", "%s: no entry for peer %d after Add", when, p)
					}
					// the request itself: [now, now+d) or forever
					if d == 0 && !after.forever {
						x.Fail("zero-duration-not-forever", "%s: Add(peer%d, 0) stored a finite block %+v", when, p, after)
					}
					if !after.forever && after.ts+after.dur < now+d {
						x.Fail("add-block-shorter-than-requested", "%s: t=%d Add(peer%d,%ds) stored a block ending at %d", when, now, p, d, after.ts+after.dur)
					}
					if after.stale {
						x.Fail("add-block-shorter-than-requested", "%s: t=%d Add(peer%d,%ds) stored an already expired entry %+v", when, now, p, d, after)
					}
					// never shortens an existing (live) block
					if before.present && !before.stale {
						x.Nontrivial()
						switch {
						case before.forever && !after.forever:
							x.Fail("add-shortens-forever-block", "%s: t=%d Add(peer%d,%ds) turned a forever block into one ending at %d", when, now, p, d, after.ts+after.dur)
						case !before.forever && !after.forever && after.ts+after.dur < before.ts+before.dur:
							x.Fail("add-shortens-block", "%s: t=%d Add(peer%d,%ds) moved the block end from %d to %d", when, now, p, d, before.ts+before.dur, after.ts+after.dur)
						}
						switch {
						case before.forever && d != 0:
							x.Tag("add-finite-over-forever")
						case !before.forever && d == 0:
							x.Tag("add-forever-over-finite")
						case !before.forever && d < before.dur:
							x.Tag("add-shorter-duration-over-live-block")
						case !before.forever && d > before.dur:
							x.Tag("add-longer-duration-over-live-block")
						}
					}
					if before.stale {
						x.Nontrivial()
						x.Tag("add-over-stale-entry")
					}
					m := &model[p]
					if !m.active {
						*m = c25Model{active: true}
					}
					m.latest = now
					if d == 0 {
						m.forever = true
					} else {
						if now+d > m.lb {
							m.lb = now + d
						}
						if d > m.longest {
							m.longest = d
						}
					}
				case "remove":
					p := op.peer
					before := view(p)
					err := bl.Remove(peers[p])
					x.Logf("t=%d Remove(peer%d) -> %v (entry was %+v)", now, p, err, before)
					if err != nil && before.present {
						x.Fail("remove-error", "%s: Remove(peer%d) = %v", when, p, err)
					}
					if before.present && !before.stale {
						x.Tag("remove-live-block")
						x.Nontrivial()
					}
					model[p] = c25Model{}
				case "exists":
					p := op.peer
					before := view(p)
					l1 := listing(when + " before Exists")
					ex, err := bl.Exists(peers[p])
					l2 := listing(when + " after Exists")
					x.Logf("t=%d Exists(peer%d) -> %v %v; Peers before %s after %s", now, p, ex, err, fmtSet(l1), fmtSet(l2))
					if err != nil {
						x.Fail("exists-error", "%s: Exists(peer%d) = %v", when, p, err)
					}
					m := model[p]
					class := "free"
					if m.mustBlock(now) {
						class = "must-block"
						if !ex {
							x.Fail("not-blocked-in-requested-period", "%s: t=%d: Exists(peer%d)=false inside a requested period (model %+v)", when, now, p, m)
						}
					}
					if m.mustNotBlock(now) {
						class = "must-not-block"
						if ex {
							if !m.active {
								x.Fail("blocked-after-remove", "%s: t=%d: Exists(peer%d)=true with no request since the last removal", when, now, p)
							}
							x.Fail("blocked-beyond-bound", "%s: t=%d: Exists(peer%d)=true although now > latest request %d + longest duration %d", when, now, p, m.latest, m.longest)
						}
					}
					x.Outcome(fmt.Sprintf("exists=%v:%s", ex, class))
					if l1[p] != ex || l2[p] != ex {
						x.Fail("peers-disagrees-with-exists", "%s: t=%d: Exists(peer%d)=%v but Peers() lists it: before=%v after=%v", when, now, p, ex, l1[p], l2[p])
					}
					if before.stale {
						x.Tag("exists-on-stale-entry")
					}
					if before.present && !before.forever && now-before.ts == before.dur {
						x.Tag("exists-at-exact-end-instant")
					}
					if advanced {
						x.Nontrivial()
					}
				case "advance":
					now += op.arg
					advanced = true
					x.Logf("clock +%ds -> t=%d", op.arg, now)
				}
				audit(when + " (" + op.kind + ")")

				// canonical key: everything relative to `now`
				var key strings.Builder
				for p := range peers {
					m := model[p]
					lbRel, ubRel := m.lb-now, m.latest+m.longest-now
					if lbRel < 0 {
						lbRel = 0
					}
					if ubRel < -1 {
						ubRel = -1
					}
					if !m.active {
						lbRel, ubRel = 0, 0
					}
					v := view(p)
					age := now - v.ts
					if v.stale || !v.present || v.forever {
						age = 0 // only the duration of a stale entry / nothing of a forever entry is ever read
					}
					fmt.Fprintf(&key, "|%v,%v,%d,%d,%d;%v,%v,%v,%d,%d", m.active, m.forever, lbRel, ubRel, m.longest, v.present, v.forever, v.stale, v.dur, age)
				}
				if x.Seen(key.String(), depth-step-1) {
					return
				}
			}
		})
}
