//go:build verif
// +build verif

package traffic

import (
	"context"
	"errors"
	"fmt"
	"io"
	"math/big"
	"sort"
	"strings"
	"sync"
	"testing"
	"time"

	"github.com/ethereum/go-ethereum/common"
	"github.com/ethereum/go-ethereum/core/types"
	"github.com/gauss-project/aurorafs/pkg/boson"
	"github.com/gauss-project/aurorafs/pkg/crypto"
	"github.com/gauss-project/aurorafs/pkg/logging"
	"github.com/gauss-project/aurorafs/pkg/p2p"
	chequePkg "github.com/gauss-project/aurorafs/pkg/settlement/traffic/cheque"
	"github.com/gauss-project/aurorafs/pkg/statestore/mock"
	"github.com/gauss-project/aurorafs/pkg/storage"
	"github.com/gauss-project/aurorafs/pkg/subscribe"
	"github.com/gauss-project/aurorafs/pkg/zzverif/mc"
)

const c31ChainID = 1

type c31Peer struct {
	name    string
	addr    common.Address
	overlay boson.Address
}

func c31Addr(seed byte) (common.Address, boson.Address) {
	b := make([]byte, 32)
	for i := range b {
		b[i] = seed
	}
	s := crypto.NewDefaultSigner(crypto.Secp256k1PrivateKeyFromBytes(b))
	a, err := s.EthereumAddress()
	if err != nil {
		panic(err)
	}
	ov := make([]byte, 32)
	for i := range ov {
		ov[i] = seed ^ 0xff
	}
	return a, boson.NewAddress(ov)
}

// ---- chain stub: the only source of on-chain values ---------------------------

type c31Chain struct {
	mu          sync.Mutex
	self        common.Address
	balance     int64
	cashed      map[common.Address]int64 // what each peer has cashed from us on chain
	toldBalance int64                    // last value handed to the node
	toldCashed  map[common.Address]int64
}

func (c *c31Chain) TransferredAddress(common.Address) ([]common.Address, error) { return nil, nil }
func (c *c31Chain) RetrievedAddress(common.Address) ([]common.Address, error) {
	c.mu.Lock()
	defer c.mu.Unlock()
	var out []common.Address
	for a, v := range c.cashed {
		if v > 0 {
			out = append(out, a)
		}
	}
	sort.Slice(out, func(i, j int) bool { return out[i].String() < out[j].String() })
	return out, nil
}
func (c *c31Chain) BalanceOf(a common.Address) (*big.Int, error) {
	c.mu.Lock()
	defer c.mu.Unlock()
	if a == c.self {
		c.toldBalance = c.balance
		return big.NewInt(c.balance), nil
	}
	return big.NewInt(1000), nil
}
func (c *c31Chain) RetrievedTotal(common.Address) (*big.Int, error) { return big.NewInt(0), nil }
func (c *c31Chain) TransferredTotal(common.Address) (*big.Int, error) {
	c.mu.Lock()
	defer c.mu.Unlock()
	t := int64(0)
	for _, v := range c.cashed {
		t += v
	}
	return big.NewInt(t), nil
}

// TransAmount(beneficiary, recipient): what recipient has cashed from beneficiary's cheques.
func (c *c31Chain) TransAmount(beneficiary, recipient common.Address) (*big.Int, error) {
	c.mu.Lock()
	defer c.mu.Unlock()
	if beneficiary == c.self {
		c.toldCashed[recipient] = c.cashed[recipient]
		return big.NewInt(c.cashed[recipient]), nil
	}
	return big.NewInt(0), nil // we never cashed anything from the peers
}
func (c *c31Chain) CashChequeBeneficiary(context.Context, boson.Address, common.Address, common.Address, *big.Int, []byte) (*types.Transaction, error) {
	return nil, errors.New("not used")
}

// ---- other stubs ------------------------------------------------------------------

type c31PubSub struct{ ch chan string }

func (s *c31PubSub) Subscribe(subscribe.INotifier, string, string, string) error { return nil }
func (s *c31PubSub) Publish(nameSpace string, kind string, param string, message interface{}) error {
	s.ch <- kind
	return nil
}
func (s *c31PubSub) PublishArray(string, string, string, []interface{}) error { return nil }
func (s *c31PubSub) wait(x *mc.X, n int) {
	for i := 0; i < n; i++ {
		select {
		case <-s.ch:
		case <-time.After(30 * time.Second):
			x.Broken("background publication %d of %d did not arrive", i+1, n)
		}
	}
}
func (s *c31PubSub) idle(x *mc.X, when string) {
	select {
	case k := <-s.ch:
		x.Broken("%s: unexpected background publication %q", when, k)
	default:
	}
}

type c31P2P struct{ p2p.Service }

func (c31P2P) Disconnect(boson.Address, string) error { return nil }

type c31Cashout struct{}

func (c31Cashout) CashCheque(context.Context, boson.Address, common.Address, common.Address) (common.Hash, error) {
	return common.HexToHash("0x01"), nil
}
func (c31Cashout) WaitForReceipt(context.Context, common.Hash) (uint64, error) { return 1, nil }

type c31Emit struct {
	peer   boson.Address
	payout int64
	ok     bool
}

// c31Proto is the protocol stub: delivery succeeds or fails by an explored choice.
type c31Proto struct {
	x     *mc.X
	calls []c31Emit
}

func (p *c31Proto) EmitCheque(ctx context.Context, peer boson.Address, c *chequePkg.SignedCheque) error {
	ok := p.x.Choose(2) == 0
	p.calls = append(p.calls, c31Emit{peer, c.CumulativePayout.Int64(), ok}) // value copied at call time
	if !ok {
		return errors.New("delivery failed")
	}
	return nil
}

// ---- the system -----------------------------------------------------------------------

type c31Sys struct {
	x      *mc.X
	self   common.Address
	signer chequePkg.ChequeSigner
	peers  []*c31Peer
	st     storage.StateStorer
	chain  *c31Chain
	pub    *c31PubSub
	proto  *c31Proto
	svc    *Service
}

var (
	c31Once   sync.Once
	c31Self   common.Address
	c31Signer chequePkg.ChequeSigner
	c31Peers  []*c31Peer
)

func c31Setup() {
	b := make([]byte, 32)
	for i := range b {
		b[i] = 1
	}
	s := crypto.NewDefaultSigner(crypto.Secp256k1PrivateKeyFromBytes(b))
	c31Self, _ = s.EthereumAddress()
	c31Signer = chequePkg.NewChequeSigner(s, c31ChainID)
	for i, n := range []string{"A", "B"} {
		a, ov := c31Addr(byte(2 + i))
		c31Peers = append(c31Peers, &c31Peer{n, a, ov})
	}
}

func (s *c31Sys) start(first bool) {
	x := s.x
	ab := NewAddressBook(s.st)
	if first {
		for _, p := range s.peers {
			x.NoErr(ab.PutBeneficiary(p.overlay, p.addr), "register peer")
		}
	}
	cs := chequePkg.NewChequeStore(s.st, s.self, chequePkg.RecoverCheque, c31ChainID)
	s.svc = New(logging.New(io.Discard, 0), s.self, s.st, s.chain, cs, c31Cashout{}, c31P2P{}, ab, s.signer, s.proto, c31ChainID, s.pub)
	s.svc.SetNotifyPaymentFunc(func(boson.Address, *big.Int) error { return nil })
	x.NoErr(s.svc.Init(), "Service.Init")
}

func (s *c31Sys) stop() { close(s.svc.cashChequeChan) }

func c31Int(b *big.Int) string {
	if b == nil {
		return "nil"
	}
	return b.String()
}

// dump: all per-peer counters, their aliasing pattern (which fields share one big.Int),
// the node's balance, the persistent store and the chain stub.
func (s *c31Sys) dump() string {
	var parts []string
	tp := &s.svc.trafficPeers
	tp.trafficLock.Lock()
	var keys []string
	for k := range tp.trafficPeers {
		keys = append(keys, k)
	}
	sort.Strings(keys)
	for _, k := range keys {
		t := tp.trafficPeers[k]
		f := []*big.Int{t.trafficPeerBalance, t.retrieveChainTraffic, t.transferChainTraffic, t.retrieveChequeTraffic, t.transferChequeTraffic, t.retrieveTraffic, t.transferTraffic}
		var vals, alias []string
		for i, p := range f {
			vals = append(vals, c31Int(p))
			a := i
			for j := 0; j < i; j++ {
				if f[j] == p {
					a = j
					break
				}
			}
			alias = append(alias, fmt.Sprint(a))
		}
		parts = append(parts, fmt.Sprintf("%s=[%s|%s|%d]", s.name(k), strings.Join(vals, ","), strings.Join(alias, ""), t.status))
	}
	parts = append(parts, "bal="+c31Int(tp.balance))
	tp.trafficLock.Unlock()
	var kv []string
	_ = s.st.Iterate("", func(k, v []byte) (bool, error) {
		kv = append(kv, string(k)+"="+string(v))
		return false, nil
	})
	sort.Strings(kv)
	parts = append(parts, "store{"+strings.Join(kv, ";")+"}")
	s.chain.mu.Lock()
	parts = append(parts, fmt.Sprintf("chain{bal=%d told=%d", s.chain.balance, s.chain.toldBalance))
	for _, p := range s.peers {
		parts = append(parts, fmt.Sprintf("%s:%d/%d", p.name, s.chain.cashed[p.addr], s.chain.toldCashed[p.addr]))
	}
	s.chain.mu.Unlock()
	return strings.Join(parts, " ") + "}"
}

func (s *c31Sys) name(addr string) string {
	for _, p := range s.peers {
		if p.addr.String() == addr {
			return p.name
		}
	}
	return addr
}

func (s *c31Sys) cashedRecord(p *c31Peer) int64 {
	t := s.svc.getTraffic(p.addr)
	t.Lock()
	defer t.Unlock()
	return t.retrieveChainTraffic.Int64()
}

func TestVerifC31(t *testing.T) {
	c31Once.Do(c31Setup)
	depth := mc.Pick(5, 6)
	const threshold = 5
	credits := []int64{3, 7}
	balances := []int64{100, 12}
	opNames := []string{"credit(A,3)", "credit(A,7)", "credit(B,3)", "credit(B,7)", "pay(A)", "pay(B)", "refresh", "peer-cashes(A)", "peer-cashes(B)", "cash-receipt(A)", "cash-receipt(B)", "restart"}
	mc.Run(t, mc.Config{ID: "C31", Name: "C31-traffic", MaxDev: -1, Params: map[string]interface{}{
		"depth": depth, "peers": 2, "ops": opNames, "payment_threshold": threshold, "initial_chain_balance": balances, "delivery": "ok|fail chosen inside EmitCheque"}},
		func(x *mc.X) {
			s := &c31Sys{x: x, self: c31Self, signer: c31Signer, peers: c31Peers, st: mock.NewStateStore(),
				pub: &c31PubSub{ch: make(chan string, 64)}, proto: &c31Proto{x: x}}
			bal0 := balances[x.Choose(len(balances))]
			s.chain = &c31Chain{self: s.self, balance: bal0, cashed: map[common.Address]int64{}, toldCashed: map[common.Address]int64{}}
			s.start(true)
			defer func() { s.stop() }()
			x.Logf("start: chain balance %d", bal0)
			owed := map[string]int64{}      // reference: total traffic owed per peer
			delivered := map[string]int64{} // reference: cumulative payout of the last delivered cheque
			issued, afterRefresh, failed := 0, false, 0

			check := func(when string) {
				s.pub.idle(x, when)
				// the node's record of what peers cashed == what the chain stub last told it
				for _, p := range s.peers {
					got, told := s.cashedRecord(p), s.chain.toldCashed[p.addr]
					x.Check(got == told, "cashed-record-differs-from-chain", "%s: node records that %s cashed %d, the chain last said %d", when, p.name, got, told)
				}
				var sumCashed, sumOwed int64
				for _, p := range s.peers {
					sumCashed += s.chain.toldCashed[p.addr]
					sumOwed += owed[p.name]
				}
				av, err := s.svc.AvailableBalance()
				x.NoErr(err, "AvailableBalance")
				want := s.chain.toldBalance + sumCashed - sumOwed
				x.Check(av.Int64() == want, "available-balance-differs", "%s: AvailableBalance()=%s, chain balance %d + cashed %d - owed %d = %d", when, av, s.chain.toldBalance, sumCashed, sumOwed, want)
				ti, err := s.svc.TrafficInfo()
				x.NoErr(err, "TrafficInfo")
				x.Check(ti.Balance.Int64() == s.chain.toldBalance, "trafficinfo-balance-differs", "%s: TrafficInfo.Balance=%s, chain said %d", when, ti.Balance, s.chain.toldBalance)
				if ti.AvailableBalance.Cmp(av) != 0 {
					x.Tag("observation:TrafficInfo.AvailableBalance-differs-from-AvailableBalance()")
				}
				for _, p := range s.peers {
					lc, err := s.svc.LastSentCheque(p.overlay)
					if err != nil && !errors.Is(err, chequePkg.ErrNoCheque) {
						x.Broken("LastSentCheque: %v", err)
					}
					x.Check(lc.CumulativePayout.Int64() == delivered[p.name], "last-sent-cheque-differs", "%s: LastSentCheque(%s)=%s, last delivered cheque was %d", when, p.name, c31Int(lc.CumulativePayout), delivered[p.name])
				}
			}
			check("after start")

			for step := 0; step < depth; step++ {
				op := x.Choose(len(opNames))
				when := fmt.Sprintf("step %d %s", step+1, opNames[op])
				switch {
				case op < 4:
					p, amt := s.peers[op/2], credits[op%2]
					x.NoErr(s.svc.PutRetrieveTraffic(p.overlay, big.NewInt(amt)), "PutRetrieveTraffic")
					s.pub.wait(x, 2)
					owed[p.name] += amt
					x.Logf("%s: owed=%d", opNames[op], owed[p.name])
				case op < 6:
					p := s.peers[op-4]
					before := map[string]int64{}
					for _, q := range s.peers {
						before[q.name] = s.cashedRecord(q)
					}
					n0 := len(s.proto.calls)
					err := s.svc.Pay(context.Background(), p.overlay, big.NewInt(threshold))
					emitted := s.proto.calls[n0:]
					x.Check(len(emitted) <= 1, "more-than-one-cheque-per-payment", "%s: %d cheques emitted", when, len(emitted))
					res := "nothing to pay / refused"
					if len(emitted) == 1 {
						e := emitted[0]
						issued++
						res = fmt.Sprintf("cheque %d delivered=%v", e.payout, e.ok)
						x.Logf("%s: %s err=%v", opNames[op], res, err)
						x.Check(e.peer.Equal(p.overlay), "cheque-sent-to-other-peer", "%s: cheque went to another peer", when)
						x.Check(e.payout <= owed[p.name], "cheque-exceeds-traffic-owed", "%s: cumulative payout %d exceeds the %d owed to %s", when, e.payout, owed[p.name], p.name)
						x.Check(e.payout > delivered[p.name], "cheque-payout-not-increasing", "%s: cumulative payout %d does not exceed the last delivered cheque %d", when, e.payout, delivered[p.name])
						if e.ok {
							x.Check(err == nil, "pay-failed-after-delivery", "%s: cheque delivered but Pay returned %v", when, err)
							delivered[p.name] = e.payout
							s.pub.wait(x, 1)
							x.Outcome("cheque-delivered")
						} else {
							x.Check(err != nil, "pay-ok-after-failed-delivery", "%s: delivery failed but Pay returned nil", when)
							failed++
							x.Tag("failed-delivery")
							x.Outcome("cheque-delivery-failed")
						}
						if afterRefresh {
							x.Tag("cheque-issued-after-a-refresh-or-restart")
						}
					} else {
						x.Logf("%s: %s err=%v", opNames[op], res, err)
						if errors.Is(err, ErrInsufficientFunds) {
							x.Tag("insufficient-funds")
							x.Outcome("insufficient-funds")
						} else {
							x.Check(err == nil, "pay-error-without-cheque", "%s: %v", when, err)
							x.Outcome("nothing-to-pay")
						}
					}
					// issuing never changes the record of what peers have cashed
					for _, q := range s.peers {
						after := s.cashedRecord(q)
						x.Check(after == before[q.name], "issuing-changed-cashed-record", "%s (%s): the node's record of what %s has cashed went from %d to %d", when, res, q.name, before[q.name], after)
					}
				case op == 6:
					x.NoErr(s.svc.trafficInit(), "trafficInit")
					afterRefresh = true
					x.Logf("refresh")
				case op < 9:
					p := s.peers[op-7]
					d := delivered[p.name] - s.chain.cashed[p.addr]
					if d <= 0 {
						x.Logf("%s: nothing to cash", opNames[op])
						break
					}
					s.chain.mu.Lock()
					s.chain.cashed[p.addr] += d
					s.chain.balance -= d
					s.chain.mu.Unlock()
					x.Tag("peer-cashed-on-chain")
					x.Logf("%s: chain now says cashed=%d balance=%d", opNames[op], s.chain.cashed[p.addr], s.chain.balance)
				case op < 11:
					p := s.peers[op-9]
					_, err := s.svc.CashCheque(context.Background(), p.overlay)
					x.NoErr(err, "CashCheque")
					s.pub.wait(x, 3)
					afterRefresh = true
					x.Logf("%s: receipt processed", opNames[op])
				default:
					s.stop()
					s.start(false)
					afterRefresh = true
					x.Logf("restart")
				}
				check("after " + when)
				nt := issued >= 1 && afterRefresh
				if nt {
					x.Nontrivial()
				}
				key := s.dump() + fmt.Sprintf(" ref owed=%v delivered=%v nt=%v ar=%v", owed, delivered, nt, afterRefresh)
				if x.Seen(key, depth-step-1) {
					return
				}
			}
		})
}
