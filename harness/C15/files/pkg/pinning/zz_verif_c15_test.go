//go:build verif
// +build verif

package pinning_test

import (
	"fmt"
	"sort"
	"strings"
	"testing"

	"github.com/gauss-project/aurorafs/pkg/boson"
	"github.com/gauss-project/aurorafs/pkg/zzverif/mc"
	"github.com/gauss-project/aurorafs/pkg/zzverif/nodelite"
)

// C15: pin marks the reference and all its chunks, a repeated pin changes
// nothing; unpin returns every pin count to its value before the pin, a
// repeated unpin changes no pin state; the reference is listed as pinned iff
// the last operation on it was a pin. Driven through the real /pins handlers.

func c15PinStr(m map[string]uint64) string {
	var ks []string
	for k := range m {
		ks = append(ks, k)
	}
	sort.Strings(ks)
	var b strings.Builder
	for _, k := range ks {
		fmt.Fprintf(&b, "%s=%d ", k, m[k])
	}
	return strings.TrimSpace(b.String())
}

func TestVerifC15(t *testing.T) {
	names := []string{"A", "B", "D"}
	letters := map[string]string{"A": "xy", "B": "xz", "D": "ww"}
	u, err := nodelite.BuildUniverse(names, letters)
	if err != nil {
		t.Fatalf("universe: %v", err)
	}
	thorough := mc.Thorough()
	depth := mc.Pick(5, 7)
	type op struct {
		name, kind, file string
	}
	var ops []op
	for _, f := range names {
		ops = append(ops, op{"pin(" + f + ")", "pin", f}, op{"unpin(" + f + ")", "unpin", f})
	}
	// a pin created by the upload handlers (Aurora-Pin header) instead of POST /pins
	ops = append(ops, op{"upload+pin(D)", "uppin", "D"})
	if thorough {
		ops = append(ops, op{"upload+pin(A)", "uppin", "A"}, op{"upload+pin(B)", "uppin", "B"})
	}
	var opNames []string
	for _, o := range ops {
		opNames = append(opNames, o.name)
	}
	mc.Run(t, mc.Config{ID: "C15", Name: "C15-pin-unpin", MaxDev: -1, Params: map[string]interface{}{
		"depth": depth, "alphabet": opNames, "files": letters, "chunk_size": boson.ChunkSize,
		"setup": "first choice: A, B, D uploaded through POST /aurora | A uploaded, B and D cached (requested files); capacity 1000 (no collection)",
		"quick_restriction": "upload+pin is offered only while its reference is not pinned (the repeated case is a recorded finding); thorough offers it always",
		"observations": "pin index dump, GET /pins, GET /pins/{ref} for every reference after every step",
	}}, func(x *mc.X) {
		n, err := nodelite.New(nodelite.Options{Capacity: 1000, Universe: u})
		x.NoErr(err, "node")
		defer n.Close()
		// initial state: how the three references came to be stored — all uploaded (POST /aurora), or A
		// uploaded and B, D cached (retrieved as requested files: their roots have access-index and
		// gc-index entries, which setPin/setUnpin treat differently)
		cachedSetup := x.Choose(2) == 1
		for _, f := range names {
			if cachedSetup && f != "A" {
				x.NoErr(n.Cache(u.ByName[f]), "setup cache of "+f)
				continue
			}
			c, ref := n.UploadAurora(f, u.ByName[f].Data, false)
			if c != 201 || !ref.Equal(u.ByName[f].Root) {
				x.Broken("setup upload of %s: status %d", f, c)
			}
		}
		if cachedSetup {
			x.Logf("setup: upload(A), cache(B), cache(D)")
			x.Tag("setup-with-cached-references")
		}
		pinned := map[string]bool{}             // reference model: last operation on the reference was a pin
		delta := map[string]map[string]uint64{} // what the effective pin of the reference added, per chunk

		observe := func() (map[string]uint64, string) {
			s, err := n.Snap()
			x.NoErr(err, "snapshot")
			_, refs := n.ListPinsAPI()
			var listed []string
			for _, r := range refs {
				listed = append(listed, u.Name(r))
			}
			sort.Strings(listed)
			var has []string
			for _, f := range names {
				if n.HasPinAPI(u.ByName[f].Root) == 200 {
					has = append(has, u.Name(u.ByName[f].Root))
				}
			}
			return s.Pin, "listed=" + strings.Join(listed, ",") + " has=" + strings.Join(has, ",")
		}
		wantListed := func() string {
			var l []string
			for _, f := range names {
				if pinned[f] {
					l = append(l, u.Name(u.ByName[f].Root))
				}
			}
			sort.Strings(l)
			return "listed=" + strings.Join(l, ",") + " has=" + strings.Join(l, ",")
		}
		samePins := func(a, b map[string]uint64) bool { return c15PinStr(a) == c15PinStr(b) }

		for step := 0; step < depth; step++ {
			// quick: the pin-by-upload operation is offered only for a reference that is not pinned (the
			// repeated case is a recorded finding and would end every history that contains it)
			avail := ops
			if !thorough {
				avail = nil
				for _, o := range ops {
					if o.kind == "uppin" && pinned[o.file] {
						continue
					}
					avail = append(avail, o)
				}
			}
			o := avail[x.Choose(len(avail))]
			f := u.ByName[o.file]
			before, lbefore := observe()
			var code int
			switch o.kind {
			case "pin":
				code = n.PinAPI(f.Root)
			case "unpin":
				code = n.UnpinAPI(f.Root)
			case "uppin":
				code, _ = n.UploadAurora(o.file, f.Data, true)
			}
			after, lafter := observe()
			x.Logf("%s -> %d   pins {%s}  %s", o.name, code, c15PinStr(after), lafter)
			x.Outcome(fmt.Sprintf("%s:%d:%s", o.kind, code, map[bool]string{true: "was-pinned", false: "was-unpinned"}[pinned[o.file]]))
			switch {
			case (o.kind == "pin" || o.kind == "uppin") && !pinned[o.file]:
				// effective pin: the reference and all its chunks are marked
				x.Check(code == 201, "pin-of-stored-reference-rejected", "%s on a stored, unpinned reference answered %d", o.name, code)
				d := map[string]uint64{}
				for _, a := range f.Closure {
					c := u.Name(a)
					x.Check(after[c] >= 1, "pin-left-chunk-unpinned", "after %s chunk %s has pin count %d; pins {%s}", o.name, c, after[c], c15PinStr(after))
				}
				inClosure := map[string]bool{}
				for _, a := range f.Closure {
					inClosure[u.Name(a)] = true
				}
				var acs []string
				for c := range after {
					acs = append(acs, c)
				}
				sort.Strings(acs)
				for _, c := range acs {
					v := after[c]
					x.Check(v >= before[c], "pin-decreased-a-count", "%s lowered the pin count of %s from %d to %d", o.name, c, before[c], v)
					if v != before[c] {
						x.Check(inClosure[c], "pin-touched-foreign-chunk", "%s changed the pin count of %s which is not part of %s", o.name, c, o.file)
						d[c] = v - before[c]
					}
				}
				var bcs []string
				for c := range before {
					bcs = append(bcs, c)
				}
				sort.Strings(bcs)
				for _, c := range bcs {
					if _, ok := after[c]; !ok {
						x.Fail("pin-decreased-a-count", "%s removed the pin entry of %s", o.name, c)
					}
				}
				pinned[o.file] = true
				delta[o.file] = d
				x.Tag("effective-pin")
				if len(before) > 0 {
					x.Tag("pin-over-already-pinned-shared-chunks")
				}
			case o.kind == "pin" && pinned[o.file]:
				x.Tag("repeated-pin")
				x.Nontrivial()
				x.Check(samePins(before, after), "repeated-pin-changed-pin-counts", "second %s changed pin counts: {%s} -> {%s}", o.name, c15PinStr(before), c15PinStr(after))
				x.Check(lbefore == lafter, "repeated-pin-changed-listing", "second %s changed the listing: %s -> %s", o.name, lbefore, lafter)
			case o.kind == "uppin" && pinned[o.file]:
				// the pin is repeated through the upload handler
				x.Tag("repeated-pin-by-upload")
				x.Nontrivial()
				x.Check(samePins(before, after), "repeated-pin-by-upload-changed-pin-counts", "%s on an already pinned reference changed pin counts: {%s} -> {%s}", o.name, c15PinStr(before), c15PinStr(after))
				x.Check(lbefore == lafter, "repeated-pin-changed-listing", "%s changed the listing: %s -> %s", o.name, lbefore, lafter)
			case o.kind == "unpin" && pinned[o.file]:
				x.Tag("effective-unpin")
				x.Nontrivial()
				want := map[string]uint64{}
				for c, v := range before {
					want[c] = v
				}
				var dcs []string
				for c := range delta[o.file] {
					dcs = append(dcs, c)
				}
				sort.Strings(dcs)
				for _, c := range dcs {
					dv := delta[o.file][c]
					if want[c] < dv {
						x.Fail("unpin-did-not-restore-pin-counts", "model: %s would have to take %d from %s which has %d", o.name, dv, c, want[c])
					}
					want[c] -= dv
					if want[c] == 0 {
						delete(want, c)
					}
				}
				x.Check(samePins(want, after), "unpin-did-not-restore-pin-counts", "%s -> %d: pin counts {%s}, but undoing what the pin added ({%s}) gives {%s}", o.name, code, c15PinStr(after), c15PinStr(delta[o.file]), c15PinStr(want))
				pinned[o.file] = false
				delete(delta, o.file)
			case o.kind == "unpin" && !pinned[o.file]:
				x.Tag("repeated-unpin")
				x.Nontrivial()
				x.Check(samePins(before, after), "repeated-unpin-changed-pin-counts", "%s on an unpinned reference changed pin counts: {%s} -> {%s}", o.name, c15PinStr(before), c15PinStr(after))
				x.Check(lbefore == lafter, "repeated-unpin-changed-listing", "%s on an unpinned reference changed the listing: %s -> %s", o.name, lbefore, lafter)
			}
			for _, pf := range names {
				if !pinned[pf] {
					continue
				}
				for _, a := range u.ByName[pf].Closure {
					c := u.Name(a)
					x.Check(after[c] >= 1, "pinned-reference-has-unpinned-chunk", "after %s: %s is still pinned but its chunk %s has pin count %d; pins {%s}", o.name, pf, c, after[c], c15PinStr(after))
				}
			}
			x.Check(lafter == wantListed(), "listed-iff-last-operation-was-pin", "after %s: %s, want %s", o.name, lafter, wantListed())
			var ms []string
			for _, f := range names {
				if pinned[f] {
					ms = append(ms, f+"{"+c15PinStr(delta[f])+"}")
				}
			}
			sk, err := n.Snap()
			x.NoErr(err, "snapshot")
			ik, err := n.InfoKey()
			x.NoErr(err, "infokey")
			if x.Seen(sk.Key()+"#"+ik+"#M:"+strings.Join(ms, ";"), depth-step-1) {
				return
			}
		}
	})
}
