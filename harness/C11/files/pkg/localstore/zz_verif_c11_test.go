//go:build verif
// +build verif

package localstore

// C11 — "Local store returns exactly what was stored".
//
// opseq harness: every operation sequence (up to the tier depth) over a
// 3-chunk universe against a real in-memory localstore.DB, compared after
// every step with a boring reference model (presence set + pin counters).
// Multi-chunk puts are additionally compared with a twin store on which the
// same history is replayed and the chunks are then put one at a time.

import (
	"bytes"
	"context"
	"fmt"
	"io/ioutil"
	"sort"
	"strings"
	"testing"

	"github.com/gauss-project/aurorafs/pkg/boson"
	"github.com/gauss-project/aurorafs/pkg/logging"
	"github.com/gauss-project/aurorafs/pkg/sctx"
	"github.com/gauss-project/aurorafs/pkg/shed"
	shedldb "github.com/gauss-project/aurorafs/pkg/shed/leveldb"
	"github.com/gauss-project/aurorafs/pkg/storage"
	"github.com/gauss-project/aurorafs/pkg/zzverif/crashdrv"
	"github.com/gauss-project/aurorafs/pkg/zzverif/mc"
)

const verifC11Driver = "verifc11leveldb"

// The production defaults allocate (and zero) a 32 MiB goleveldb write buffer
// on every open (~0.2 s); the driver's documented option string shrinks the
// buffers. Buffer sizes do not influence key/value semantics.
const verifC11DriverCfg = `:{"WriteBuffer":16384,"BlockCacheCapacity":16384}`

func init() {
	// shed registers "leveldb" only under the `leveldb` build tag; register the
	// same real driver under a private name (path "" = goleveldb MemStorage).
	shed.Register(verifC11Driver, shedldb.Driver{})
}

// ---- universe -------------------------------------------------------------

type verifC11Chunk struct {
	addr boson.Address
	data []byte
}

func verifC11Universe() []verifC11Chunk {
	mk := func(first byte, tag byte, payload string) verifC11Chunk {
		a := make([]byte, 32)
		a[0], a[31] = first, tag
		d := append([]byte{byte(len(payload)), 0, 0, 0, 0, 0, 0, 0}, payload...)
		return verifC11Chunk{boson.NewAddress(a), d}
	}
	// base key is all zero: c0 and c1 share proximity bin 0, c2 is in bin 1.
	// c1's payload extends c0's, so a mixed-up or truncated value is visible.
	return []verifC11Chunk{
		mk(0x80, 0, "A"),
		mk(0xc0, 1, "A-longer-payload"),
		mk(0x40, 2, strings.Repeat("z", 40)),
	}
}

// ---- operations -----------------------------------------------------------

const (
	verifC11Put = iota
	verifC11Set
	verifC11Get      // Get(ModeGetRequest) — the only Get mode with a side effect
	verifC11GetMulti // GetMulti(ModeGetRequest)
)

type verifC11Op struct {
	kind  int
	put   storage.ModePut
	set   storage.ModeSet
	addrs []int // indexes into the universe (Put: may contain a duplicate)
	root  int   // -1: no file context; otherwise universe index used as root hash
	name  string
}

func verifC11Alphabet(full bool) []verifC11Op {
	var ops []verifC11Op
	roots := []int{-1, 0}
	rn := func(r int) string {
		if r < 0 {
			return "noctx"
		}
		return fmt.Sprintf("root=c%d", r)
	}
	sets := [][]int{{0}, {1}, {2}, {0, 1}, {1, 1}, {2, 0}}
	if full {
		sets = append(sets, []int{1, 2})
	}
	for _, m := range []storage.ModePut{storage.ModePutUpload, storage.ModePutUploadPin, storage.ModePutRequest, storage.ModePutRequestPin} {
		for _, s := range sets {
			for _, r := range roots {
				ops = append(ops, verifC11Op{kind: verifC11Put, put: m, addrs: s, root: r,
					name: fmt.Sprintf("Put(%s,%v,%s)", m, s, rn(r))})
			}
		}
	}
	for _, m := range []storage.ModeSet{storage.ModeSetPin, storage.ModeSetUnpin, storage.ModeSetRemove} {
		for a := 0; a < 3; a++ {
			for _, r := range roots {
				if r >= 0 && !full && m != storage.ModeSetRemove {
					continue // quick tier: file context on Pin/Unpin only touches gc bookkeeping
				}
				ops = append(ops, verifC11Op{kind: verifC11Set, set: m, addrs: []int{a}, root: r,
					name: fmt.Sprintf("Set(%s,c%d,%s)", m, a, rn(r))})
			}
		}
	}
	for a := 0; a < 3; a++ {
		ops = append(ops, verifC11Op{kind: verifC11Set, set: storage.ModeSetSync, addrs: []int{a}, root: -1,
			name: fmt.Sprintf("Set(%s,c%d)", storage.ModeSetSync, a)})
	}
	for a := 0; a < 3; a++ {
		for _, r := range roots {
			ops = append(ops, verifC11Op{kind: verifC11Get, addrs: []int{a}, root: r,
				name: fmt.Sprintf("Get(Request,c%d,%s)", a, rn(r))})
		}
	}
	ops = append(ops, verifC11Op{kind: verifC11GetMulti, addrs: []int{0, 1}, root: -1, name: "GetMulti(Request,[0 1])"})
	return ops
}

// ---- harness-side store handling -------------------------------------------

type verifC11Store struct {
	db    *DB
	clk   int64
	image string
}

var verifC11Clock *int64

// verifC11New opens a fresh, empty store. drv "leveldb": the real
// pkg/shed/leveldb driver on goleveldb MemStorage; drv "mem": the ordered-map
// driver of engine/crashdrv (no logging) — about 10x cheaper to open, which
// buys one to two more steps of depth.
func verifC11New(x *mc.X, drv string) *verifC11Store {
	s := &verifC11Store{}
	verifC11Clock = &s.clk
	path, d := "", verifC11Driver+verifC11DriverCfg
	if drv == "mem" {
		verifC11Images++
		path, d = fmt.Sprintf("verifC11-%d", verifC11Images), crashdrv.Name
		crashdrv.NewImage(path)
		s.image = path
	}
	db, err := New(path, make([]byte, 32), &Options{Driver: d, Capacity: 1 << 40}, logging.New(ioutil.Discard, 0))
	x.NoErr(err, "localstore.New")
	s.db = db
	return s
}

var verifC11Images int

func (s *verifC11Store) close(x *mc.X) {
	s.db.updateGCWG.Wait()
	err := s.db.Close()
	if s.image != "" {
		crashdrv.Drop(s.image)
	}
	x.NoErr(err, "localstore.Close")
}

func verifC11Ctx(u []verifC11Chunk, root int) context.Context {
	if root < 0 {
		return context.Background()
	}
	return sctx.SetRootHash(context.Background(), u[root].addr)
}

type verifC11Res struct {
	exist  []bool
	chunks []boson.Chunk
	err    error
}

// apply runs one alphabet operation through the public API and waits for the
// updateGC goroutines it may have spawned.
func (s *verifC11Store) apply(u []verifC11Chunk, op verifC11Op) (r verifC11Res) {
	verifC11Clock = &s.clk
	ctx := verifC11Ctx(u, op.root)
	switch op.kind {
	case verifC11Put:
		chs := make([]boson.Chunk, len(op.addrs))
		for i, a := range op.addrs {
			chs[i] = boson.NewChunk(u[a].addr, append([]byte(nil), u[a].data...))
		}
		r.exist, r.err = s.db.Put(ctx, op.put, chs...)
	case verifC11Set:
		as := make([]boson.Address, len(op.addrs))
		for i, a := range op.addrs {
			as[i] = u[a].addr
		}
		r.err = s.db.Set(ctx, op.set, as...)
	case verifC11Get:
		var ch boson.Chunk
		ch, r.err = s.db.Get(ctx, storage.ModeGetRequest, u[op.addrs[0]].addr)
		if r.err == nil {
			r.chunks = []boson.Chunk{ch}
		}
	case verifC11GetMulti:
		as := make([]boson.Address, len(op.addrs))
		for i, a := range op.addrs {
			as[i] = u[a].addr
		}
		r.chunks, r.err = s.db.GetMulti(ctx, storage.ModeGetRequest, as...)
	}
	s.db.updateGCWG.Wait()
	return r
}

// ---- index dump (in-package) -----------------------------------------------

type verifC11Dump struct {
	data   map[int][]byte // universe index -> stored bytes
	pins   map[int]uint64
	canon  string // everything, timestamps rank-normalised
	foreign string // non-empty if an index holds an address outside the universe
}

func verifC11Idx(u []verifC11Chunk, a []byte) int {
	for i := range u {
		if bytes.Equal(u[i].addr.Bytes(), a) {
			return i
		}
	}
	return -1
}

func (s *verifC11Store) dump(x *mc.X, u []verifC11Chunk) verifC11Dump {
	d := verifC11Dump{data: map[int][]byte{}, pins: map[int]uint64{}}
	db := s.db
	var ts []int64
	type rec struct {
		idx           string
		a             int
		t1, t2        int64
		bin, n        uint64
		data          string
	}
	var recs []rec
	name := func(a []byte) int {
		i := verifC11Idx(u, a)
		if i < 0 {
			d.foreign = fmt.Sprintf("%x", a)
		}
		return i
	}
	x.NoErr(db.retrievalDataIndex.Iterate(func(it shed.Item) (bool, error) {
		i := name(it.Address)
		d.data[i] = append([]byte(nil), it.Data...)
		ts = append(ts, it.StoreTimestamp)
		recs = append(recs, rec{idx: "D", a: i, t1: it.StoreTimestamp, bin: it.BinID, data: string(it.Data)})
		return false, nil
	}, nil), "iterate data index")
	x.NoErr(db.retrievalAccessIndex.Iterate(func(it shed.Item) (bool, error) {
		ts = append(ts, it.AccessTimestamp)
		recs = append(recs, rec{idx: "A", a: name(it.Address), t1: it.AccessTimestamp})
		return false, nil
	}, nil), "iterate access index")
	x.NoErr(db.gcIndex.Iterate(func(it shed.Item) (bool, error) {
		ts = append(ts, it.AccessTimestamp)
		recs = append(recs, rec{idx: "G", a: name(it.Address), t1: it.AccessTimestamp, bin: it.BinID, n: it.GCounter})
		return false, nil
	}, nil), "iterate gc index")
	x.NoErr(db.pinIndex.Iterate(func(it shed.Item) (bool, error) {
		i := name(it.Address)
		d.pins[i] = it.PinCounter
		recs = append(recs, rec{idx: "P", a: i, n: it.PinCounter})
		return false, nil
	}, nil), "iterate pin index")
	sort.Slice(ts, func(i, j int) bool { return ts[i] < ts[j] })
	rank := map[int64]int{}
	for _, t := range ts {
		if _, ok := rank[t]; !ok {
			rank[t] = len(rank) + 1
		}
	}
	var b strings.Builder
	for _, r := range recs { // index iteration order is key order: deterministic
		fmt.Fprintf(&b, "%s c%d t%d bin%d n%d %q;", r.idx, r.a, rank[r.t1], r.bin, r.n, r.data)
	}
	gs, err := db.gcSize.Get()
	x.NoErr(err, "gcSize.Get")
	b0, err := db.binIDs.Get(0)
	x.NoErr(err, "binIDs.Get(0)")
	b1, err := db.binIDs.Get(1)
	x.NoErr(err, "binIDs.Get(1)")
	fmt.Fprintf(&b, "gcSize%d bins%d,%d", gs, b0, b1)
	d.canon = b.String()
	return d
}

// ---- reference model ---------------------------------------------------------

type verifC11Model struct {
	present [3]bool
	pins    [3]uint64
}

func (m verifC11Model) String() string { return fmt.Sprintf("present%v pins%v", m.present, m.pins) }

// ---- the check -------------------------------------------------------------

// The same exploration runs twice: over the real leveldb driver (shallower) and
// over the cheap ordered-map driver (deeper).
func TestVerifC11Leveldb(t *testing.T) {
	verifC11Run(t, "leveldb", mc.EnvInt("VERIF_C11_DEPTH_LDB", mc.Pick(2, 4)))
}

func TestVerifC11Mem(t *testing.T) {
	verifC11Run(t, "mem", mc.EnvInt("VERIF_C11_DEPTH_MEM", mc.Pick(4, 5)))
}

func verifC11Run(t *testing.T, drv string, depth int) {
	u := verifC11Universe()
	ops := verifC11Alphabet(mc.Thorough())
	names := make([]string, len(ops))
	for i := range ops {
		names[i] = ops[i].name
	}
	savedNow := now
	defer func() { now = savedNow }()
	now = func() int64 { *verifC11Clock++; return *verifC11Clock }

	mc.Run(t, mc.Config{ID: "C11", Name: "C11-opseq-" + drv, MaxDev: -1, Params: map[string]interface{}{
		"depth": depth, "driver": drv, "alphabet_size": len(ops), "alphabet": names,
		"universe":     "c0,c1 in proximity bin 0, c2 in bin 1; file-context root = c0 or none",
		"observations": "after every step: Has, HasMulti, Get(Lookup), Get(Sync), GetMulti(Lookup) on present subset and on all, data-index dump",
		"capacity":     "2^40 (GC out of reach)",
	}}, func(x *mc.X) {
		var open []*verifC11Store
		defer func() {
			for _, o := range open {
				o.close(x)
			}
		}()
		s := verifC11New(x, drv)
		open = append(open, s)
		var m verifC11Model
		var hist []verifC11Op
		interesting := false

		for step := 0; step < depth; step++ {
			op := ops[x.Choose(len(ops))]
			// A step that is only replayed to reach the frontier was fully
			// checked by the earlier execution that first took it (that
			// execution went on past this step, so every check here passed):
			// apply it, advance the model, skip twin + observations.
			replayed := x.Replaying()
			before := m
			short := strings.SplitN(op.name, ",", 2)[0] + ")"

			// differential twin for multi-chunk puts: same history, then singles
			var twin *verifC11Store
			var twinRes []verifC11Res
			if !replayed && op.kind == verifC11Put && len(op.addrs) > 1 {
				twin = verifC11New(x, drv)
				open = append(open, twin)
				for _, h := range hist {
					twin.apply(u, h)
				}
				for _, a := range op.addrs {
					single := op
					single.addrs = []int{a}
					twinRes = append(twinRes, twin.apply(u, single))
				}
			}

			r := s.apply(u, op)
			hist = append(hist, op)
			x.Logf("%s -> exist=%v err=%v", op.name, r.exist, r.err)
			var dcache *verifC11Dump
			dump := func() *verifC11Dump {
				if dcache == nil {
					d := s.dump(x, u)
					dcache = &d
				}
				return dcache
			}

			// ---- model transition ----
			failed := r.err != nil
			switch {
			case failed && (op.kind == verifC11Put || op.kind == verifC11Set):
				// The statement is silent about failed operations: adopt the
				// store's state for the addresses the call named (weakest
				// reading), but count it when a failed call changed something.
				x.Tag("failed-op")
				x.Tag("failed-" + short)
				changed := false
				d := dump()
				for _, a := range op.addrs {
					_, has := d.data[a]
					if has != m.present[a] || d.pins[a] != m.pins[a] {
						changed = true
					}
					m.present[a], m.pins[a] = has, d.pins[a]
				}
				if changed {
					x.Tag("failed-op-changed-state")
				}
			case op.kind == verifC11Put:
				x.Check(len(r.exist) == len(op.addrs), "put-exist-length", "%s: %d exist flags for %d chunks", op.name, len(r.exist), len(op.addrs))
				// "putting several chunks in one call has the same effect as
				// putting them one at a time": the model runs the chunks of a
				// call one by one.
				var lo, hi [3]uint64
				lo, hi = m.pins, m.pins
				for i, a := range op.addrs {
					want := m.present[a]
					if want {
						x.Tag("put-of-present-chunk")
						interesting = true
					}
					x.Check(r.exist[i] == want, fmt.Sprintf("put-exist-flag-wrong/%s", op.put),
						"%s: exist[%d]=%v, model says %v (%s)", op.name, i, r.exist[i], want, before)
					switch op.put {
					case storage.ModePutUploadPin:
						lo[a]++
						hi[a]++
					case storage.ModePutRequestPin:
						hi[a]++
						if !m.present[a] {
							lo[a]++
						}
						// else open corner (does a request-pin put of an already
						// stored chunk pin it?): accept p or p+1, adopt below.
					}
					m.present[a] = true
				}
				for a := range lo {
					if lo[a] == hi[a] {
						m.pins[a] = lo[a]
						continue
					}
					p := dump().pins[a]
					x.Check(lo[a] <= p && p <= hi[a], "requestpin-existing-pin-out-of-range",
						"%s: pin counter of c%d went %d -> %d, expected %d..%d", op.name, a, before.pins[a], p, lo[a], hi[a])
					if p < hi[a] {
						x.Tag("requestpin-of-present-chunk-did-not-pin")
					}
					m.pins[a] = p
				}
			case op.kind == verifC11Set:
				a := op.addrs[0]
				switch op.set {
				case storage.ModeSetPin:
					if before.present[a] {
						m.pins[a]++
					} else { // successful pin of an absent chunk: statement silent, adopt
						m.pins[a] = dump().pins[a]
						x.Tag("pin-of-absent-chunk-succeeded")
					}
				case storage.ModeSetUnpin:
					if before.pins[a] > 0 {
						m.pins[a]--
					} else {
						m.pins[a] = dump().pins[a]
						x.Tag("unpin-of-unpinned-chunk-succeeded")
					}
				case storage.ModeSetRemove:
					// "removal honours pin counters": a removal takes one pin
					// and deletes the chunk when no further pin is left.
					interesting = interesting || before.present[a]
					if before.present[a] && before.pins[a] >= 2 {
						m.pins[a]--
						x.Tag("remove-kept-pinned-chunk")
					} else {
						if before.present[a] {
							x.Tag("remove-deleted-chunk")
							if before.pins[a] == 1 {
								x.Tag("remove-deleted-chunk-with-last-pin")
							}
						}
						m.present[a], m.pins[a] = false, 0
					}
				}
			case op.kind == verifC11Get || op.kind == verifC11GetMulti:
				if failed {
					for _, a := range op.addrs {
						if !m.present[a] {
							failed = false // expected: some requested chunk is absent
						}
					}
					x.Check(!failed, "get-request-fails-for-present-chunk", "%s: %v although all requested chunks are present (%s)", op.name, r.err, m)
				} else {
					x.Check(len(r.chunks) == len(op.addrs), "get-request-result-length", "%s: %d chunks", op.name, len(r.chunks))
					for i, a := range op.addrs {
						x.Check(m.present[a], "get-request-returns-absent-chunk", "%s: returned c%d which the model says is absent (%s)", op.name, a, m)
						x.Check(r.chunks[i].Address().Equal(u[a].addr) && bytes.Equal(r.chunks[i].Data(), u[a].data),
							"get-request-bytes-differ", "%s: c%d returned %x/%x", op.name, a, r.chunks[i].Address().Bytes(), r.chunks[i].Data())
					}
				}
			}
			if replayed {
				continue
			}

			// ---- observation through the public API, compared with the model ----
			d := dump()
			x.Check(d.foreign == "", "foreign-address-in-index", "index contains address %s outside the universe", d.foreign)
			bg := context.Background()
			var all, pres []boson.Address
			for a := range u {
				all = append(all, u[a].addr)
				if m.present[a] {
					pres = append(pres, u[a].addr)
				}
				has, err := s.db.Has(bg, storage.ModeHasChunk, u[a].addr)
				x.NoErr(err, "Has")
				if has && !m.present[a] {
					x.Fail("absent-chunk-reported-present/after-"+short, "Has(c%d)=true, model %s", a, m)
				}
				if !has && m.present[a] {
					x.Fail("present-chunk-reported-absent/after-"+short, "Has(c%d)=false, model %s", a, m)
				}
				for _, gm := range []storage.ModeGet{storage.ModeGetLookup, storage.ModeGetSync} {
					ch, err := s.db.Get(bg, gm, u[a].addr)
					if m.present[a] {
						x.Check(err == nil, "present-chunk-get-fails/after-"+short, "Get(%s,c%d): %v, model %s", gm, a, err, m)
						x.Check(ch.Address().Equal(u[a].addr) && bytes.Equal(ch.Data(), u[a].data), "bytes-differ/after-"+short,
							"Get(%s,c%d) returned %x, stored %x", gm, a, ch.Data(), u[a].data)
					} else {
						x.Check(err != nil, "absent-chunk-get-succeeds/after-"+short, "Get(%s,c%d) succeeded, model %s", gm, a, m)
						if err != storage.ErrNotFound {
							x.Tag("get-absent-error-not-ErrNotFound")
						}
					}
				}
				stored, inIdx := d.data[a]
				x.Check(inIdx == m.present[a], "data-index-differs-from-model/after-"+short, "c%d in data index: %v, model %s", a, inIdx, m)
				if inIdx {
					x.Check(bytes.Equal(stored, u[a].data), "stored-bytes-differ/after-"+short, "c%d stored as %x want %x", a, stored, u[a].data)
				}
			}
			hm, err := s.db.HasMulti(bg, storage.ModeHasChunk, all...)
			x.NoErr(err, "HasMulti")
			for a := range u {
				x.Check(len(hm) == 3 && hm[a] == m.present[a], "hasmulti-differs-from-model/after-"+short, "HasMulti=%v model %s", hm, m)
			}
			if len(pres) > 0 {
				chs, err := s.db.GetMulti(bg, storage.ModeGetLookup, pres...)
				x.Check(err == nil && len(chs) == len(pres), "getmulti-present-fails/after-"+short, "GetMulti(present set): %d chunks, %v; model %s", len(chs), err, m)
				for i := range chs {
					a := verifC11Idx(u, pres[i].Bytes())
					x.Check(chs[i].Address().Equal(pres[i]) && bytes.Equal(chs[i].Data(), u[a].data), "getmulti-bytes-differ/after-"+short,
						"GetMulti[%d] returned %x", i, chs[i].Data())
				}
			}
			if len(pres) < len(all) {
				_, err := s.db.GetMulti(bg, storage.ModeGetLookup, all...)
				x.Check(err != nil, "getmulti-with-absent-succeeds/after-"+short, "GetMulti(all) succeeded, model %s", m)
			}

			// ---- batch ≡ singles ----
			if twin != nil {
				interesting = true
				shape := "distinct"
				if op.addrs[0] == op.addrs[1] {
					shape = "duplicate"
				}
				site := fmt.Sprintf("%s/%s", op.put, shape)
				td := twin.dump(x, u)
				singlesFailed := 0
				for _, tr := range twinRes {
					if tr.err != nil {
						singlesFailed++
					}
				}
				switch {
				case r.err != nil && singlesFailed == 0:
					x.Fail("batch-put-fails-where-singles-succeed/"+site, "%s failed (%v) and stored nothing, but putting the same chunks one at a time succeeds and stores them", op.name, r.err)
				case r.err == nil && singlesFailed > 0:
					x.Fail("batch-put-succeeds-where-a-single-fails/"+site, "%s succeeded but %d of the single puts failed", op.name, singlesFailed)
				case r.err != nil:
					x.Tag("batch-and-singles-both-fail")
				default:
					x.Tag("batch-compared-with-singles")
					for i := range op.addrs {
						x.Check(len(twinRes[i].exist) == 1 && twinRes[i].exist[0] == r.exist[i], "batch-exist-flags-differ-from-singles/"+site,
							"%s: exist=%v, singles report %v at position %d", op.name, r.exist, twinRes[i].exist, i)
					}
					for a := range u {
						bs, bok := d.data[a]
						ss, sok := td.data[a]
						x.Check(bok == sok && bytes.Equal(bs, ss), "batch-stored-chunks-differ-from-singles/"+site,
							"%s: c%d batch stored=%v singles stored=%v", op.name, a, bok, sok)
					}
					// Pin counters are not an observable of the statement by
					// themselves; they are one as soon as removals tell them
					// apart (a removal takes one pin, the chunk goes with the
					// last one): p != q with max(p,q) >= 2. Demonstrate it.
					for a := range u {
						p, q := d.pins[a], td.pins[a]
						if p == q {
							continue
						}
						if p < 2 && q < 2 {
							x.Tag("batch-pin-count-differs-but-not-observable-by-removal")
							continue
						}
						n := p
						if q < p {
							n = q
						}
						if n == 0 {
							n = 1
						}
						// (on a replica of the batch store, so that the store under
						// test is left as it is)
						rm := verifC11Op{kind: verifC11Set, set: storage.ModeSetRemove, addrs: []int{a}, root: -1}
						rep := verifC11New(x, drv)
						open = append(open, rep)
						for _, h := range hist {
							rep.apply(u, h)
						}
						for i := uint64(0); i < n; i++ {
							rep.apply(u, rm)
							twin.apply(u, rm)
						}
						hb, _ := rep.db.Has(bg, storage.ModeHasChunk, u[a].addr)
						hs, _ := twin.db.Has(bg, storage.ModeHasChunk, u[a].addr)
						verifC11Clock = &s.clk
						x.Check(hb == hs, "batch-pin-count-differs-from-singles/"+site,
							"%s leaves pin counter %d on c%d, the same puts one at a time leave %d; after %d x Set(Remove,c%d) the chunk is present=%v in the batch store and present=%v in the singles store",
							op.name, p, a, q, n, a, hb, hs)
						x.Tag("batch-pin-count-differs-but-removals-do-not-tell")
						break // the twin has been consumed
					}
				}
			}

			if x.Seen(m.String()+"|"+d.canon, depth-step-1) {
				break
			}
		}
		if interesting {
			x.Nontrivial()
		}
		x.Outcome(fmt.Sprintf("present=%v", m.present))
	})
}
