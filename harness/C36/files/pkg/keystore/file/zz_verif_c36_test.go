//go:build verif
// +build verif

package file

// C36 (file keystore): keys are protected by their password.
//
// Two harnesses:
//   - inputs:    every (name, password, wrong password) over 4 x 4 x 3, fixed script
//   - histories: every sequence up to the tier depth over Key / Export+Import
//     on 2 colliding-looking names x 2 passwords, reference model name -> (key, password)
//
// scrypt (N=2^15) costs 50-100 ms per call, which is what bounds both.

import (
	"bytes"
	"crypto/ecdsa"
	"encoding/hex"
	"errors"
	"fmt"
	"os"
	"path/filepath"
	"sort"
	"strings"
	"testing"

	"github.com/gauss-project/aurorafs/pkg/crypto"
	"github.com/gauss-project/aurorafs/pkg/keystore"
	"github.com/gauss-project/aurorafs/pkg/zzverif/mc"
)

func c36TempDir(x *mc.X) string {
	root := os.Getenv("VERIF_WORK")
	if root == "" {
		root = os.TempDir()
	}
	dir, err := os.MkdirTemp(root, "c36-ks-")
	x.NoErr(err, "MkdirTemp")
	return dir
}

// c36Snapshot returns the key files (not the .bak.<time> leftovers of imports)
// with their content.
func c36Snapshot(x *mc.X, dir string) map[string]string {
	snap := map[string]string{}
	err := filepath.Walk(dir, func(p string, info os.FileInfo, err error) error {
		if err != nil {
			return err
		}
		if info.IsDir() || strings.Contains(info.Name(), ".key.bak.") {
			return nil
		}
		b, err := os.ReadFile(p)
		if err != nil {
			return err
		}
		rel, _ := filepath.Rel(dir, p)
		snap[rel] = string(b)
		return nil
	})
	x.NoErr(err, "walk keystore dir")
	return snap
}

func c36SameSnapshot(a, b map[string]string) bool {
	if len(a) != len(b) {
		return false
	}
	for k, v := range a {
		if w, ok := b[k]; !ok || w != v {
			return false
		}
	}
	return true
}

func c36SameKey(a, b *ecdsa.PrivateKey) bool {
	return a != nil && b != nil && a.D != nil && b.D != nil && a.D.Cmp(b.D) == 0 &&
		a.PublicKey.X.Cmp(b.PublicKey.X) == 0 && a.PublicKey.Y.Cmp(b.PublicKey.Y) == 0
}

// c36Leaks reports whether data contains the private key in the clear (raw or hex).
func c36Leaks(data []byte, k *ecdsa.PrivateKey) bool {
	raw := crypto.EncodeSecp256k1PrivateKey(k)
	h := hex.EncodeToString(raw)
	return bytes.Contains(data, raw) || bytes.Contains(bytes.ToLower(data), []byte(h))
}

func c36ErrClass(err error) string {
	switch {
	case err == nil:
		return "nil"
	case errors.Is(err, keystore.ErrInvalidPassword):
		return "ErrInvalidPassword"
	default:
		return "other-error"
	}
}

var c36Names = []string{"a", "", "ключ", "a.b"}
var c36Passwords = []string{"", "p", "пароль", strings.Repeat("x", 64)}
var c36PwNames = []string{`""`, `"p"`, `"пароль"`, `64x"x"`}

func TestVerifC36FileInputs(t *testing.T) {
	// One scrypt costs 50-100 ms and the engine runs the first leaf of every
	// subtree in every shard before it skips the ones it does not own. Hence:
	// the sharding level is the (name, password) case, and the first leaf below
	// it (leaf selector 0) does nothing.
	mc.Run(t, mc.Config{ID: "C36", Name: "C36-file-inputs", MaxDev: -1, ShardLevels: 1, Params: map[string]interface{}{
		"names": c36Names, "passwords": c36PwNames,
		"wrong_passwords_per_case": mc.Pick(1, 3),
		"script": "Exists; Key(create); Exists; Key(same); Key(wrong); [quick: first name only, thorough: every name, first wrong password: Export(wrong); Export; Import(wrong); Import; Key]"}},
		func(x *mc.X) {
			c := x.Choose(len(c36Names) * len(c36Passwords))
			ni, pi := c/len(c36Passwords), c%len(c36Passwords)
			if x.Choose(2) == 0 {
				x.Logf("case (%q,%s): shard probe leaf, nothing to do", c36Names[ni], c36PwNames[pi])
				return
			}
			// wrong password: the cyclically next one (quick) / each of the other three (thorough)
			wi := (pi + 1 + x.Choose(mc.Pick(1, len(c36Passwords)-1))) % len(c36Passwords)
			// the export/import part of the script does not depend on the name (the name only
			// selects the file): quick runs it for every password under the first name,
			// thorough for every (name, password)
			full := wi == (pi+1)%len(c36Passwords) && (mc.Thorough() || ni == 0)
			name, pw, wrong := c36Names[ni], c36Passwords[pi], c36Passwords[wi]
			x.Logf("name %q password %s wrong password %s", name, c36PwNames[pi], c36PwNames[wi])
			dir := c36TempDir(x)
			defer os.RemoveAll(dir)
			s := New(dir)
			x.Nontrivial()

			ex, err := s.Exists(name)
			x.Check(err == nil && !ex, "exists-before-create", "Exists(%q) on an empty keystore = %v, %v", name, ex, err)
			k1, created, err := s.Key(name, pw)
			x.Check(err == nil && created && k1 != nil, "create-failed", "Key(%q,%s) on an empty keystore = created %v, err %v", name, c36PwNames[pi], created, err)
			snap := c36Snapshot(x, dir)
			x.Check(len(snap) == 1, "create-file-count", "creating one key left %d key files", len(snap))
			for f, content := range snap {
				x.Check(!c36Leaks([]byte(content), k1), "stored-key-in-clear", "key file %q contains the private key in the clear", f)
			}
			ex, err = s.Exists(name)
			x.Check(err == nil && ex, "exists-after-create", "Exists(%q) after creation = %v, %v", name, ex, err)
			k2, created, err := s.Key(name, pw)
			x.Check(err == nil && k2 != nil, "right-password-rejected", "second Key(%q,%s) = %v", name, c36PwNames[pi], err)
			x.Check(!created, "second-key-created-again", "second Key(%q,%s) reports created=true", name, c36PwNames[pi])
			x.Check(c36SameKey(k1, k2), "second-key-differs", "second Key(%q,%s) returned a different key", name, c36PwNames[pi])
			k3, created, err := s.Key(name, wrong)
			x.Outcome("key-wrong-password:" + c36ErrClass(err))
			x.Check(err != nil, "wrong-password-accepted", "Key(%q,%s) succeeded (created=%v, same key=%v) although the key was stored with %s", name, c36PwNames[wi], created, c36SameKey(k1, k3), c36PwNames[pi])
			x.Check(c36SameSnapshot(snap, c36Snapshot(x, dir)), "rejected-key-changed-files", "a rejected Key(%q,%s) changed the key files", name, c36PwNames[wi])
			if !full {
				return
			}
			_, err = s.ExportKey(name, wrong)
			x.Outcome("export-wrong-password:" + c36ErrClass(err))
			x.Check(err != nil, "export-wrong-password-accepted", "ExportKey(%q,%s) succeeded", name, c36PwNames[wi])
			blob, err := s.ExportKey(name, pw)
			x.Check(err == nil && len(blob) > 0, "export-failed", "ExportKey(%q,%s) = %v", name, c36PwNames[pi], err)
			x.Check(!c36Leaks(blob, k1), "exported-key-in-clear", "the export of %q contains the private key in the clear", name)
			err = s.ImportKey(name, wrong, blob)
			x.Outcome("import-wrong-password:" + c36ErrClass(err))
			x.Check(err != nil, "import-wrong-password-accepted", "ImportKey(%q,%s,export) succeeded", name, c36PwNames[wi])
			x.Check(c36SameSnapshot(snap, c36Snapshot(x, dir)), "rejected-import-changed-files", "a rejected ImportKey(%q,%s) changed the key files", name, c36PwNames[wi])
			err = s.ImportKey(name, pw, blob)
			x.Check(err == nil, "import-of-own-export-failed", "ImportKey(%q,%s,own export) = %v", name, c36PwNames[pi], err)
			k4, created, err := s.Key(name, pw)
			x.Check(err == nil && !created && c36SameKey(k1, k4), "export-import-does-not-reproduce-key", "after export+import Key(%q,%s) = created %v, err %v, same key %v", name, c36PwNames[pi], created, err, c36SameKey(k1, k4))
		})
}

// ---- histories ---------------------------------------------------------------

type c36Entry struct {
	key *ecdsa.PrivateKey
	pw  int
	id  int // symbolic identity: order of generation within the execution
}

type c36Op struct {
	kind             string // stop key transfer importpk
	n, p, dst, pdst int
}

func TestVerifC36FileHistories(t *testing.T) {
	depth := mc.EnvInt("VERIF_C36_DEPTH", mc.Pick(3, 4))
	names := []string{"a", "a.b"}
	pws := []string{"", "p"}
	ops := []c36Op{{kind: "stop"}}
	for n := range names {
		for p := range pws {
			ops = append(ops, c36Op{kind: "key", n: n, p: p})
		}
	}
	for n := range names {
		for p := range pws {
			for d := range names {
				for pd := range pws {
					ops = append(ops, c36Op{kind: "transfer", n: n, p: p, dst: d, pdst: pd})
				}
			}
		}
	}
	if mc.Thorough() {
		for n := range names {
			for p := range pws {
				ops = append(ops, c36Op{kind: "importpk", n: n, p: p})
			}
		}
	}
	// Sharding uses the first two choice levels, and every shard runs the first
	// leaf of each (level 0, level 1) pair before skipping the pairs it does not
	// own. One scrypt costs 50-100 ms, so the first two operations are CHOSEN
	// first (levels 0 and 1), then a leaf selector follows whose value 0 ends the
	// execution without doing anything; only then are the operations executed.
	firstOps := ops[1:]
	// quick tier: all sequences of length <= 2, and those of length 3 whose first
	// two operations create the two names (the states in which export/import
	// across names, foreign-password exports and the restore path are reachable);
	// thorough: all sequences up to the depth.
	restrictThird := mc.EnvInt("VERIF_C36_RESTRICT", mc.Pick(1, 0)) == 1
	mc.Run(t, mc.Config{ID: "C36", Name: "C36-file-histories", MaxDev: -1, Params: map[string]interface{}{
		"names": names, "passwords": []string{`""`, `"p"`}, "depth": depth, "ops_per_step": len(ops), "third_op_only_after_two_creates": restrictThird,
		"alphabet": "stop | Key(n,p) | Transfer = ExportKey(src,psrc) then ImportKey(dst,pdst,export) | ImportPrivateKey(n,p,fresh key) (thorough)"}},
		func(x *mc.X) {
			planned := []c36Op{firstOps[x.Choose(len(firstOps))], ops[x.Choose(len(ops))]}
			if x.Choose(2) == 0 {
				x.Logf("shard probe leaf, nothing to do")
				return
			}
			dir := c36TempDir(x)
			defer os.RemoveAll(dir)
			s := New(dir)
			model := map[int]*c36Entry{}
			nextID := 0
			canon := func() string {
				// rename key identities by first appearance in name order
				ren := map[int]int{}
				var b strings.Builder
				idx := make([]int, 0, len(model))
				for n := range model {
					idx = append(idx, n)
				}
				sort.Ints(idx)
				for _, n := range idx {
					e := model[n]
					if _, ok := ren[e.id]; !ok {
						ren[e.id] = len(ren)
					}
					fmt.Fprintf(&b, "%d:%d:k%d,", n, e.pw, ren[e.id])
				}
				return b.String()
			}
			checkExists := func(when string) {
				for n, name := range names {
					ex, err := s.Exists(name)
					_, want := model[n]
					x.Check(err == nil && ex == want, "exists-wrong", "%s: Exists(%q) = %v, %v; want %v", when, name, ex, err, want)
				}
			}
			// verify: the named key is readable with its password and is the model's key
			verify := func(when string, n int) {
				e := model[n]
				k, created, err := s.Key(names[n], pws[e.pw])
				x.Check(err == nil && !created && c36SameKey(k, e.key), "stored-key-differs", "%s: Key(%q,%q) = created %v, err %v, same key %v", when, names[n], pws[e.pw], created, err, err == nil && c36SameKey(k, e.key))
			}
			creates := 0
			for step := 0; step < depth; step++ {
				if restrictThird && step == 2 && creates != 2 {
					// quick tier: a third operation only after the two names were created
					return
				}
				var op c36Op
				if step < len(planned) {
					op = planned[step]
				} else {
					op = ops[x.Choose(len(ops))]
				}
				when := fmt.Sprintf("step %d", step)
				before := c36Snapshot(x, dir)
				unchanged := func(what string) {
					x.Check(c36SameSnapshot(before, c36Snapshot(x, dir)), "rejected-operation-changed-files", "%s: %s was rejected but changed the key files", when, what)
				}
				switch op.kind {
				case "stop":
					x.Logf("stop")
					return
				case "key":
					name, pw := names[op.n], pws[op.p]
					k, created, err := s.Key(name, pw)
					x.Logf("Key(%q,%q) -> created=%v err=%s", name, pw, created, c36ErrClass(err))
					e, present := model[op.n]
					switch {
					case !present:
						x.Check(err == nil && created && k != nil, "create-failed", "%s: Key(%q,%q) of a new name = created %v, err %v", when, name, pw, created, err)
						for n, o := range model {
							x.Check(!c36SameKey(o.key, k), "new-key-equals-existing-key", "%s: the key created for %q equals the key of %q", when, name, names[n])
						}
						model[op.n] = &c36Entry{key: k, pw: op.p, id: nextID}
						nextID++
						creates++
						if len(model) == 2 {
							x.Tag("two-names-stored")
						}
						for f, content := range c36Snapshot(x, dir) {
							x.Check(!c36Leaks([]byte(content), k), "stored-key-in-clear", "%s: key file %q contains the private key in the clear", when, f)
						}
						x.Outcome("key:created")
					case e.pw == op.p:
						x.Check(err == nil, "right-password-rejected", "%s: Key(%q,%q) = %v", when, name, pw, err)
						x.Check(!created, "second-key-created-again", "%s: Key(%q,%q) on an existing name reports created=true", when, name, pw)
						x.Check(c36SameKey(k, e.key), "second-key-differs", "%s: Key(%q,%q) returned a different key than the stored one", when, name, pw)
						unchanged("(successful read)")
						x.Nontrivial()
						x.Outcome("key:same")
					default:
						x.Check(err != nil, "wrong-password-accepted", "%s: Key(%q,%q) succeeded (created=%v) although the key was stored with %q", when, name, pw, created, pws[e.pw])
						unchanged(fmt.Sprintf("Key(%q,%q)", name, pw))
						x.Nontrivial()
						x.Outcome("key:rejected:" + c36ErrClass(err))
					}
				case "transfer":
					src, psrc, dst, pdst := names[op.n], pws[op.p], names[op.dst], pws[op.pdst]
					blob, err := s.ExportKey(src, psrc)
					x.Logf("ExportKey(%q,%q) -> %s", src, psrc, c36ErrClass(err))
					se, sPresent := model[op.n]
					if !sPresent || se.pw != op.p {
						if sPresent {
							x.Check(err != nil, "export-wrong-password-accepted", "%s: ExportKey(%q,%q) succeeded although the key was stored with %q", when, src, psrc, pws[se.pw])
						} else {
							x.Check(err != nil, "export-of-absent-name-succeeded", "%s: ExportKey(%q,%q) of a name that was never stored succeeded", when, src, psrc)
						}
						unchanged(fmt.Sprintf("ExportKey(%q,%q)", src, psrc))
						x.Outcome("export:rejected:" + c36ErrClass(err))
						break
					}
					x.Check(err == nil && len(blob) > 0, "export-failed", "%s: ExportKey(%q,%q) = %v", when, src, psrc, err)
					x.Check(!c36Leaks(blob, se.key), "exported-key-in-clear", "%s: the export of %q contains the private key in the clear", when, src)
					unchanged("(successful export)")
					err = s.ImportKey(dst, pdst, blob)
					x.Logf("ImportKey(%q,%q,export) -> %s", dst, pdst, c36ErrClass(err))
					de, dPresent := model[op.dst]
					switch {
					case !dPresent:
						// importing under a name that holds no key: the statement is silent;
						// whatever the answer, the model follows the observable result
						x.Outcome("import:into-absent-name:" + c36ErrClass(err))
						if err == nil {
							model[op.dst] = &c36Entry{key: se.key, pw: op.pdst, id: se.id}
							verify(when+" after import into a new name", op.dst)
						} else {
							unchanged(fmt.Sprintf("ImportKey(%q,%q)", dst, pdst))
						}
					case de.pw != op.pdst:
						x.Check(err != nil, "import-wrong-password-accepted", "%s: ImportKey(%q,%q,..) succeeded although %q is stored with %q", when, dst, pdst, dst, pws[de.pw])
						unchanged(fmt.Sprintf("ImportKey(%q,%q)", dst, pdst))
						x.Nontrivial()
						x.Outcome("import:rejected-destination-password:" + c36ErrClass(err))
					case op.pdst != op.p:
						// destination password is right, but the export is encrypted with another one
						x.Check(err != nil, "import-of-foreign-password-export-accepted", "%s: ImportKey(%q,%q, export made with %q) succeeded", when, dst, pdst, psrc)
						unchanged(fmt.Sprintf("ImportKey(%q,%q)", dst, pdst))
						x.Nontrivial()
						x.Outcome("import:rejected-export-password:" + c36ErrClass(err))
					default:
						x.Check(err == nil, "import-of-export-failed", "%s: ImportKey(%q,%q, export of %q made with the same password) = %v", when, dst, pdst, src, err)
						model[op.dst] = &c36Entry{key: se.key, pw: op.pdst, id: se.id}
						verify(when+" after export+import", op.dst)
						if op.dst != op.n {
							x.Tag("export-import-across-names")
							verify(when+" source after export+import", op.n)
						}
						x.Nontrivial()
						x.Outcome("import:ok")
					}
				case "importpk":
					name, pw := names[op.n], pws[op.p]
					pk, err := crypto.GenerateSecp256k1Key()
					x.NoErr(err, "generate key")
					err = s.ImportPrivateKey(name, pw, pk)
					x.Logf("ImportPrivateKey(%q,%q,fresh) -> %s", name, pw, c36ErrClass(err))
					e, present := model[op.n]
					switch {
					case !present:
						x.Outcome("importpk:into-absent-name:" + c36ErrClass(err))
						if err == nil {
							model[op.n] = &c36Entry{key: pk, pw: op.p, id: nextID}
							nextID++
							verify(when+" after ImportPrivateKey into a new name", op.n)
						} else {
							unchanged("ImportPrivateKey")
						}
					case e.pw != op.p:
						x.Check(err != nil, "importpk-wrong-password-accepted", "%s: ImportPrivateKey(%q,%q) succeeded although stored with %q", when, name, pw, pws[e.pw])
						unchanged("ImportPrivateKey")
					default:
						x.Check(err == nil, "importpk-failed", "%s: ImportPrivateKey(%q,%q) = %v", when, name, pw, err)
						model[op.n] = &c36Entry{key: pk, pw: op.p, id: nextID}
						nextID++
						verify(when+" after ImportPrivateKey", op.n)
					}
				}
				checkExists(when)
				if len(model) == 0 {
					// nothing stored and (as checked) no file changed: the rest of this
					// sequence is the same as a shorter sequence on a fresh keystore
					return
				}
				// no pruning while the next operation is already chosen (planned): x.Seen
				// means "every continuation from here was explored", which only holds when
				// the continuation is a fresh choice
				if step+1 >= len(planned) && x.Seen(canon(), depth-step-1) {
					return
				}
			}
		})
}
