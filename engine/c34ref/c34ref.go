//go:build verif
// +build verif

// Package c34ref holds what the three C34 harnesses (pkg/aurora, handshake,
// pkg/routetab) share: the alphabets, the single-field mutation operators and a
// reference acceptance predicate written from the property statement that uses
// no code of the repository (go-ethereum's libsecp256k1 recovery, x/crypto sha3).
package c34ref

import (
	"bytes"
	"encoding/binary"
	"fmt"

	gethcrypto "github.com/ethereum/go-ethereum/crypto"
	"github.com/gauss-project/aurorafs/pkg/zzverif/keyalpha"
	"golang.org/x/crypto/sha3"
)

// Record is a peer address record as it travels on the wire, plus the network
// id of the verifier it is presented to.
type Record struct {
	Underlay, Overlay, Signature []byte
	NetworkID                    uint64
}

func (r Record) Clone() Record {
	return Record{append([]byte{}, r.Underlay...), append([]byte{}, r.Overlay...), append([]byte{}, r.Signature...), r.NetworkID}
}

// WitnessKey is a fourth key, never used for the record under test.
var WitnessKey = bytes.Repeat([]byte{0x22}, 32)

// Keys: three ordinary keys; init appends one boundary key per keyalpha class
// (public X / Y / both with a leading zero byte, X / Y with two leading zero
// bytes), where a variable-width encoding of the public key differs from the
// fixed-width one the overlay derivation hashes.
var Keys = [][]byte{
	bytes.Repeat([]byte{0x11}, 32),
	{0x63, 0x4f, 0xb5, 0xa8, 0x72, 0x39, 0x6d, 0x96, 0x93, 0xe5, 0xc9, 0xf9, 0xd7, 0x23, 0x3c, 0xfa, 0x93, 0xf3, 0x95, 0xc0, 0x93, 0x37, 0x10, 0x17, 0xff, 0x44, 0xaa, 0x9a, 0xe6, 0x56, 0x4c, 0xdd},
	append(make([]byte, 31), 0x01), // scalar 1
}

var KeyNames = []string{"0x11..", "fixed test key", "scalar 1"}

// InitErr is set when the bounded boundary-key search failed; harnesses abort as BROKEN.
var InitErr error

func init() {
	ks, err := keyalpha.Boundary()
	if err != nil {
		InitErr = err
		return
	}
	for _, k := range ks {
		Keys = append(Keys, k.Priv)
		KeyNames = append(KeyNames, fmt.Sprintf("%s (stream position %d)", k.Name, k.Index))
	}
}

// Underlays carry a /p2p component because the handshake advertises full addresses.
var Underlays = []string{
	"/ip4/127.0.0.1/tcp/1634/p2p/16Uiu2HAkx8ULY8cTXhdVAcMmLcH9AsTKz6uBQ7DPLKRjMLgBVYkA",
	"/ip6/::1/tcp/1634/p2p/16Uiu2HAkx8ULY8cTXhdVAcMmLcH9AsTKz6uBQ7DPLKRjMLgBVYkA",
	"/dns/example.org/tcp/1634/p2p/16Uiu2HAkx8ULY8cTXhdVAcMmLcH9AsTKz6uBQ7DPLKRjMLgBVYkA",
}

var NetworkIDs = []uint64{0, 1, ^uint64(0)}

func Keccak(parts ...[]byte) []byte {
	h := sha3.NewLegacyKeccak256()
	for _, p := range parts {
		h.Write(p)
	}
	return h.Sum(nil)
}

// PublicKey returns the 65-byte uncompressed public key of Keys[i].
func PublicKey(i int) []byte {
	k, err := gethcrypto.ToECDSA(Keys[i])
	if err != nil {
		panic(err)
	}
	return gethcrypto.FromECDSAPub(&k.PublicKey)
}

// OverlayOf is the overlay address of a public key: SHA3-256(keccak256(X||Y)).
// (The harnesses cross-check this against crypto.NewOverlayAddress for the
// three keys and abort as BROKEN on disagreement.)
func OverlayOf(pub65 []byte) []byte {
	o := sha3.Sum256(Keccak(pub65[1:]))
	return o[:]
}

// SignData is what the statement says is signed: underlay, overlay, network id.
func SignData(underlay, overlay []byte, networkID uint64) []byte {
	d := append([]byte("aurorafs-handshake-"), underlay...)
	d = append(d, overlay...)
	var n [8]byte
	binary.BigEndian.PutUint64(n[:], networkID)
	return append(d, n[:]...)
}

// Recover returns the uncompressed public key that made the EIP-191 personal
// signature sig over data. The last byte 27..34 carries the recovery id
// ((v-27)&3) and a "compressed key" flag ((v-27)&4) that is not part of the
// signature proper.
func Recover(sig, data []byte) ([]byte, bool) {
	if len(sig) != 65 || sig[64] < 27 || sig[64] > 34 {
		return nil, false
	}
	msg := Keccak([]byte(fmt.Sprintf("\x19Ethereum Signed Message:\n%d", len(data))), data)
	n := append([]byte{}, sig...)
	n[64] = (sig[64] - 27) & 3
	pub, err := gethcrypto.Ecrecover(msg, n)
	if err != nil || len(pub) != 65 {
		return nil, false
	}
	return pub, true
}

// Accept is the reference predicate: the signature over (underlay, overlay,
// network id) was made by a key whose overlay is the claimed one.
func Accept(r Record) (bool, string) {
	pub, ok := Recover(r.Signature, SignData(r.Underlay, r.Overlay, r.NetworkID))
	if !ok {
		return false, "signature recovers no key"
	}
	if !bytes.Equal(OverlayOf(pub), r.Overlay) {
		return false, "recovered key's overlay is not the claimed overlay"
	}
	return true, ""
}

// ---- single-field mutation operators ---------------------------------------

const (
	OpNone = iota
	OpUnderlayByte
	OpOverlayByte
	OpSignatureByte
	OpHeader         // signature byte 64 := Val
	OpNetworkID      // presented to a verifier on network Alt
	OpUnderlayLen    // Pos: 0 drop last byte, 1 append zero byte, 2 empty
	OpOverlayLen     // Pos: 0 31 bytes, 1 33 bytes, 2 empty
	OpSignatureLen   // Pos: 0 64 bytes, 1 66 bytes, 2 empty
	OpShiftBoundary  // Pos: 0 first overlay byte moved to the end of the underlay, 1 last underlay byte moved to the front of the overlay (same signed bytes)
	OpOtherOverlay   // overlay := overlay of key Pos
	OpOtherSignature // signature := Alt record's signature (set by the harness through Other)
)

type Op struct {
	Kind, Pos int
	Val       byte
	Alt       uint64
}

// Ops enumerates all operators for a genuine record made by key ki. With
// perByte == false the per-byte mutations of the three fields are left out.
func Ops(r Record, ki int, perByte bool) []Op {
	ops := []Op{{Kind: OpNone}}
	for p := range r.Underlay {
		if !perByte {
			break
		}
		ops = append(ops, Op{Kind: OpUnderlayByte, Pos: p, Val: 0x01}, Op{Kind: OpUnderlayByte, Pos: p, Val: 0x80})
	}
	for p := range r.Overlay {
		if !perByte {
			break
		}
		ops = append(ops, Op{Kind: OpOverlayByte, Pos: p, Val: 0x01}, Op{Kind: OpOverlayByte, Pos: p, Val: 0x80})
	}
	for p := range r.Signature {
		if !perByte {
			break
		}
		ops = append(ops, Op{Kind: OpSignatureByte, Pos: p, Val: 0x01}, Op{Kind: OpSignatureByte, Pos: p, Val: 0x80})
	}
	h := r.Signature[64]
	other := h ^ 0x07 // 27 <-> 28
	for _, v := range []byte{h + 4, other, other + 4, 0, 26, 35} {
		ops = append(ops, Op{Kind: OpHeader, Val: v})
	}
	seen := map[uint64]bool{r.NetworkID: true}
	for _, n := range append(append([]uint64{}, NetworkIDs...), r.NetworkID^1, r.NetworkID^(1<<63), r.NetworkID^(1<<8)) {
		if !seen[n] {
			seen[n] = true
			ops = append(ops, Op{Kind: OpNetworkID, Alt: n})
		}
	}
	for _, k := range []int{OpUnderlayLen, OpOverlayLen, OpSignatureLen} {
		for p := 0; p < 3; p++ {
			ops = append(ops, Op{Kind: k, Pos: p})
		}
	}
	ops = append(ops, Op{Kind: OpShiftBoundary, Pos: 0}, Op{Kind: OpShiftBoundary, Pos: 1})
	// overlay / signature of two other keys: the next and the previous one
	for _, k := range []int{(ki + 1) % len(Keys), (ki + len(Keys) - 1) % len(Keys)} {
		ops = append(ops, Op{Kind: OpOtherOverlay, Pos: k}, Op{Kind: OpOtherSignature, Pos: k})
	}
	return ops
}

func resize(b []byte, how int) []byte {
	switch how {
	case 0:
		return b[:len(b)-1]
	case 1:
		return append(b, 0)
	}
	return nil
}

// Apply returns the mutated copy and a name of the mutated field. otherSig(k)
// must return the signature key k makes over the same underlay/network id with
// its own overlay (used by OpOtherSignature).
func Apply(r Record, op Op, otherSig func(k int) []byte) (Record, string) {
	m := r.Clone()
	switch op.Kind {
	case OpNone:
		return m, "unmutated"
	case OpUnderlayByte:
		m.Underlay[op.Pos] ^= op.Val
		return m, "underlay"
	case OpOverlayByte:
		m.Overlay[op.Pos] ^= op.Val
		return m, "overlay"
	case OpSignatureByte:
		m.Signature[op.Pos] ^= op.Val
		if op.Pos == 64 {
			return m, "signature-header"
		}
		return m, "signature"
	case OpHeader:
		m.Signature[64] = op.Val
		return m, "signature-header"
	case OpNetworkID:
		m.NetworkID = op.Alt
		return m, "networkid"
	case OpUnderlayLen:
		m.Underlay = resize(m.Underlay, op.Pos)
		return m, "underlay-length"
	case OpOverlayLen:
		m.Overlay = resize(m.Overlay, op.Pos)
		return m, "overlay-length"
	case OpSignatureLen:
		m.Signature = resize(m.Signature, op.Pos)
		return m, "signature-length"
	case OpShiftBoundary:
		if op.Pos == 0 {
			m.Underlay = append(m.Underlay, m.Overlay[0])
			m.Overlay = m.Overlay[1:]
		} else {
			m.Overlay = append([]byte{m.Underlay[len(m.Underlay)-1]}, m.Overlay...)
			m.Underlay = m.Underlay[:len(m.Underlay)-1]
		}
		return m, "field-boundary"
	case OpOtherOverlay:
		m.Overlay = OverlayOf(PublicKey(op.Pos))
		return m, "overlay-of-other-key"
	case OpOtherSignature:
		m.Signature = append([]byte{}, otherSig(op.Pos)...)
		return m, "signature-of-other-key"
	}
	panic("unknown op")
}

func (op Op) String() string {
	return fmt.Sprintf("op{kind %d pos %d val %#x alt %d}", op.Kind, op.Pos, op.Val, op.Alt)
}
