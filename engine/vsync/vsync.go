//go:build verif && go1.18
// +build verif,go1.18

// Package vsync mirrors the parts of package sync used by the scheduled
// packages; every operation is a scheduling point of vsched.
package vsync

import (
	"github.com/gauss-project/aurorafs/pkg/zzverif/vsched"
)

// Locker mirrors sync.Locker.
type Locker interface {
	Lock()
	Unlock()
}

// Mutex mirrors sync.Mutex.
type Mutex struct {
	locked bool
}

func (m *Mutex) Lock() {
	vsched.Op("Lock", func() bool { return !m.locked }, func() { m.locked = true; vsched.Acquire(m) })
}

func (m *Mutex) TryLock() bool {
	ok := false
	vsched.Op("TryLock", nil, func() {
		if !m.locked {
			m.locked, ok = true, true
			vsched.Acquire(m)
		}
	})
	return ok
}

func (m *Mutex) Unlock() {
	if !vsched.Active() {
		m.locked = false
		return
	}
	if !m.locked {
		panic("sync: unlock of unlocked mutex")
	}
	// unlocking is not a scheduling point of its own: the next operation of this thread is
	vsched.Release(m)
	m.locked = false
}

// RWMutex mirrors sync.RWMutex (no writer preference is modelled: any order the
// real one allows for 2-3 threads is explored).
type RWMutex struct {
	w       bool
	readers int
}

func (m *RWMutex) Lock() {
	vsched.Op("Lock", func() bool { return !m.w && m.readers == 0 }, func() { m.w = true; vsched.Acquire(m) })
}
func (m *RWMutex) Unlock() {
	if !vsched.Active() {
		m.w = false
		return
	}
	if !m.w {
		panic("sync: Unlock of unlocked RWMutex")
	}
	vsched.Release(m)
	m.w = false
}
func (m *RWMutex) RLock() {
	vsched.Op("RLock", func() bool { return !m.w }, func() { m.readers++; vsched.Acquire(m) })
}
func (m *RWMutex) RUnlock() {
	if !vsched.Active() {
		if m.readers > 0 {
			m.readers--
		}
		return
	}
	if m.readers <= 0 {
		panic("sync: RUnlock of unlocked RWMutex")
	}
	// a later writer must be ordered after this reader
	vsched.Release(m)
	m.readers--
}
func (m *RWMutex) RLocker() Locker { return rlocker{m} }

type rlocker struct{ m *RWMutex }

func (r rlocker) Lock()   { r.m.RLock() }
func (r rlocker) Unlock() { r.m.RUnlock() }

// WaitGroup mirrors sync.WaitGroup.
type WaitGroup struct{ n int }

func (w *WaitGroup) Add(d int) {
	vsched.Release(w)
	w.n += d
	if w.n < 0 {
		panic("sync: negative WaitGroup counter")
	}
}
func (w *WaitGroup) Done() { w.Add(-1) }
func (w *WaitGroup) Wait() {
	vsched.Op("WaitGroup.Wait", func() bool { return w.n == 0 }, func() { vsched.Acquire(w) })
}

// Once mirrors sync.Once.
type Once struct {
	m    Mutex
	done bool
}

func (o *Once) Do(f func()) {
	o.m.Lock()
	defer o.m.Unlock()
	if !o.done {
		defer func() { o.done = true }()
		f()
	}
}

// Map mirrors sync.Map; every method is one atomic, synchronising operation.
type Map struct {
	m map[interface{}]interface{}
	// insertion order, so Range is deterministic
	keys []interface{}
}

func (m *Map) op(what string, f func()) {
	vsched.Op("Map."+what, nil, func() { vsched.Acquire(m); f(); vsched.Release(m) })
}
func (m *Map) Load(k interface{}) (v interface{}, ok bool) {
	m.op("Load", func() { v, ok = m.m[k] })
	return
}
func (m *Map) store(k, v interface{}) {
	if m.m == nil {
		m.m = map[interface{}]interface{}{}
	}
	if _, ok := m.m[k]; !ok {
		m.keys = append(m.keys, k)
	}
	m.m[k] = v
}
func (m *Map) del(k interface{}) {
	if _, ok := m.m[k]; ok {
		delete(m.m, k)
		for i, x := range m.keys {
			if x == k {
				m.keys = append(m.keys[:i:i], m.keys[i+1:]...)
				break
			}
		}
	}
}
func (m *Map) Store(k, v interface{}) { m.op("Store", func() { m.store(k, v) }) }
func (m *Map) LoadOrStore(k, v interface{}) (actual interface{}, loaded bool) {
	m.op("LoadOrStore", func() {
		if a, ok := m.m[k]; ok {
			actual, loaded = a, true
			return
		}
		m.store(k, v)
		actual = v
	})
	return
}
func (m *Map) LoadAndDelete(k interface{}) (v interface{}, loaded bool) {
	m.op("LoadAndDelete", func() { v, loaded = m.m[k]; m.del(k) })
	return
}
func (m *Map) Delete(k interface{}) { m.op("Delete", func() { m.del(k) }) }
func (m *Map) Range(f func(k, v interface{}) bool) {
	var ks []interface{}
	m.op("Range", func() { ks = append(ks, m.keys...) })
	for _, k := range ks {
		v, ok := m.Load(k)
		if !ok {
			continue
		}
		if !f(k, v) {
			return
		}
	}
}

// Peek reads the map without a scheduling point (for harness oracles only).
func (m *Map) Peek(k interface{}) (interface{}, bool) { v, ok := m.m[k]; return v, ok }

// PeekKeys returns the keys in insertion order without a scheduling point.
func (m *Map) PeekKeys() []interface{} { return append([]interface{}{}, m.keys...) }
