//go:build verif
// +build verif

// Package wire holds the shared pieces of the C37 harnesses: an in-memory
// p2p.Stream that replays a fixed byte string, a p2p.Streamer handing out such
// streams (for client-side reads), generators of framing and wire-level
// faults, byte-field alphabets, and Guard, which turns a panic into a
// violation whose key names the panicking repository function.
package wire

import (
	"bytes"
	"context"
	"encoding/binary"
	"fmt"
	"io"
	"runtime/debug"
	"strings"
	"sync"

	"github.com/gauss-project/aurorafs/pkg/boson"
	"github.com/gauss-project/aurorafs/pkg/p2p"
	"github.com/gauss-project/aurorafs/pkg/zzverif/mc"
	"github.com/gogo/protobuf/proto"
)

// Stream replays `in` and then reports io.EOF; writes are collected.
type Stream struct {
	mu     sync.Mutex
	in     []byte
	pos    int
	Out    bytes.Buffer
	Closed bool
	H      p2p.Headers
}

func NewStream(in []byte) *Stream { return &Stream{in: in, H: p2p.Headers{}} }

func (s *Stream) Read(p []byte) (int, error) {
	s.mu.Lock()
	defer s.mu.Unlock()
	if s.pos >= len(s.in) {
		return 0, io.EOF
	}
	n := copy(p, s.in[s.pos:])
	s.pos += n
	return n, nil
}

func (s *Stream) Write(p []byte) (int, error) {
	s.mu.Lock()
	defer s.mu.Unlock()
	s.Out.Write(p)
	return len(p), nil
}

// Unread reports how many input bytes were not consumed.
func (s *Stream) Unread() int {
	s.mu.Lock()
	defer s.mu.Unlock()
	return len(s.in) - s.pos
}

func (s *Stream) Written() []byte {
	s.mu.Lock()
	defer s.mu.Unlock()
	return append([]byte{}, s.Out.Bytes()...)
}

func (s *Stream) Close() error                 { s.mu.Lock(); s.Closed = true; s.mu.Unlock(); return nil }
func (s *Stream) FullClose() error             { return s.Close() }
func (s *Stream) Reset() error                 { return s.Close() }
func (s *Stream) Headers() p2p.Headers         { return s.H }
func (s *Stream) ResponseHeaders() p2p.Headers { return s.H }

var _ p2p.Stream = (*Stream)(nil)

// Streamer hands out Streams whose input is chosen by Reply; it records them.
type Streamer struct {
	mu     sync.Mutex
	Reply  func(addr boson.Address, protocol, stream string, n int) []byte
	Opened []*Stream
	Err    error
}

func (s *Streamer) NewStream(_ context.Context, addr boson.Address, _ p2p.Headers, protocol, _ string, stream string) (p2p.Stream, error) {
	s.mu.Lock()
	defer s.mu.Unlock()
	if s.Err != nil {
		return nil, s.Err
	}
	var in []byte
	if s.Reply != nil {
		in = s.Reply(addr, protocol, stream, len(s.Opened))
	}
	st := NewStream(in)
	s.Opened = append(s.Opened, st)
	return st, nil
}

func (s *Streamer) NewRelayStream(ctx context.Context, addr boson.Address, h p2p.Headers, protocol, version, stream string, _ bool) (p2p.Stream, error) {
	return s.NewStream(ctx, addr, h, protocol, version, stream)
}

func (s *Streamer) NewConnChainRelayStream(ctx context.Context, addr boson.Address, h p2p.Headers, protocol, version, stream string) (p2p.Stream, error) {
	return s.NewStream(ctx, addr, h, protocol, version, stream)
}

func (s *Streamer) Count() int {
	s.mu.Lock()
	defer s.mu.Unlock()
	return len(s.Opened)
}

var _ p2p.Streamer = (*Streamer)(nil)

// Case is a named input.
type Case struct {
	Name string
	Data []byte
}

func uvarint(v uint64) []byte {
	b := make([]byte, binary.MaxVarintLen64)
	return b[:binary.PutUvarint(b, v)]
}

// FrameBytes prepends the varint length.
func FrameBytes(body []byte) []byte { return append(uvarint(uint64(len(body))), body...) }

// Frame is the length-delimited encoding the protocols use.
func Frame(m proto.Message) []byte {
	b, err := proto.Marshal(m)
	if err != nil {
		panic(fmt.Sprintf("wire.Frame: %v", err))
	}
	return FrameBytes(b)
}

// Body is the bare protobuf encoding.
func Body(m proto.Message) []byte {
	b, err := proto.Marshal(m)
	if err != nil {
		panic(fmt.Sprintf("wire.Body: %v", err))
	}
	return b
}

func positions(n, head, tail, stride int) []int {
	var r []int
	for i := 0; i < n; i++ {
		if i < head || i >= n-tail || (stride > 0 && i%stride == 0) {
			r = append(r, i)
		}
	}
	return r
}

// FramingFaults: every strict prefix of the valid frame (all of them up to 600
// bytes, else the first 96, the last 64 and every 61st), length prefixes that
// lie, oversized and overflowing length prefixes, empty frames, trailing
// garbage, repeated frames and plain garbage.
func FramingFaults(valid []byte) []Case {
	var cs []Case
	ks := positions(len(valid), 1<<30, 0, 0)
	if len(valid) > 600 {
		ks = positions(len(valid), 96, 64, 61)
	}
	for _, k := range ks {
		cs = append(cs, Case{fmt.Sprintf("prefix-%d-of-%d", k, len(valid)), append([]byte{}, valid[:k]...)})
	}
	n, w := binary.Uvarint(valid)
	body := valid[w:]
	cs = append(cs,
		Case{"length+1", append(uvarint(n+1), body...)},
		Case{"length-1", append(uvarint(n-1), body...)},
		Case{"length-1MiB-short-body", append(uvarint(1<<20), body...)},
		Case{"length-1MiB+1", append(uvarint(1<<20+1), body...)},
		Case{"length-2^31", append(uvarint(1<<31), body...)},
		Case{"length-2^32+len", append(uvarint(1<<32+n), body...)},
		Case{"length-2^63", append(uvarint(1<<63), body...)},
		Case{"length-2^64-1", append(uvarint(^uint64(0)), body...)},
		Case{"varint-overflow-ff", append(bytes.Repeat([]byte{0xff}, 10), 0x01)},
		Case{"varint-unterminated-80", bytes.Repeat([]byte{0x80}, 11)},
		Case{"empty-frame", []byte{0}},
		Case{"empty-frame-then-valid", append([]byte{0}, valid...)},
		Case{"valid-then-garbage", append(append([]byte{}, valid...), 0xff, 0xff, 0xff, 0x7f, 0x00)},
		Case{"valid-twice", append(append([]byte{}, valid...), valid...)},
		Case{"valid-then-prefix", append(append([]byte{}, valid...), valid[:len(valid)/2]...)},
		Case{"garbage-ff", []byte{0xff}},
		Case{"garbage-01-ff", []byte{0x01, 0xff}},
		Case{"garbage-64xff", bytes.Repeat([]byte{0xff}, 64)},
		Case{"garbage-64x00", make([]byte, 64)},
		Case{"garbage-ascii", []byte("GET / HTTP/1.1\r\n\r\n")},
	)
	return cs
}

// WireFaults mutates the bare encoding of a valid message: every single-bit
// flip (all bytes up to 96, else the first 64 and last 16 bytes), every
// (field 1..8, wire type 0..7) tag with a minimal payload prepended and
// appended, length-delimited fields with lying lengths, and numeric extremes.
// The results are framed.
func WireFaults(body []byte) []Case {
	var cs []Case
	ps := positions(len(body), 1<<30, 0, 0)
	if len(body) > 96 {
		ps = positions(len(body), 64, 16, 0)
	}
	for _, p := range ps {
		for bit := 0; bit < 8; bit++ {
			d := append([]byte{}, body...)
			d[p] ^= 1 << uint(bit)
			cs = append(cs, Case{fmt.Sprintf("bitflip@%d.%d", p, bit), FrameBytes(d)})
		}
	}
	payload := map[int][]byte{
		0: {0x01},
		1: {1, 2, 3, 4, 5, 6, 7, 8},
		2: {0x02, 0xaa, 0xbb},
		3: {},
		4: {},
		5: {1, 2, 3, 4},
		6: {0x01},
		7: {0x01},
	}
	for f := 1; f <= 8; f++ {
		for wt := 0; wt < 8; wt++ {
			tag := append(uvarint(uint64(f<<3|wt)), payload[wt]...)
			cs = append(cs,
				Case{fmt.Sprintf("field%d-wiretype%d-prepended", f, wt), FrameBytes(append(append([]byte{}, tag...), body...))},
				Case{fmt.Sprintf("field%d-wiretype%d-appended", f, wt), FrameBytes(append(append([]byte{}, body...), tag...))},
				Case{fmt.Sprintf("field%d-wiretype%d-alone", f, wt), FrameBytes(tag)},
			)
		}
		for _, l := range []uint64{1, 5, 1 << 20, 1 << 31, 1<<63 - 1, 1 << 63, ^uint64(0)} {
			d := append(uvarint(uint64(f<<3|2)), uvarint(l)...)
			cs = append(cs, Case{fmt.Sprintf("field%d-bytes-declared-%d-absent", f, l), FrameBytes(d)})
		}
		// 2^31-1 (the largest positive int32) is only enumerated with VERIF_C37_DEEP=1: a handler that
		// sizes an allocation with a remote int32 count dies with an unrecoverable "fatal error: out of
		// memory" on it, which would lose the shard's results instead of reporting the violation that
		// the negative values (2^31, 2^32-1 as int32) already demonstrate. 2^20 stands in for "large".
		vals := []uint64{0, 1, 1 << 20, 1 << 31, 1<<32 - 1, 1 << 32, 1<<63 - 1, 1 << 63, ^uint64(0)}
		if mc.EnvInt("VERIF_C37_DEEP", 0) != 0 {
			vals = append(vals, 1<<31-1)
		}
		for _, v := range vals {
			d := append(uvarint(uint64(f<<3|0)), uvarint(v)...)
			cs = append(cs, Case{fmt.Sprintf("field%d-varint-%d", f, v), FrameBytes(d)})
		}
		cs = append(cs, Case{fmt.Sprintf("field%d-varint-overlong", f), FrameBytes(append(uvarint(uint64(f<<3|0)), append(bytes.Repeat([]byte{0xff}, 10), 0x01)...))})
	}
	cs = append(cs,
		Case{"field0-tag", FrameBytes([]byte{0x02, 0x01, 0x00})},
		Case{"tag-overlong", FrameBytes(append(bytes.Repeat([]byte{0xff}, 10), 0x01))},
		Case{"field-2^29-1", FrameBytes(append(uvarint(uint64((1<<29-1)<<3|0)), 0x01))},
	)
	return cs
}

// Named byte-string value.
type BytesVal struct {
	Name string
	V    []byte
}

// BytesField: values for a bytes field whose correct length is n (n = 0: free
// length): the valid value first, then absent, empty, 1 byte, n-1, n+1, 2n and
// a large one.
func BytesField(valid []byte, large int) []BytesVal {
	n := len(valid)
	pat := func(k int) []byte {
		b := make([]byte, k)
		for i := range b {
			b[i] = byte(0xa0 + i%17)
		}
		return b
	}
	vs := []BytesVal{{"valid", valid}, {"absent", nil}, {"empty", []byte{}}, {"1-byte", []byte{0x7f}}}
	if n > 1 {
		vs = append(vs, BytesVal{fmt.Sprintf("len-%d", n-1), append([]byte{}, valid[:n-1]...)})
	}
	if n > 0 {
		vs = append(vs,
			BytesVal{fmt.Sprintf("len-%d", n+1), append(append([]byte{}, valid...), 0x01)},
			BytesVal{fmt.Sprintf("len-%d", 2*n), append(append([]byte{}, valid...), valid...)},
			BytesVal{fmt.Sprintf("other-%d", n), pat(n)},
		)
	}
	if large > 0 {
		vs = append(vs, BytesVal{fmt.Sprintf("large-%d", large), pat(large)})
	}
	return vs
}

const repoPrefix = "github.com/gauss-project/aurorafs/pkg/"

// the project's own manifest library (a pinned module dependency of the node)
const manifestPrefix = "github.com/gauss-project/manifest/"

// Site derives "<pkg>-<function>" of the innermost repository frame (outside
// the harness and engine) from a stack captured while panicking.
func Site(stack string) string {
	for _, l := range strings.Split(stack, "\n") {
		var rest string
		switch {
		case strings.HasPrefix(l, repoPrefix):
			rest = l[len(repoPrefix):]
		case strings.HasPrefix(l, manifestPrefix):
			rest = l[len(manifestPrefix):]
		default:
			continue
		}
		if strings.HasPrefix(rest, "zzverif/") {
			continue
		}
		if i := strings.LastIndex(rest, "("); i > 0 {
			rest = rest[:i] // drop the argument list
		}
		if i := strings.LastIndex(rest, "/"); i >= 0 {
			rest = rest[i+1:]
		}
		dot := strings.Index(rest, ".")
		if dot < 0 {
			continue
		}
		pkg, fn := rest[:dot], rest[dot+1:]
		if strings.Contains(fn, "c37") || strings.Contains(fn, "Verif") || strings.Contains(fn, "c06") {
			continue
		}
		fn = strings.NewReplacer("(*", "", "(", "", ")", "", "[...]", "").Replace(fn)
		return pkg + "-" + fn
	}
	return "unknown-site"
}

// Guard runs f; a panic becomes the violation "panic-<pkg>-<function>".
// `what` describes the call for the message.
func Guard(x *mc.X, what string, f func()) {
	var stack string
	p := mc.Try(func() {
		defer func() {
			if r := recover(); r != nil {
				stack = string(debug.Stack())
				panic(r)
			}
		}()
		f()
	})
	if p != nil {
		site := Site(stack)
		x.Fail("panic-"+site, "%s panicked in %s: %v", what, site, p)
	}
}

// GuardSite is Guard without failing: it returns the panic site ("" if none).
func GuardSite(f func()) (site string, val interface{}) {
	var stack string
	p := mc.Try(func() {
		defer func() {
			if r := recover(); r != nil {
				stack = string(debug.Stack())
				panic(r)
			}
		}()
		f()
	})
	if p != nil {
		return Site(stack), p
	}
	return "", nil
}

// Target is one entry point (a registered stream handler or a client-side
// read) together with its input alphabet.
type Target struct {
	Name  string
	Cases []Case
	// Run feeds the input to the real code (and runs the follow-up local
	// operations); it returns an outcome class. Panics are caught by Explore.
	Run func(x *mc.X, c Case) string
}

// Msg frames a message as a named case.
func Msg(name string, m proto.Message) Case { return Case{Name: name, Data: Frame(m)} }

// Standard is the framing + wire fault alphabet derived from one valid message.
func Standard(valid proto.Message) []Case {
	cs := []Case{{Name: "valid", Data: Frame(valid)}}
	cs = append(cs, FramingFaults(Frame(valid))...)
	cs = append(cs, WireFaults(Body(valid))...)
	return cs
}

// Explore enumerates every (target, case) pair, one execution each.
func Explore(t interface {
	Helper()
}, run func(cfg mc.Config, body func(*mc.X)), name string, params map[string]interface{}, targets []Target) {
	total := 0
	counts := map[string]int{}
	for _, tg := range targets {
		total += len(tg.Cases)
		counts[tg.Name] = len(tg.Cases)
	}
	if params == nil {
		params = map[string]interface{}{}
	}
	params["cases_per_target"] = counts
	run(mc.Config{ID: "C37", Name: name, MaxDev: -1, Params: params}, func(x *mc.X) {
		i := x.Choose(total)
		var tg *Target
		for k := range targets {
			if i < len(targets[k].Cases) {
				tg = &targets[k]
				break
			}
			i -= len(targets[k].Cases)
		}
		c := tg.Cases[i]
		x.Logf("%s <- %s (%d bytes: %s)", tg.Name, c.Name, len(c.Data), hexHead(c.Data))
		if c.Name != "valid" {
			x.Nontrivial()
		}
		out := ""
		Guard(x, tg.Name+" fed "+c.Name, func() { out = tg.Run(x, c) })
		x.Outcome(tg.Name + ": " + out)
	})
}

func hexHead(b []byte) string {
	if len(b) > 48 {
		return fmt.Sprintf("%x...", b[:48])
	}
	return fmt.Sprintf("%x", b)
}

// ErrClass maps an error to "ok"/"error".
func ErrClass(err error) string {
	if err == nil {
		return "ok"
	}
	return "error"
}
