//go:build verif
// +build verif

package kademlia

// C23: closest-peer selection is the XOR-closest eligible peer.
// A real Kad (constructed as the package's own tests do, manage loop not
// started) is populated through Connected/Reachable/UpdateReachability; every
// query is compared with an argmin over big.Int XOR distances.

import (
	"context"
	"errors"
	"fmt"
	"io"
	"math/big"
	"sort"
	"strings"
	"testing"
	"time"

	"github.com/gauss-project/aurorafs/pkg/addressbook"
	"github.com/gauss-project/aurorafs/pkg/aurora"
	"github.com/gauss-project/aurorafs/pkg/boson"
	discmock "github.com/gauss-project/aurorafs/pkg/discovery/mock"
	"github.com/gauss-project/aurorafs/pkg/logging"
	"github.com/gauss-project/aurorafs/pkg/p2p"
	p2pmock "github.com/gauss-project/aurorafs/pkg/p2p/mock"
	pingpongmock "github.com/gauss-project/aurorafs/pkg/pingpong/mock"
	"github.com/gauss-project/aurorafs/pkg/shed"
	shedldb "github.com/gauss-project/aurorafs/pkg/shed/leveldb"
	mockstate "github.com/gauss-project/aurorafs/pkg/statestore/mock"
	"github.com/gauss-project/aurorafs/pkg/subscribe"
	"github.com/gauss-project/aurorafs/pkg/topology"
	"github.com/gauss-project/aurorafs/pkg/zzverif/mc"
)

var c23Base = func() []byte {
	b := make([]byte, 32)
	for i := range b {
		b[i] = byte(0x3c ^ i*11)
	}
	return b
}()

type c23Mask struct {
	pos int
	val byte
}

func c23Addr(ms ...c23Mask) boson.Address {
	b := append([]byte{}, c23Base...)
	for _, m := range ms {
		b[m.pos] ^= m.val
	}
	return boson.NewAddress(b)
}

type c23Named struct {
	name string
	addr boson.Address
}

// peer alphabet: XOR offsets from base in byte 0, byte 1 and the last byte.
var c23Peers = []c23Named{
	{"p0(b0^80)", c23Addr(c23Mask{0, 0x80})},                           // bin 0
	{"p1(b0^c0)", c23Addr(c23Mask{0, 0xc0})},                           // bin 0
	{"p2(b0^40)", c23Addr(c23Mask{0, 0x40})},                           // bin 1
	{"p3(b0^01)", c23Addr(c23Mask{0, 0x01})},                           // bin 7
	{"p4(b1^80)", c23Addr(c23Mask{1, 0x80})},                           // bin 8
	{"p5(b31^01)", c23Addr(c23Mask{31, 0x01})},                         // bin 31 (MaxPO), differs from self in the last bit
	{"p6(b31^02)", c23Addr(c23Mask{31, 0x02})},                         // bin 31
	{"p7(b0^80,b31^01)", c23Addr(c23Mask{0, 0x80}, c23Mask{31, 0x01})}, // bin 0, differs from p0 only in the last byte
	// only used by the large configurations (9..12 connected peers)
	{"p8(b0^30)", c23Addr(c23Mask{0, 0x30})},    // bin 2
	{"p9(b0^10)", c23Addr(c23Mask{0, 0x10})},    // bin 3
	{"p10(b1^40)", c23Addr(c23Mask{1, 0x40})},   // bin 9
	{"p11(b31^04)", c23Addr(c23Mask{31, 0x04})}, // bin 31
}

// the exhaustive subset enumeration runs over the first c23Small peers
const c23Small = 8

// large configurations: more connected peers than any subset, so that skip lists and ClosestPeers limits of
// every length 0..n (n = 9, 10, 12) occur
var c23Large = [][]int{
	{0, 1, 2, 3, 4, 5, 6, 7, 8, 9, 10, 11},
	{1, 2, 3, 4, 6, 7, 8, 9, 10, 11},
	{0, 1, 2, 3, 4, 5, 8, 9, 10},
}

// reachability patterns of the large configurations (per position in the set): 1 public, 0 never reported, 2 private
var c23LargeReachNames = []string{"all public", "none public (alternating never reported / private)", "alternating public / not public", "nearest-bin half not public"}

func c23LargeReach(pattern, pos, n int) int {
	np := []int{0, 2}[pos%2]
	switch pattern {
	case 0:
		return 1
	case 1:
		return np
	case 2:
		if pos%2 == 0 {
			return 1
		}
		return []int{0, 2}[(pos/2)%2]
	default:
		if pos < n/2 {
			return 1
		}
		return np
	}
}

// extra targets that are nobody's address
var c23ExtraTargets = []c23Named{
	{"self", boson.NewAddress(append([]byte{}, c23Base...))},
	{"t(b0^20)", c23Addr(c23Mask{0, 0x20})},                           // bin 2: no peer of the alphabet lives there
	{"t(b0^a0)", c23Addr(c23Mask{0, 0xa0})},                           // bin 0, between p0 and p1
	{"t(b31^03)", c23Addr(c23Mask{31, 0x03})},                         // nearer to p6 than to p5, both nearer than self? no: self at 3, p5 at 2, p6 at 1
	{"t(b0^80,b31^03)", c23Addr(c23Mask{0, 0x80}, c23Mask{31, 0x03})}, // p7 at 2, p0 at 3 — decided by the last byte
}

func c23Name(a boson.Address) string {
	for _, p := range c23Peers {
		if p.addr.Equal(a) {
			return p.name
		}
	}
	for _, p := range c23ExtraTargets {
		if p.addr.Equal(a) {
			return p.name
		}
	}
	if a.IsZero() {
		return "<zero>"
	}
	return "?" + a.String()
}

var c23DistCache = map[string]*big.Int{}

// XOR distance as a big integer (memoised: pure function of the two addresses)
func c23Dist(a, b boson.Address) *big.Int {
	key := a.ByteString() + b.ByteString()
	if d, ok := c23DistCache[key]; ok {
		return d
	}
	d := c23DistSlow(a, b)
	c23DistCache[key] = d
	return d
}

func c23DistSlow(a, b boson.Address) *big.Int {
	x := make([]byte, len(a.Bytes()))
	for i := range x {
		x[i] = a.Bytes()[i] ^ b.Bytes()[i]
	}
	return new(big.Int).SetBytes(x)
}

// shed registers "leveldb" only under the `leveldb` build tag: register the same
// real driver under a private name (path "" = goleveldb MemStorage). The option
// string shrinks the 32 MiB default write buffer that is zeroed on every open;
// buffer sizes do not influence key/value semantics.
const c23Driver = "verifc23leveldb"
const c23DriverCfg = `:{"WriteBuffer":16384,"BlockCacheCapacity":16384}`

func init() { shed.Register(c23Driver, shedldb.Driver{}) }

var c23SubPub = subscribe.NewSubPub() // stateless without subscribers; shared because every instance owns an immortal goroutine

// a real Kad as in kademlia_test.go:newTestKademliaWithAddrDiscovery; manage loop not started.
func c23NewKad(x *mc.X) (*Kad, func()) {
	db, err := shed.NewDB("", &shed.Options{Driver: c23Driver + c23DriverCfg})
	x.NoErr(err, "shed.NewDB")
	ab := addressbook.New(mockstate.NewStateStore())
	p2ps := p2pmock.New(p2pmock.WithDisconnectFunc(func(boson.Address, string) error { return nil }))
	disc := discmock.NewDiscovery()
	disc.SetHive2(true) // Announce (gossip goroutines, random subset) is outside this property
	ppm := pingpongmock.New(func(context.Context, boson.Address, ...string) (time.Duration, error) { return 0, nil })
	k, err := New(boson.NewAddress(append([]byte{}, c23Base...)), ab, disc, p2ps, ppm, nil, nil, db,
		logging.New(io.Discard, 0), c23SubPub, Options{NodeMode: aurora.NewModel().SetMode(aurora.FullNode)})
	x.NoErr(err, "kademlia.New")
	return k, func() {
		k.bgBroadcastCancel()
		_ = k.blocker.Close()
		_ = db.Close()
	}
}

// all subsets of 0..n-1 with at most maxSize members, by increasing size
func c23Subsets(n, maxSize int) [][]int {
	var out [][]int
	for size := 0; size <= maxSize; size++ {
		for m := 0; m < 1<<uint(n); m++ {
			var s []int
			for i := 0; i < n; i++ {
				if m&(1<<uint(i)) != 0 {
					s = append(s, i)
				}
			}
			if len(s) == size {
				out = append(out, s)
			}
		}
	}
	return out
}

var c23ReachNames = []string{"unknown", "public", "private"}
var c23ReachVals = []p2p.ReachabilityStatus{p2p.ReachabilityStatusUnknown, p2p.ReachabilityStatusPublic, p2p.ReachabilityStatusPrivate}

func TestVerifC23(t *testing.T) {
	maxSize := mc.Pick(4, 6)
	// thorough: every peer independently unknown / public / private; quick: public or
	// not public, where "not public" is unknown for even alphabet positions and private for odd ones
	reachArity := mc.Pick(2, 3)
	subsets := c23Subsets(c23Small, maxSize)
	// largest arity first (sharding)
	sort.SliceStable(subsets, func(i, j int) bool { return len(subsets[i]) > len(subsets[j]) })
	nSmall := len(subsets)
	subsets = append(append([][]int{}, c23Large...), subsets...)
	self := c23ExtraTargets[0].addr

	var targets []c23Named
	targets = append(targets, c23Peers[:c23Small]...)
	targets = append(targets, c23ExtraTargets...)
	// targets of the large configurations
	largeTargets := []c23Named{c23Peers[0], c23Peers[3], c23Peers[5], c23Peers[10], c23ExtraTargets[0], c23ExtraTargets[2], c23ExtraTargets[3], c23ExtraTargets[4]}

	var pn, tn []string
	for _, p := range c23Peers {
		pn = append(pn, p.name)
	}
	for _, p := range targets {
		tn = append(tn, p.name)
	}

	mc.Run(t, mc.Config{ID: "C23", Name: "C23-closest", MaxDev: -1, Params: map[string]interface{}{
		"peer_alphabet":  pn,
		"connected_sets": fmt.Sprintf("all %d subsets of the first %d peers with <= %d members", nSmall, c23Small, maxSize),
		"large_configurations": map[string]interface{}{
			"connected_sets": c23Large, "peer_reachability": c23LargeReachNames,
			"skip_lists":    "for every target: the k nearest connected peers for k = 0..n, the k farthest for k = 1..n, all but one for every peer, one unconnected address",
			"closest_peers": "limits 0..n+1 with skip lists none / 3 nearest / 3 farthest / all",
			"targets":       "p0, p3, p5, p10, self, t(b0^a0), t(b31^03), t(b0^80,b31^03)"},
		"connect_order":       []string{"ascending", "descending"},
		"peer_reachability":   map[int]string{2: "every assignment of {not public, public} to the connected peers (not public = never reported for p0,p2,p4,p6, reported private for p1,p3,p5,p7)", 3: "every assignment of {unknown (never reported), public, private} to the connected peers"}[reachArity],
		"self_reachability":   c23ReachNames,
		"targets":             tn,
		"skip_lists":          "none, each single connected peer, all connected peers, one unconnected address, all but the last connected peer",
		"filter_reachable":    []bool{false, true},
		"include_self":        []bool{false, true},
		"closest_peers_limit": "0,1,2,n+1 (skip lists: none, the first connected peer, all connected)",
	}}, func(x *mc.X) {
		set := subsets[x.Choose(len(subsets))]
		n := len(set)
		large := n > maxSize
		nm := 1
		for i := 0; i < n; i++ {
			nm *= reachArity
		}
		if large {
			nm = len(c23LargeReachNames)
		}
		desc := x.Choose(2) == 1 // before the mask: shards split on the first two choices
		mask := x.Choose(nm)

		k, cleanup := c23NewKad(x)
		defer cleanup()

		order := append([]int{}, set...)
		if desc {
			for i, j := 0, len(order)-1; i < j; i, j = i+1, j-1 {
				order[i], order[j] = order[j], order[i]
			}
		}
		reach := map[int]int{}
		m := mask
		var desc2 []string
		for pos, pi := range set {
			if large {
				reach[pi] = c23LargeReach(mask, pos, n)
				continue
			}
			reach[pi] = m % reachArity
			m /= reachArity
			if reachArity == 2 && reach[pi] == 0 && pi%2 == 1 {
				reach[pi] = 2
			}
		}
		if large {
			x.Tag("large-configuration")
		}
		for _, pi := range order {
			p := c23Peers[pi]
			err := k.Connected(context.Background(), p2p.Peer{Address: p.addr, Mode: aurora.NewModel().SetMode(aurora.FullNode)}, false)
			x.NoErr(err, "Connected "+p.name)
			if reach[pi] != 0 {
				k.Reachable(p.addr, c23ReachVals[reach[pi]])
			}
			desc2 = append(desc2, p.name+"="+c23ReachNames[reach[pi]])
		}
		x.Logf("connected (in this order): %s", strings.Join(desc2, " "))

		var connected []boson.Address
		for _, pi := range set {
			connected = append(connected, c23Peers[pi].addr)
		}
		isPublic := func(a boson.Address) bool {
			for _, pi := range set {
				if c23Peers[pi].addr.Equal(a) {
					return reach[pi] == 1
				}
			}
			return false
		}

		// skip lists
		type skipList struct {
			name  string
			addrs []boson.Address
			multi bool // also used for ClosestPeers
		}
		skips := []skipList{{"none", nil, true}}
		for _, pi := range set {
			skips = append(skips, skipList{"only " + c23Peers[pi].name, []boson.Address{c23Peers[pi].addr}, pi == set[0]})
		}
		if n > 0 {
			skips = append(skips, skipList{"all connected", append([]boson.Address{}, connected...), true})
		}
		if n > 1 {
			skips = append(skips, skipList{"all but last", append([]boson.Address{}, connected[:n-1]...), false})
		}
		skips = append(skips, skipList{"unconnected t(b0^20)", []boson.Address{c23ExtraTargets[1].addr}, false})
		// large configurations: skip lists of every length, relative to the target
		skipsFor := func(target boson.Address) []skipList {
			if !large {
				return skips
			}
			byDist := append([]boson.Address{}, connected...)
			sort.SliceStable(byDist, func(i, j int) bool { return c23Dist(byDist[i], target).Cmp(c23Dist(byDist[j], target)) < 0 })
			out := []skipList{{"none", nil, true}}
			for kk := 1; kk <= n; kk++ {
				out = append(out, skipList{fmt.Sprintf("the %d nearest", kk), append([]boson.Address{}, byDist[:kk]...), kk == 3 || kk == n})
			}
			for kk := 1; kk <= n; kk++ {
				out = append(out, skipList{fmt.Sprintf("the %d farthest", kk), append([]boson.Address{}, byDist[n-kk:]...), kk == 3})
			}
			for i := range byDist {
				var l []boson.Address
				l = append(l, byDist[:i]...)
				l = append(l, byDist[i+1:]...)
				out = append(out, skipList{"all but " + c23Name(byDist[i]), l, false})
			}
			out = append(out, skipList{"unconnected t(b0^20)", []boson.Address{c23ExtraTargets[1].addr}, false})
			return out
		}
		limits := []int{0, 1, 2, n + 1}
		qTargets := targets
		if large {
			limits = nil
			for l := 0; l <= n+1; l++ {
				limits = append(limits, l)
			}
			qTargets = largeTargets
		}

		eligible := func(filter bool, skip []boson.Address) []boson.Address {
			var e []boson.Address
			for _, a := range connected {
				if a.MemberOf(skip) {
					continue
				}
				if filter && !isPublic(a) {
					continue
				}
				e = append(e, a)
			}
			return e
		}
		sortByDist := func(e []boson.Address, target boson.Address) {
			sort.SliceStable(e, func(i, j int) bool { return c23Dist(e[i], target).Cmp(c23Dist(e[j], target)) < 0 })
		}

		nontrivial := false
		// small configurations ask both kinds of query in one pass; the large ones in two passes whose
		// order is a choice, so that a defect in one kind cannot hide a defect in the other
		passes := []string{"both"}
		if large {
			passes = []string{"single", "several"}
			if x.Choose(2) == 1 {
				passes = []string{"several", "single"}
			}
		}
		for _, pass := range passes {
			for si, selfReach := range c23ReachVals {
				if pass == "several" {
					if si > 0 {
						break // ClosestPeers never considers self: asked once
					}
				} else {
					if si > 0 {
						k.UpdateReachability(selfReach)
					}
					x.Check(k.reachability == selfReach, "self-reachability-not-recorded", "UpdateReachability(%s) left %s", c23ReachNames[si], k.reachability)
				}
				for _, tg := range qTargets {
					tgSkips := skipsFor(tg.addr)
					for _, filter := range []bool{false, true} {
						for _, sk := range tgSkips {
							if len(sk.addrs) > 8 {
								x.Tag("skip-list-longer-than-8")
							}
							el := eligible(filter, sk.addrs)
							sortByDist(el, tg.addr)
							for _, includeSelf := range []bool{false, true} {
								if pass == "several" {
									break
								}
								if !includeSelf && si > 0 {
									continue // without includeSelf the node's own reachability is not an input (asked once)
								}
								tg, includeSelf, filter, sk, si := tg, includeSelf, filter, sk, si
								what := func() string {
									return fmt.Sprintf("ClosestPeer(target=%s, includeSelf=%v, reachable-filter=%v, skip=%s) self-reachability=%s", tg.name, includeSelf, filter, sk.name, c23ReachNames[si])
								}
								skipArg := append([]boson.Address{}, sk.addrs...)
								got, err := k.ClosestPeer(tg.addr, includeSelf, topology.Filter{Reachable: filter}, skipArg...)
								// self eligibility: certain when asked for and publicly reachable; when asked for
								// but not publicly reachable the statement leaves it open -> both readings accepted
								selfSure := includeSelf && selfReach == p2p.ReachabilityStatusPublic
								selfMaybe := includeSelf && !selfSure
								var res string
								switch {
								case err == nil:
									res = "peer"
								case errors.Is(err, topology.ErrWantSelf):
									res = "want-self"
								case errors.Is(err, topology.ErrNotFound):
									res = "not-found"
								default:
									x.Fail("closest-peer-unexpected-error", "%s: %v", what(), err)
								}
								if err != nil && !got.IsZero() && len(got.Bytes()) > 0 {
									x.Fail("closest-peer-address-with-error", "%s: returned %s together with %v", what(), c23Name(got), err)
								}
								selfNearer := len(el) == 0 || c23Dist(self, tg.addr).Cmp(c23Dist(el[0], tg.addr)) < 0
								var allowed []string
								switch {
								case n == 0:
									// nothing connected: 'not found'; 'want self' also accepted (statement ambiguous)
									allowed = []string{"not-found"}
									if selfSure || selfMaybe {
										allowed = append(allowed, "want-self")
									}
								case len(el) == 0:
									allowed = []string{"not-found"}
									if selfSure {
										// "not found exactly when no peer is eligible" vs "want self when self is eligible
										// and nearer than every eligible peer": both clauses apply, both accepted
										allowed = []string{"not-found", "want-self"}
									} else if selfMaybe {
										allowed = append(allowed, "want-self")
									}
								case selfSure && selfNearer:
									allowed = []string{"want-self"}
								case selfMaybe && selfNearer:
									allowed = []string{"want-self", "peer"}
								default:
									allowed = []string{"peer"}
								}
								ok := false
								for _, a := range allowed {
									if a == res {
										ok = true
									}
								}
								if !ok {
									key := "closest-peer-" + res + "-instead-of-" + strings.Join(allowed, "-or-")
									var en []string
									for _, a := range el {
										en = append(en, c23Name(a))
									}
									x.Fail(key, "%s: got %s (%s, err %v); eligible by distance %v; self nearer than all eligible: %v", what(), res, c23Name(got), err, en, selfNearer)
								}
								if res == "peer" {
									if !got.Equal(el[0]) {
										var en []string
										for _, a := range el {
											en = append(en, c23Name(a))
										}
										key := "closest-peer-not-nearest"
										if !got.MemberOf(el) {
											key = "closest-peer-not-eligible"
											if got.MemberOf(sk.addrs) {
												key = "closest-peer-skipped-peer-returned"
											} else if got.MemberOf(connected) {
												key = "closest-peer-unreachable-peer-returned"
											}
										}
										x.Fail(key, "%s: got %s, want %s; eligible by distance %v", what(), c23Name(got), c23Name(el[0]), en)
									}
									if len(el) > 1 {
										nontrivial = true
									}
								}
								x.Outcome(res)
								if res == "want-self" && len(el) > 0 {
									x.Tag("want-self-with-eligible-peers")
								}
								if res == "peer" && includeSelf && selfSure {
									x.Tag("peer-beats-eligible-self")
								}
								if res == "not-found" && n > 0 {
									x.Tag("not-found-with-connected-peers")
								}
							}
							// several closest peers (self is never a candidate: asked once per Kad)
							if si > 0 || !sk.multi || pass == "single" {
								continue
							}
							for _, limit := range limits {
								tg, limit, filter, sk := tg, limit, filter, sk
								what := func() string {
									return fmt.Sprintf("ClosestPeers(target=%s, limit=%d, reachable-filter=%v, skip=%s)", tg.name, limit, filter, sk.name)
								}
								skipArg := append([]boson.Address{}, sk.addrs...)
								got, err := k.ClosestPeers(tg.addr, limit, topology.Filter{Reachable: filter}, skipArg...)
								if err != nil {
									x.Fail("closest-peers-error", "%s: %v", what(), err)
								}
								var gn []string
								for _, a := range got {
									gn = append(gn, c23Name(a))
								}
								for i, a := range got {
									for j := 0; j < i; j++ {
										if got[j].Equal(a) {
											x.Fail("closest-peers-duplicate", "%s: %s returned twice: %v", what(), c23Name(a), gn)
										}
									}
									if !a.MemberOf(el) {
										x.Fail("closest-peers-not-eligible", "%s: %s is not eligible: %v", what(), c23Name(a), gn)
									}
									if i > 0 && c23Dist(got[i-1], tg.addr).Cmp(c23Dist(a, tg.addr)) > 0 {
										x.Fail("closest-peers-order", "%s: distance decreases at position %d: %v", what(), i, gn)
									}
								}
								want := limit
								if want > len(el) {
									want = len(el)
								}
								if len(got) != want {
									x.Fail("closest-peers-count", "%s: %d peers, want min(limit, eligible)=%d: %v", what(), len(got), want, gn)
								}
								for i := range got {
									if !got[i].Equal(el[i]) {
										x.Fail("closest-peers-not-the-nearest", "%s: position %d is %s, want %s: %v", what(), i, c23Name(got[i]), c23Name(el[i]), gn)
									}
								}
								if len(got) >= 2 {
									x.Tag("several-closest-peers")
								}
								if len(got) >= 10 {
									x.Tag("ten-or-more-closest-peers")
								}
							}
						}
					}
				}
			}
		}
		if nontrivial {
			x.Nontrivial()
		}
	})
}
