//go:build verif
// +build verif

package leveldb

import (
	"errors"
	"sync"

	"github.com/gauss-project/aurorafs/pkg/shed/driver"
	"github.com/syndtr/goleveldb/leveldb"
	"github.com/syndtr/goleveldb/leveldb/opt"
	"github.com/syndtr/goleveldb/leveldb/storage"
)

// VerifDriver is the package's LevelDB driver opened over in-memory storages
// that are kept by name, so that a store can be closed and re-opened
// ("restart") inside one execution. Everything except Open is the real driver
// code (type LevelDB). Buffers are small because a fresh store is opened for
// every execution.
type VerifDriver struct {
	mu     sync.Mutex
	stores map[string]storage.Storage

	armed, crashed bool
	armedPath      string
	left, units    int
}

func NewVerifDriver() *VerifDriver { return &VerifDriver{stores: map[string]storage.Storage{}} }

func (d *VerifDriver) Open(path, _ string) (driver.DB, error) {
	d.mu.Lock()
	st := d.stores[path]
	if st == nil {
		st = storage.NewMemStorage()
		d.stores[path] = st
	}
	d.mu.Unlock()
	opts := opt.Options{
		BlockSize:              defaultBlockSize,
		OpenFilesCacheCapacity: 16,
		BlockCacheCapacity:     32 * 1024,
		WriteBuffer:            64 * 1024,
		CompactionTableSize:    defaultCompactionTableSize,
		CompactionTotalSize:    defaultCompactionTotalSize,
	}
	db, err := leveldb.Open(st, &opts)
	if err != nil {
		return nil, err
	}
	return &verifGated{LevelDB: &LevelDB{m: new(sync.RWMutex), db: db, opts: &opts, path: path}, d: d}, nil
}

// ---- crash gate (prefix-of-write-log model, per store)
//
// A store opened through VerifDriver counts its durability units (single Put,
// single Delete, whole batch Commit). ArmCrash(path, k) lets the next k units
// of the store named path through; the unit after that and every later write
// of ANY store opened through the driver fails with ErrVerifCrashed: the
// process is considered dead, nothing reaches the storages any more. Disarm
// ends the episode (the harness then restarts the node on the surviving
// images). Schema writes done inside Open are not units.

var ErrVerifCrashed = errors.New("verif: process crashed (write after the crash point)")

type verifGated struct {
	*LevelDB
	d *VerifDriver
}

func (d *VerifDriver) ArmCrash(path string, k int) {
	d.mu.Lock()
	d.armedPath, d.left, d.armed, d.crashed, d.units = path, k, true, false, 0
	d.mu.Unlock()
}

// Disarm returns whether the crash point was reached and how many units of the
// armed store were seen (applied or refused) since ArmCrash.
func (d *VerifDriver) Disarm() (crashed bool, units int) {
	d.mu.Lock()
	defer d.mu.Unlock()
	crashed, units = d.crashed, d.units
	d.armed, d.crashed = false, false
	return
}

func (d *VerifDriver) gate(path string) error {
	d.mu.Lock()
	defer d.mu.Unlock()
	if !d.armed {
		return nil
	}
	if d.crashed {
		return ErrVerifCrashed
	}
	if path != d.armedPath {
		return nil
	}
	d.units++
	if d.left == 0 {
		d.crashed = true
		return ErrVerifCrashed
	}
	d.left--
	return nil
}

func (g *verifGated) Put(key driver.Key, value driver.Value) error {
	if err := g.d.gate(g.path); err != nil {
		return err
	}
	return g.LevelDB.Put(key, value)
}

func (g *verifGated) Delete(key driver.Key) error {
	if err := g.d.gate(g.path); err != nil {
		return err
	}
	return g.LevelDB.Delete(key)
}

func (g *verifGated) NewBatch() driver.Batching {
	return &verifGatedBatch{Batching: g.LevelDB.NewBatch(), g: g}
}

type verifGatedBatch struct {
	driver.Batching
	g *verifGated
}

func (b *verifGatedBatch) Commit() error {
	if err := b.g.d.gate(b.g.path); err != nil {
		return err
	}
	return b.Batching.Commit()
}

// Reset forgets all storages (start of a new execution).
func (d *VerifDriver) Reset() {
	d.mu.Lock()
	d.stores = map[string]storage.Storage{}
	d.armed, d.crashed = false, false
	d.mu.Unlock()
}
