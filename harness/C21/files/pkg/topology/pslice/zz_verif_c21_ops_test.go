//go:build verif
// +build verif

package pslice

// C21 part (a): a proximity-indexed peer set behaves as a set under every
// sequence of single / batched additions and removals (bounded depth).
// Reference model: a plain set of addresses + the bin function
// min(leading-zero-bits(base XOR addr), maxBins-1).

import (
	"errors"
	"fmt"
	"sort"
	"strings"
	"testing"

	"github.com/gauss-project/aurorafs/pkg/boson"
	"github.com/gauss-project/aurorafs/pkg/zzverif/mc"
)

var c21Base = func() []byte {
	b := make([]byte, 32)
	for i := range b {
		b[i] = byte(0xa5 ^ i*7)
	}
	return b
}()

// c21Addr returns base with bit `bit` flipped (bit 0 = MSB of byte 0) and, to
// make the tail differ from base as well, the last byte XOR tail.
func c21Addr(bit int, tail byte) boson.Address {
	b := append([]byte{}, c21Base...)
	b[bit/8] ^= 0x80 >> uint(bit%8)
	b[31] ^= tail
	return boson.NewAddress(b)
}

type c21Peer struct {
	name string
	addr boson.Address
}

// proximities to base: a,b = 0; c = 1; d = 3; e = 4; f = 44 (boson.Proximity
// itself caps at MaxPO = 31).
var c21Peers = []c21Peer{
	{"a", c21Addr(0, 0x00)},
	{"b", c21Addr(0, 0x01)},
	{"c", c21Addr(1, 0x02)},
	{"d", c21Addr(3, 0x03)},
	{"e", c21Addr(4, 0x04)},
	{"f", c21Addr(44, 0x05)},
	// g = f with bit 31 flipped as well: proximity 31. With 32 bins f and g share the
	// capped last bin and differ in a single bit of its "common" prefix bytes only
	// (byte 3), nowhere else.
	{"g", boson.NewAddress(func() []byte {
		b := append([]byte{}, c21Addr(44, 0x05).Bytes()...)
		b[3] ^= 0x01
		return b
	}())},
	// h, i: the same pair one byte earlier (proximities 12 and 7; one capped bin with 8 bins)
	{"h", c21Addr(12, 0x06)},
	{"i", boson.NewAddress(func() []byte {
		b := append([]byte{}, c21Addr(12, 0x06).Bytes()...)
		b[0] ^= 0x01
		return b
	}())},
}

// never added: used for negative Exists / Remove-of-absent probes (proximity 3).
var c21Ghost = c21Peer{"ghost", c21Addr(3, 0x77)}

// Batched Add shapes. Besides the plain ones, in-batch repeats are generated systematically for a
// repeated address X in an uncapped bin (a: bin 0) and in a capped bin (e: proximity 4 >= maxBins for
// maxBins 2 and 4), with S = another address of X's bin (b for a; d for e when capped) and D, D2 =
// addresses of other bins: adjacent, separated by a same-bin address, by a different-bin address, by two
// addresses (both orders, two foreign bins), triple repeats, a repeat that does not start the batch,
// trailing addresses after the repeat, and two interleaved repeated addresses. Whether X is already a
// member when the batch arrives is decided by the preceding operations.
var c21Batches = func() [][]int {
	out := [][]int{
		{},           // empty batch
		{0, 1},       // two addresses of one bin
		{0, 2},       // two bins
		{3, 4, 5},    // one bin when capped (maxBins 2,4), three bins otherwise
		{1, 2, 3, 4}, // wide batch
	}
	type roles struct{ x, s, d, d2 int }
	for _, r := range []roles{{0, 1, 2, 3}, {4, 3, 0, 2}} {
		x, s, d, d2 := r.x, r.s, r.d, r.d2
		out = append(out,
			[]int{x, x},           // adjacent
			[]int{x, s, x},        // same-bin separator
			[]int{x, d, x},        // different-bin separator
			[]int{x, s, d, x},     // two separators
			[]int{x, d, s, x},     //   ... other order
			[]int{x, d, d2, x},    // two foreign bins in between
			[]int{x, x, x},        // triple, adjacent
			[]int{x, d, x, d, x},  // triple, separated, separator repeated too
			[]int{d, x, x},        // repeat not at the start
			[]int{d, x, s, x, d2}, // repeat in the middle, trailing address
			[]int{x, d, x, s},     // trailing same-bin address after the repeat
		)
	}
	// last-bin neighbour pairs (f,g) and (h,i)
	out = append(out, []int{5, 6}, []int{6, 5, 6}, []int{0, 6, 5}, []int{7, 8}, []int{8, 7, 8}, []int{0, 8, 7})
	return out
}()

// reference bin: leading zero bits of base XOR addr over the whole address,
// capped at the last bin.
func c21RefBin(a boson.Address, maxBins int) int {
	ab := a.Bytes()
	po := len(ab) * 8
	for i := range ab {
		x := ab[i] ^ c21Base[i]
		if x != 0 {
			j := 0
			for x&0x80 == 0 {
				x <<= 1
				j++
			}
			po = i*8 + j
			break
		}
	}
	if po > maxBins-1 {
		po = maxBins - 1
	}
	return po
}

func c21Name(a boson.Address) string {
	for _, p := range c21Peers {
		if p.addr.Equal(a) {
			return p.name
		}
	}
	if c21Ghost.addr.Equal(a) {
		return c21Ghost.name
	}
	return "?" + a.String()
}

type c21Visit struct {
	name string
	bin  int
}

var errC21Callback = errors.New("c21 callback error")

func TestVerifC21Ops(t *testing.T) {
	depth := mc.Pick(5, 8)
	maxBinsChoices := []int{4, 2, 32, 32, 8}
	// peers offered per choice: the classic alphabet a..f, then the last-bin neighbour pairs with
	// one shallow peer (the full product with a..f does not fit the quick tier)
	activeChoices := [][]int{{0, 1, 2, 3, 4, 5}, {0, 1, 2, 3, 4, 5}, {0, 1, 2, 3, 4, 5}, {0, 5, 6}, {0, 7, 8}}
	np := len(c21Peers)
	nops := 2*np + len(c21Batches)

	batchNames := make([]string, len(c21Batches))
	for i, b := range c21Batches {
		var s []string
		for _, j := range b {
			s = append(s, c21Peers[j].name)
		}
		batchNames[i] = "Add(" + strings.Join(s, ",") + ")"
	}

	mc.Run(t, mc.Config{ID: "C21", Name: "C21-opseq", MaxDev: -1, Params: map[string]interface{}{
		"depth":                     depth,
		"maxBins":                   maxBinsChoices,
		"addresses":                 "a,b: proximity 0; c: 1; d: 3; e: 4; f: 44; g: 31, equal to f except for bit 31; h: 12; i: 7, equal to h except for bit 7 (32-byte addresses, non-zero base); choices 1-3 offer a..f, choice 4 (32 bins) a,f,g, choice 5 (8 bins) a,h,i",
		"operations":                append([]string{"Add(x) x in a..g", "Remove(x) x in a..g"}, batchNames...),
		"observed_after_every_step": "Exists(a..g,ghost), Length, BinSize/BinPeers(0..maxBins+1, 255), ShallowestEmpty, EachBin and EachBinRev with callbacks {collect, stop at k, next-bin at k, next-bin always, error at k} for every k",
		"pruning":                   "canonical state = maxBins + ordered bin contents + bin capacities",
	}}, func(x *mc.X) {
		mbi := x.Choose(len(maxBinsChoices))
		maxBins := maxBinsChoices[mbi]
		isActive := map[int]bool{}
		for _, i := range activeChoices[mbi] {
			isActive[i] = true
		}
		var menu []int
		for op := 0; op < nops; op++ {
			ok := true
			switch {
			case op < np:
				ok = isActive[op]
			case op < 2*np:
				ok = isActive[op-np]
			default:
				for _, j := range c21Batches[op-2*np] {
					ok = ok && isActive[j]
				}
			}
			if ok {
				menu = append(menu, op)
			}
		}
		s := New(maxBins, boson.NewAddress(append([]byte{}, c21Base...)))
		ref := map[int]bool{} // index into c21Peers -> member
		x.Logf("New(maxBins=%d)", maxBins)

		// guarded call: a panic inside the structure is a violation of "behaves as a set"
		call := func(site string, f func()) {
			if p := mc.Try(f); p != nil {
				x.Fail("panic-"+site, "%s panicked: %v", site, p)
			}
		}

		refBins := func() [][]string {
			bins := make([][]string, maxBins)
			for i, p := range c21Peers {
				if ref[i] {
					b := c21RefBin(p.addr, maxBins)
					bins[b] = append(bins[b], p.name)
				}
			}
			for _, b := range bins {
				sort.Strings(b)
			}
			return bins
		}

		// iterate with a callback; returns the visits and the error
		iterate := func(rev bool, cb func(n int) (bool, bool, error)) (vis []c21Visit, err error) {
			site := "EachBin"
			if rev {
				site = "EachBinRev"
			}
			call(site, func() {
				f := func(a boson.Address, po uint8) (bool, bool, error) {
					vis = append(vis, c21Visit{c21Name(a), int(po)})
					if len(vis) > 4*np+4 {
						x.Fail("iteration-runaway", "%s visits more than %d elements", site, 4*np+4)
					}
					return cb(len(vis) - 1)
				}
				if rev {
					err = s.EachBinRev(f)
				} else {
					err = s.EachBin(f)
				}
			})
			return
		}

		// checks a (possibly partial) visit sequence against the reference:
		//  - every visited element is a member, reported in its reference bin, at most once
		//  - bins are visited monotonically in the direction of the iteration
		//  - a bin is left only after all its members were visited, except the
		//    bins listed in `cut` (callback asked for next-bin there)
		checkVisits := func(what, opk string, rev bool, vis []c21Visit, rb [][]string, cut map[int]bool, complete bool) {
			seen := map[string]bool{}
			perBin := map[int]int{}
			last := -1
			for i, v := range vis {
				if seen[v.name] {
					x.Fail("element-twice-"+opk, "%s: %s visited twice (%v); reference bins %v", what, v.name, vis, rb)
				}
				seen[v.name] = true
				idx := -1
				for j, p := range c21Peers {
					if p.name == v.name {
						idx = j
					}
				}
				if idx < 0 || !ref[idx] {
					x.Fail("non-member-visited", "%s: %s visited but is not in the set (%v); reference bins %v", what, v.name, vis, rb)
				}
				if want := c21RefBin(c21Peers[idx].addr, maxBins); v.bin != want {
					x.Fail("wrong-bin", "%s: %s reported in bin %d, want %d (maxBins %d)", what, v.name, v.bin, want, maxBins)
				}
				if i > 0 && v.bin != last {
					if (rev && v.bin < last) || (!rev && v.bin > last) {
						x.Fail("iteration-order", "%s: bin %d after bin %d (%v)", what, v.bin, last, vis)
					}
				}
				perBin[v.bin]++
				last = v.bin
			}
			// completeness of the bins that were passed
			if len(vis) == 0 && !complete {
				return
			}
			for b := 0; b < maxBins; b++ {
				passed := complete
				if !complete && len(vis) > 0 {
					if rev {
						passed = b < last
					} else {
						passed = b > last
					}
				}
				if !passed || cut[b] {
					continue
				}
				if perBin[b] != len(rb[b]) {
					x.Fail("iteration-misses-element", "%s: bin %d visited %d of %d members (%v); reference bins %v", what, b, perBin[b], len(rb[b]), vis, rb)
				}
			}
		}

		observe := func(when, opk string) {
			rb := refBins()
			total := 0
			for _, b := range rb {
				total += len(b)
			}
			// full iteration, both directions: the contents as a multiset
			for _, rev := range []bool{false, true} {
				what := fmt.Sprintf("%s EachBin(rev=%v) collect", when, rev)
				vis, err := iterate(rev, func(int) (bool, bool, error) { return false, false, nil })
				x.Check(err == nil, "iteration-error", "%s: unexpected error %v", what, err)
				checkVisits(what, opk, rev, vis, rb, nil, true)
				x.Check(len(vis) == total, "iteration-count", "%s: %d visits, want %d", what, len(vis), total)
			}
			// membership
			for i, p := range c21Peers {
				var got bool
				call("Exists", func() { got = s.Exists(p.addr) })
				x.Check(got == ref[i], "exists-mismatch", "%s: Exists(%s)=%v want %v", when, p.name, got, ref[i])
			}
			{
				var got bool
				call("Exists", func() { got = s.Exists(c21Ghost.addr) })
				x.Check(!got, "exists-mismatch", "%s: Exists(ghost)=true for a never added address", when)
			}
			// sizes
			var l int
			call("Length", func() { l = s.Length() })
			x.Check(l == total, "length-mismatch-"+opk, "%s: Length()=%d want %d; reference bins %v", when, l, total, rb)
			probe := []int{}
			for b := 0; b <= maxBins+1; b++ {
				probe = append(probe, b)
			}
			probe = append(probe, 255)
			for _, b := range probe {
				want := 0
				var wantPeers []string
				if b < maxBins {
					want = len(rb[b])
					wantPeers = rb[b]
				}
				var sz int
				var bp []boson.Address
				call("BinSize", func() { sz = s.BinSize(uint8(b)) })
				call("BinPeers", func() { bp = s.BinPeers(uint8(b)) })
				x.Check(sz == want, "binsize-mismatch", "%s: BinSize(%d)=%d want %d (maxBins %d)", when, b, sz, want, maxBins)
				var names []string
				for _, a := range bp {
					names = append(names, c21Name(a))
				}
				sort.Strings(names)
				x.Check(strings.Join(names, ",") == strings.Join(wantPeers, ","), "binpeers-mismatch", "%s: BinPeers(%d)=%v want %v", when, b, names, wantPeers)
				// the returned slice is the caller's: scribbling on it must not change the set
				for i := range bp {
					bp[i] = c21Ghost.addr
				}
			}
			{
				var got bool
				call("Exists", func() { got = s.Exists(c21Ghost.addr) })
				x.Check(!got, "binpeers-aliases-set", "%s: writing into the slice returned by BinPeers changed the set", when)
			}
			// emptiness
			var se uint8
			var none bool
			call("ShallowestEmpty", func() { se, none = s.ShallowestEmpty() })
			wantSE, wantNone := 0, true
			for b := 0; b < maxBins; b++ {
				if len(rb[b]) == 0 {
					wantSE, wantNone = b, false
					break
				}
			}
			if wantNone {
				x.Tag("no-empty-bin")
				x.Check(none, "shallowest-empty-mismatch", "%s: ShallowestEmpty()=(%d,%v) but no bin is empty %v", when, se, none, rb)
			} else {
				x.Check(!none && int(se) == wantSE, "shallowest-empty-mismatch", "%s: ShallowestEmpty()=(%d,%v) want (%d,false) %v", when, se, none, wantSE, rb)
			}
			// early stop, skip-to-next-bin, error: every position k, both directions
			for _, rev := range []bool{false, true} {
				for k := 0; k < total; k++ {
					k := k
					// stop at k
					what := fmt.Sprintf("%s EachBin(rev=%v) stop at call %d", when, rev, k)
					vis, err := iterate(rev, func(n int) (bool, bool, error) { return n == k, false, nil })
					x.Check(err == nil, "iteration-error", "%s: unexpected error %v", what, err)
					x.Check(len(vis) == k+1, "early-stop", "%s: %d visits, want %d (%v)", what, len(vis), k+1, vis)
					checkVisits(what, opk, rev, vis, rb, nil, false)
					// error at k
					what = fmt.Sprintf("%s EachBin(rev=%v) error at call %d", when, rev, k)
					vis, err = iterate(rev, func(n int) (bool, bool, error) {
						if n == k {
							return false, false, errC21Callback
						}
						return false, false, nil
					})
					x.Check(err == errC21Callback, "callback-error-lost", "%s: returned %v", what, err)
					x.Check(len(vis) == k+1, "callback-error-continues", "%s: %d visits, want %d (%v)", what, len(vis), k+1, vis)
					checkVisits(what, opk, rev, vis, rb, nil, false)
					// next-bin at k: the rest of the bin of the k-th visit is skipped, every
					// later bin is visited completely
					what = fmt.Sprintf("%s EachBin(rev=%v) next-bin at call %d", when, rev, k)
					vis, err = iterate(rev, func(n int) (bool, bool, error) { return false, n == k, nil })
					x.Check(err == nil, "iteration-error", "%s: unexpected error %v", what, err)
					x.Check(len(vis) >= k+1, "skip-to-next-bin", "%s: only %d visits (%v)", what, len(vis), vis)
					kb := vis[k].bin
					inK, later := 0, 0
					for i, v := range vis {
						if v.bin == kb {
							inK++
							x.Check(i <= k, "skip-to-next-bin", "%s: bin %d visited again after next-bin was requested (%v)", what, kb, vis)
						}
					}
					for b := 0; b < maxBins; b++ {
						if (rev && b > kb) || (!rev && b < kb) {
							later += len(rb[b])
						}
					}
					x.Check(len(vis) == k+1+later, "skip-to-next-bin", "%s: %d visits, want %d (%v); reference bins %v", what, len(vis), k+1+later, vis, rb)
					checkVisits(what, opk, rev, vis, rb, map[int]bool{kb: true}, true)
					if inK < len(rb[kb]) {
						x.Tag("next-bin-skips-elements")
					}
				}
				// next-bin always: exactly one element of every non-empty bin
				what := fmt.Sprintf("%s EachBin(rev=%v) next-bin always", when, rev)
				vis, err := iterate(rev, func(int) (bool, bool, error) { return false, true, nil })
				x.Check(err == nil, "iteration-error", "%s: unexpected error %v", what, err)
				nonEmpty := 0
				cut := map[int]bool{}
				for b := range rb {
					if len(rb[b]) > 0 {
						nonEmpty++
					}
					cut[b] = true
				}
				x.Check(len(vis) == nonEmpty, "skip-to-next-bin", "%s: %d visits, want one per non-empty bin = %d (%v)", what, len(vis), nonEmpty, vis)
				for i := 1; i < len(vis); i++ {
					x.Check(vis[i].bin != vis[i-1].bin, "skip-to-next-bin", "%s: two visits in bin %d (%v)", what, vis[i].bin, vis)
				}
				checkVisits(what, opk, rev, vis, rb, cut, true)
			}
		}

		canon := func() string {
			var sb strings.Builder
			fmt.Fprintf(&sb, "%d", maxBins)
			for b := 0; b < maxBins; b++ {
				if len(s.peers[b]) == 0 && cap(s.peers[b]) == 0 {
					continue
				}
				fmt.Fprintf(&sb, "|%d/%d:", b, cap(s.peers[b]))
				for _, a := range s.peers[b] {
					sb.WriteString(c21Name(a))
				}
			}
			return sb.String()
		}

		observe("initially", "new")
		for step := 0; step < depth; step++ {
			op := menu[x.Choose(len(menu))]
			var opk string
			when := fmt.Sprintf("after step %d", step+1)
			switch {
			case op < np:
				p := c21Peers[op]
				opk = "single-add"
				if ref[op] {
					x.Tag("add-existing")
				}
				b := c21RefBin(p.addr, maxBins)
				x.Logf("Add(%s) [bin %d]", p.name, b)
				call("Add", func() { s.Add(p.addr) })
				ref[op] = true
			case op < 2*np:
				i := op - np
				p := c21Peers[i]
				opk = "remove"
				x.Logf("Remove(%s) [member=%v]", p.name, ref[i])
				if ref[i] {
					// situation tags from the real layout (in-package view)
					b := c21RefBin(p.addr, maxBins)
					bin := s.peers[b]
					if len(bin) >= 3 && !bin[len(bin)-1].Equal(p.addr) {
						x.Tag("remove-non-last-of-3+")
					}
					if len(bin) == 1 {
						x.Tag("remove-empties-bin")
					}
					x.Nontrivial()
				} else {
					x.Tag("remove-absent")
				}
				call("Remove", func() { s.Remove(p.addr) })
				ref[i] = false
			default:
				bi := op - 2*np
				var addrs []boson.Address
				inBatch := map[int]int{}
				dupNew, dupOld := false, false
				for _, j := range c21Batches[bi] {
					addrs = append(addrs, c21Peers[j].addr)
					inBatch[j]++
				}
				grow := false
				for j, n := range inBatch {
					if n > 1 && !ref[j] {
						dupNew = true
					}
					if n > 1 && ref[j] {
						dupOld = true
					}
					if !ref[j] && len(s.peers[c21RefBin(c21Peers[j].addr, maxBins)]) > 0 {
						grow = true
					}
				}
				// situation tags for repeats of a new address: what lies between two occurrences
				shape := c21Batches[bi]
				for i, j := range shape {
					if ref[j] {
						continue
					}
					for i2 := i + 1; i2 < len(shape); i2++ {
						if shape[i2] != j {
							continue
						}
						same, other := false, false
						for _, m := range shape[i+1 : i2] {
							if m == j {
								continue
							}
							if c21RefBin(c21Peers[m].addr, maxBins) == c21RefBin(c21Peers[j].addr, maxBins) {
								same = true
							} else {
								other = true
							}
						}
						switch {
						case same && other:
							x.Tag("batch-repeat-separated-by-same-and-other-bin")
						case other:
							x.Tag("batch-repeat-separated-by-other-bin")
						case same:
							x.Tag("batch-repeat-separated-by-same-bin")
						default:
							x.Tag("batch-repeat-adjacent")
						}
						if int(boson.Proximity(c21Base, c21Peers[j].addr.Bytes())) >= maxBins {
							x.Tag("batch-repeat-of-capped-address")
						}
					}
				}
				opk = "batch-add"
				if dupNew {
					opk = "batch-add-with-duplicate"
					x.Tag("batch-duplicate-of-new-address")
				}
				if dupOld {
					x.Tag("batch-duplicate-of-member")
				}
				if grow {
					x.Tag("batch-grows-non-empty-bin")
				}
				x.Logf("%s", batchNames[bi])
				call("Add", func() { s.Add(addrs...) })
				for j := range inBatch {
					ref[j] = true
				}
				x.Nontrivial()
			}
			// cap collision: addresses of different proximity share the last bin
			if maxBins <= 4 {
				n := 0
				for _, j := range []int{3, 4, 5} {
					if ref[j] {
						n++
					}
				}
				if n >= 2 {
					x.Tag("capped-addresses-share-last-bin")
				}
			}
			observe(when, opk)
			if x.Seen(canon(), depth-step-1) {
				return
			}
		}
		n := 0
		for _, m := range ref {
			if m {
				n++
			}
		}
		x.Outcome(fmt.Sprintf("maxBins=%d final-size=%d", maxBins, n))
	})
}
