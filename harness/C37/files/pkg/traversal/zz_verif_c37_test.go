//go:build verif
// +build verif

package traversal

import (
	"bytes"
	"context"
	"encoding/binary"
	"fmt"
	"io"
	"sort"
	"testing"

	"github.com/gauss-project/aurorafs/pkg/boson"
	"github.com/gauss-project/aurorafs/pkg/file"
	"github.com/gauss-project/aurorafs/pkg/file/joiner"
	"github.com/gauss-project/aurorafs/pkg/file/loadsave"
	"github.com/gauss-project/aurorafs/pkg/file/pipeline"
	"github.com/gauss-project/aurorafs/pkg/file/pipeline/builder"
	"github.com/gauss-project/aurorafs/pkg/manifest"
	"github.com/gauss-project/aurorafs/pkg/storage"
	storemock "github.com/gauss-project/aurorafs/pkg/storage/mock"
	"github.com/gauss-project/aurorafs/pkg/zzverif/chunkref"
	"github.com/gauss-project/aurorafs/pkg/zzverif/mc"
	"github.com/gauss-project/aurorafs/pkg/zzverif/wire"
)

// A pyramid (map chunk address -> span||payload) is what a remote peer sends
// in the chunkinfo pyramid stream (chunkinfo.onChunkPyramidResp builds the map
// from the ChunkPyramidResp messages and hands it to GetChunkHashes). Every
// case below is *hash-consistent*: each entry's key is the BMT address of its
// data, so the verification step passes and the content is then interpreted.

type c37Pyramid struct {
	name string
	root boson.Address
	p    map[string][]byte
}

func c37Chunk(span uint64, payload []byte) (string, []byte) {
	d := make([]byte, 8+len(payload))
	binary.LittleEndian.PutUint64(d, span)
	copy(d[8:], payload)
	return boson.NewAddress(chunkref.BMT(d)).String(), d
}

func c37Pat(n int, seed byte) []byte {
	b := make([]byte, n)
	for i := range b {
		b[i] = byte(i)*7 + seed
	}
	return b
}

func c37Single(name string, span uint64, payload []byte, extra map[string][]byte) c37Pyramid {
	k, d := c37Chunk(span, payload)
	p := map[string][]byte{k: d}
	for ek, ev := range extra {
		p[ek] = ev
	}
	return c37Pyramid{name, boson.MustParseHexAddress(k), p}
}

func c37Upload(t *testing.T, st storage.Putter, data []byte) boson.Address {
	ctx := context.Background()
	a, err := builder.FeedPipeline(ctx, builder.NewPipelineBuilder(ctx, st, storage.ModePutUpload, false), bytes.NewReader(data))
	if err != nil {
		t.Fatal(err)
	}
	return a
}

// c37Hangs: inputs on which joiner.subtrieSection never terminates (its
// `branchSize *= branching` loop overflows to 0): an intermediate chunk (span >
// payload length) with fewer than one full reference, or with a positive span
// above ChunkSize*Branches^3. These make GetChunkHashes spin forever - a hang, not a
// panic; there is no wall-clock oracle, so they are excluded and reported in
// FINDINGS.md as an observation. (A second mechanism with the same effect:
// file.JoinReadAll loops span/ChunkSize times while joiner.Read returns 0 bytes
// and no error for a root whose span lies about the size of its children.)
func c37Hangs(span uint64, payloadLen int) bool {
	s := int64(span)
	if s <= int64(payloadLen) {
		return false // treated as a leaf
	}
	if payloadLen < 32 {
		return true
	}
	limit := int64(boson.ChunkSize)
	for i := 0; i < 3; i++ {
		limit *= int64(boson.Branches)
	}
	refs := int64(payloadLen / 32)
	return s-limit*(refs-1) > limit
}

func c37Cases(t *testing.T) []c37Pyramid {
	C := uint64(boson.ChunkSize)
	var cs []c37Pyramid
	leafK, leafD := c37Chunk(5, []byte("hello"))
	leafRef := boson.MustParseHexAddress(leafK).Bytes()
	leaf := map[string][]byte{leafK: leafD}
	// --- crafted plain-file roots
	for _, span := range []uint64{0, 1, 3, 4, 31, 32, 33, 64, C, C + 1, 2 * C, C * uint64(boson.Branches), C*uint64(boson.Branches) + 1, 1 << 31, 1 << 32, 1<<63 - 1, 1 << 63, ^uint64(0)} {
		for _, pl := range []int{0, 1, 3, 31, 32, 33, 63, 64, 65, 96} {
			if c37Hangs(span, pl) {
				continue
			}
			payload := c37Pat(pl, 3)
			// references point at a present leaf where they fit
			for o := 0; o+32 <= pl; o += 32 {
				copy(payload[o:], leafRef)
			}
			cs = append(cs, c37Single(fmt.Sprintf("file-root(span=%d,payload=%d)", span, pl), span, payload, leaf))
		}
	}
	// two-level tree with a malformed intermediate chunk
	for _, ipl := range []int{0, 1, 31, 33, 64, 65} {
		for _, ispan := range []uint64{0, 5, C, C + 1, 2 * C, 1 << 62, ^uint64(0)} {
			if c37Hangs(ispan, ipl) {
				continue
			}
			// A malformed chunk *below* the root is read by an errgroup goroutine of
			// joiner.readAtOffset; its panic (slice bounds out of range, the same
			// site as the root-level case) cannot be recovered by anybody and kills
			// the process - including this harness. These cases are therefore only
			// enumerated with VERIF_C37_DEEP=1 (used to validate the proposed fix).
			if ipl%32 != 0 && ipl > 32 && int64(ispan) > int64(ipl) && mc.EnvInt("VERIF_C37_DEEP", 0) == 0 {
				continue
			}
			ik, id := c37Chunk(ispan, append(append([]byte{}, leafRef...), c37Pat(ipl, 9)...)[:ipl])
			rootPayload := append(append([]byte{}, boson.MustParseHexAddress(ik).Bytes()...), leafRef...)
			extra := map[string][]byte{ik: id, leafK: leafD}
			cs = append(cs, c37Single(fmt.Sprintf("tree(root-span=%d, intermediate span=%d payload=%d)", C*uint64(boson.Branches)+C, ispan, ipl), C*uint64(boson.Branches)+C, rootPayload, extra))
		}
	}
	// --- an honest manifest and mutations of its (single-chunk) nodes
	st := storemock.NewStorer()
	ctx := context.Background()
	ls := loadsave.New(st, func() pipeline.Interface {
		return builder.NewPipelineBuilder(context.Background(), st, storage.ModePutRequest, false)
	})
	m, err := manifest.NewMantarayManifest(ls, false)
	if err != nil {
		t.Fatal(err)
	}
	for i, sz := range []int{16, boson.ChunkSize + 1} {
		fr := c37Upload(t, st, c37Pat(sz, byte(40+i)))
		if err := m.Add(ctx, fmt.Sprintf("dir/f%d.bin", i), manifest.NewEntry(fr, map[string]string{"Content-Type": "text/plain"})); err != nil {
			t.Fatal(err)
		}
	}
	root, err := m.Store(ctx)
	if err != nil {
		t.Fatal(err)
	}
	honest, err := New(st).GetPyramid(ctx, root)
	if err != nil {
		t.Fatal(err)
	}
	cs = append(cs, c37Pyramid{"honest-manifest", root, honest})
	keys := make([]string, 0, len(honest))
	for k := range honest {
		keys = append(keys, k)
	}
	sort.Strings(keys)
	clone := func(skip string) map[string][]byte {
		p := map[string][]byte{}
		for k, v := range honest {
			if k != skip {
				p[k] = v
			}
		}
		return p
	}
	rootData := honest[root.String()]
	node := rootData[8:]
	mutRoot := func(name string, span uint64, payload []byte) {
		k, d := c37Chunk(span, payload)
		p := clone(root.String())
		p[k] = d
		cs = append(cs, c37Pyramid{name, boson.MustParseHexAddress(k), p})
	}
	for k := 0; k < len(node); k++ {
		mutRoot(fmt.Sprintf("manifest-root-prefix-%d-of-%d(span=len)", k, len(node)), uint64(k), node[:k])
	}
	for _, k := range []int{0, 1, 31, 32, 63, 64, 65, len(node) / 2, len(node) - 1} {
		if c37Hangs(uint64(len(node)), k) {
			continue
		}
		mutRoot(fmt.Sprintf("manifest-root-prefix-%d(span kept)", k), uint64(len(node)), node[:k])
	}
	for pos := 0; pos < len(node); pos++ {
		for _, mask := range []byte{0x01, 0x80, 0xff} {
			d := append([]byte{}, node...)
			d[pos] ^= mask
			mutRoot(fmt.Sprintf("manifest-root-flip@%d^%#02x", pos, mask), uint64(len(d)), d)
		}
	}
	mutRoot("manifest-root+1-zero-byte(span kept)", uint64(len(node)), append(append([]byte{}, node...), 0))
	mutRoot("manifest-root+garbage(span=len)", uint64(len(node)+40), append(append([]byte{}, node...), c37Pat(40, 1)...))
	// every other entry: appended zero bytes (still BMT-valid under the same key),
	for _, k := range keys {
		if k == root.String() {
			continue
		}
		for _, n := range []int{1, 31, 32, 33} {
			p := clone("")
			p[k] = append(append([]byte{}, honest[k]...), make([]byte, n)...)
			cs = append(cs, c37Pyramid{fmt.Sprintf("manifest-entry-%s+%d-zero-bytes", k[:8], n), root, p})
		}
		p := clone(k)
		cs = append(cs, c37Pyramid{fmt.Sprintf("manifest-entry-%s-missing", k[:8]), root, p})
	}
	return cs
}

func TestVerifC37(t *testing.T) {
	pyramids := c37Cases(t)
	var cases []wire.Case
	byName := map[string]c37Pyramid{}
	for _, p := range pyramids {
		cases = append(cases, wire.Case{Name: p.name, Data: p.p[p.root.String()]})
		byName[p.name] = p
	}
	targets := []wire.Target{{Name: "GetChunkHashes(pyramid from peer)+local reads", Cases: cases, Run: func(x *mc.X, c wire.Case) string {
		py := byName[c.Name]
		p := map[string][]byte{}
		for k, v := range py.p {
			p[k] = append([]byte{}, v...)
		}
		st := storemock.NewStorer()
		ctx := context.Background()
		_, _, err := New(st).GetChunkHashes(ctx, py.root, p)
		if err != nil {
			return "rejected"
		}
		// follow-up: local use of what was stored
		x.Tag("pyramid-accepted")
		_, _ = New(st).GetPyramid(ctx, py.root)
		_ = New(st).Traverse(ctx, py.root, func(boson.Address) error { return nil })
		if j, _, err := joiner.New(ctx, st, storage.ModeGetRequest, py.root); err == nil {
			_, _ = file.JoinReadAll(ctx, j, io.Discard)
		}
		return "accepted"
	}}}
	wire.Explore(t, func(cfg mc.Config, body func(*mc.X)) { mc.Run(t, cfg, body) }, "C37-pyramid", map[string]interface{}{
		"alphabet": "hash-consistent pyramids: crafted file roots span{0,1,3,4,31,32,33,64,C,C+1,2C,BC,BC+1,2^31,2^32,2^63-1,2^63,2^64-1} x payload length{0,1,3,31,32,33,63,64,65,96}; two-level trees with a malformed intermediate chunk (6 payload lengths x 7 spans); an honest two-file manifest with its root node replaced by every strict prefix (span = length, and 9 prefixes with the span kept), every single-byte flip with masks {01,80,ff}, appended bytes; every other entry followed by 1/31/32/33 zero bytes or removed",
	}, targets)
}
