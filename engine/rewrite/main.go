// Command rewrite produces scheduler-instrumented copies of repository packages.
// See /verif/DESIGN.md §2.3. It is run by bin/check at check time on the current
// working tree; its output is substituted through `go test -overlay`.
package main

import (
	"bytes"
	"encoding/json"
	"flag"
	"fmt"
	"go/ast"
	"go/printer"
	"go/token"
	"go/types"
	"os"
	"path/filepath"
	"sort"
	"strings"

	"golang.org/x/tools/go/ast/astutil"
	"golang.org/x/tools/go/packages"
)

const base = "github.com/gauss-project/aurorafs/pkg/zzverif/"

type config struct {
	Pkgs    []string          `json:"pkgs"`
	Watch   []string          `json:"watch"`   // "Type.field"
	WatchSlices []string      `json:"watch_slice_types"` // element-level tracking for slices of these types (types.TypeString)
	WatchPointees []string    `json:"watch_pointee_types"` // method-call-level tracking of the objects behind pointers of these types (types.TypeString, e.g. "*math/big.Int")
	NoTime  bool              `json:"no_time"` // keep the real package time
	KeepMapOrder bool         `json:"keep_map_order"` // do not rewrite range-over-map
	Sources map[string]string `json:"sources"` // repo-relative file -> replacement content path
	Skip    []string          `json:"skip_files"`
}

type report struct {
	Files      map[string]string `json:"files"`
	Constructs map[string]int    `json:"constructs"`
	Sites      []string          `json:"sites"`
	Packages   []string          `json:"packages"`
}

var (
	rep   = report{Files: map[string]string{}, Constructs: map[string]int{}}
	fset  *token.FileSet
	info  *types.Info
	watch = map[string]bool{}
	watchSlices = map[string]bool{}
	watchPointees = map[string]bool{}
	generated = map[ast.Node]bool{}
	uniq  int
	keepMapOrder bool
)

func fail(format string, a ...interface{}) {
	fmt.Fprintf(os.Stderr, "rewrite: "+format+"\n", a...)
	os.Exit(1)
}

func site(kind string, n ast.Node) {
	rep.Constructs[kind]++
	p := fset.Position(n.Pos())
	rep.Sites = append(rep.Sites, fmt.Sprintf("%s %s:%d", kind, filepath.Base(p.Filename), p.Line))
}

func id(n string) *ast.Ident { return ast.NewIdent(n) }
func sel(pkg, name string) ast.Expr {
	return &ast.SelectorExpr{X: id(pkg), Sel: id(name)}
}
func call(fn ast.Expr, args ...ast.Expr) *ast.CallExpr { return &ast.CallExpr{Fun: fn, Args: args} }
func fresh(p string) string                              { uniq++; return fmt.Sprintf("_vs_%s%d", p, uniq) }

func isChan(e ast.Expr) bool {
	if tv, ok := info.Types[e]; ok && tv.Type != nil {
		_, ok := tv.Type.Underlying().(*types.Chan)
		return ok
	}
	return false
}

func isRecv(e ast.Expr) (*ast.UnaryExpr, bool) {
	for {
		if p, ok := e.(*ast.ParenExpr); ok {
			e = p.X
			continue
		}
		break
	}
	u, ok := e.(*ast.UnaryExpr)
	return u, ok && u.Op == token.ARROW
}

// ---- watched-field touches -----------------------------------------------------

type touch struct {
	obj   ast.Expr
	field string
	write bool
	raw   *ast.CallExpr // a complete call instead of Touch(obj, field, write)
}

func watchedSel(e ast.Expr) (*ast.SelectorExpr, string) {
	s, ok := e.(*ast.SelectorExpr)
	if !ok {
		return nil, ""
	}
	sl := info.Selections[s]
	if sl == nil || sl.Kind() != types.FieldVal {
		return nil, ""
	}
	recv := sl.Recv()
	if p, ok := recv.(*types.Pointer); ok {
		recv = p.Elem()
	}
	n, ok := recv.(*types.Named)
	if !ok {
		return nil, ""
	}
	key := n.Obj().Name() + "." + s.Sel.Name
	if !watch[key] {
		return nil, ""
	}
	return s, key
}

func isWatchedSlice(e ast.Expr) bool {
	if len(watchSlices) == 0 {
		return false
	}
	tv, ok := info.Types[e]
	if !ok || tv.Type == nil {
		return false
	}
	return watchSlices[types.TypeString(tv.Type, nil)]
}

// isWatchedPointee: e is a side-effect-free expression (identifier, field selection,
// dereference) whose type is one of the watched pointer types.
func isWatchedPointee(e ast.Expr) bool {
	if len(watchPointees) == 0 {
		return false
	}
	tv, ok := info.Types[e]
	if !ok || tv.Type == nil || !watchPointees[types.TypeString(tv.Type, nil)] {
		return false
	}
	var pure func(e ast.Expr) bool
	pure = func(e ast.Expr) bool {
		switch x := e.(type) {
		case *ast.Ident:
			return x.Name != "nil"
		case *ast.ParenExpr:
			return pure(x.X)
		case *ast.StarExpr:
			return pure(x.X)
		case *ast.SelectorExpr:
			if sl := info.Selections[x]; sl != nil && sl.Kind() == types.FieldVal {
				return pure(x.X)
			}
			if _, ok := x.X.(*ast.Ident); ok && info.Selections[x] == nil {
				_, isVar := info.Uses[x.Sel].(*types.Var) // package-level variable of another package
				return isVar
			}
		}
		return false
	}
	return pure(e)
}

// pointeeMethodWrites: the method follows the math/big convention (the receiver is
// the destination) when it returns the receiver's type, or is a setter/decoder.
func pointeeMethodWrites(s *ast.SelectorExpr) bool {
	sl := info.Selections[s]
	if sl == nil {
		return true
	}
	name := s.Sel.Name
	for _, p := range []string{"Set", "Unmarshal", "GobDecode", "Scan"} {
		if strings.HasPrefix(name, p) {
			return true
		}
	}
	sig, ok := sl.Type().(*types.Signature)
	if !ok {
		return true
	}
	recv := types.TypeString(sl.Recv(), nil)
	for i := 0; i < sig.Results().Len(); i++ {
		if types.TypeString(sig.Results().At(i).Type(), nil) == recv {
			return true
		}
	}
	return false
}

func elemAddr(x, idx ast.Expr) ast.Expr {
	return &ast.UnaryExpr{Op: token.AND, X: &ast.IndexExpr{X: x, Index: idx}}
}

func stripToSel(e ast.Expr) ast.Expr {
	for {
		switch x := e.(type) {
		case *ast.ParenExpr:
			e = x.X
		case *ast.IndexExpr:
			e = x.X
		case *ast.StarExpr:
			e = x.X
		case *ast.SliceExpr:
			e = x.X
		default:
			return e
		}
	}
}

func objExpr(s *ast.SelectorExpr) ast.Expr {
	if tv, ok := info.Types[s.X]; ok {
		if _, ok := tv.Type.Underlying().(*types.Pointer); ok {
			return s.X
		}
	}
	return &ast.UnaryExpr{Op: token.AND, X: s.X}
}

// collect touches in the parts of stmt that execute at its start (not nested blocks / func literals)
func collectTouches(stmt ast.Stmt) []touch {
	var out []touch
	writes := map[ast.Expr]bool{}
	markWrite := func(e ast.Expr) {
		if s, _ := watchedSel(stripToSel(e)); s != nil {
			writes[s] = true
		}
	}
	var exprs []ast.Node
	elemWrites := map[ast.Node]bool{}
	switch s := stmt.(type) {
	case *ast.AssignStmt:
		for _, l := range s.Lhs {
			markWrite(l)
			if ix, ok := l.(*ast.IndexExpr); ok && isWatchedSlice(ix.X) {
				elemWrites[ix] = true
			}
		}
		exprs = append(exprs, s)
	case *ast.IncDecStmt:
		markWrite(s.X)
		exprs = append(exprs, s)
	case *ast.IfStmt:
		if s.Init != nil {
			out = append(out, collectTouches(s.Init)...)
		}
		exprs = append(exprs, s.Cond)
	case *ast.ForStmt:
		if s.Init != nil {
			out = append(out, collectTouches(s.Init)...)
		}
		if s.Cond != nil {
			exprs = append(exprs, s.Cond)
		}
	case *ast.RangeStmt:
		exprs = append(exprs, s.X)
	case *ast.SwitchStmt:
		if s.Init != nil {
			out = append(out, collectTouches(s.Init)...)
		}
		if s.Tag != nil {
			exprs = append(exprs, s.Tag)
		}
	case *ast.TypeSwitchStmt:
		exprs = append(exprs, s.Assign)
	case *ast.BlockStmt, *ast.SelectStmt, *ast.LabeledStmt, *ast.CaseClause, *ast.CommClause:
		return nil
	case *ast.DeferStmt:
		for _, a := range s.Call.Args {
			exprs = append(exprs, a)
		}
		if _, ok := s.Call.Fun.(*ast.FuncLit); !ok {
			exprs = append(exprs, s.Call.Fun)
		}
	case *ast.GoStmt:
		for _, a := range s.Call.Args {
			exprs = append(exprs, a)
		}
	default:
		exprs = append(exprs, stmt)
	}
	for _, e := range exprs {
		ast.Inspect(e, func(n ast.Node) bool {
			switch x := n.(type) {
			case *ast.FuncLit:
				return false
			case *ast.CallExpr:
				if f, ok := x.Fun.(*ast.Ident); ok && f.Name == "delete" && len(x.Args) == 2 {
					markWrite(x.Args[0])
				}
				if f, ok := x.Fun.(*ast.Ident); ok && f.Name == "append" && len(x.Args) >= 1 && isWatchedSlice(x.Args[0]) {
					var n ast.Expr = &ast.BasicLit{Kind: token.INT, Value: fmt.Sprint(len(x.Args) - 1)}
					if x.Ellipsis.IsValid() {
						n = call(id("len"), x.Args[1])
					}
					out = append(out, touch{raw: call(sel("vsched", "TouchAppend"), x.Args[0], n)})
				}
				if len(watchPointees) > 0 {
					if fs, ok := x.Fun.(*ast.SelectorExpr); ok {
						// only methods of the watched type itself are known to read their operands
						if sl := info.Selections[fs]; sl != nil && sl.Kind() == types.MethodVal && watchPointees[types.TypeString(sl.Recv(), nil)] {
							if isWatchedPointee(fs.X) {
								out = append(out, touch{obj: fs.X, field: "pointee", write: pointeeMethodWrites(fs)})
							}
							for _, a := range x.Args {
								if isWatchedPointee(a) {
									out = append(out, touch{obj: a, field: "pointee", write: false})
								}
							}
						}
					}
				}
				if f, ok := x.Fun.(*ast.Ident); ok && f.Name == "copy" && len(x.Args) == 2 && (isWatchedSlice(x.Args[0]) || isWatchedSlice(x.Args[1])) {
					out = append(out, touch{raw: call(sel("vsched", "TouchCopy"), x.Args[0], x.Args[1])})
				}
			case *ast.IndexExpr:
				if isWatchedSlice(x.X) {
					out = append(out, touch{obj: elemAddr(x.X, x.Index), field: "elem", write: elemWrites[x]})
				}
			case *ast.SelectorExpr:
				if s, key := watchedSel(x); s != nil {
					out = append(out, touch{obj: objExpr(s), field: key, write: writes[s]})
				}
			}
			return true
		})
	}
	// writes recorded after the walk for selectors seen before markWrite: fix up
	for i := range out {
		_ = i
	}
	return out
}

func touchStmts(ts []touch) []ast.Stmt {
	seen := map[string]bool{}
	var out []ast.Stmt
	for _, t := range ts {
		if t.raw != nil {
			st := &ast.ExprStmt{X: t.raw}
			generated[st] = true
			out = append(out, st)
			rep.Constructs["touch-elems"]++
			continue
		}
		var b bytes.Buffer
		printer.Fprint(&b, fset, t.obj)
		k := fmt.Sprintf("%s|%s|%v", b.String(), t.field, t.write)
		if seen[k] {
			continue
		}
		seen[k] = true
		w := "false"
		if t.write {
			w = "true"
		}
		st := &ast.ExprStmt{X: call(sel("vsched", "Touch"), t.obj, &ast.BasicLit{Kind: token.STRING, Value: fmt.Sprintf("%q", t.field)}, id(w))}
		generated[st] = true
		out = append(out, st)
		rep.Constructs["touch"]++
	}
	return out
}

// ---- statement rewriting -----------------------------------------------------------

func rewriteSelect(s *ast.SelectStmt) ast.Stmt {
	site("select", s)
	selv := fresh("sel")
	var pre []ast.Stmt
	pre = append(pre, &ast.AssignStmt{Lhs: []ast.Expr{id(selv)}, Tok: token.DEFINE, Rhs: []ast.Expr{call(sel("vsched", "NewSel"))}})
	sw := &ast.SwitchStmt{Body: &ast.BlockStmt{}}
	hasDefault := false
	idx := 0
	for _, c := range s.Body.List {
		cc := c.(*ast.CommClause)
		if cc.Comm == nil {
			hasDefault = true
			sw.Body.List = append(sw.Body.List, &ast.CaseClause{Body: cc.Body})
			continue
		}
		clause := &ast.CaseClause{List: []ast.Expr{&ast.BasicLit{Kind: token.INT, Value: fmt.Sprint(idx)}}}
		switch st := cc.Comm.(type) {
		case *ast.SendStmt:
			pre = append(pre, &ast.ExprStmt{X: call(sel("vsched", "AddSend"), id(selv), st.Chan, st.Value)})
			clause.Body = cc.Body
		case *ast.ExprStmt:
			u, ok := isRecv(st.X)
			if !ok {
				fail("select case is not a receive at %s", fset.Position(st.Pos()))
			}
			pre = append(pre, &ast.ExprStmt{X: call(sel("vsched", "AddRecv"), id(selv), u.X)})
			clause.Body = cc.Body
		case *ast.AssignStmt:
			u, ok := isRecv(st.Rhs[0])
			if !ok || len(st.Rhs) != 1 {
				fail("select case is not a receive at %s", fset.Position(st.Pos()))
			}
			cv := fresh("c")
			pre = append(pre, &ast.AssignStmt{Lhs: []ast.Expr{id(cv)}, Tok: token.DEFINE, Rhs: []ast.Expr{call(sel("vsched", "AddRecv"), id(selv), u.X)}})
			rhs := []ast.Expr{call(&ast.SelectorExpr{X: id(cv), Sel: id("Val")})}
			if len(st.Lhs) == 2 {
				rhs = append(rhs, call(&ast.SelectorExpr{X: id(cv), Sel: id("Ok")}))
			}
			clause.Body = append([]ast.Stmt{&ast.AssignStmt{Lhs: st.Lhs, Tok: st.Tok, Rhs: rhs}}, cc.Body...)
			// a variable declared by the case but unused only in the body is legal Go for `_`; keep as is
		default:
			fail("unsupported select case at %s", fset.Position(cc.Pos()))
		}
		idx++
		sw.Body.List = append(sw.Body.List, clause)
	}
	hd := "false"
	if hasDefault {
		hd = "true"
	} else {
		// keeps the statement terminating when every case terminates, like the select it replaces
		sw.Body.List = append(sw.Body.List, &ast.CaseClause{Body: []ast.Stmt{&ast.ExprStmt{X: call(id("panic"), &ast.BasicLit{Kind: token.STRING, Value: `"vsched: impossible select result"`})}}})
	}
	sw.Tag = call(&ast.SelectorExpr{X: id(selv), Sel: id("Wait")}, id(hd))
	return &ast.BlockStmt{List: append(pre, sw)}
}

func rewriteGo(g *ast.GoStmt) ast.Stmt {
	site("go", g)
	var pre []ast.Stmt
	c := g.Call
	args := make([]ast.Expr, len(c.Args))
	for i, a := range c.Args {
		switch a.(type) {
		case *ast.BasicLit:
			args[i] = a
			continue
		}
		v := fresh("a")
		pre = append(pre, &ast.AssignStmt{Lhs: []ast.Expr{id(v)}, Tok: token.DEFINE, Rhs: []ast.Expr{a}})
		args[i] = id(v)
	}
	fun := c.Fun
	// bind the receiver of a method call at spawn time
	if se, ok := fun.(*ast.SelectorExpr); ok {
		if _, isPkg := info.Uses[identOf(se.X)].(*types.PkgName); !isPkg {
			if _, simple := se.X.(*ast.Ident); !simple {
				v := fresh("r")
				pre = append(pre, &ast.AssignStmt{Lhs: []ast.Expr{id(v)}, Tok: token.DEFINE, Rhs: []ast.Expr{se.X}})
				fun = &ast.SelectorExpr{X: id(v), Sel: se.Sel}
			}
		}
	}
	inner := &ast.CallExpr{Fun: fun, Args: args, Ellipsis: c.Ellipsis}
	lit := &ast.FuncLit{Type: &ast.FuncType{Params: &ast.FieldList{}}, Body: &ast.BlockStmt{List: []ast.Stmt{&ast.ExprStmt{X: inner}}}}
	spawn := &ast.ExprStmt{X: call(sel("vsched", "Go"), lit)}
	if len(pre) == 0 {
		return spawn
	}
	return &ast.BlockStmt{List: append(pre, spawn)}
}

func identOf(e ast.Expr) *ast.Ident {
	if i, ok := e.(*ast.Ident); ok {
		return i
	}
	return nil
}

func isMap(e ast.Expr) bool {
	if tv, ok := info.Types[e]; ok && tv.Type != nil {
		_, ok := tv.Type.Underlying().(*types.Map)
		return ok
	}
	return false
}

// rewriteMapRange makes the iteration order of a map a decision of the explorer
// (sorted keys by default) instead of the runtime's random order.
func rewriteMapRange(r *ast.RangeStmt) ast.Stmt {
	site("range-map", r)
	kv, vv, okv := fresh("k"), fresh("v"), fresh("ok")
	blank := func(e ast.Expr) bool {
		if e == nil {
			return true
		}
		i, ok := e.(*ast.Ident)
		return ok && i.Name == "_"
	}
	var body []ast.Stmt
	if blank(r.Value) {
		body = append(body, &ast.AssignStmt{Lhs: []ast.Expr{id("_"), id(okv)}, Tok: token.DEFINE, Rhs: []ast.Expr{&ast.IndexExpr{X: r.X, Index: id(kv)}}})
	} else {
		body = append(body, &ast.AssignStmt{Lhs: []ast.Expr{id(vv), id(okv)}, Tok: token.DEFINE, Rhs: []ast.Expr{&ast.IndexExpr{X: r.X, Index: id(kv)}}})
	}
	// entries deleted during the iteration are not visited, as in Go
	body = append(body, &ast.IfStmt{Cond: &ast.UnaryExpr{Op: token.NOT, X: id(okv)}, Body: &ast.BlockStmt{List: []ast.Stmt{&ast.BranchStmt{Tok: token.CONTINUE}}}})
	var lhs, rhs []ast.Expr
	if !blank(r.Key) {
		lhs, rhs = append(lhs, r.Key), append(rhs, id(kv))
	}
	if !blank(r.Value) {
		lhs, rhs = append(lhs, r.Value), append(rhs, id(vv))
	}
	if len(lhs) > 0 {
		body = append(body, &ast.AssignStmt{Lhs: lhs, Tok: r.Tok, Rhs: rhs})
	}
	body = append(body, r.Body.List...)
	return &ast.RangeStmt{Key: id("_"), Value: id(kv), Tok: token.DEFINE, X: call(sel("vsched", "MapKeys"), r.X), Body: &ast.BlockStmt{List: body}}
}

func rewriteRange(r *ast.RangeStmt) ast.Stmt {
	site("range-chan", r)
	okv := fresh("ok")
	var lhs []ast.Expr
	tok := token.DEFINE
	if r.Key != nil {
		lhs = []ast.Expr{r.Key, id(okv)}
		if r.Tok == token.ASSIGN {
			// v = range ch: need a declared ok
			tok = token.ASSIGN
		}
	} else {
		lhs = []ast.Expr{id("_"), id(okv)}
	}
	var body []ast.Stmt
	if tok == token.ASSIGN {
		body = append(body, &ast.DeclStmt{Decl: &ast.GenDecl{Tok: token.VAR, Specs: []ast.Spec{&ast.ValueSpec{Names: []*ast.Ident{id(okv)}, Type: id("bool")}}}})
	}
	body = append(body, &ast.AssignStmt{Lhs: lhs, Tok: tok, Rhs: []ast.Expr{call(sel("vsched", "Recv2"), r.X)}})
	body = append(body, &ast.IfStmt{Cond: &ast.UnaryExpr{Op: token.NOT, X: id(okv)}, Body: &ast.BlockStmt{List: []ast.Stmt{&ast.BranchStmt{Tok: token.BREAK}}}})
	body = append(body, r.Body.List...)
	return &ast.ForStmt{Body: &ast.BlockStmt{List: body}}
}

func processFile(f *ast.File) {
	// 1. touches (before structural rewriting, while type info still matches the nodes)
	if len(watch) > 0 || len(watchSlices) > 0 || len(watchPointees) > 0 {
		astutil.Apply(f, func(c *astutil.Cursor) bool {
			if generated[c.Node()] {
				return false
			}
			if r, ok := c.Node().(*ast.RangeStmt); ok && r.Value != nil && isWatchedSlice(r.X) {
				if vi, ok := r.Value.(*ast.Ident); !ok || vi.Name != "_" {
					if r.Tok != token.DEFINE {
						fail("range with = over a watched slice at %s", fset.Position(r.Pos()))
					}
					ki, _ := r.Key.(*ast.Ident)
					if ki == nil || ki.Name == "_" {
						ki = id(fresh("i"))
						r.Key = ki
					}
					st := &ast.ExprStmt{X: call(sel("vsched", "Touch"), elemAddr(r.X, id(ki.Name)), &ast.BasicLit{Kind: token.STRING, Value: `"elem"`}, id("false"))}
					generated[st] = true
					r.Body.List = append([]ast.Stmt{st}, r.Body.List...)
					rep.Constructs["touch-range-elems"]++
				}
			}
			st, ok := c.Node().(ast.Stmt)
			if !ok || c.Index() < 0 {
				return true
			}
			if _, isCase := c.Parent().(*ast.BlockStmt); !isCase {
				switch c.Parent().(type) {
				case *ast.CaseClause, *ast.CommClause:
				default:
					return true
				}
			}
			if sw, ok := c.Parent().(*ast.BlockStmt); ok {
				// the clause list of a switch/select body is a BlockStmt of clauses: skip
				if len(sw.List) > 0 {
					switch sw.List[0].(type) {
					case *ast.CaseClause, *ast.CommClause:
						return true
					}
				}
			}
			for _, t := range touchStmts(collectTouches(st)) {
				c.InsertBefore(t)
			}
			return true
		}, nil)
	}
	// 2. structural rewriting, innermost first
	astutil.Apply(f, nil, func(c *astutil.Cursor) bool {
		switch n := c.Node().(type) {
		case *ast.LabeledStmt:
			switch n.Stmt.(type) {
			case *ast.SelectStmt:
				fail("labeled select at %s is not supported", fset.Position(n.Pos()))
			}
		case *ast.GoStmt:
			c.Replace(rewriteGo(n))
		case *ast.SendStmt:
			if _, inSel := c.Parent().(*ast.CommClause); inSel {
				return true // handled by the select rewriting
			}
			site("send", n)
			c.Replace(&ast.ExprStmt{X: call(sel("vsched", "Send"), n.Chan, n.Value)})
		case *ast.SelectStmt:
			c.Replace(rewriteSelect(n))
		case *ast.RangeStmt:
			if isChan(n.X) {
				c.Replace(rewriteRange(n))
			} else if isMap(n.X) && !keepMapOrder {
				c.Replace(rewriteMapRange(n))
			}
		case *ast.AssignStmt:
			if _, inSel := c.Parent().(*ast.CommClause); inSel && c.Name() == "Comm" {
				return true
			}
			if len(n.Lhs) == 2 && len(n.Rhs) == 1 {
				if u, ok := isRecv(n.Rhs[0]); ok {
					site("recv2", n)
					n.Rhs[0] = call(sel("vsched", "Recv2"), u.X)
				}
			}
		case *ast.ValueSpec:
			if len(n.Names) == 2 && len(n.Values) == 1 {
				if u, ok := isRecv(n.Values[0]); ok {
					site("recv2", n)
					n.Values[0] = call(sel("vsched", "Recv2"), u.X)
				}
			}
		case *ast.UnaryExpr:
			if n.Op != token.ARROW {
				return true
			}
			// receives that are the Comm of a select case are handled there
			switch p := c.Parent().(type) {
			case *ast.ExprStmt:
				_ = p
			}
			if inComm(c) {
				return true
			}
			if isTwoValueRecv(c) {
				return true
			}
			site("recv", n)
			c.Replace(call(sel("vsched", "Recv"), n.X))
		case *ast.CallExpr:
			if f, ok := n.Fun.(*ast.Ident); ok {
				if f.Name == "close" && len(n.Args) == 1 {
					if _, isBuiltin := info.Uses[f].(*types.Builtin); isBuiltin {
						site("close", n)
						n.Fun = sel("vsched", "Close")
					}
				}
				if (f.Name == "len" || f.Name == "cap") && len(n.Args) == 1 && isChan(n.Args[0]) {
					fail("%s of a channel at %s is not supported", f.Name, fset.Position(n.Pos()))
				}
			}
		}
		return true
	})
}

// commParents: the receive expression sits directly in a CommClause.Comm statement
var commExprs = map[ast.Node]bool{}

func inComm(c *astutil.Cursor) bool { return commExprs[c.Node()] }

var twoValue = map[ast.Node]bool{}

func isTwoValueRecv(c *astutil.Cursor) bool { return twoValue[c.Node()] }

func premark(f *ast.File) {
	ast.Inspect(f, func(n ast.Node) bool {
		switch x := n.(type) {
		case *ast.CommClause:
			switch st := x.Comm.(type) {
			case *ast.ExprStmt:
				if u, ok := isRecv(st.X); ok {
					commExprs[u] = true
				}
			case *ast.AssignStmt:
				if u, ok := isRecv(st.Rhs[0]); ok {
					commExprs[u] = true
				}
			}
		case *ast.AssignStmt:
			if len(x.Lhs) == 2 && len(x.Rhs) == 1 {
				if u, ok := isRecv(x.Rhs[0]); ok {
					twoValue[u] = true
				}
			}
		case *ast.ValueSpec:
			if len(x.Names) == 2 && len(x.Values) == 1 {
				if u, ok := isRecv(x.Values[0]); ok {
					twoValue[u] = true
				}
			}
		}
		return true
	})
}

func leftovers(f *ast.File) {
	ast.Inspect(f, func(n ast.Node) bool {
		switch x := n.(type) {
		case *ast.GoStmt:
			fail("unrewritten go statement at %s", fset.Position(x.Pos()))
		case *ast.SendStmt:
			fail("unrewritten send at %s", fset.Position(x.Pos()))
		case *ast.SelectStmt:
			fail("unrewritten select at %s", fset.Position(x.Pos()))
		case *ast.UnaryExpr:
			if x.Op == token.ARROW {
				fail("unrewritten receive at %s", fset.Position(x.Pos()))
			}
		}
		return true
	})
}

var importMap = map[string][2]string{
	"sync":               {"sync", base + "vsync"},
	"sync/atomic":        {"atomic", base + "vatomic"},
	"go.uber.org/atomic": {"atomic", base + "vuatomic"},
	"time":               {"time", base + "vtime"},
}

func main() {
	repo := flag.String("repo", "/repo", "")
	out := flag.String("out", "", "")
	cfgPath := flag.String("config", "", "")
	flag.Parse()
	var cfg config
	data, err := os.ReadFile(*cfgPath)
	if err != nil {
		fail("%v", err)
	}
	if err := json.Unmarshal(data, &cfg); err != nil {
		fail("%v", err)
	}
	for _, w := range cfg.Watch {
		watch[w] = true
	}
	keepMapOrder = cfg.KeepMapOrder
	for _, w := range cfg.WatchSlices {
		watchSlices[w] = true
	}
	for _, w := range cfg.WatchPointees {
		watchPointees[w] = true
	}
	overlay := map[string][]byte{}
	for rel, p := range cfg.Sources {
		b, err := os.ReadFile(p)
		if err != nil {
			fail("%v", err)
		}
		overlay[filepath.Join(*repo, rel)] = b
	}
	var patterns []string
	for _, p := range cfg.Pkgs {
		patterns = append(patterns, "./"+p)
	}
	pcfg := &packages.Config{Mode: packages.NeedName | packages.NeedFiles | packages.NeedSyntax | packages.NeedTypes | packages.NeedTypesInfo | packages.NeedImports | packages.NeedCompiledGoFiles | packages.NeedExportFile,
		Dir: *repo, Overlay: overlay, Env: append(os.Environ(), "GOFLAGS=-mod=mod", "GOPROXY=off", "GOSUMDB=off", "GOTOOLCHAIN=local")}
	pkgs, err := packages.Load(pcfg, patterns...)
	if err != nil {
		fail("load: %v", err)
	}
	skip := map[string]bool{}
	for _, s := range cfg.Skip {
		skip[s] = true
	}
	for _, pkg := range pkgs {
		if len(pkg.Errors) > 0 {
			fail("package %s has errors: %v", pkg.PkgPath, pkg.Errors)
		}
		rep.Packages = append(rep.Packages, pkg.PkgPath)
		fset, info = pkg.Fset, pkg.TypesInfo
		for i, f := range pkg.Syntax {
			name := pkg.CompiledGoFiles[i]
			rel, _ := filepath.Rel(*repo, name)
			if skip[rel] || strings.HasSuffix(name, "_test.go") {
				continue
			}
			for _, cg := range f.Comments {
				for _, c := range cg.List {
					if strings.HasPrefix(c.Text, "//go:build") || strings.HasPrefix(c.Text, "// +build") {
						fail("%s carries its own build constraint", rel)
					}
				}
			}
			premark(f)
			before := len(rep.Sites) + rep.Constructs["touch"]
			processFile(f)
			leftovers(f)
			changedImports := false
			for _, im := range f.Imports {
				p := strings.Trim(im.Path.Value, `"`)
				if p == "time" && cfg.NoTime {
					continue
				}
				if m, ok := importMap[p]; ok {
					if im.Name == nil {
						im.Name = id(m[0])
					}
					im.Path.Value = fmt.Sprintf("%q", m[1])
					rep.Constructs["import-"+p]++
					changedImports = true
				}
			}
			if len(rep.Sites)+rep.Constructs["touch"] == before && !changedImports {
				continue
			}
			if len(rep.Sites)+rep.Constructs["touch"] > before {
				astutil.AddNamedImport(fset, f, "vsched", base+"vsched")
			}
			f.Comments = nil
			ast.Inspect(f, func(n ast.Node) bool {
				switch x := n.(type) {
				case *ast.FuncDecl:
					x.Doc = nil
				case *ast.GenDecl:
					x.Doc = nil
				case *ast.Field:
					x.Doc, x.Comment = nil, nil
				case *ast.ValueSpec:
					x.Doc, x.Comment = nil, nil
				case *ast.TypeSpec:
					x.Doc, x.Comment = nil, nil
				case *ast.ImportSpec:
					x.Doc, x.Comment = nil, nil
				}
				return true
			})
			f.Doc = nil
			var buf bytes.Buffer
			buf.WriteString("//go:build go1.18\n// +build go1.18\n\n// Code generated by /verif/engine/rewrite from " + rel + "; DO NOT EDIT.\n\n")
			if err := printer.Fprint(&buf, token.NewFileSet(), f); err != nil {
				fail("print %s: %v", rel, err)
			}
			dst := filepath.Join(*out, rel)
			os.MkdirAll(filepath.Dir(dst), 0o755)
			if err := os.WriteFile(dst, buf.Bytes(), 0o644); err != nil {
				fail("%v", err)
			}
			rep.Files[rel] = dst
		}
	}
	sort.Strings(rep.Sites)
	b, _ := json.MarshalIndent(rep, "", " ")
	if err := os.WriteFile(filepath.Join(*out, "report.json"), b, 0o644); err != nil {
		fail("%v", err)
	}
}
