//go:build verif
// +build verif

package leveldb

import (
	"io"
	"testing"
	"time"

	"github.com/gauss-project/aurorafs/pkg/logging"
)

func TestVerifC18OpenCost(t *testing.T) {
	l := logging.New(io.Discard, 0)
	t0 := time.Now()
	for i := 0; i < 2000; i++ {
		s, err := NewInMemoryStateStore(l)
		if err != nil {
			t.Fatal(err)
		}
		s.Close()
	}
	t.Logf("open+close: %v each", time.Since(t0)/2000)
}
