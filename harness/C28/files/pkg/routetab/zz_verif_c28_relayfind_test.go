//go:build verif
// +build verif

package routetab

// C28 (part C): the relay next hop chosen AFTER a fresh route discovery.
//
// onRelay / onRelayConnChain -> GetNextHopRandomOrFind: when the first lookup
// (with the stream's path as skip list) finds nothing, the node runs FindRoute and
// looks up again. Here the relay node has no usable next hop, so the real handler
// blocks inside the real FindRoute; meanwhile the harness delivers the discovery
// messages through the other nodes' real handlers (netsim), in every order, until
// the first response wakes FindRoute up. The relay dial made after the second
// lookup is recorded (and refused) by the netsim streamer.

import (
	"bytes"
	"context"
	"fmt"
	"io/ioutil"
	"strings"
	"testing"
	"time"

	"github.com/gauss-project/aurorafs/pkg/addressbook"
	"github.com/gauss-project/aurorafs/pkg/aurora"
	"github.com/gauss-project/aurorafs/pkg/boson"
	"github.com/gauss-project/aurorafs/pkg/logging"
	"github.com/gauss-project/aurorafs/pkg/p2p"
	p2pmock "github.com/gauss-project/aurorafs/pkg/p2p/mock"
	"github.com/gauss-project/aurorafs/pkg/p2p/protobuf"
	"github.com/gauss-project/aurorafs/pkg/routetab/pb"
	mockstate "github.com/gauss-project/aurorafs/pkg/statestore/mock"
	"github.com/gauss-project/aurorafs/pkg/topology/lightnode"
	"github.com/gauss-project/aurorafs/pkg/zzverif/mc"
	"github.com/gauss-project/aurorafs/pkg/zzverif/netsim"
)

type c28FindCase struct {
	topo    int
	self    int
	target  int
	handler string
}

func c28FindCases(thorough bool) []c28FindCase {
	names := []string{"line3", "line4", "star4", "cycle4"}
	if thorough {
		names = append(names, "cycle4+chord", "tee5")
	}
	var out []c28FindCase
	for ti, t := range c28Topos {
		ok := false
		for _, n := range names {
			if n == t.name {
				ok = true
			}
		}
		if !ok {
			continue
		}
		for self := 0; self < t.n; self++ {
			var targets []int
			for tg := 0; tg < t.n; tg++ {
				if tg != self && !t.adj(self, tg) {
					targets = append(targets, tg) // a neighbour target is dialled directly, no lookup
				}
			}
			targets = append(targets, c28X) // discovery finds nothing
			for _, tg := range targets {
				for _, h := range []string{"onRelayConnChain", "onRelay"} {
					out = append(out, c28FindCase{ti, self, tg, h})
				}
			}
		}
	}
	return out
}

func TestVerifC28RelayFind(t *testing.T) {
	logger := logging.New(ioutil.Discard, 0)
	cases := c28FindCases(mc.Thorough())
	var caseNames []string
	for _, c := range cases {
		caseNames = append(caseNames, fmt.Sprintf("%s/%s at %c for %c", c28Topos[c.topo].name, c.handler, c28Letters[c.self], c28Letters[c.target]))
	}
	worlds := map[int]*c28World{}
	defer func() {
		for _, w := range worlds {
			for _, db := range w.dbs {
				db.Close()
			}
		}
	}()
	savedAlpha, savedTO, savedPT := NeighborAlpha, findTimeOut, PendingTimeout
	defer func() { NeighborAlpha, findTimeOut, PendingTimeout = savedAlpha, savedTO, savedPT }()
	reps := mc.Pick(12, 32)

	mc.Run(t, mc.Config{ID: "C28", Name: "C28-relay-find-next-hop", MaxDev: -1, Params: map[string]interface{}{
		"cases(topology/handler at relay node for target)": caseNames,
		"relay_path":   "every sequence of 0..2 distinct nodes other than the relay node and the target",
		"stored_paths": "none, or one path [T,g,h] whose last hop h is on the relay path (first lookup is empty either way)",
		"discovery":    "the handler blocks in the real FindRoute; every delivery order of the discovery messages through the other nodes' real handlers until the first response reaches the relay node (then the handler continues alone), or until quiescence (then the context is cancelled)",
		"repetitions":  fmt.Sprintf("%d (same delivery order) when more than one neighbour next hop is stored at the second lookup (math/rand pick)", reps)}},
		func(x *mc.X) {
			x0 := x.Choose(len(cases))
			cs := cases[x0]
			topo := c28Topos[cs.topo]
			self, tg := cs.self, cs.target
			var others []int
			for i := 0; i < topo.n; i++ {
				if i != self && i != tg {
					others = append(others, i)
				}
			}
			var seqs [][]int
			seqs = append(seqs, nil)
			for _, a := range others {
				seqs = append(seqs, []int{a})
				for _, b := range others {
					if b != a {
						seqs = append(seqs, []int{a, b})
					}
				}
			}
			via := seqs[x.Choose(len(seqs))]
			// stored path whose last hop is on the relay path
			var menu [][]int
			menu = append(menu, nil)
			for _, h := range via {
				if topo.adj(self, h) {
					for _, g := range others {
						if g != h {
							menu = append(menu, []int{tg, g, h})
						}
					}
					menu = append(menu, []int{tg, h})
				}
			}
			stored := menu[x.Choose(len(menu))]
			names := func(p []int) string {
				var sb strings.Builder
				for _, i := range p {
					sb.WriteByte(c28Letters[i])
				}
				return sb.String()
			}
			x.Logf("%s: node %c (topology %s) relays a stream for %c that went through [%s]; stored path [%s]", cs.handler, c28Letters[self], topo.name, c28Letters[tg], names(via), names(stored))

			w := worlds[cs.topo]
			if w == nil {
				var err error
				w, err = c28BuildWorld(topo, logger)
				x.NoErr(err, "build kademlias")
				worlds[cs.topo] = w
			}
			NeighborAlpha = 3
			findTimeOut = time.Hour    // FindRoute only ends through its result channel or its context
			PendingTimeout = time.Hour // no pending GC during an execution
			target := c28Idents[tg].overlay
			onVia := func(i int) bool {
				for _, v := range via {
					if v == i {
						return true
					}
				}
				return false
			}

			var order []string // canonical texts of the delivered messages, fixed by the first repetition
			n := 1
			for rep := 0; rep < n; rep++ {
				ctx, cancel := context.WithCancel(context.Background())
				net := netsim.New(c28Canon)
				net.DialErr = func(from, to boson.Address, _, _, stream string) error {
					if stream == StreamOnRelay || stream == StreamOnRelayConnChain {
						return fmt.Errorf("netsim: relay dial recorded and refused")
					}
					return nil
				}
				nodes := make([]*Service, topo.n)
				cnodes := make([]*c28Node, topo.n)
				pm := &c28P2P{Service: p2pmock.New()}
				for i := 0; i < topo.n; i++ {
					book := addressbook.New(mockstate.NewStateStore())
					for j := 0; j < topo.n; j++ {
						if topo.adj(i, j) {
							x.NoErr(book.Put(c28Idents[j].overlay, *c28Idents[j].addr), "addressbook")
						}
					}
					var ps p2p.Service = p2pmock.New()
					if i == self {
						ps = pm
					}
					nodes[i] = New(c28Idents[i].overlay, ctx, ps, net.Streamer(c28Idents[i].overlay), book, 0,
						lightnode.NewContainer(c28Idents[i].overlay), w.kads[i], mockstate.NewStateStore(), logger, Options{Alpha: 3})
					net.AddNode(c28Idents[i].overlay, nodes[i].Protocol())
					cnodes[i] = &c28Node{idx: i, svc: nodes[i], book: book}
				}
				svc := nodes[self]
				if stored != nil {
					var cur []*pb.Path
					for _, i := range stored {
						cur = newRouteTable(c28Idents[i].overlay, nil).generatePaths(cur)
					}
					svc.routeTable.SavePaths(cur)
				}
				req := &pb.RouteRelayReq{
					Src:             c28Idents[c28X].overlay.Bytes(),
					SrcMode:         aurora.NewModel().SetMode(aurora.FullNode).Bv.Bytes(),
					Dest:            target.Bytes(),
					ProtocolName:    []byte("test"),
					ProtocolVersion: []byte("1.0.0"),
					StreamName:      []byte("s"),
				}
				for _, v := range via {
					req.Paths = append(req.Paths, c28Idents[v].overlay.Bytes())
				}
				from := c28Idents[c28X].overlay
				if len(via) > 0 {
					from = c28Idents[via[len(via)-1]].overlay
				}
				// how many requests FindRoute will send
				expect := len(svc.getNeighbor(target, NeighborAlpha, target))

				done := make(chan struct{})
				var herr error
				go func() {
					defer close(done)
					switch cs.handler {
					case "onRelayConnChain":
						var buf bytes.Buffer
						if err := protobuf.NewWriter(c28RW{&buf}).WriteMsgWithContext(ctx, req); err != nil {
							herr = err
							return
						}
						st, _ := netsim.NewInStream(buf.Bytes(), nil)
						herr = svc.onRelayConnChain(ctx, p2p.Peer{Address: from}, st)
					default:
						pm.req = req
						st, _ := netsim.NewInStream(nil, nil)
						herr = svc.onRelay(ctx, p2p.Peer{Address: from}, st)
					}
				}()
				// the handler is now inside FindRoute: wait until its requests are written
				// (or until it returned because there was nobody to ask)
				blocked := net.WaitClosed(svc.self, expect, done)
				// (a handler that returns without asking - it must then have found a next hop in its
				// first lookup, which the stored paths here do not allow - is judged by its dial below)
				if expect > 0 && blocked && rep == 0 {
					x.Tag("handler-blocked-in-FindRoute")
				}
				signalled := false
				ownPending := func() bool {
					pc := svc.pendingCalls
					pc.mu.RLock()
					defer pc.mu.RUnlock()
					for _, it := range pc.respList[getTargetKey(target)] {
						if it.ResCh != nil {
							return true
						}
					}
					return false
				}
				for step := 0; expect > 0 && blocked && !signalled; step++ {
					fl := net.InFlight()
					if len(fl) == 0 {
						break
					}
					if step > 200 {
						x.Fail("no-quiescence-within-step-cap", "discovery did not settle")
					}
					var distinct []*netsim.Msg
					last := ""
					for _, m := range fl {
						if c := c28Canon(m); c != last || len(distinct) == 0 {
							distinct = append(distinct, m)
							last = c
						}
					}
					var m *netsim.Msg
					if rep == 0 {
						ci := 0
						if tg != c28X { // for an unreachable target no order can produce an answer: one order
							ci = x.Choose(len(distinct))
						}
						m = distinct[ci]
						order = append(order, c28Canon(m))
						x.Logf("  deliver %s", c28Canon(m))
					} else {
						if step >= len(order) {
							x.Broken("repetition %d needs more deliveries than the first run", rep)
						}
						for _, d := range distinct {
							if c28Canon(d) == order[step] {
								m = d
							}
						}
						if m == nil {
							x.Broken("repetition %d: message %q is not in flight", rep, order[step])
						}
					}
					had := m.To.Equal(svc.self) && ownPending()
					if _, err := net.Deliver(ctx, m); err != nil {
						x.Broken("handler returned %v for %s", err, c28Canon(m))
					}
					if had && !ownPending() {
						signalled = true // respForward handed the result to the waiting FindRoute
					}
					if rep == 0 && !signalled {
						// same global state (all tables, pending tables, in-flight messages) reached by
						// another delivery order: same future
						var sb strings.Builder
						fmt.Fprintf(&sb, "%d via%s stored%s | ", x0, names(via), names(stored))
						for _, nd := range cnodes {
							sb.WriteString(c28NodeCanon(nd, target))
						}
						for _, q := range net.InFlight() {
							sb.WriteString(c28Canon(q))
							sb.WriteString(" ; ")
						}
						if x.Seen(sb.String(), 0) {
							cancel()
							<-done
							return
						}
					}
				}
				if !signalled {
					cancel() // nobody will ever answer: FindRoute returns through its context
				}
				<-done
				cancel()

				var relayDials []netsim.Dial
				for _, d := range net.Dials() {
					if d.Stream == StreamOnRelay || d.Stream == StreamOnRelayConnChain {
						relayDials = append(relayDials, d)
					}
				}
				// stored neighbour next hops at the time of the second lookup
				cand := map[int]bool{}
				for _, nh := range svc.routeTable.GetNextHop(target) {
					if i := c28Idx(nh.Bytes()); i >= 0 && i < topo.n && topo.adj(self, i) {
						cand[i] = true
					}
				}
				if rep == 0 {
					if len(cand) > 1 {
						n = reps
					}
					if signalled {
						x.Tag("second-lookup-after-successful-FindRoute")
						x.Nontrivial()
						all := len(cand) > 0
						for i := range cand {
							if !onVia(i) {
								all = false
							}
						}
						if all {
							x.Tag("every-learnt-next-hop-is-on-the-stream-path")
						}
					}
				}
				if len(relayDials) > 1 {
					x.Fail("relay-dials-more-than-one-next-hop", "%d relay dials for one request", len(relayDials))
				}
				if len(relayDials) == 0 {
					if herr == nil {
						x.Broken("handler returned nil without dialling")
					}
					if rep == 0 {
						if signalled {
							x.Outcome("route-found-but-no-next-hop-off-the-path:handler-gives-up")
						} else {
							x.Outcome("discovery-without-answer:handler-gives-up")
						}
					}
					continue
				}
				next := c28Idx(relayDials[0].To.Bytes())
				if next < 0 {
					x.Fail("relay-dials-unknown-node", "dialled %s", relayDials[0].To)
				}
				if next == tg {
					if rep == 0 {
						x.Outcome("delivers-to-target")
					}
					continue
				}
				if next == self {
					x.Fail("relay-forwards-to-itself", "node %c dialled itself", c28Letters[self])
				}
				if onVia(next) && !signalled {
					x.Fail("relay-forwards-to-node-on-path", "%s at %c forwarded the stream for %c to %c, which is already on its path [%s] (stored path [%s])", cs.handler, c28Letters[self], c28Letters[tg], c28Letters[next], names(via), names(stored))
				}
				if onVia(next) {
					x.Fail("relay-forwards-to-node-on-path-after-discovery", "%s at %c forwarded the stream for %c to %c, which is already on its path [%s] (next hop learnt through FindRoute)", cs.handler, c28Letters[self], c28Letters[tg], c28Letters[next], names(via))
				}
				if !topo.adj(self, next) {
					x.Fail("relay-forwards-to-non-neighbour", "%s at %c forwarded to %c which is not a neighbour", cs.handler, c28Letters[self], c28Letters[next])
				}
				if rep == 0 {
					x.Outcome("forwards-to-discovered-next-hop")
				}
			}
		})
}
