//go:build verif
// +build verif

package routetab

// C28 (part B): relayed streams are never forwarded to a node already on their
// path, except to deliver to the target.
//
// The real onRelay / onRelayConnChain handlers of one node are fed a
// RouteRelayReq whose Paths already name the nodes the stream went through;
// the node's outgoing dial is recorded (and refused) by the netsim streamer.

import (
	"bytes"
	"context"
	"fmt"
	"io/ioutil"
	"sort"
	"strings"
	"testing"
	"time"

	"github.com/gauss-project/aurorafs/pkg/addressbook"
	"github.com/gauss-project/aurorafs/pkg/aurora"
	"github.com/gauss-project/aurorafs/pkg/boson"
	"github.com/gauss-project/aurorafs/pkg/logging"
	"github.com/gauss-project/aurorafs/pkg/p2p"
	p2pmock "github.com/gauss-project/aurorafs/pkg/p2p/mock"
	"github.com/gauss-project/aurorafs/pkg/p2p/protobuf"
	"github.com/gauss-project/aurorafs/pkg/routetab/pb"
	mockstate "github.com/gauss-project/aurorafs/pkg/statestore/mock"
	"github.com/gauss-project/aurorafs/pkg/topology/lightnode"
	"github.com/gauss-project/aurorafs/pkg/zzverif/mc"
	"github.com/gauss-project/aurorafs/pkg/zzverif/netsim"
)

// p2p service whose CallHandler hands the relay request to onRelay the way the
// libp2p service does for a mid-path node ("forward to the next hop").
type c28P2P struct {
	*p2pmock.Service
	req *pb.RouteRelayReq
}

func (p *c28P2P) CallHandler(context.Context, p2p.Peer, p2p.Stream) (*pb.RouteRelayReq, *p2p.WriterChan, *p2p.ReaderChan, bool, error) {
	w := &p2p.WriterChan{W: make(chan []byte, 1), Err: make(chan error, 1)}
	r := &p2p.ReaderChan{R: make(chan []byte, 1), Err: make(chan error, 1)}
	return p.req, w, r, true, nil
}

type c28RW struct {
	*bytes.Buffer
}

func TestVerifC28Relay(t *testing.T) {
	logger := logging.New(ioutil.Discard, 0)
	topoIdx := []int{3, 5, 6} // star4, cycle4+chord, complete4
	if mc.Thorough() {
		topoIdx = []int{0, 1, 2, 3, 4, 5, 6}
	}
	var topoNames []string
	for _, ti := range topoIdx {
		topoNames = append(topoNames, c28Topos[ti].name)
	}
	worlds := map[int]*c28World{}
	defer func() {
		for _, w := range worlds {
			for _, db := range w.dbs {
				db.Close()
			}
		}
	}()
	savedAlpha, savedTO := NeighborAlpha, findTimeOut
	defer func() { NeighborAlpha, findTimeOut = savedAlpha, savedTO }()
	reps := mc.Pick(8, 32)

	mc.Run(t, mc.Config{ID: "C28", Name: "C28-relay-next-hop", MaxDev: -1, Params: map[string]interface{}{
		"topologies": topoNames, "handler": []string{"onRelayConnChain", "onRelay"},
		"self": "every node of the topology", "target": "every other node and X (not in the network)",
		"stored_paths": "every subset of {[T,h], [T,g(h),h] : h any node other than self and target, g(h) the next such node} (paths towards the target ending in last hop h)",
		"relay_path":   "every sequence of 0..2 distinct nodes other than self and the target (the nodes the stream already went through)",
		"prior_relay":  "with and without an earlier relayed stream for the same target (empty path) handled by the same service instance",
		"repetitions":  fmt.Sprintf("%d when more than one next hop is stored (the implementation picks with math/rand)", reps)}},
		func(x *mc.X) {
			topo := c28Topos[topoIdx[x.Choose(len(topoIdx))]]
			self := x.Choose(topo.n)
			// target: another node or X
			var targets []int
			for i := 0; i < topo.n; i++ {
				if i != self {
					targets = append(targets, i)
				}
			}
			targets = append(targets, c28X)
			tg := targets[x.Choose(len(targets))]
			handler := []string{"onRelayConnChain", "onRelay"}[x.Choose(2)]
			var others []int // nodes that are neither self nor the target
			for i := 0; i < topo.n; i++ {
				if i != self && i != tg {
					others = append(others, i)
				}
			}
			// path menu towards the target
			var menu [][]int
			for k, h := range others {
				menu = append(menu, []int{tg, h})
				if len(others) > 1 {
					menu = append(menu, []int{tg, others[(k+1)%len(others)], h})
				}
			}
			var stored [][]int
			for _, p := range menu {
				if x.Choose(2) == 1 {
					stored = append(stored, p)
				}
			}
			// nodes the stream already went through
			var seqs [][]int
			seqs = append(seqs, nil)
			for _, a := range others {
				seqs = append(seqs, []int{a})
				for _, b := range others {
					if b != a {
						seqs = append(seqs, []int{a, b})
					}
				}
			}
			via := seqs[x.Choose(len(seqs))]
			// state reached first: the same node may already have relayed an earlier stream for
			// this target (one that had not passed through any node yet)
			prior := x.Choose(2) == 1
			names := func(p []int) string {
				var sb strings.Builder
				for _, i := range p {
					sb.WriteByte(c28Letters[i])
				}
				return sb.String()
			}
			var storedNames []string
			for _, p := range stored {
				storedNames = append(storedNames, names(p))
			}
			x.Logf("%s: node %c (topology %s) relays a stream for %c that went through [%s]; stored paths %v prior-relay=%v", handler, c28Letters[self], topo.name, c28Letters[tg], names(via), storedNames, prior)

			w := worlds[topoIdxOf(topo)]
			if w == nil {
				var err error
				w, err = c28BuildWorld(topo, logger)
				x.NoErr(err, "build kademlias")
				worlds[topoIdxOf(topo)] = w
			}
			NeighborAlpha = 3
			findTimeOut = time.Microsecond // FindRoute (no stored next hop) gives up at once; nobody answers anyway
			target := c28Idents[tg].overlay
			nextHops := map[int]bool{}
			for _, p := range stored {
				h := p[len(p)-1]
				onVia := false
				for _, v := range via {
					if v == h {
						onVia = true
					}
				}
				_ = onVia
				if topo.adj(self, h) {
					nextHops[h] = true // every stored neighbour next hop, also those on the path (a faulty node might pick them)
				}
			}
			n := 1
			if len(nextHops) > 1 && !topo.adj(self, tg) {
				n = reps
			}
			for rep := 0; rep < n; rep++ {
				ctx, cancel := context.WithCancel(context.Background())
				net := netsim.New(c28Canon)
				net.DialErr = func(from, to boson.Address, _, _, stream string) error {
					if stream == StreamOnRelay || stream == StreamOnRelayConnChain {
						return fmt.Errorf("netsim: relay dial recorded and refused")
					}
					return nil
				}
				book := addressbook.New(mockstate.NewStateStore())
				pm := &c28P2P{Service: p2pmock.New()}
				svc := New(c28Idents[self].overlay, ctx, pm, net.Streamer(c28Idents[self].overlay), book, 0,
					lightnode.NewContainer(c28Idents[self].overlay), w.kads[self], mockstate.NewStateStore(), logger, Options{Alpha: 3})
				for _, p := range stored {
					var cur []*pb.Path
					for _, i := range p {
						cur = newRouteTable(c28Idents[i].overlay, nil).generatePaths(cur)
					}
					svc.routeTable.SavePaths(cur)
				}
				req := &pb.RouteRelayReq{
					Src:             c28Idents[c28X].overlay.Bytes(),
					SrcMode:         aurora.NewModel().SetMode(aurora.FullNode).Bv.Bytes(),
					Dest:            target.Bytes(),
					ProtocolName:    []byte("test"),
					ProtocolVersion: []byte("1.0.0"),
					StreamName:      []byte("s"),
				}
				for _, v := range via {
					req.Paths = append(req.Paths, c28Idents[v].overlay.Bytes())
				}
				from := c28Idents[c28X].overlay
				if len(via) > 0 {
					from = c28Idents[via[len(via)-1]].overlay
				}
				var herr error
				relay := func(req *pb.RouteRelayReq, from boson.Address) error {
					switch handler {
					case "onRelayConnChain":
						var buf bytes.Buffer
						x.NoErr(protobuf.NewWriter(c28RW{&buf}).WriteMsgWithContext(ctx, req), "encode relay request")
						st, _ := netsim.NewInStream(buf.Bytes(), nil)
						return svc.onRelayConnChain(ctx, p2p.Peer{Address: from}, st)
					default:
						pm.req = req
						st, _ := netsim.NewInStream(nil, nil)
						return svc.onRelay(ctx, p2p.Peer{Address: from}, st)
					}
				}
				firstDial := 0
				if prior {
					req0 := *req
					req0.Paths = nil
					_ = relay(&req0, c28Idents[c28X].overlay)
					firstDial = len(net.Dials())
				}
				herr = relay(req, from)
				cancel()
				var relayDials []netsim.Dial
				for _, d := range net.Dials()[firstDial:] {
					if d.Stream == StreamOnRelay || d.Stream == StreamOnRelayConnChain {
						relayDials = append(relayDials, d)
					}
				}
				if len(relayDials) > 1 {
					x.Fail("relay-dials-more-than-one-next-hop", "%d relay dials for one request", len(relayDials))
				}
				if len(relayDials) == 0 {
					if herr == nil {
						x.Broken("handler returned nil without dialling")
					}
					if rep == 0 {
						x.Outcome("no-next-hop:handler-gives-up")
					}
					continue
				}
				next := c28Idx(relayDials[0].To.Bytes())
				if next < 0 {
					x.Fail("relay-dials-unknown-node", "dialled %s", relayDials[0].To)
				}
				if next == tg {
					if rep == 0 {
						x.Outcome("delivers-to-target")
						x.Tag("next-hop-is-target")
					}
					continue
				}
				if next == self {
					x.Fail("relay-forwards-to-itself", "node %c dialled itself", c28Letters[self])
				}
				for _, v := range via {
					if v == next {
						x.Fail("relay-forwards-to-node-on-path", "%s at %c forwarded the stream for %c to %c, which is already on its path [%s]", handler, c28Letters[self], c28Letters[tg], c28Letters[next], names(via))
					}
				}
				if !topo.adj(self, next) {
					x.Fail("relay-forwards-to-non-neighbour", "%s at %c forwarded to %c which is not a neighbour", handler, c28Letters[self], c28Letters[next])
				}
				if rep == 0 {
					x.Outcome("forwards-to-stored-next-hop")
					x.Nontrivial()
					if len(via) > 0 {
						x.Tag("forwarded-with-nonempty-path")
					}
					for _, p := range stored {
						h := p[len(p)-1]
						for _, v := range via {
							if v == h && topo.adj(self, h) {
								x.Tag("stored-next-hop-on-path-had-to-be-skipped")
							}
						}
					}
				}
			}
			_ = sort.Ints
		})
}

func topoIdxOf(t c28Topo) int {
	for i, c := range c28Topos {
		if c.name == t.name {
			return i
		}
	}
	return -1
}
