//go:build verif
// +build verif

package leveldb

import (
	"os"
	"strconv"
)

// Verification-only tuning: goleveldb allocates (and the kernel zeroes) the
// whole write buffer for every opened database. The production default of
// 32 MiB makes opening a store cost ~40 ms, which is what a model checker that
// builds a fresh store per execution spends all its time on. The sizes below
// change no code path exercised by a handful of tiny keys (no flush, no
// compaction trigger is reached with either size).
func init() {
	defaultWriteBufferSize = tuneWB()
	defaultBlockCacheCapacity = 1024 * 1024
}

func tuneWB() int {
	if v := os.Getenv("WB"); v != "" {
		n, _ := strconv.Atoi(v)
		return n
	}
	return 256 * 1024
}
