//go:build verif
// +build verif

package traversal

import (
	"bytes"
	"context"
	"encoding/binary"
	"fmt"
	"sort"
	"strings"
	"sync"
	"testing"

	"github.com/gauss-project/aurorafs/pkg/boson"
	"github.com/gauss-project/aurorafs/pkg/file/loadsave"
	"github.com/gauss-project/aurorafs/pkg/file/pipeline"
	"github.com/gauss-project/aurorafs/pkg/file/pipeline/builder"
	"github.com/gauss-project/aurorafs/pkg/manifest"
	"github.com/gauss-project/aurorafs/pkg/storage"
	storemock "github.com/gauss-project/aurorafs/pkg/storage/mock"
	"github.com/gauss-project/aurorafs/pkg/zzverif/chunkref"
	"github.com/gauss-project/aurorafs/pkg/zzverif/mc"
)

type c06tPut struct {
	addr, data []byte
}

type c06tStore struct {
	*storemock.MockStorer
	mu   sync.Mutex
	puts []c06tPut
}

func (s *c06tStore) Put(ctx context.Context, mode storage.ModePut, chs ...boson.Chunk) ([]bool, error) {
	s.mu.Lock()
	for _, ch := range chs {
		s.puts = append(s.puts, c06tPut{append([]byte{}, ch.Address().Bytes()...), append([]byte{}, ch.Data()...)})
	}
	s.mu.Unlock()
	return s.MockStorer.Put(ctx, mode, chs...)
}

// an honest case: root reference and the pyramid a correct peer would send
type c06tCase struct {
	name    string
	root    boson.Address
	pyramid map[string][]byte
	keys    []string // sorted
}

func c06tSample(n, seed int) []byte {
	b := make([]byte, n)
	for i := range b {
		b[i] = byte((i*31+seed*17)%251 + 1) // never zero: a full chunk has no zero tail
	}
	return b
}

func c06tUpload(x *mc.X, st storage.Putter, data []byte) boson.Address {
	ctx := context.Background()
	pipe := builder.NewPipelineBuilder(ctx, st, storage.ModePutUpload, false)
	a, err := builder.FeedPipeline(ctx, pipe, bytes.NewReader(data))
	x.NoErr(err, "upload")
	return a
}

var c06tCases []c06tCase

func c06tBuildCases(x *mc.X) []c06tCase {
	if c06tCases != nil {
		return c06tCases
	}
	C := boson.ChunkSize
	B := boson.Branches
	type spec struct {
		name  string
		sizes []int // one plain file, or several files in a manifest
	}
	// A pyramid carries the root and intermediate chunks of every file plus the
	// single chunk of one-chunk files. GetChunkHashes first loads the reference as
	// a manifest, which reads the *whole* blob: a plain multi-chunk file or (in
	// the scaled geometry, where manifest nodes exceed one chunk) a manifest is
	// not loadable from a pyramid even when it is honest. Hence: scaled geometry
	// = single-chunk plain files; real geometry = these plus manifests.
	specs := []spec{
		{"file-1", []int{1}},
		{"file-C-1", []int{C - 1}},
		{"file-C", []int{C}},
	}
	if B > 8 {
		specs = []spec{
			{"manifest(16B,C+1)", []int{16, C + 1}},
		}
		if mc.Thorough() {
			specs = append(specs,
				spec{"file-C", []int{C}},
				spec{"manifest(C,2C+5)", []int{C, 2*C + 5}},
			)
		}
	}
	var out []c06tCase
	for si, sp := range specs {
		st := storemock.NewStorer()
		ctx := context.Background()
		var root boson.Address
		if len(sp.sizes) == 1 {
			root = c06tUpload(x, st, c06tSample(sp.sizes[0], si))
		} else {
			ls := loadsave.New(st, func() pipeline.Interface {
				return builder.NewPipelineBuilder(context.Background(), st, storage.ModePutRequest, false)
			})
			m, err := manifest.NewMantarayManifest(ls, false)
			x.NoErr(err, "manifest")
			for fi, sz := range sp.sizes {
				fr := c06tUpload(x, st, c06tSample(sz, 40+fi))
				x.NoErr(m.Add(ctx, fmt.Sprintf("f%d.bin", fi), manifest.NewEntry(fr, nil)), "manifest add")
			}
			var err2 error
			root, err2 = m.Store(ctx)
			x.NoErr(err2, "manifest store")
		}
		p, err := New(st).GetPyramid(ctx, root)
		x.NoErr(err, "GetPyramid "+sp.name)
		c := c06tCase{name: sp.name, root: root, pyramid: p}
		for k, v := range p {
			c.keys = append(c.keys, k)
			if !chunkref.CACValid(boson.MustParseHexAddress(k).Bytes(), v) {
				x.Broken("%s: honest pyramid entry %s (%d bytes) is not reference-valid", sp.name, k, len(v))
			}
		}
		sort.Strings(c.keys)
		if _, ok := p[root.String()]; !ok {
			x.Broken("%s: honest pyramid lacks the root", sp.name)
		}
		out = append(out, c)
	}
	c06tCases = out
	return out
}

// an edit of the pyramid map (and possibly of the requested reference)
type c06tEdit struct {
	kind  string // name without the entry index
	name  string
	apply func(p map[string][]byte, root *boson.Address)
}

func c06tExtra(tag byte) (string, []byte) {
	d := make([]byte, 8+5)
	binary.LittleEndian.PutUint64(d, 5)
	copy(d[8:], []byte{'x', 't', 'r', 'a', tag})
	return boson.NewAddress(chunkref.BMT(d)).String(), d
}

func c06tEdits(c c06tCase) []c06tEdit {
	C := boson.ChunkSize
	cp := func(b []byte) []byte { return append([]byte{}, b...) }
	xk, xd := c06tExtra(1)
	es := []c06tEdit{
		{"none", "none", func(p map[string][]byte, _ *boson.Address) {}},
		{"extra-unrelated-valid-entry", "extra-unrelated-valid-entry", func(p map[string][]byte, _ *boson.Address) { p[xk] = cp(xd) }},
		{"extra-unrelated-entry-flipped", "extra-unrelated-entry-flipped", func(p map[string][]byte, _ *boson.Address) {
			d := cp(xd)
			d[9] ^= 1
			p[xk] = d
		}},
		{"extra-entry-key-not-hex", "extra-entry-key-not-hex", func(p map[string][]byte, _ *boson.Address) { p["zz"+xk[2:]] = cp(xd) }},
		{"extra-entry-short-key", "extra-entry-short-key", func(p map[string][]byte, _ *boson.Address) { p[xk[:62]] = cp(xd) }},
		{"request-other-root-absent", "request-other-root-absent", func(p map[string][]byte, root *boson.Address) { *root = boson.MustParseHexAddress(xk) }},
		{"request-other-root-present", "request-other-root-present", func(p map[string][]byte, root *boson.Address) {
			p[xk] = cp(xd)
			*root = boson.MustParseHexAddress(xk)
		}},
	}
	for i, k := range c.keys {
		k := k
		honest := c.pyramid[k]
		n := len(honest)
		who := fmt.Sprintf("entry%d", i)
		if k == c.root.String() {
			who += "(root)"
		}
		add := func(name string, f func(p map[string][]byte)) {
			kind := "entry-" + name
			if k == c.root.String() {
				kind = "root-" + name
			}
			es = append(es, c06tEdit{kind, who + "-" + name, func(p map[string][]byte, _ *boson.Address) { f(p) }})
		}
		for _, pos := range []int{0, 7, 8, 8 + 31, 8 + 32, n - 1} {
			if pos >= 0 && pos < n {
				pos := pos
				add(fmt.Sprintf("flip@%d", pos), func(p map[string][]byte) { d := cp(honest); d[pos] ^= 0x01; p[k] = d })
			}
		}
		for _, to := range []int{0, 7, 8, n - 32, n - 1} {
			if to >= 0 && to < n {
				to := to
				add(fmt.Sprintf("truncate-to-%d", to), func(p map[string][]byte) { p[k] = cp(honest[:to]) })
			}
		}
		add("append-00", func(p map[string][]byte) { p[k] = append(cp(honest), 0) })
		add("append-01", func(p map[string][]byte) { p[k] = append(cp(honest), 1) })
		add("append-ref-to-extra-entry", func(p map[string][]byte) {
			p[k] = append(cp(honest), boson.MustParseHexAddress(xk).Bytes()...)
			p[xk] = cp(xd)
		})
		if n < C+8 {
			add("zero-extend-to-capacity", func(p map[string][]byte) { p[k] = append(cp(honest), make([]byte, C+8-n)...) })
		}
		add("zero-extend-to-capacity+1", func(p map[string][]byte) { p[k] = append(cp(honest), make([]byte, C+9-n)...) })
		add("extend-to-capacity+32-nonzero", func(p map[string][]byte) {
			d := append(cp(honest), make([]byte, C+8-n)...)
			p[k] = append(d, bytes.Repeat([]byte{0x77}, 32)...)
		})
		add("replaced-by-other-valid-chunk", func(p map[string][]byte) { p[k] = cp(xd) })
		add("missing", func(p map[string][]byte) { delete(p, k) })
		add("key-uppercase-only", func(p map[string][]byte) { delete(p, k); p[strings.ToUpper(k)] = cp(honest) })
		add("key-uppercase-duplicate-with-oversize", func(p map[string][]byte) {
			p[strings.ToUpper(k)] = append(cp(honest), make([]byte, C+9-n)...)
		})
		if i+1 < len(c.keys) {
			k2 := c.keys[i+1]
			add("swapped-with-next-entry", func(p map[string][]byte) { p[k], p[k2] = cp(c.pyramid[k2]), cp(honest) })
		}
	}
	return es
}

func TestVerifC06Traversal(t *testing.T) {
	geom := fmt.Sprintf("branches=%d", boson.Branches)
	nEdits := 1
	if boson.Branches <= 8 {
		nEdits = 2
	}
	mc.Run(t, mc.Config{ID: "C06", Name: "C06-traversal-" + geom, MaxDev: -1, Params: map[string]interface{}{
		"geometry": geom,
		"cases":    "scaled geometry: plain files of 1, C-1, C bytes; real geometry: manifest{16 B, C+1}, thorough tier also a plain file of C bytes and manifest{C, 2C+5}; honest pyramid from GetPyramid (C = chunk size)",
		"edits":    "none; extra unrelated entry (valid / flipped / non-hex key / short key); request a root that is absent / an unrelated present entry; per pyramid entry: flip@{0,7,8,39,40,last}, truncate to {0,7,8,len-32,len-1}, append 00 / 01 / a reference to an extra entry, zero-extend to capacity / capacity+1, extend to capacity+32 non-zero, replaced by another valid chunk, missing, upper-case key only, upper-case duplicate carrying an oversize copy, swapped with the next entry",
		"edits_per_execution": nEdits,
	}}, func(x *mc.X) {
		cases := c06tBuildCases(x)
		ci := x.Choose(len(cases))
		c := cases[ci]
		edits := c06tEdits(c)
		p := map[string][]byte{}
		for k, v := range c.pyramid {
			p[k] = append([]byte{}, v...)
		}
		root := c.root
		x.Logf("case %s: %d honest pyramid entries", c.name, len(c.keys))
		edited := false
		kind := ""
		for e := 0; e < nEdits; e++ {
			ei := x.Choose(len(edits))
			if e > 0 && ei == 0 {
				break
			}
			x.Logf("edit: %s", edits[ei].name)
			edits[ei].apply(p, &root)
			if e == 0 {
				kind = edits[ei].kind
			} else {
				kind = "two-edits"
			}
			edited = edited || ei != 0
		}
		if edited {
			x.Nontrivial()
		}
		// reference classification of the supplied map
		allValid := true
		for k, v := range p {
			a, err := boson.ParseHexAddress(k)
			if err != nil || !chunkref.CACValid(a.Bytes(), v) {
				allValid = false
			}
		}

		st := &c06tStore{MockStorer: storemock.NewStorer()}
		var err error
		pan := mc.Try(func() { _, _, err = New(st).GetChunkHashes(context.Background(), root, p) })

		honest := map[string]bool{}
		for _, k := range c.keys {
			honest[k] = true
		}
		for _, put := range st.puts {
			if !chunkref.Valid(put.addr, put.data) {
				C := boson.ChunkSize
				if len(put.data) > C+8 && chunkref.CACValid(put.addr, put.data[:C+8]) {
					x.Fail("stored-oversize-pyramid-chunk", "GetChunkHashes stored %d bytes (capacity %d) under %x: only the first %d bytes hash to the address; not a valid chunk", len(put.data), C+8, put.addr, C+8)
				}
				x.Fail("stored-invalid-pyramid-chunk", "GetChunkHashes stored %d bytes under %x: neither a valid CAC nor SOC for that address", len(put.data), put.addr)
			}
			if !honest[boson.NewAddress(put.addr).String()] {
				x.Tag("stored-chunk-outside-honest-tree")
			}
			if !bytes.Equal(put.data, c.pyramid[boson.NewAddress(put.addr).String()]) {
				x.Tag("stored-valid-variant")
			}
		}
		switch {
		case pan != nil:
			x.Tag("panic-in-GetChunkHashes")
			x.Logf("panic: %v", pan)
			x.Outcome(fmt.Sprintf("%s: panic/stored=%v", kind, len(st.puts) > 0))
		case err != nil:
			x.Logf("error: %v", err)
			if len(st.puts) > 0 {
				x.Tag("stored-although-error")
			}
			x.Outcome(fmt.Sprintf("%s: error/all-entries-valid=%v/stored=%v", kind, allValid, len(st.puts) > 0))
		default:
			x.Outcome(fmt.Sprintf("%s: ok/all-entries-valid=%v/stored=%v", kind, allValid, len(st.puts) > 0))
		}
	})
}
