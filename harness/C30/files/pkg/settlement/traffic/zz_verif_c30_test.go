//go:build verif
// +build verif

package traffic

import (
	"context"
	"crypto/ecdsa"
	"errors"
	"fmt"
	"io"
	"math/big"
	"sort"
	"strings"
	"sync"
	"testing"
	"time"

	"github.com/ethereum/go-ethereum/common"
	"github.com/ethereum/go-ethereum/core/types"
	"github.com/gauss-project/aurorafs/pkg/boson"
	"github.com/gauss-project/aurorafs/pkg/crypto"
	"github.com/gauss-project/aurorafs/pkg/logging"
	"github.com/gauss-project/aurorafs/pkg/p2p"
	chequePkg "github.com/gauss-project/aurorafs/pkg/settlement/traffic/cheque"
	"github.com/gauss-project/aurorafs/pkg/statestore/mock"
	"github.com/gauss-project/aurorafs/pkg/storage"
	"github.com/gauss-project/aurorafs/pkg/subscribe"
	"github.com/gauss-project/aurorafs/pkg/zzverif/mc"
)

const c30ChainID = 1

// ---- actors (fixed keys, generated once per process) ------------------------

type c30Actor struct {
	name    string
	key     *ecdsa.PrivateKey
	addr    common.Address
	overlay boson.Address
	signer  chequePkg.ChequeSigner
}

func c30NewActor(name string, seed byte) *c30Actor {
	b := make([]byte, 32)
	for i := range b {
		b[i] = seed
	}
	k := crypto.Secp256k1PrivateKeyFromBytes(b)
	s := crypto.NewDefaultSigner(k)
	a, err := s.EthereumAddress()
	if err != nil {
		panic(err)
	}
	ov := make([]byte, 32)
	for i := range ov {
		ov[i] = seed ^ 0xff
	}
	return &c30Actor{name: name, key: k, addr: a, overlay: boson.NewAddress(ov), signer: chequePkg.NewChequeSigner(s, c30ChainID)}
}

// ---- the cheque menu ----------------------------------------------------------

type c30Cheque struct {
	desc      string
	sc        chequePkg.SignedCheque
	issuer    string // name of the stated issuer (the Beneficiary field): "P","Q","U"
	payout    int64
	forSelf   bool // names this node as recipient
	signedOK  bool // carries a valid signature of the stated issuer over exactly these fields
	defect    string
}

type c30World struct {
	self, p, q, u, x *c30Actor
	byName           map[string]*c30Actor
	cheques          []c30Cheque
}

var (
	c30Once sync.Once
	c30W    *c30World
)

func c30Sign(signer *c30Actor, recipient, issuer common.Address, payout int64) chequePkg.SignedCheque {
	c := chequePkg.Cheque{Recipient: recipient, Beneficiary: issuer, CumulativePayout: big.NewInt(payout)}
	sig, err := signer.signer.Sign(&c)
	if err != nil {
		panic(err)
	}
	return chequePkg.SignedCheque{Cheque: c, Signature: sig}
}

func c30Build(full bool) *c30World {
	w := &c30World{self: c30NewActor("self", 1), p: c30NewActor("P", 2), q: c30NewActor("Q", 3), u: c30NewActor("U", 4), x: c30NewActor("X", 5)}
	w.byName = map[string]*c30Actor{"P": w.p, "Q": w.q, "U": w.u}
	add := func(c c30Cheque) { w.cheques = append(w.cheques, c) }
	valid := func(is *c30Actor, v int64) {
		add(c30Cheque{desc: fmt.Sprintf("%s:%d", is.name, v), sc: c30Sign(is, w.self.addr, is.addr, v), issuer: is.name, payout: v, forSelf: true, signedOK: true})
	}
	pay := []int64{5, 10, 20}
	for _, is := range []*c30Actor{w.p, w.q} {
		for _, v := range pay {
			if full || is == w.p || v != 20 {
				valid(is, v)
			}
		}
		other := w.q
		if is == w.q {
			other = w.p
		}
		if !full && is == w.q {
			continue // quick: the defective variants are enumerated for issuer P only
		}
		// properly signed by the issuer, but made out to somebody else
		add(c30Cheque{desc: is.name + ":20-to-" + other.name, sc: c30Sign(is, other.addr, is.addr, 20), issuer: is.name, payout: 20, forSelf: false, signedOK: true, defect: "wrong-recipient"})
		// signed by an unrelated key, claiming the issuer
		add(c30Cheque{desc: is.name + ":20-signed-by-X", sc: c30Sign(w.x, w.self.addr, is.addr, 20), issuer: is.name, payout: 20, forSelf: true, signedOK: false, defect: "foreign-signature"})
		// a genuine cheque for 5 whose amount was raised to 20 after signing
		rs := c30Sign(is, w.self.addr, is.addr, 5)
		rs.CumulativePayout = big.NewInt(20)
		add(c30Cheque{desc: is.name + ":5-raised-to-20", sc: rs, issuer: is.name, payout: 20, forSelf: true, signedOK: false, defect: "amount-altered"})
		if full {
			// signed by the other registered peer, claiming this issuer
			add(c30Cheque{desc: is.name + ":20-signed-by-" + other.name, sc: c30Sign(other, w.self.addr, is.addr, 20), issuer: is.name, payout: 20, forSelf: true, signedOK: false, defect: "foreign-signature"})
			// signature bytes damaged
			bs := c30Sign(is, w.self.addr, is.addr, 20)
			bs.Signature = append([]byte{}, bs.Signature...)
			bs.Signature[10] ^= 0x01
			add(c30Cheque{desc: is.name + ":20-sig-bit-flipped", sc: bs, issuer: is.name, payout: 20, forSelf: true, signedOK: false, defect: "damaged-signature"})
			ts := c30Sign(is, w.self.addr, is.addr, 20)
			ts.Signature = ts.Signature[:len(ts.Signature)-1]
			add(c30Cheque{desc: is.name + ":20-sig-truncated", sc: ts, issuer: is.name, payout: 20, forSelf: true, signedOK: false, defect: "damaged-signature"})
			ns := c30Sign(is, w.self.addr, is.addr, 20)
			ns.Signature = nil
			add(c30Cheque{desc: is.name + ":20-unsigned", sc: ns, issuer: is.name, payout: 20, forSelf: true, signedOK: false, defect: "damaged-signature"})
		}
	}
	// a cheque that raises nothing
	add(c30Cheque{desc: "P:0", sc: c30Sign(w.p, w.self.addr, w.p.addr, 0), issuer: "P", payout: 0, forSelf: true, signedOK: true})
	// a perfectly good cheque of an issuer nobody registered
	add(c30Cheque{desc: "U:10", sc: c30Sign(w.u, w.self.addr, w.u.addr, 10), issuer: "U", payout: 10, forSelf: true, signedOK: true})
	// wrong recipient AND unregistered issuer
	if full {
		add(c30Cheque{desc: "U:10-to-P", sc: c30Sign(w.u, w.p.addr, w.u.addr, 10), issuer: "U", payout: 10, forSelf: false, signedOK: true, defect: "wrong-recipient"})
		add(c30Cheque{desc: "self:10", sc: c30Sign(w.self, w.self.addr, w.self.addr, 10), issuer: "self", payout: 10, forSelf: true, signedOK: true})
	}
	return w
}

func c30World0() *c30World {
	c30Once.Do(func() { c30W = c30Build(mc.Thorough()) })
	return c30W
}

// ---- stubs ----------------------------------------------------------------------

// c30PubSub is the subscription hub stub: it only counts the notifications the
// service publishes from its background goroutines, so the harness can wait for them.
type c30PubSub struct {
	ch chan string
}

func (s *c30PubSub) Subscribe(n subscribe.INotifier, nameSpace string, kind string, param string) error {
	return nil
}
func (s *c30PubSub) Publish(nameSpace string, kind string, param string, message interface{}) error {
	s.ch <- kind
	return nil
}
func (s *c30PubSub) PublishArray(nameSpace string, kind string, field string, messageList []interface{}) error {
	return nil
}
func (s *c30PubSub) wait(x *mc.X, n int) {
	for i := 0; i < n; i++ {
		select {
		case <-s.ch:
		case <-time.After(30 * time.Second):
			x.Broken("background publication %d of %d did not arrive", i+1, n)
		}
	}
}
func (s *c30PubSub) idle(x *mc.X) {
	select {
	case k := <-s.ch:
		x.Broken("unexpected background publication %q", k)
	default:
	}
}

type c30P2P struct{ p2p.Service }

func (c30P2P) Disconnect(boson.Address, string) error { return nil }

// c30Store wraps the real cheque store and records what ReceiveCheque returned.
type c30Store struct {
	chequePkg.ChequeStore
	calls []c30Call
}
type c30Call struct {
	issuer common.Address
	amount *big.Int
	err    error
}

func (s *c30Store) ReceiveCheque(ctx context.Context, c *chequePkg.SignedCheque) (*big.Int, error) {
	amt, err := s.ChequeStore.ReceiveCheque(ctx, c)
	s.calls = append(s.calls, c30Call{c.Beneficiary, amt, err})
	return amt, err
}

// c30Chain is the chain stub: the only source of on-chain values. cashedFrom[I] is
// what this node has already cashed on chain from issuer I's cheques
// (TransAmount(I, self)); told[I] is the value last handed to the node.
type c30Chain struct {
	mu         sync.Mutex
	self       common.Address
	cashedFrom map[common.Address]int64
	told       map[common.Address]int64
}

func (c *c30Chain) TransferredAddress(common.Address) ([]common.Address, error) {
	c.mu.Lock()
	defer c.mu.Unlock()
	var out []common.Address
	for a, v := range c.cashedFrom {
		if v > 0 {
			out = append(out, a)
		}
	}
	sort.Slice(out, func(i, j int) bool { return out[i].String() < out[j].String() })
	return out, nil
}
func (c *c30Chain) RetrievedAddress(common.Address) ([]common.Address, error) { return nil, nil }
func (c *c30Chain) BalanceOf(common.Address) (*big.Int, error)                { return big.NewInt(1000), nil }
func (c *c30Chain) RetrievedTotal(common.Address) (*big.Int, error)           { return big.NewInt(0), nil }
func (c *c30Chain) TransferredTotal(common.Address) (*big.Int, error)         { return big.NewInt(0), nil }
func (c *c30Chain) TransAmount(beneficiary, recipient common.Address) (*big.Int, error) {
	c.mu.Lock()
	defer c.mu.Unlock()
	if recipient == c.self {
		c.told[beneficiary] = c.cashedFrom[beneficiary]
		return big.NewInt(c.cashedFrom[beneficiary]), nil
	}
	return big.NewInt(0), nil
}
func (c *c30Chain) CashChequeBeneficiary(context.Context, boson.Address, common.Address, common.Address, *big.Int, []byte) (*types.Transaction, error) {
	return nil, errors.New("not used")
}

type c30Sys struct {
	w     *c30World
	st    storage.StateStorer
	chain *c30Chain
	svc   *Service
	store *c30Store
	pub   *c30PubSub
}

// c30Fresh builds a node on an empty state store whose chain already shows
// cashedP / cashedQ cashed from the two issuers (0,0 = a really new node; non-zero =
// a node that lost or never had its state store), registers P and Q and runs Init.
func c30Fresh(x *mc.X, w *c30World, cashedP, cashedQ int64) *c30Sys {
	s := &c30Sys{w: w, st: mock.NewStateStore(), pub: &c30PubSub{ch: make(chan string, 64)}, store: &c30Store{}}
	s.chain = &c30Chain{self: w.self.addr, cashedFrom: map[common.Address]int64{w.p.addr: cashedP, w.q.addr: cashedQ}, told: map[common.Address]int64{}}
	s.start(x, true)
	// the node has served both peers (cheques pay for served traffic); this is also what makes a
	// peer's address known to trafficInit after a restart
	for _, a := range []*c30Actor{w.p, w.q} {
		x.NoErr(s.svc.PutTransferTraffic(a.overlay, big.NewInt(50)), "PutTransferTraffic")
		s.pub.wait(x, 2)
	}
	return s
}

// start creates a Service on the (possibly already filled) state store and runs
// Init, as the node does at start-up.
func (s *c30Sys) start(x *mc.X, first bool) {
	w := s.w
	ab := NewAddressBook(s.st)
	if first {
		x.NoErr(ab.PutBeneficiary(w.p.overlay, w.p.addr), "register P")
		x.NoErr(ab.PutBeneficiary(w.q.overlay, w.q.addr), "register Q")
	}
	s.store.ChequeStore = chequePkg.NewChequeStore(s.st, w.self.addr, chequePkg.RecoverCheque, c30ChainID)
	s.svc = New(logging.New(io.Discard, 0), w.self.addr, s.st, s.chain, s.store, nil, c30P2P{}, ab, w.self.signer, nil, c30ChainID, s.pub)
	x.NoErr(s.svc.Init(), "Service.Init")
}

func (s *c30Sys) close() {
	close(s.svc.cashChequeChan) // ends the receipt goroutine New started (the 24 h ticker goroutine cannot be stopped)
}

// c30Model is the reference: highest accepted payout per issuer.
type c30Model struct {
	max map[string]int64
}

// why returns "" if the statement allows accepting the cheque from that sender,
// else the first reason it does not.
func (m *c30Model) why(w *c30World, sender string, c *c30Cheque) string {
	switch {
	case !c.forSelf:
		return "wrong-recipient"
	case !c.signedOK:
		return "bad-signature"
	case c.payout <= m.max[c.issuer]:
		return "not-raising"
	case sender == "U":
		return "unregistered-sender"
	case sender != c.issuer:
		return "sender-is-not-the-issuer"
	}
	return ""
}

func c30Int(b *big.Int) string {
	if b == nil {
		return "nil"
	}
	return b.String()
}

// dump: everything the service and store remember about received cheques.
func (s *c30Sys) dump(x *mc.X) string {
	var parts []string
	for _, a := range []*c30Actor{s.w.p, s.w.q, s.w.u, s.w.x, s.w.self} {
		lc, err := s.store.LastReceivedCheque(a.addr)
		if err != nil && !errors.Is(err, chequePkg.ErrNoCheque) {
			x.Broken("LastReceivedCheque: %v", err)
		}
		parts = append(parts, fmt.Sprintf("last[%s]=%s/%v", a.name, c30Int(lc.CumulativePayout), err == nil))
	}
	s.svc.trafficPeers.trafficLock.Lock()
	var keys []string
	for k := range s.svc.trafficPeers.trafficPeers {
		keys = append(keys, k)
	}
	sort.Strings(keys)
	for _, k := range keys {
		t := s.svc.trafficPeers.trafficPeers[k]
		name := k
		for _, a := range []*c30Actor{s.w.p, s.w.q, s.w.u, s.w.x, s.w.self} {
			if a.addr.String() == k {
				name = a.name
			}
		}
		parts = append(parts, fmt.Sprintf("traffic[%s]=%s,%s,%s", name, c30Int(t.transferChequeTraffic), c30Int(t.transferTraffic), c30Int(t.transferChainTraffic)))
	}
	s.svc.trafficPeers.trafficLock.Unlock()
	s.chain.mu.Lock()
	for _, a := range []*c30Actor{s.w.p, s.w.q} {
		parts = append(parts, fmt.Sprintf("chain[%s]=%d/told %d", a.name, s.chain.cashedFrom[a.addr], s.chain.told[a.addr]))
	}
	s.chain.mu.Unlock()
	return strings.Join(parts, " ")
}

// credited reads the in-memory received-settlement counter of a peer's record (0 if there is none).
func (s *c30Sys) credited(a *c30Actor) int64 {
	s.svc.trafficPeers.trafficLock.Lock()
	defer s.svc.trafficPeers.trafficLock.Unlock()
	if t := s.svc.trafficPeers.trafficPeers[a.addr.String()]; t != nil {
		return t.transferChequeTraffic.Int64()
	}
	return 0
}

// observe compares every credit record with the reference.
func (s *c30Sys) observe(x *mc.X, m *c30Model, when string) {
	w := s.w
	// (1) what the store returned: total per issuer == highest accepted payout
	sum := map[common.Address]*big.Int{}
	for _, c := range s.store.calls {
		if c.err == nil {
			if sum[c.issuer] == nil {
				sum[c.issuer] = new(big.Int)
			}
			x.Check(c.amount != nil && c.amount.Sign() > 0, "accepted-cheque-credits-nothing", "%s: store accepted a cheque with amount %s", when, c30Int(c.amount))
			sum[c.issuer].Add(sum[c.issuer], c.amount)
		}
	}
	for _, a := range []*c30Actor{w.p, w.q, w.u, w.x, w.self} {
		want := m.max[a.name]
		got := int64(0)
		if sum[a.addr] != nil {
			got = sum[a.addr].Int64()
		}
		x.Check(got == want, "credited-total-differs-from-highest-accepted-payout", "%s: amounts credited for issuer %s add up to %d, highest accepted payout is %d", when, a.name, got, want)
		lc, err := s.store.LastReceivedCheque(a.addr)
		have := err == nil
		x.Check(have == (want > 0) && lc.CumulativePayout.Int64() == want, "stored-last-cheque-differs", "%s: stored last cheque of issuer %s is %s (present=%v), highest accepted payout is %d", when, a.name, c30Int(lc.CumulativePayout), have, want)
	}
	// (2) the per-peer records of the service
	for _, a := range []*c30Actor{w.p, w.q} {
		want := m.max[a.name]
		lc, err := s.svc.LastReceivedCheque(a.overlay)
		if err != nil && !errors.Is(err, chequePkg.ErrNoCheque) {
			x.Broken("Service.LastReceivedCheque: %v", err)
		}
		x.Check(lc.CumulativePayout.Int64() == want, "service-last-cheque-differs", "%s: Service.LastReceivedCheque(%s) = %s, want %d", when, a.name, c30Int(lc.CumulativePayout), want)
		if want > 0 {
			x.Check(lc.Beneficiary == a.addr, "service-last-cheque-of-other-issuer", "%s: Service.LastReceivedCheque(%s) names issuer %x", when, a.name, lc.Beneficiary)
		}
	}
	// (3) the credited total per issuer as the service shows it. Weakest sound reading (see NOTES.md):
	// it is at least the highest accepted cumulative payout H and at most max(H, C) where C is what the
	// chain last said this node already cashed from that issuer; anything above is credited twice.
	tcs, err := s.svc.TrafficCheques()
	x.NoErr(err, "TrafficCheques")
	seen := map[string]int64{}
	for _, tc := range tcs {
		name := "?"
		for _, a := range []*c30Actor{w.p, w.q} {
			if tc.Peer.Equal(a.overlay) {
				name = a.name
			}
		}
		seen[name] = tc.ReceivedSettlements.Int64()
	}
	var sumLo, sumHi, sumMem int64
	for _, a := range []*c30Actor{w.p, w.q} {
		lo := m.max[a.name]
		hi := lo
		if c := s.chain.told[a.addr]; c > hi {
			hi = c
		}
		sumLo, sumHi = sumLo+lo, sumHi+hi
		mem := s.credited(a)
		sumMem += mem
		inRange := func(v int64) bool { return v >= lo && v <= hi }
		key := "credited-to-wrong-peer-record"
		if mem > hi && lo > 0 {
			key = "credited-more-than-highest-accepted-payout"
		}
		x.Check(inRange(mem), key, "%s: peer %s's record shows received settlements %d; highest accepted payout of that issuer is %d, chain-cashed (as last told) %d", when, a.name, mem, lo, s.chain.told[a.addr])
		if _, listed := seen[a.name]; listed {
			x.Check(seen[a.name] == mem, "trafficcheques-differs-from-record", "%s: TrafficCheques shows %d for %s, record holds %d", when, seen[a.name], a.name, mem)
		}
		sent, err := s.svc.TotalSent(a.overlay)
		x.NoErr(err, "TotalSent")
		out, err := s.svc.TransferTraffic(a.overlay)
		x.NoErr(err, "TransferTraffic")
		x.Check(inRange(sent.Int64()-out.Int64()), key, "%s: TotalSent(%s)-TransferTraffic(%s) = %d-%d credits %d; highest accepted payout %d, chain-cashed %d", when, a.name, a.name, sent.Int64(), out.Int64(), sent.Int64()-out.Int64(), lo, s.chain.told[a.addr])
	}
	x.Check(seen["?"] == 0, "credited-to-wrong-peer-record", "%s: a record of an unknown peer shows received settlements", when)
	for _, a := range []*c30Actor{w.u, w.x, w.self} {
		x.Check(s.credited(a) == 0, "credited-to-wrong-peer-record", "%s: a record for %s shows received settlements %d", when, a.name, s.credited(a))
	}
	ti, err := s.svc.TrafficInfo()
	x.NoErr(err, "TrafficInfo")
	rt := ti.ReceivedTraffic.Int64()
	x.Check(rt >= sumLo && rt <= sumHi, "credited-more-than-highest-accepted-payout", "%s: TrafficInfo.ReceivedTraffic=%d, highest accepted payouts add up to %d (with chain-cashed parts at most %d)", when, rt, sumLo, sumHi)
	_ = sumMem
}

const c30QuickDepth = 4

func TestVerifC30(t *testing.T) {
	w := c30World0()
	depth := mc.Pick(c30QuickDepth, 7)
	senders := []string{"P", "Q", "U"}
	// what the chain already shows as cashed from (P, Q) when the node starts on an empty store
	initial := [][2]int64{{0, 0}, {7, 0}, {15, 7}}
	extra := []string{"refresh", "restart", "we-cash(P)", "we-cash(Q)"}
	var menu []string
	for _, c := range w.cheques {
		menu = append(menu, c.desc)
	}
	mc.Run(t, mc.Config{ID: "C30", Name: "C30-service", MaxDev: -1, Params: map[string]interface{}{
		"depth": depth, "senders": "P,Q registered; U unregistered", "cheques": menu, "other_ops": extra,
		"initial_chain_cashed_from_P_Q": initial}},
		func(x *mc.X) {
			ini := initial[x.Choose(len(initial))]
			s := c30Fresh(x, w, ini[0], ini[1])
			defer func() { s.close() }()
			x.Logf("start on an empty store; chain shows %d cashed from P, %d from Q", ini[0], ini[1])
			m := &c30Model{max: map[string]int64{}}
			accepted, refusedValidLooking := 0, 0
			s.observe(x, m, "after start")
			nrecv := len(senders) * len(w.cheques)
			for step := 0; step < depth; step++ {
				op := x.Choose(nrecv + len(extra))
				if op >= nrecv {
					switch extra[op-nrecv] {
					case "refresh":
						x.NoErr(s.svc.trafficInit(), "trafficInit")
					case "restart":
						s.close()
						s.start(x, false)
					default: // this node cashes the last accepted cheque of P / Q: the chain amount follows
						a := []*c30Actor{w.p, w.q}[op-nrecv-2]
						s.chain.mu.Lock()
						if m.max[a.name] > s.chain.cashedFrom[a.addr] {
							s.chain.cashedFrom[a.addr] = m.max[a.name]
							x.Tag("chain-cashed-amount-raised-by-history")
						}
						s.chain.mu.Unlock()
					}
					x.Logf("%s", extra[op-nrecv])
					s.pub.idle(x)
					s.observe(x, m, fmt.Sprintf("after step %d (%s)", step+1, extra[op-nrecv]))
					if x.Seen(s.dump(x)+fmt.Sprintf(" | model %v nt=%v", m.max, accepted >= 1 && (refusedValidLooking >= 1 || accepted >= 2)), depth-step-1) {
						return
					}
					continue
				}
				sender := senders[op%len(senders)]
				c := &w.cheques[op/len(senders)]
				var from boson.Address
				if sender == "U" {
					from = w.u.overlay
				} else {
					from = w.byName[sender].overlay
				}
				sc := c.sc // fresh copy of the struct; the big.Int is never modified by the code under test
				sc.CumulativePayout = new(big.Int).Set(c.sc.CumulativePayout)
				err := s.svc.ReceiveCheque(context.Background(), from, &sc)
				why := m.why(w, sender, c)
				x.Logf("%s sends %s -> err=%v (reference: %s)", sender, c.desc, err, map[bool]string{true: "accept", false: "refuse: " + why}[why == ""])
				if err == nil {
					s.pub.wait(x, 1)
					if why != "" {
						x.Logf("records after the call: %s", s.dump(x))
						x.Fail("accepted-"+why, "step %d: cheque %s arriving from %s was accepted (highest accepted payout of %s so far: %d)", step+1, c.desc, sender, c.issuer, m.max[c.issuer])
					}
					if told := s.chain.told[c.sc.Beneficiary]; told > m.max[c.issuer] {
						x.Tag("accepted-while-chain-cashed-exceeds-stored-last-cheque")
					}
					m.max[c.issuer] = c.payout
					accepted++
					x.Outcome("accepted")
				} else {
					if why == "" {
						x.Fail("valid-cheque-refused", "step %d: cheque %s arriving from its registered issuer refused: %v", step+1, c.desc, err)
					}
					x.Outcome("refused-" + why)
					x.Tag("refused-" + why)
					if why == "not-raising" && m.max[c.issuer] > 0 {
						refusedValidLooking++
						if c.payout == m.max[c.issuer] {
							x.Tag("replay-refused")
						} else if c.payout > 0 {
							x.Tag("decreasing-refused")
						}
					}
				}
				s.pub.idle(x)
				s.observe(x, m, fmt.Sprintf("after step %d", step+1))
				if accepted >= 1 && (refusedValidLooking >= 1 || accepted >= 2) {
					x.Nontrivial()
				}
				key := s.dump(x) + fmt.Sprintf(" | model %v nt=%v", m.max, accepted >= 1 && (refusedValidLooking >= 1 || accepted >= 2))
				if x.Seen(key, depth-step-1) {
					return
				}
			}
		})
}

// The store on its own (ChequeStore.ReceiveCheque return values).
func TestVerifC30Store(t *testing.T) {
	w := c30World0()
	depth := mc.Pick(5, 7)
	mc.Run(t, mc.Config{ID: "C30", Name: "C30-store", MaxDev: -1, Params: map[string]interface{}{"depth": depth, "cheques": len(w.cheques)}},
		func(x *mc.X) {
			st := mock.NewStateStore()
			cs := chequePkg.NewChequeStore(st, w.self.addr, chequePkg.RecoverCheque, c30ChainID)
			max := map[string]int64{}
			total := map[string]int64{}
			acc := 0
			for step := 0; step < depth; step++ {
				c := &w.cheques[x.Choose(len(w.cheques))]
				sc := c.sc
				sc.CumulativePayout = new(big.Int).Set(c.sc.CumulativePayout)
				amt, err := cs.ReceiveCheque(context.Background(), &sc)
				why := ""
				switch {
				case !c.forSelf:
					why = "wrong-recipient"
				case !c.signedOK:
					why = "bad-signature"
				case c.payout <= max[c.issuer]:
					why = "not-raising"
				}
				x.Logf("store receives %s -> amount=%s err=%v (reference: %q)", c.desc, c30Int(amt), err, why)
				if err == nil {
					if why != "" {
						x.Fail("store-accepted-"+why, "step %d: cheque %s accepted by the store", step+1, c.desc)
					}
					x.Check(amt != nil && amt.Int64() == c.payout-max[c.issuer], "store-amount-is-not-the-raise", "step %d: %s credited %s, raise is %d", step+1, c.desc, c30Int(amt), c.payout-max[c.issuer])
					max[c.issuer] = c.payout
					total[c.issuer] += amt.Int64()
					acc++
					x.Outcome("accepted")
				} else {
					if why == "" {
						x.Fail("valid-cheque-refused", "step %d: %s refused by the store: %v", step+1, c.desc, err)
					}
					x.Outcome("refused-" + why)
				}
				var parts []string
				for _, a := range []*c30Actor{w.p, w.q, w.u, w.x, w.self} {
					lc, err := cs.LastReceivedCheque(a.addr)
					if err != nil && !errors.Is(err, chequePkg.ErrNoCheque) {
						x.Broken("LastReceivedCheque: %v", err)
					}
					x.Check(lc.CumulativePayout.Int64() == max[a.name] && total[a.name] == max[a.name], "store-credit-differs-from-highest-accepted-payout",
						"after step %d: issuer %s: stored %s, credited in total %d, highest accepted %d", step+1, a.name, c30Int(lc.CumulativePayout), total[a.name], max[a.name])
					parts = append(parts, c30Int(lc.CumulativePayout))
				}
				all, err := cs.LastReceivedCheques()
				x.NoErr(err, "LastReceivedCheques")
				for addr, lc := range all {
					x.Check(lc.Beneficiary == addr, "store-cheque-under-wrong-issuer", "cheque of %x listed under %x", lc.Beneficiary, addr)
				}
				if acc >= 2 {
					x.Nontrivial()
				}
				if x.Seen(strings.Join(parts, ",")+fmt.Sprint(acc >= 2), depth-step-1) {
					return
				}
			}
		})
}

// ---------------------------------------------------------------------------
// Large-value regime: cumulative payouts around 2^63, 2^64 and 2^128 (payouts are
// uint256 on chain; 2^63 base units are 9.2 tokens at 18 decimals). All cheques here
// are genuine and arrive from their issuer, so only "raises the issuer's cumulative
// payout" and the credited totals are at stake; the reference is kept in big.Int.
// ---------------------------------------------------------------------------

type c30Big struct {
	desc   string
	issuer *c30Actor
	payout *big.Int
	sc     chequePkg.SignedCheque
}

var (
	c30BigOnce sync.Once
	c30BigMenu []c30Big
)

func c30Pow2(n uint, add int64) *big.Int {
	v := new(big.Int).Lsh(big.NewInt(1), n)
	return v.Add(v, big.NewInt(add))
}

func c30BigBuild(w *c30World) {
	vals := []struct {
		n string
		v *big.Int
	}{
		{"5", big.NewInt(5)}, {"11", big.NewInt(11)},
		{"2^63-1", c30Pow2(63, -1)}, {"2^63", c30Pow2(63, 0)}, {"2^63+1", c30Pow2(63, 1)},
		{"2^64-1", c30Pow2(64, -1)}, {"2^64", c30Pow2(64, 0)}, {"2^64+10", c30Pow2(64, 10)}, {"2^128", c30Pow2(128, 0)},
	}
	mk := func(is *c30Actor, n string, v *big.Int) {
		c := chequePkg.Cheque{Recipient: w.self.addr, Beneficiary: is.addr, CumulativePayout: new(big.Int).Set(v)}
		sig, err := is.signer.Sign(&c)
		if err != nil {
			panic(err)
		}
		c30BigMenu = append(c30BigMenu, c30Big{desc: is.name + ":" + n, issuer: is, payout: new(big.Int).Set(v), sc: chequePkg.SignedCheque{Cheque: c, Signature: sig}})
	}
	for _, v := range vals {
		mk(w.p, v.n, v.v)
	}
	mk(w.q, "11", big.NewInt(11))
	mk(w.q, "2^64+10", c30Pow2(64, 10))
}

func c30BigMenu0() []c30Big {
	w := c30World0()
	c30BigOnce.Do(func() { c30BigBuild(w) })
	return c30BigMenu
}

func c30BigStr(m map[string]*big.Int) string {
	return fmt.Sprintf("P=%s Q=%s", m["P"], m["Q"])
}

func TestVerifC30LargeStore(t *testing.T) {
	w := c30World0()
	menu := c30BigMenu0()
	depth := mc.Pick(4, 5)
	var names []string
	for _, c := range menu {
		names = append(names, c.desc)
	}
	mc.Run(t, mc.Config{ID: "C30", Name: "C30-large-store", MaxDev: -1, Params: map[string]interface{}{"depth": depth, "cheques": names}},
		func(x *mc.X) {
			cs := chequePkg.NewChequeStore(mock.NewStateStore(), w.self.addr, chequePkg.RecoverCheque, c30ChainID)
			max := map[string]*big.Int{"P": new(big.Int), "Q": new(big.Int)}
			total := map[string]*big.Int{"P": new(big.Int), "Q": new(big.Int)}
			acc, big63 := 0, false
			for step := 0; step < depth; step++ {
				c := &menu[x.Choose(len(menu))]
				sc := c.sc
				sc.CumulativePayout = new(big.Int).Set(c.payout)
				amt, err := cs.ReceiveCheque(context.Background(), &sc)
				h := max[c.issuer.name]
				raises := c.payout.Cmp(h) > 0
				diff := new(big.Int).Sub(c.payout, h)
				x.Logf("store receives %s (last accepted %s) -> amount=%s err=%v", c.desc, h, c30Int(amt), err)
				if new(big.Int).Abs(diff).BitLen() > 63 {
					big63 = true
					x.Tag("distance-to-last-accepted-needs-more-than-63-bits")
				}
				if err == nil {
					x.Check(raises, "store-accepted-not-raising", "step %d: cheque %s accepted although the last accepted payout is %s", step+1, c.desc, h)
					x.Check(amt != nil && amt.Cmp(diff) == 0, "store-amount-is-not-the-raise", "step %d: %s credited %s, raise is %s", step+1, c.desc, c30Int(amt), diff)
					max[c.issuer.name] = new(big.Int).Set(c.payout)
					total[c.issuer.name].Add(total[c.issuer.name], amt)
					acc++
					x.Outcome("accepted")
				} else {
					x.Check(!raises, "valid-cheque-refused", "step %d: %s refused (%v) although it raises the last accepted payout %s", step+1, c.desc, err, h)
					x.Outcome("refused-not-raising")
				}
				for _, a := range []*c30Actor{w.p, w.q} {
					lc, err := cs.LastReceivedCheque(a.addr)
					if err != nil && !errors.Is(err, chequePkg.ErrNoCheque) {
						x.Broken("LastReceivedCheque: %v", err)
					}
					x.Check(lc.CumulativePayout.Cmp(max[a.name]) == 0 && total[a.name].Cmp(max[a.name]) == 0, "store-credit-differs-from-highest-accepted-payout",
						"after step %d: issuer %s: stored %s, credited in total %s, highest accepted %s", step+1, a.name, c30Int(lc.CumulativePayout), total[a.name], max[a.name])
				}
				if acc >= 2 && big63 {
					x.Nontrivial()
				}
				if x.Seen(c30BigStr(max)+fmt.Sprint(acc >= 2, big63), depth-step-1) {
					return
				}
			}
		})
}

func TestVerifC30LargeService(t *testing.T) {
	w := c30World0()
	menu := c30BigMenu0()
	depth := mc.Pick(4, 5)
	var names []string
	for _, c := range menu {
		names = append(names, c.desc)
	}
	extra := []string{"refresh", "restart"}
	mc.Run(t, mc.Config{ID: "C30", Name: "C30-large-service", MaxDev: -1, Params: map[string]interface{}{"depth": depth, "cheques": names, "other_ops": extra,
		"senders": "every cheque arrives from its registered issuer"}},
		func(x *mc.X) {
			s := c30Fresh(x, w, 0, 0)
			defer func() { s.close() }()
			max := map[string]*big.Int{"P": new(big.Int), "Q": new(big.Int)}
			total := map[common.Address]*big.Int{w.p.addr: new(big.Int), w.q.addr: new(big.Int)}
			acc, big63 := 0, false
			x.Logf("start: new node")
			for step := 0; step < depth; step++ {
				op := x.Choose(len(menu) + len(extra))
				if op >= len(menu) {
					if extra[op-len(menu)] == "refresh" {
						x.NoErr(s.svc.trafficInit(), "trafficInit")
					} else {
						s.close()
						s.start(x, false)
					}
					x.Logf("%s", extra[op-len(menu)])
				} else {
					c := &menu[op]
					sc := c.sc
					sc.CumulativePayout = new(big.Int).Set(c.payout)
					n0 := len(s.store.calls)
					err := s.svc.ReceiveCheque(context.Background(), c.issuer.overlay, &sc)
					h := max[c.issuer.name]
					raises := c.payout.Cmp(h) > 0
					x.Logf("%s sends %s (last accepted %s) -> err=%v", c.issuer.name, c.desc, h, err)
					if new(big.Int).Abs(new(big.Int).Sub(c.payout, h)).BitLen() > 63 {
						big63 = true
						x.Tag("distance-to-last-accepted-needs-more-than-63-bits")
					}
					if err == nil {
						s.pub.wait(x, 1)
						x.Check(raises, "accepted-not-raising", "step %d: cheque %s accepted although the highest accepted payout of %s is %s", step+1, c.desc, c.issuer.name, h)
						max[c.issuer.name] = new(big.Int).Set(c.payout)
						acc++
						x.Outcome("accepted")
					} else {
						x.Check(!raises, "valid-cheque-refused", "step %d: %s refused (%v) although it raises the highest accepted payout %s", step+1, c.desc, err, h)
						x.Outcome("refused-not-raising")
					}
					for _, call := range s.store.calls[n0:] {
						if call.err == nil {
							x.Check(call.amount != nil && call.amount.Sign() > 0, "accepted-cheque-credits-nothing", "step %d: store accepted %s with amount %s", step+1, c.desc, c30Int(call.amount))
							total[call.issuer].Add(total[call.issuer], call.amount)
						}
					}
				}
				s.pub.idle(x)
				when := fmt.Sprintf("after step %d", step+1)
				tcs, err := s.svc.TrafficCheques()
				x.NoErr(err, "TrafficCheques")
				sum := new(big.Int)
				for _, a := range []*c30Actor{w.p, w.q} {
					h := max[a.name]
					sum.Add(sum, h)
					x.Check(total[a.addr].Cmp(h) == 0, "credited-total-differs-from-highest-accepted-payout", "%s: amounts credited for issuer %s add up to %s, highest accepted payout is %s", when, a.name, total[a.addr], h)
					lc, err := s.svc.LastReceivedCheque(a.overlay)
					if err != nil && !errors.Is(err, chequePkg.ErrNoCheque) {
						x.Broken("Service.LastReceivedCheque: %v", err)
					}
					x.Check(lc.CumulativePayout.Cmp(h) == 0, "service-last-cheque-differs", "%s: Service.LastReceivedCheque(%s) = %s, want %s", when, a.name, c30Int(lc.CumulativePayout), h)
					s.svc.trafficPeers.trafficLock.Lock()
					mem := new(big.Int)
					if t := s.svc.trafficPeers.trafficPeers[a.addr.String()]; t != nil {
						mem.Set(t.transferChequeTraffic)
					}
					s.svc.trafficPeers.trafficLock.Unlock()
					key := "credited-to-wrong-peer-record"
					if mem.Cmp(h) > 0 {
						key = "credited-more-than-highest-accepted-payout"
					}
					x.Check(mem.Cmp(h) == 0, key, "%s: peer %s's record shows received settlements %s, highest accepted payout of that issuer is %s", when, a.name, mem, h)
					for _, tc := range tcs {
						if tc.Peer.Equal(a.overlay) {
							x.Check(tc.ReceivedSettlements.Cmp(mem) == 0, "trafficcheques-differs-from-record", "%s: TrafficCheques shows %s for %s, record holds %s", when, tc.ReceivedSettlements, a.name, mem)
						}
					}
					sent, err := s.svc.TotalSent(a.overlay)
					x.NoErr(err, "TotalSent")
					out, err := s.svc.TransferTraffic(a.overlay)
					x.NoErr(err, "TransferTraffic")
					x.Check(new(big.Int).Sub(sent, out).Cmp(h) == 0, key, "%s: TotalSent(%s)-TransferTraffic(%s) = %s, highest accepted payout %s", when, a.name, a.name, new(big.Int).Sub(sent, out), h)
				}
				ti, err := s.svc.TrafficInfo()
				x.NoErr(err, "TrafficInfo")
				x.Check(ti.ReceivedTraffic.Cmp(sum) == 0, "credited-more-than-highest-accepted-payout", "%s: TrafficInfo.ReceivedTraffic=%s, highest accepted payouts add up to %s", when, ti.ReceivedTraffic, sum)
				if acc >= 2 && big63 {
					x.Nontrivial()
				}
				if x.Seen(s.dump(x)+" | "+c30BigStr(max)+fmt.Sprint(acc >= 2, big63), depth-step-1) {
					return
				}
			}
		})
}
