//go:build verif
// +build verif

package routetab

import (
	"bytes"
	"context"
	"fmt"
	"io"
	"testing"
	"time"

	"github.com/gauss-project/aurorafs/pkg/addressbook"
	"github.com/gauss-project/aurorafs/pkg/aurora"
	"github.com/gauss-project/aurorafs/pkg/boson"
	"github.com/gauss-project/aurorafs/pkg/crypto"
	discmock "github.com/gauss-project/aurorafs/pkg/discovery/mock"
	"github.com/gauss-project/aurorafs/pkg/logging"
	"github.com/gauss-project/aurorafs/pkg/p2p"
	p2pmock "github.com/gauss-project/aurorafs/pkg/p2p/mock"
	"github.com/gauss-project/aurorafs/pkg/routetab/pb"
	"github.com/gauss-project/aurorafs/pkg/shed"
	shedldb "github.com/gauss-project/aurorafs/pkg/shed/leveldb"
	mockstate "github.com/gauss-project/aurorafs/pkg/statestore/mock"
	"github.com/gauss-project/aurorafs/pkg/storage"
	"github.com/gauss-project/aurorafs/pkg/subscribe"
	"github.com/gauss-project/aurorafs/pkg/topology/kademlia"
	"github.com/gauss-project/aurorafs/pkg/topology/lightnode"
	"github.com/gauss-project/aurorafs/pkg/zzverif/mc"
	"github.com/gauss-project/aurorafs/pkg/zzverif/wire"
	ma "github.com/multiformats/go-multiaddr"
)

const (
	c37Driver    = "verifc37leveldb"
	c37NetworkID = 0
)

func init() { shed.Register(c37Driver, shedldb.Driver{}) }

func c37Addr(first, last byte) boson.Address {
	b := make([]byte, 32)
	b[0], b[31] = first, last
	return boson.NewAddress(b)
}

var (
	c37Self     = c37Addr(0x80, 1)
	c37Neighbor = c37Addr(0xc0, 2) // connected, sends the messages
	c37Neigh2   = c37Addr(0x40, 3) // connected
	c37Routed   = c37Addr(0x20, 4) // reachable through a stored route via c37Neigh2
	c37Unknown  = c37Addr(0x10, 5)
	c37Peer     = p2p.Peer{Address: c37Neighbor, Mode: aurora.NewModel().SetMode(aurora.FullNode)}
)

type c37Signed struct {
	addr *aurora.Address
}

// a correctly signed aurora address with a fixed key
func c37SignedAddr(t interface{ Fatal(...interface{}) }) *aurora.Address {
	k, err := crypto.DecodeSecp256k1PrivateKey(bytes.Repeat([]byte{0x51}, 32))
	if err != nil {
		t.Fatal(err)
	}
	o, err := crypto.NewOverlayAddress(k.PublicKey, c37NetworkID)
	if err != nil {
		t.Fatal(err)
	}
	u, err := ma.NewMultiaddr("/ip4/8.8.4.4/tcp/7071/p2p/16Uiu2HAkx8ULY8cTXhdVAcMmLcH9AsTKz6uBQ7DPLKRjMLgBVYkS")
	if err != nil {
		t.Fatal(err)
	}
	a, err := aurora.NewAddress(crypto.NewDefaultSigner(k), u, o, c37NetworkID)
	if err != nil {
		t.Fatal(err)
	}
	return a
}

type c37Node struct {
	svc    *Service
	kad    *kademlia.Kad
	book   addressbook.Interface
	store  storage.StateStorer
	sr     *wire.Streamer
	cancel context.CancelFunc
}

// The routetab handlers only *read* the Kademlia instance (connected peers,
// depth, snapshots); it is therefore built once per process (with its own
// address book and metrics DB) and shared by all executions. Everything the
// handlers write to - route table, pending calls, state store, the service's
// address book - is fresh per execution.
var c37SharedKad *kademlia.Kad

func c37Kad(x *mc.X) *kademlia.Kad {
	if c37SharedKad == nil {
		db, err := shed.NewDB("", &shed.Options{Driver: c37Driver + `:{"WriteBuffer":16384,"BlockCacheCapacity":16384}`})
		x.NoErr(err, "shed")
		kad, err := kademlia.New(c37Self, addressbook.New(mockstate.NewStateStore()), discmock.NewDiscovery(), p2pmock.New(), nil, nil, nil, db,
			logging.New(io.Discard, 0), subscribe.NewSubPub(), kademlia.Options{BinMaxPeers: 10, NodeMode: aurora.NewModel().SetMode(aurora.FullNode)})
		x.NoErr(err, "kademlia")
		for _, a := range []boson.Address{c37Neighbor, c37Neigh2} {
			kad.Outbound(p2p.Peer{Address: a, Mode: aurora.NewModel().SetMode(aurora.FullNode)})
		}
		c37SharedKad = kad
	}
	return c37SharedKad
}

func c37NewNode(x *mc.X, reply []byte, signed *aurora.Address) *c37Node {
	logger := logging.New(io.Discard, 0)
	ab := addressbook.New(mockstate.NewStateStore())
	kad := c37Kad(x)
	ctx, cancel := context.WithCancel(context.Background())
	n := &c37Node{kad: kad, book: ab, cancel: cancel, store: mockstate.NewStateStore()}
	n.sr = &wire.Streamer{Reply: func(boson.Address, string, string, int) []byte { return reply }}
	n.svc = New(c37Self, ctx, p2pmock.New(), n.sr, ab, c37NetworkID, lightnode.NewContainer(c37Self), kad, n.store, logger, Options{})
	// an honest stored route: routed target <- ... <- neighbour 2
	n.svc.routeTable.SavePath(&pb.Path{Sign: []byte{1}, Bodys: [][]byte{{1}, {2}}, Items: [][]byte{c37Routed.Bytes(), c37Neigh2.Bytes()}})
	if signed != nil {
		x.NoErr(ab.Put(signed.Overlay, *signed), "book")
	}
	return n
}

func (n *c37Node) close() {
	n.cancel()
}

// followUp: the local operations that consume routes, pending calls and
// address book entries which a message may have created.
func (n *c37Node) followUp(x *mc.X, dests [][]byte) {
	s := n.svc
	ctx := context.Background()
	targets := []boson.Address{c37Routed, c37Unknown, c37Neighbor, c37Self, boson.ZeroAddress}
	for _, d := range dests {
		targets = append(targets, boson.NewAddress(d))
	}
	for _, t := range targets {
		routes, err := s.GetRoute(ctx, t)
		if err == nil {
			_ = s.getClosestNeighborLimit(t, routes, 3)
			for _, r := range routes {
				_ = convItemsToBytes(r.Items)
			}
			_ = s.routeTable.convertPathsToPbPaths(routes)
		}
		_ = s.getNextHopRandom(t)
		_ = s.getNextHopEffective(t, c37Neighbor)
		_ = s.IsNeighbor(t)
		_ = s.isConnected(ctx, t)
		_ = s.getNeighbor(t, 2)
		_, _ = n.book.Get(t)
		// a later well-formed request for the same target served from the polluted state
		_ = s.onRouteReq(ctx, c37Peer, wire.NewStream(wire.Frame(&pb.RouteReq{Dest: t.Bytes(), Alpha: 2, UType: 1,
			Paths: []*pb.Path{{Sign: []byte{9}, Bodys: [][]byte{{9}}, Items: [][]byte{c37Neighbor.Bytes()}}}})))
	}
	s.pendingCalls.GcReqLog(0)
	s.pendingCalls.GcResItems(0)
	// reload everything that was persisted, then expire it
	t2 := newRouteTable(c37Self, n.store)
	t2.ResumeRoutes()
	t2.ResumePaths()
	for _, t := range targets {
		_, _ = t2.Get(t)
		_ = t2.GetNextHop(t)
	}
	t2.Gc(0)
	time.Sleep(0)
	s.routeTable.Gc(-time.Hour)
	for _, t := range targets {
		_ = s.DelRoute(ctx, t)
	}
	_, _ = n.book.Addresses()
}

type c37Paths struct {
	name  string
	paths []*pb.Path
}

func c37PathAlphabet() []c37Paths {
	a, b := c37Addr(0x31, 0x31).Bytes(), c37Addr(0x32, 0x32).Bytes()
	ok := func(items ...[]byte) *pb.Path {
		return &pb.Path{Sign: bytes.Repeat([]byte{7}, 32), Bodys: [][]byte{{1, 2, 3, 4}, {5, 6, 7, 8}}, Items: items}
	}
	long := make([][]byte, 0, 12)
	for i := 0; i < 11; i++ {
		long = append(long, c37Addr(0x33, byte(i)).Bytes())
	}
	return []c37Paths{
		{"none", nil},
		{"valid[a,neighbor]", []*pb.Path{ok(a, c37Neighbor.Bytes())}},
		{"valid[a,b,neighbor]+[routed,neighbor]", []*pb.Path{ok(a, b, c37Neighbor.Bytes()), ok(c37Routed.Bytes(), c37Neighbor.Bytes())}},
		{"empty-path-message", []*pb.Path{{}}},
		{"one-item", []*pb.Path{ok(a)}},
		{"items-of-odd-length[empty,1,33]", []*pb.Path{ok([]byte{}, []byte{0x01}, append(append([]byte{}, a...), 0xff))}},
		{"item-64KiB", []*pb.Path{ok(make([]byte, 64<<10), a)}},
		{"contains-self", []*pb.Path{ok(a, c37Self.Bytes(), b)}},
		{"ttl+1-items", []*pb.Path{ok(long...)}},
		{"no-sign-no-bodys", []*pb.Path{{Items: [][]byte{a, b}}}},
		{"sign-64KiB-bodys-empty-entries", []*pb.Path{{Sign: make([]byte, 64<<10), Bodys: [][]byte{{}, {}, {}}, Items: [][]byte{a, b}}}},
		{"duplicate-items", []*pb.Path{ok(a, a, a)}},
		{"three-paths-same-target", []*pb.Path{ok(a, b), ok(a, c37Neighbor.Bytes()), ok(a, c37Neigh2.Bytes()), ok(a, c37Addr(0x35, 1).Bytes())}},
	}
}

type c37UList struct {
	name string
	ul   []*pb.UnderlayResp
}

func c37UListAlphabet(signed *aurora.Address) []c37UList {
	u, _ := signed.Underlay.MarshalBinary()
	flip := append([]byte{}, signed.Signature...)
	flip[3] ^= 1
	return []c37UList{
		{"none", nil},
		{"valid", []*pb.UnderlayResp{{Dest: signed.Overlay.Bytes(), Underlay: u, Signature: signed.Signature}}},
		{"empty-message", []*pb.UnderlayResp{{}}},
		{"bad-signature", []*pb.UnderlayResp{{Dest: signed.Overlay.Bytes(), Underlay: u, Signature: flip}}},
		{"short-fields", []*pb.UnderlayResp{{Dest: []byte{1}, Underlay: []byte{4}, Signature: []byte{1}}, {Dest: signed.Overlay.Bytes(), Underlay: u[:5], Signature: signed.Signature}}},
		{"dest-mismatch", []*pb.UnderlayResp{{Dest: c37Unknown.Bytes(), Underlay: u, Signature: signed.Signature}}},
	}
}

func TestVerifC37(t *testing.T) {
	signed := c37SignedAddr(t)
	paths := c37PathAlphabet()
	ulists := c37UListAlphabet(signed)
	dests := append(wire.BytesField(c37Unknown.Bytes(), 64<<10),
		wire.BytesVal{Name: "self", V: c37Self.Bytes()}, wire.BytesVal{Name: "neighbor", V: c37Neigh2.Bytes()},
		wire.BytesVal{Name: "routed", V: c37Routed.Bytes()}, wire.BytesVal{Name: "in-address-book", V: signed.Overlay.Bytes()})
	type au struct{ alpha, utype int32 }
	aus := []au{{2, 1}, {0, 0}, {1, 2}, {-1, -1}, {2147483647, 2147483647}, {-2147483648, 1}, {2, -2147483648}}

	validReq := &pb.RouteReq{Dest: c37Unknown.Bytes(), Alpha: 2, UType: 1, Paths: paths[1].paths, UList: ulists[1].ul}
	validResp := &pb.RouteResp{Dest: c37Unknown.Bytes(), UType: 1, Paths: paths[1].paths, UList: ulists[1].ul}
	type tagged struct {
		wire.Case
		dest []byte
	}
	var reqCases, respCases []wire.Case
	destOf := map[string][]byte{}
	reqCases = append(reqCases, wire.Standard(validReq)...)
	respCases = append(respCases, wire.Standard(validResp)...)
	for _, d := range dests {
		for _, p := range paths {
			for _, u := range ulists {
				for _, x := range aus {
					// all single and pairwise deviations from (unknown dest, valid path, valid ulist, alpha 2/utype 1)
					dev := 0
					if d.Name != "valid" {
						dev++
					}
					if p.name != paths[1].name {
						dev++
					}
					if u.name != "valid" {
						dev++
					}
					if x != aus[0] {
						dev++
					}
					if dev > 2 {
						continue
					}
					name := fmt.Sprintf("dest=%s,paths=%s,ulist=%s,alpha=%d,utype=%d", d.Name, p.name, u.name, x.alpha, x.utype)
					destOf[name] = d.V
					reqCases = append(reqCases, wire.Msg(name, &pb.RouteReq{Dest: d.V, Alpha: x.alpha, UType: x.utype, Paths: p.paths, UList: u.ul}))
					if x.alpha == 2 || x.alpha == 0 {
						respCases = append(respCases, wire.Msg(name, &pb.RouteResp{Dest: d.V, UType: x.utype, Paths: p.paths, UList: u.ul}))
					}
				}
			}
		}
	}
	var fuCases []wire.Case
	fuCases = append(fuCases, wire.Standard(&pb.UnderlayReq{Dest: signed.Overlay.Bytes()})...)
	for _, d := range dests {
		fuCases = append(fuCases, wire.Msg("dest="+d.Name, &pb.UnderlayReq{Dest: d.V}))
	}
	ub, _ := signed.Underlay.MarshalBinary()
	validUR := &pb.UnderlayResp{Dest: signed.Overlay.Bytes(), Underlay: ub, Signature: signed.Signature}
	var urCases []wire.Case
	urCases = append(urCases, wire.Standard(validUR)...)
	var uls []wire.BytesVal
	uls = append(uls, wire.BytesField(ub, 64<<10)...)
	for k := 1; k < len(ub); k++ {
		uls = append(uls, wire.BytesVal{Name: fmt.Sprintf("prefix-%d", k), V: ub[:k]})
	}
	for _, d := range wire.BytesField(signed.Overlay.Bytes(), 64<<10) {
		for _, u := range uls {
			for _, s := range wire.BytesField(signed.Signature, 0) {
				dev := 0
				for _, nme := range []string{d.Name, u.Name, s.Name} {
					if nme != "valid" {
						dev++
					}
				}
				if dev <= 2 {
					urCases = append(urCases, wire.Msg(fmt.Sprintf("dest=%s,underlay=%s,sig=%s", d.Name, u.Name, s.Name), &pb.UnderlayResp{Dest: d.V, Underlay: u.V, Signature: s.V}))
				}
			}
		}
	}

	handler := func(n *c37Node, name string) p2p.HandlerFunc {
		for _, s := range n.svc.Protocol().StreamSpecs {
			if s.Name == name {
				return s.Handler
			}
		}
		return nil
	}
	targets := []wire.Target{
		{Name: "handler(router/onRouteReq)", Cases: reqCases, Run: func(x *mc.X, c wire.Case) string {
			n := c37NewNode(x, nil, signed)
			defer n.close()
			err := handler(n, streamOnRouteReq)(context.Background(), c37Peer, wire.NewStream(c.Data))
			if n.sr.Count() > 0 {
				x.Tag("routereq-forwarded-or-answered")
			}
			n.followUp(x, [][]byte{destOf[c.Name]})
			return wire.ErrClass(err)
		}},
		{Name: "handler(router/onRouteResp)", Cases: respCases, Run: func(x *mc.X, c wire.Case) string {
			n := c37NewNode(x, nil, nil)
			defer n.close()
			// somebody is waiting for this target: the response is forwarded
			if d, ok := destOf[c.Name]; ok {
				n.svc.pendingCalls.Add(boson.NewAddress(d), c37Neigh2, c37Neighbor, nil)
			}
			n.svc.pendingCalls.Add(c37Unknown, c37Neigh2, c37Neighbor, nil)
			err := handler(n, streamOnRouteResp)(context.Background(), c37Peer, wire.NewStream(c.Data))
			if n.sr.Count() > 0 {
				x.Tag("routeresp-forwarded")
			}
			n.followUp(x, [][]byte{destOf[c.Name]})
			return wire.ErrClass(err)
		}},
		{Name: "handler(router/onFindUnderlay)", Cases: fuCases, Run: func(x *mc.X, c wire.Case) string {
			n := c37NewNode(x, nil, signed)
			defer n.close()
			st := wire.NewStream(c.Data)
			err := handler(n, streamOnFindUnderlay)(context.Background(), c37Peer, st)
			if len(st.Written()) > 0 {
				x.Tag("findunderlay-answered")
			}
			return wire.ErrClass(err)
		}},
		{Name: "client(FindUnderlay)", Cases: urCases, Run: func(x *mc.X, c wire.Case) string {
			n := c37NewNode(x, c.Data, nil)
			defer n.close()
			a, err := n.svc.FindUnderlay(context.Background(), signed.Overlay)
			if err == nil {
				x.Tag("findunderlay-accepted")
				_ = a.String()
			}
			n.followUp(x, [][]byte{signed.Overlay.Bytes()})
			return wire.ErrClass(err)
		}},
	}
	wire.Explore(t, func(cfg mc.Config, body func(*mc.X)) { mc.Run(t, cfg, body) }, "C37-routetab", map[string]interface{}{
		"alphabet": "RouteReq/RouteResp: standard framing/wire faults + all single and pairwise deviations over dest{unknown(valid),absent,empty,1,31,33,64,other,64KiB,self,neighbor,routed,in address book} x paths{13 shapes: none, valid, two valid, empty message, one item, odd item lengths, 64KiB item, contains self, ttl+1 items, no sign/bodys, 64KiB sign/empty bodys, duplicates, 4 paths to one target} x ulist{none,valid,empty message,bad signature,short fields,dest mismatch} x (alpha,utype){7 pairs incl. 0,-1,min,max}; UnderlayReq: standard faults + 13 dests; UnderlayResp (client read): standard faults + single/pairwise deviations of dest(9) x underlay(9 + every strict prefix) x signature(8)",
		"not_covered": "onRelay and onRelayConnChain delegate to p2p.Service.CallHandler, which exists only in pkg/p2p/libp2p (does not build)",
	}, targets)
}
