//go:build verif
// +build verif

// Package nodelite assembles the storage side of an aurora node the way
// pkg/node/node.go wires it (pkg/node itself does not build in this
// environment): real localstore.DB -> real netstore.Store -> real traversal,
// real pinning.Service (directly on the localstore, like node.go), real
// chunkinfo.ChunkInfo on a real leveldb state store, and the real HTTP API
// (api.New) driven through httptest. Only the network is stubbed: route,
// streamer, chain oracle, pub/sub and the retrieval protocol (whose tail —
// report the source to chunkinfo, then Put(ModePutRequest) under the file's
// root context — is replayed from pkg/retrieval/retrieval.go).
//
// The store's background GC worker is terminated right after construction
// (localstore.VerifDisownGCWorker); the harness plays the worker's loop body
// itself (Node.GC), so nothing runs concurrently with the harness and every
// execution is a deterministic function of the operation sequence.
package nodelite

import (
	"bytes"
	"context"
	"encoding/json"
	"errors"
	"fmt"
	"io"
	"net/http"
	"net/http/httptest"
	"sort"
	"strings"
	"sync"
	"sync/atomic"
	"time"

	"github.com/ethereum/go-ethereum/common"
	"github.com/ethereum/go-ethereum/core/types"
	"github.com/gauss-project/aurorafs/pkg/api"
	"github.com/gauss-project/aurorafs/pkg/aurora"
	"github.com/gauss-project/aurorafs/pkg/boson"
	"github.com/gauss-project/aurorafs/pkg/chunkinfo"
	"github.com/gauss-project/aurorafs/pkg/file/joiner"
	"github.com/gauss-project/aurorafs/pkg/localstore"
	"github.com/gauss-project/aurorafs/pkg/logging"
	"github.com/gauss-project/aurorafs/pkg/netstore"
	"github.com/gauss-project/aurorafs/pkg/p2p"
	"github.com/gauss-project/aurorafs/pkg/pinning"
	"github.com/gauss-project/aurorafs/pkg/retrieval/aco"
	"github.com/gauss-project/aurorafs/pkg/routetab"
	"github.com/gauss-project/aurorafs/pkg/rpc"
	"github.com/gauss-project/aurorafs/pkg/sctx"
	"github.com/gauss-project/aurorafs/pkg/settlement/chain"
	"github.com/gauss-project/aurorafs/pkg/shed"
	"github.com/gauss-project/aurorafs/pkg/shed/driver"
	shedleveldb "github.com/gauss-project/aurorafs/pkg/shed/leveldb"
	ssleveldb "github.com/gauss-project/aurorafs/pkg/statestore/leveldb"
	"github.com/gauss-project/aurorafs/pkg/storage"
	"github.com/gauss-project/aurorafs/pkg/subscribe"
	"github.com/gauss-project/aurorafs/pkg/traversal"
)

const driverName = "verifmem"

var (
	memDriver = shedleveldb.NewVerifDriver()
	clock     int64
	logger    = logging.New(io.Discard, 0)

	// SelfAddr is the overlay of the node under test, PeerAddr the overlay the
	// stub network delivers from.
	SelfAddr = boson.MustParseHexAddress("00" + strings.Repeat("11", 31))
	PeerAddr = boson.MustParseHexAddress("ff" + strings.Repeat("22", 31))
)

func init() {
	shed.Register(driverName, memDriver)
	localstore.VerifSetNow(func() int64 { return atomic.AddInt64(&clock, 1) })
}

// ---------------------------------------------------------------- stubs

type stubRoute struct{}

var errNoNet = errors.New("nodelite: no network")

func (stubRoute) GetRoute(context.Context, boson.Address) ([]*routetab.Path, error) {
	return nil, errNoNet
}
func (stubRoute) FindRoute(context.Context, boson.Address, ...time.Duration) ([]*routetab.Path, error) {
	return nil, errNoNet
}
func (stubRoute) DelRoute(context.Context, boson.Address) error { return nil }
func (stubRoute) Connect(context.Context, boson.Address) error  { return errNoNet }
func (stubRoute) GetTargetNeighbor(context.Context, boson.Address, int) ([]boson.Address, error) {
	return nil, errNoNet
}
func (stubRoute) IsNeighbor(boson.Address) bool { return false }
func (stubRoute) FindUnderlay(context.Context, boson.Address, ...time.Duration) (*aurora.Address, error) {
	return nil, errNoNet
}

type stubStreamer struct{}

func (stubStreamer) NewStream(context.Context, boson.Address, p2p.Headers, string, string, string) (p2p.Stream, error) {
	return nil, errNoNet
}
func (stubStreamer) NewRelayStream(context.Context, boson.Address, p2p.Headers, string, string, string, bool) (p2p.Stream, error) {
	return nil, errNoNet
}
func (stubStreamer) NewConnChainRelayStream(context.Context, boson.Address, p2p.Headers, string, string, string) (p2p.Stream, error) {
	return nil, errNoNet
}

type stubOracle struct{}

func (stubOracle) GetCid(string) []byte                                        { return nil }
func (stubOracle) GetNodesFromCid([]byte) []boson.Address                      { return nil }
func (stubOracle) GetSourceNodes(string) []boson.Address                       { return nil }
func (stubOracle) OnStoreMatched(boson.Address, uint64, uint64, boson.Address) {}
func (stubOracle) DataStoreFinished(boson.Address, uint64, uint64, []byte, chan chain.ChainResult) {
}
func (stubOracle) RegisterCidAndNode(context.Context, boson.Address, boson.Address) (common.Hash, error) {
	return common.Hash{}, errNoNet
}
func (stubOracle) RemoveCidAndNode(context.Context, boson.Address, boson.Address) (common.Hash, error) {
	return common.Hash{}, errNoNet
}
func (stubOracle) GetRegisterState(context.Context, boson.Address, boson.Address) (bool, error) {
	return false, nil
}
func (stubOracle) WaitForReceipt(context.Context, boson.Address, common.Hash) (*types.Receipt, error) {
	return nil, errNoNet
}
func (stubOracle) API() rpc.API { return rpc.API{} }

type stubSubPub struct{}

func (stubSubPub) Subscribe(subscribe.INotifier, string, string, string) error { return nil }
func (stubSubPub) Publish(string, string, string, interface{}) error           { return nil }
func (stubSubPub) PublishArray(string, string, string, []interface{}) error    { return nil }

// stubRetrieval stands for pkg/retrieval.Service: a chunk the "network" has
// (universe membership and the node's Deliverable filter) is reported to
// chunkinfo and stored exactly like retrieval.Service.retrieveChunk does after
// a successful delivery (retrieval.go: OnChunkRetrieved, then
// Put(SetRootHash(ctx, root), ModePutRequest, chunk)).
type stubRetrieval struct{ n *Node }

func (r stubRetrieval) RetrieveChunk(ctx context.Context, rootAddr, chunkAddr boson.Address) (boson.Chunk, error) {
	n := r.n
	if n.U == nil {
		return nil, errNoNet
	}
	data, ok := n.U.Chunks[chunkAddr.String()]
	if !ok || (n.Deliverable != nil && !n.Deliverable(chunkAddr)) {
		return nil, errNoNet
	}
	ch := boson.NewChunk(chunkAddr, data)
	if err := n.CI.OnChunkRetrieved(chunkAddr, rootAddr, PeerAddr); err != nil {
		return nil, fmt.Errorf("retrieval: report chunk source: %v", err)
	}
	if _, err := n.storer.Put(sctx.SetRootHash(ctx, rootAddr), storage.ModePutRequest, ch); err != nil {
		return nil, fmt.Errorf("retrieval: storage put cache:%v", err)
	}
	n.Retrieved++
	return ch, nil
}
func (stubRetrieval) GetRouteScore(int64) map[string]int64 { return nil }

// syncStore is the localstore as netstore sees it. Get(ModeGetRequest) spawns
// a goroutine that refreshes the access time (localstore.updateGCItems); the
// wrapper waits for it before returning, i.e. it fixes the schedule "the
// refresh runs at once". Without it the order of the refresh relative to the
// caller's next store operation would depend on the Go scheduler.
//
// Calls are serialised (the joiner reads sibling chunks from parallel
// goroutines; sync.WaitGroup must not be waited on while another Get adds to it).
type syncStore struct{ *localstore.DB }

var syncStoreMu sync.Mutex

func (s syncStore) Get(ctx context.Context, mode storage.ModeGet, addr boson.Address) (boson.Chunk, error) {
	syncStoreMu.Lock()
	defer syncStoreMu.Unlock()
	ch, err := s.DB.Get(ctx, mode, addr)
	s.DB.VerifWaitUpdateGC()
	return ch, err
}

func (s syncStore) GetMulti(ctx context.Context, mode storage.ModeGet, addrs ...boson.Address) ([]boson.Chunk, error) {
	syncStoreMu.Lock()
	defer syncStoreMu.Unlock()
	ch, err := s.DB.GetMulti(ctx, mode, addrs...)
	s.DB.VerifWaitUpdateGC()
	return ch, err
}

// ---------------------------------------------------------------- shared API

// The HTTP service is built once per process (gorilla/mux compiles ~80 route
// regexps, several ms) over forwarding proxies that delegate every call to the
// components of the node that is current. The proxies add nothing: api.New
// receives exactly the values node.go passes (netstore, chunkinfo, traversal,
// pinning), one indirection away.
var (
	current   *Node
	sharedAPI api.Service
)

type storerProxy struct{}

func (storerProxy) Get(ctx context.Context, mode storage.ModeGet, addr boson.Address) (boson.Chunk, error) {
	return current.NS.Get(ctx, mode, addr)
}
func (storerProxy) GetMulti(ctx context.Context, mode storage.ModeGet, addrs ...boson.Address) ([]boson.Chunk, error) {
	return current.NS.GetMulti(ctx, mode, addrs...)
}
func (storerProxy) Put(ctx context.Context, mode storage.ModePut, chs ...boson.Chunk) ([]bool, error) {
	return current.NS.Put(ctx, mode, chs...)
}
func (storerProxy) Has(ctx context.Context, mode storage.ModeHas, addr boson.Address) (bool, error) {
	return current.NS.Has(ctx, mode, addr)
}
func (storerProxy) HasMulti(ctx context.Context, mode storage.ModeHas, addrs ...boson.Address) ([]bool, error) {
	return current.NS.HasMulti(ctx, mode, addrs...)
}
func (storerProxy) Set(ctx context.Context, mode storage.ModeSet, addrs ...boson.Address) error {
	return current.NS.Set(ctx, mode, addrs...)
}
func (storerProxy) Close() error { return nil }

type traversalProxy struct{}

func (traversalProxy) Traverse(ctx context.Context, a boson.Address, f boson.AddressIterFunc) error {
	return current.Tr.Traverse(ctx, a, f)
}
func (traversalProxy) GetPyramid(ctx context.Context, a boson.Address) (map[string][]byte, error) {
	return current.Tr.GetPyramid(ctx, a)
}
func (traversalProxy) GetChunkHashes(ctx context.Context, a boson.Address, p map[string][]byte) ([][][]byte, [][]byte, error) {
	return current.Tr.GetChunkHashes(ctx, a, p)
}

type pinningProxy struct{}

func (pinningProxy) CreatePin(ctx context.Context, a boson.Address, t bool) error {
	return current.Pin.CreatePin(ctx, a, t)
}
func (pinningProxy) DeletePin(ctx context.Context, a boson.Address) error {
	return current.Pin.DeletePin(ctx, a)
}
func (pinningProxy) HasPin(a boson.Address) (bool, error) { return current.Pin.HasPin(a) }
func (pinningProxy) Pins() ([]boson.Address, error)       { return current.Pin.Pins() }

type chunkInfoProxy struct{}

func (chunkInfoProxy) FindChunkInfo(ctx context.Context, auth []byte, r boson.Address, o []boson.Address) bool {
	return current.CI.FindChunkInfo(ctx, auth, r, o)
}
func (chunkInfoProxy) GetChunkInfo(r, c boson.Address) []aco.Route { return current.CI.GetChunkInfo(r, c) }
func (chunkInfoProxy) GetChunkInfoDiscoverOverlays(r boson.Address) []aurora.ChunkInfoOverlay {
	return current.CI.GetChunkInfoDiscoverOverlays(r)
}
func (chunkInfoProxy) GetChunkInfoServerOverlays(r boson.Address) []aurora.ChunkInfoOverlay {
	return current.CI.GetChunkInfoServerOverlays(r)
}
func (chunkInfoProxy) CancelFindChunkInfo(r boson.Address) { current.CI.CancelFindChunkInfo(r) }
func (chunkInfoProxy) OnChunkTransferred(c, r, o, t boson.Address) error {
	return current.CI.OnChunkTransferred(c, r, o, t)
}
func (chunkInfoProxy) Init(ctx context.Context, auth []byte, r boson.Address) bool {
	return current.CI.Init(ctx, auth, r)
}
func (chunkInfoProxy) GetChunkPyramid(r boson.Address) []*chunkinfo.PyramidCidNum {
	return current.CI.GetChunkPyramid(r)
}
func (chunkInfoProxy) IsDiscover(r boson.Address) bool { return current.CI.IsDiscover(r) }
func (chunkInfoProxy) GetFileList(o boson.Address) ([]map[string]interface{}, []boson.Address) {
	return current.CI.GetFileList(o)
}
func (chunkInfoProxy) DelFile(r boson.Address, del func() error) error { return current.CI.DelFile(r, del) }
func (chunkInfoProxy) DelDiscover(r boson.Address)                     { current.CI.DelDiscover(r) }
func (chunkInfoProxy) OnChunkRetrieved(c, r, s boson.Address) error {
	return current.CI.OnChunkRetrieved(c, r, s)
}
func (chunkInfoProxy) GetChunkInfoSource(r boson.Address) aurora.ChunkInfoSourceApi {
	return current.CI.GetChunkInfoSource(r)
}
func (chunkInfoProxy) ManifestView(ctx context.Context, n, p string, d int) (*chunkinfo.ManifestNode, error) {
	return current.CI.ManifestView(ctx, n, p, d)
}
func (chunkInfoProxy) GetManifest(r, p string, d int) *chunkinfo.ManifestNode {
	return current.CI.GetManifest(r, p, d)
}

func theAPI() api.Service {
	if sharedAPI == nil {
		sharedAPI = api.New(storerProxy{}, nil, SelfAddr, chunkInfoProxy{}, traversalProxy{}, pinningProxy{}, nil, logger, nil, nil, nil, stubOracle{}, nil, nil, api.Options{})
	}
	return sharedAPI
}

// gcDiscover is the chunkinfo the *store* sees (db.SetChunkInfo): the real
// ChunkInfo behind a pass-through whose DelFile — only the garbage collector
// calls it through this value — first gives the harness a scheduling point
// (Node.OnGCDelFile). A call out to another component is where a concurrent
// operation naturally interleaves with a collection run: collectGarbage holds
// no lock there and chunkinfo has not taken its own yet.
type gcDiscover struct {
	chunkinfo.Interface
	n *Node
}

func (g gcDiscover) DelFile(rootCid boson.Address, del func() error) error {
	if g.n.OnGCDelFile != nil {
		g.n.OnGCDelFile(rootCid)
	}
	err := g.Interface.DelFile(rootCid, del)
	if g.n.AfterGCDelFile != nil {
		g.n.AfterGCDelFile(rootCid, err)
	}
	return err
}

// ---------------------------------------------------------------- node

type Options struct {
	Capacity uint64
	Universe *Universe // what the stub network can deliver (nil: nothing)
}

type Node struct {
	opts        Options
	U           *Universe
	DB          *localstore.DB
	storer      storage.Storer
	SS          storage.StateStorer
	NS          *netstore.Store
	Tr          traversal.Traverser
	Pin         *pinning.Service
	CI          *chunkinfo.ChunkInfo
	Deliverable func(boson.Address) bool
	// OnGCDelFile / AfterGCDelFile are called around every chunkinfo.DelFile
	// call the garbage collector makes (one per eviction candidate).
	OnGCDelFile    func(root boson.Address)
	AfterGCDelFile func(root boson.Address, err error)
	Retrieved   int
	GCRuns      int // collectGarbage calls so far
	closed      bool
}

// New builds a fresh node on empty in-memory stores and resets the logical clock.
func New(o Options) (*Node, error) {
	memDriver.Reset()
	atomic.StoreInt64(&clock, 0)
	localstore.VerifSetGCIteratorDoneHook(nil)
	n := &Node{opts: o, U: o.Universe}
	if err := n.open(); err != nil {
		return nil, err
	}
	return n, nil
}

func (n *Node) open() error {
	db, err := localstore.New("localstore", SelfAddr.Bytes(), &localstore.Options{Driver: driverName, Capacity: n.opts.Capacity}, logger)
	if err != nil {
		return err
	}
	db.VerifDisownGCWorker()
	sdb, err := memDriver.Open("statestore", "")
	if err != nil {
		return err
	}
	ss, err := ssleveldb.VerifNewOnDB(sdb.(driver.BatchDB), logger)
	if err != nil {
		return err
	}
	// wiring as in pkg/node/node.go
	n.DB, n.SS = db, ss
	n.storer = syncStore{db}
	n.NS = netstore.New(n.storer, stubRetrieval{n}, logger, SelfAddr)
	n.Tr = traversal.New(n.NS)
	n.Pin = pinning.NewService(n.storer, ss, n.Tr)
	n.CI = chunkinfo.New(SelfAddr, stubStreamer{}, logger, n.Tr, ss, n.NS, stubRoute{}, stubOracle{}, nil, stubSubPub{})
	if err := n.CI.InitChunkInfo(); err != nil {
		return err
	}
	db.SetChunkInfo(gcDiscover{Interface: n.CI, n: n})
	n.NS.SetChunkInfo(n.CI)
	n.closed = false
	current = n
	return nil
}

func (n *Node) shutdown() error {
	if n.closed {
		return nil
	}
	n.closed = true
	n.DB.VerifWaitUpdateGC()
	n.CI.VerifShutdown()
	err1 := n.DB.Close()
	err2 := n.SS.Close()
	if err1 != nil {
		return err1
	}
	return err2
}

// Close releases the node.
func (n *Node) Close() error { return n.shutdown() }

// ArmStateStoreCrash: the next k durability units of the STATE STORE (single
// Put/Delete, batch commit) are applied, then the process "dies": every later
// write to either store fails. EndCrashEpisode reports whether the point was
// reached; the caller then Restarts the node on what survived.
func (n *Node) ArmStateStoreCrash(k int) { memDriver.ArmCrash("statestore", k) }

func (n *Node) EndCrashEpisode() (crashed bool, units int) { return memDriver.Disarm() }

// Restart closes every component and re-opens them on the same storages
// (localstore.New incl. its gcSize repair, chunkinfo.New + InitChunkInfo), the
// way a node process restart does.
func (n *Node) Restart() error {
	if err := n.shutdown(); err != nil {
		return err
	}
	return n.open()
}

// Request runs one HTTP request through the real API handler chain.
func (n *Node) Request(method, url string, hdr map[string]string, body []byte) (int, []byte) {
	req := httptest.NewRequest(method, url, bytes.NewReader(body))
	for k, v := range hdr {
		req.Header.Set(k, v)
	}
	rec := httptest.NewRecorder()
	if current != n || n.closed {
		panic("nodelite: request on a node that is not current")
	}
	theAPI().ServeHTTP(rec, req)
	n.DB.VerifWaitUpdateGC()
	return rec.Code, rec.Body.Bytes()
}

func refFrom(body []byte) (boson.Address, error) {
	var r struct {
		Reference boson.Address `json:"reference"`
	}
	if err := json.Unmarshal(body, &r); err != nil {
		return boson.ZeroAddress, err
	}
	return r.Reference, nil
}

func hdrs(contentType string, pin bool) map[string]string {
	h := map[string]string{"Content-Type": contentType}
	if pin {
		h[api.AuroraPinHeader] = "true"
	}
	return h
}

// UploadAurora is POST /aurora?name=<name> (single file wrapped in a manifest;
// registers the file with chunkinfo).
func (n *Node) UploadAurora(name string, data []byte, pin bool) (int, boson.Address) {
	code, body := n.Request(http.MethodPost, "/aurora?name="+name, hdrs("text/plain", pin), data)
	if code != http.StatusCreated {
		return code, boson.ZeroAddress
	}
	ref, err := refFrom(body)
	if err != nil {
		return -1, boson.ZeroAddress
	}
	return code, ref
}

// UploadBytes is POST /bytes.
func (n *Node) UploadBytes(data []byte, pin bool) (int, boson.Address) {
	code, body := n.Request(http.MethodPost, "/bytes", hdrs("application/octet-stream", pin), data)
	if code != http.StatusCreated {
		return code, boson.ZeroAddress
	}
	ref, err := refFrom(body)
	if err != nil {
		return -1, boson.ZeroAddress
	}
	return code, ref
}

// UploadChunk is POST /chunks (body = span || payload).
func (n *Node) UploadChunk(spanData []byte, pin bool) (int, boson.Address) {
	code, body := n.Request(http.MethodPost, "/chunks", hdrs("application/octet-stream", pin), spanData)
	if code != http.StatusCreated {
		return code, boson.ZeroAddress
	}
	ref, err := refFrom(body)
	if err != nil {
		return -1, boson.ZeroAddress
	}
	return code, ref
}

func (n *Node) PinAPI(ref boson.Address) int {
	c, _ := n.Request(http.MethodPost, "/pins/"+ref.String(), nil, nil)
	return c
}
func (n *Node) UnpinAPI(ref boson.Address) int {
	c, _ := n.Request(http.MethodDelete, "/pins/"+ref.String(), nil, nil)
	return c
}
func (n *Node) HasPinAPI(ref boson.Address) int {
	c, _ := n.Request(http.MethodGet, "/pins/"+ref.String(), nil, nil)
	return c
}
func (n *Node) ListPinsAPI() (int, []boson.Address) {
	c, body := n.Request(http.MethodGet, "/pins", nil, nil)
	var r struct {
		References []boson.Address `json:"references"`
	}
	_ = json.Unmarshal(body, &r)
	sort.Slice(r.References, func(i, j int) bool { return bytes.Compare(r.References[i].Bytes(), r.References[j].Bytes()) < 0 })
	return c, r.References
}
func (n *Node) DeleteAPI(root boson.Address) int {
	c, _ := n.Request(http.MethodDelete, "/aurora/"+root.String(), nil, nil)
	return c
}

// CachePyramid delivers the file's pyramid as a pyramid response from
// PeerAddr (real chunkinfo.onChunkPyramidResp: verifies it, stores its chunks
// with ModePutRequest under the root context — root first — and registers the
// file).
func (n *Node) CachePyramid(f *File) error {
	err := n.CI.VerifOnPyramidResp(context.Background(), f.Root, PeerAddr, f.Pyramid)
	n.DB.VerifWaitUpdateGC()
	return err
}

// FetchChunk reads one chunk through netstore under the file's root context
// (what the joiner of a download does): local hit -> reported to chunkinfo;
// miss -> stub retrieval stores it as a cached chunk.
func (n *Node) FetchChunk(root, addr boson.Address) error {
	_, err := n.NS.Get(sctx.SetRootHash(context.Background(), root), storage.ModeGetRequest, addr)
	n.DB.VerifWaitUpdateGC()
	return err
}

// ReadFile reads the whole file entry through a joiner over netstore under
// the root context, like api.downloadHandler. local=true reads through the
// localstore only (no retrieval, no access-time refresh, no chunkinfo report).
func (n *Node) ReadFile(f *File, local bool) ([]byte, error) {
	ctx := context.Background()
	var g storage.Getter = n.NS
	mode := storage.ModeGetRequest
	if local {
		g, mode = n.DB, storage.ModeGetLookup
	} else {
		ctx = sctx.SetRootHash(ctx, f.Root)
	}
	j, _, err := joiner.New(ctx, g, mode, f.Ref)
	if err != nil {
		return nil, err
	}
	data, err := io.ReadAll(j)
	n.DB.VerifWaitUpdateGC()
	return data, err
}

// Cache makes the file a fully cached (requested) file: pyramid from the
// peer, then the reads a sequential download performs through netstore under
// the root context: the file entry's root chunk, then every data chunk in
// file order (the joiner would issue the same Gets, siblings in parallel; the
// fixed order keeps the execution deterministic).
func (n *Node) Cache(f *File) error {
	if err := n.CachePyramid(f); err != nil {
		return fmt.Errorf("pyramid: %w", err)
	}
	if err := n.FetchChunk(f.Root, f.Ref); err != nil {
		return fmt.Errorf("read: %w", err)
	}
	for _, a := range f.DataCid {
		if err := n.FetchChunk(f.Root, a); err != nil {
			return fmt.Errorf("read: %w", err)
		}
	}
	return nil
}

// GCResult describes what the synchronous worker loop did.
type GCResult struct {
	Runs      int
	Collected uint64
	Done      bool
	Err       error
	CapHit    bool
}

// GC plays collectGarbageWorker: while a trigger is pending, run the real
// collectGarbage (re-triggering on !done), at most maxRuns times.
func (n *Node) GC(maxRuns int) GCResult { return n.GCHooked(maxRuns, nil) }

// GCHooked is GC with the package's existing hook testHookGCIteratorDone set:
// hook(run) is called inside the run-th collectGarbage call between candidate
// selection and eviction (gcRunning is set, batchMu is free), on the caller's
// goroutine — the place where an access "races" with the collection.
func (n *Node) GCHooked(maxRuns int, hook func(run int)) GCResult {
	r := GCResult{Done: true}
	defer localstore.VerifSetGCIteratorDoneHook(nil)
	for n.DB.VerifGCTriggerPending() {
		if r.Runs >= maxRuns {
			r.CapHit = true
			return r
		}
		if hook != nil {
			run := r.Runs
			localstore.VerifSetGCIteratorDoneHook(func() { hook(run) })
		}
		_, c, done, err := n.DB.VerifGCWorkerStep()
		n.DB.VerifWaitUpdateGC()
		r.Runs++
		n.GCRuns++
		r.Collected += c
		r.Done = done
		if err != nil {
			r.Err = err
		}
	}
	return r
}

// Has reports presence in the retrieval data index.
func (n *Node) Has(addr boson.Address) bool {
	ok, err := n.DB.Has(context.Background(), storage.ModeHasChunk, addr)
	return err == nil && ok
}

// ---------------------------------------------------------------- universe

// File is one piece of content known to the stub network.
type File struct {
	Name    string
	Letters string // one letter per data chunk, e.g. "xy"
	Data    []byte
	Root    boson.Address     // manifest reference returned by POST /aurora?name=<Name>
	Ref     boson.Address     // reference of the file entry (= POST /bytes reference of Data)
	Pyramid map[string][]byte // traversal.GetPyramid(Root): every non-data chunk incl. Root
	DataCid []boson.Address   // data chunks in file order (with repetitions)
	Closure []boson.Address   // every distinct chunk reachable from Root, sorted by name
}

// Universe is the content the stub network can deliver plus symbolic names.
type Universe struct {
	Files  []*File
	ByName map[string]*File
	Chunks map[string][]byte // hex address -> span||payload
	Names  map[string]string // hex address -> symbolic name
	repl   *strings.Replacer
}

// Payload returns the payload of the data chunk named by a letter.
func Payload(letter byte) []byte { return bytes.Repeat([]byte{letter}, boson.ChunkSize) }

// Content concatenates the payloads of the letters.
func Content(letters string) []byte {
	var b []byte
	for i := 0; i < len(letters); i++ {
		b = append(b, Payload(letters[i])...)
	}
	return b
}

// BuildUniverse uploads every file (name -> letters) on a scratch node through
// POST /aurora and records roots, pyramids, chunk data and names. names must
// be listed in a fixed order.
func BuildUniverse(names []string, letters map[string]string) (*Universe, error) {
	src, err := New(Options{Capacity: 1 << 20})
	if err != nil {
		return nil, err
	}
	defer src.Close()
	u := &Universe{ByName: map[string]*File{}, Chunks: map[string][]byte{}, Names: map[string]string{}}
	ctx := context.Background()
	for _, name := range names {
		f := &File{Name: name, Letters: letters[name], Data: Content(letters[name])}
		code, root := src.UploadAurora(name, f.Data, false)
		if code != http.StatusCreated {
			return nil, fmt.Errorf("universe: upload %s: status %d", name, code)
		}
		f.Root = root
		code, f.Ref = src.UploadBytes(f.Data, false)
		if code != http.StatusCreated {
			return nil, fmt.Errorf("universe: bytes upload %s: status %d", name, code)
		}
		if f.Pyramid, err = src.Tr.GetPyramid(ctx, root); err != nil {
			return nil, err
		}
		hashes, _, err := src.Tr.GetChunkHashes(ctx, root, nil)
		if err != nil {
			return nil, err
		}
		for _, l := range hashes {
			for _, h := range l {
				f.DataCid = append(f.DataCid, boson.NewAddress(h))
			}
		}
		if len(f.DataCid) != len(f.Letters) {
			return nil, fmt.Errorf("universe: %s has %d data chunks, want %d", name, len(f.DataCid), len(f.Letters))
		}
		// names: data chunks by letter, file root, manifest chunks
		for i, a := range f.DataCid {
			if _, ok := u.Names[a.String()]; !ok {
				u.Names[a.String()] = string(f.Letters[i])
			}
		}
		if _, ok := u.Names[f.Ref.String()]; !ok {
			u.Names[f.Ref.String()] = name + ".f"
		}
		if _, ok := u.Names[root.String()]; !ok {
			u.Names[root.String()] = name + ".R"
		}
		var rest []string
		for k := range f.Pyramid {
			if _, ok := u.Names[k]; !ok {
				rest = append(rest, k)
			}
		}
		sort.Strings(rest)
		for i, k := range rest {
			u.Names[k] = fmt.Sprintf("%s.m%d", name, i)
		}
		seen := map[string]bool{}
		for k := range f.Pyramid {
			seen[k] = true
		}
		for _, a := range f.DataCid {
			seen[a.String()] = true
		}
		for k := range seen {
			f.Closure = append(f.Closure, boson.MustParseHexAddress(k))
		}
		u.Files = append(u.Files, f)
		u.ByName[name] = f
	}
	items, err := src.DB.VerifItems("data")
	if err != nil {
		return nil, err
	}
	for _, it := range items {
		a := boson.NewAddress(it.Address)
		ch, err := src.DB.Get(ctx, storage.ModeGetLookup, a)
		if err != nil {
			return nil, err
		}
		u.Chunks[a.String()] = ch.Data()
		if _, ok := u.Names[a.String()]; !ok {
			return nil, fmt.Errorf("universe: unnamed chunk %s", a)
		}
	}
	for _, f := range u.Files {
		sort.Slice(f.Closure, func(i, j int) bool { return u.Name(f.Closure[i]) < u.Name(f.Closure[j]) })
		for _, a := range f.Closure {
			if _, ok := u.Chunks[a.String()]; !ok {
				return nil, fmt.Errorf("universe: closure chunk %s of %s not stored", a, f.Name)
			}
		}
	}
	var pairs []string
	for k, v := range u.Names {
		pairs = append(pairs, k, v)
	}
	pairs = append(pairs, SelfAddr.String(), "SELF", PeerAddr.String(), "PEER")
	u.repl = strings.NewReplacer(pairs...)
	return u, nil
}

// Name is the symbolic name of an address ("?<hex8>" when unknown).
func (u *Universe) Name(a boson.Address) string {
	if u != nil {
		if s, ok := u.Names[a.String()]; ok {
			return s
		}
	}
	s := a.String()
	if len(s) > 8 {
		s = s[:8]
	}
	return "?" + s
}

// Sym replaces every known hex address in s by its symbolic name.
func (u *Universe) Sym(s string) string { return u.repl.Replace(s) }

// ---------------------------------------------------------------- snapshots

type GCEntry struct {
	Root    string
	Counter uint64
	TS      int64
	BinID   uint64
}

// Snapshot is a structured dump of the store's indexes (by symbolic name).
type Snapshot struct {
	Data    map[string]bool
	BinID   map[string]uint64
	Access  map[string]int64
	GC      []GCEntry // index order = eviction order
	Pin     map[string]uint64
	GCSize  uint64
	Trigger bool
}

func (n *Node) Snap() (Snapshot, error) {
	s := Snapshot{Data: map[string]bool{}, BinID: map[string]uint64{}, Access: map[string]int64{}, Pin: map[string]uint64{}}
	items, err := n.DB.VerifItems("data")
	if err != nil {
		return s, err
	}
	for _, it := range items {
		nm := n.U.Name(boson.NewAddress(it.Address))
		s.Data[nm] = true
		s.BinID[nm] = it.BinID
	}
	if items, err = n.DB.VerifItems("access"); err != nil {
		return s, err
	}
	for _, it := range items {
		s.Access[n.U.Name(boson.NewAddress(it.Address))] = it.AccessTimestamp
	}
	if items, err = n.DB.VerifItems("gc"); err != nil {
		return s, err
	}
	for _, it := range items {
		s.GC = append(s.GC, GCEntry{Root: n.U.Name(boson.NewAddress(it.Address)), Counter: it.GCounter, TS: it.AccessTimestamp, BinID: it.BinID})
	}
	if items, err = n.DB.VerifItems("pin"); err != nil {
		return s, err
	}
	for _, it := range items {
		s.Pin[n.U.Name(boson.NewAddress(it.Address))] = it.PinCounter
	}
	if s.GCSize, err = n.DB.VerifGCSize(); err != nil {
		return s, err
	}
	s.Trigger = n.DB.VerifGCTriggerPending()
	return s, nil
}

// GCSum is the total of the per-file counters.
func (s Snapshot) GCSum() (t uint64) {
	for _, e := range s.GC {
		t += e.Counter
	}
	return
}

func sortedKeys(m interface{}) []string {
	var ks []string
	switch mm := m.(type) {
	case map[string]bool:
		for k := range mm {
			ks = append(ks, k)
		}
	case map[string]uint64:
		for k := range mm {
			ks = append(ks, k)
		}
	case map[string]int64:
		for k := range mm {
			ks = append(ks, k)
		}
	}
	sort.Strings(ks)
	return ks
}

// Key is the canonical form of the store part of the state. Logical time
// stamps are replaced by their rank (only their order can influence later
// behaviour: gcIndex iteration order and key identity between access index
// and gc index, which is kept as the "=="/"!=" flag); store time stamps and
// bin ids are dropped (bin ids only complete gcIndex keys; they are compared
// against the data index instead).
func (s Snapshot) Key() string {
	var ts []int64
	for _, v := range s.Access {
		ts = append(ts, v)
	}
	for _, e := range s.GC {
		ts = append(ts, e.TS)
	}
	sort.Slice(ts, func(i, j int) bool { return ts[i] < ts[j] })
	rank := map[int64]int{}
	for _, v := range ts {
		if _, ok := rank[v]; !ok {
			rank[v] = len(rank)
		}
	}
	var b strings.Builder
	b.WriteString("D:")
	for _, k := range sortedKeys(s.Data) {
		b.WriteString(k + ",")
	}
	b.WriteString("|A:")
	for _, k := range sortedKeys(s.Access) {
		fmt.Fprintf(&b, "%s@%d,", k, rank[s.Access[k]])
	}
	b.WriteString("|G:")
	for _, e := range s.GC {
		flag := "=="
		if at, ok := s.Access[e.Root]; !ok || at != e.TS || s.BinID[e.Root] != e.BinID {
			flag = "!="
		}
		fmt.Fprintf(&b, "%s#%d@%d%s,", e.Root, e.Counter, rank[e.TS], flag)
	}
	b.WriteString("|P:")
	for _, k := range sortedKeys(s.Pin) {
		fmt.Fprintf(&b, "%s=%d,", k, s.Pin[k])
	}
	fmt.Fprintf(&b, "|S:%d|T:%v", s.GCSize, s.Trigger)
	return b.String()
}

// InfoKey is the canonical form of chunkinfo's tables and of the whole state
// store (pin roots, chunk-/discover-/source records), addresses symbolic.
func (n *Node) InfoKey() (string, error) {
	t := n.CI.VerifTables()
	var b strings.Builder
	w := func(format string, a ...interface{}) { fmt.Fprintf(&b, format, a...) }
	var ks []string
	for k := range t.HashData {
		ks = append(ks, k)
	}
	sort.Strings(ks)
	w("H:")
	for _, k := range ks {
		w("%s=%v,", k, t.HashData[k])
	}
	ks = ks[:0]
	for k := range t.ChunkRefs {
		ks = append(ks, k)
	}
	sort.Strings(ks)
	w("|C:")
	for _, k := range ks {
		w("%s=%d,", k, t.ChunkRefs[k])
	}
	bits := func(tag string, m map[string]map[string]chunkinfo.VerifBits) {
		var rs []string
		for r := range m {
			rs = append(rs, r)
		}
		sort.Strings(rs)
		w("|%s:", tag)
		for _, r := range rs {
			var os []string
			for o := range m[r] {
				os = append(os, o)
			}
			sort.Strings(os)
			for _, o := range os {
				w("%s/%s=%d:%x,", r, o, m[r][o].Len, m[r][o].B)
			}
		}
	}
	bits("N", t.Presence)
	bits("D", t.Discover)
	ks = ks[:0]
	for k := range t.Source {
		ks = append(ks, k)
	}
	sort.Strings(ks)
	w("|S:")
	for _, k := range ks {
		s := t.Source[k]
		w("%s<%s>", k, s.PyramidSource)
		var os []string
		for o := range s.ChunkSource {
			os = append(os, o)
		}
		sort.Strings(os)
		for _, o := range os {
			w("%s=%d:%x,", o, s.ChunkSource[o].Len, s.ChunkSource[o].B)
		}
	}
	w("|Q:%v|F:%v|SS:", t.Queues, t.Pending)
	var kv []string
	err := n.SS.Iterate("", func(k, v []byte) (bool, error) {
		kv = append(kv, string(k)+"="+string(v))
		return false, nil
	})
	if err != nil {
		return "", err
	}
	sort.Strings(kv)
	w("%s", strings.Join(kv, ";"))
	return n.U.Sym(b.String()), nil
}

// StateKeys lists the keys of the state store (symbolic), sorted.
func (n *Node) StateKeys() ([]string, error) {
	var ks []string
	err := n.SS.Iterate("", func(k, _ []byte) (bool, error) {
		ks = append(ks, n.U.Sym(string(k)))
		return false, nil
	})
	sort.Strings(ks)
	return ks, err
}
