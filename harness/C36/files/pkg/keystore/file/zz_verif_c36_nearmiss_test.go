//go:build verif
// +build verif

package file

// C36, near-miss passwords (file keystore): "a different password is always
// rejected" for passwords that differ from the right one only by something a
// normalising implementation would drop: surrounding white space (ASCII and
// Unicode), control characters, letter case, Unicode composition, one character
// more or less, and " " versus "".

import (
	"crypto/sha256"
	"fmt"
	"os"
	"strings"
	"testing"
	"unicode"
	"unicode/utf8"

	"github.com/gauss-project/aurorafs/pkg/zzverif/mc"
)

type c36Variant struct {
	name string
	f    func(string) string // returns the input unchanged when not applicable
}

func c36SwapCase(s string) string {
	for i, r := range s {
		if unicode.IsUpper(r) {
			return s[:i] + string(unicode.ToLower(r)) + s[i+utf8.RuneLen(r):]
		}
		if unicode.IsLower(r) {
			return s[:i] + string(unicode.ToUpper(r)) + s[i+utf8.RuneLen(r):]
		}
	}
	return s
}

// c36Renormalise swaps the first composed/decomposed "é" for its other form.
func c36Renormalise(s string) string {
	const composed, decomposed = "\u00e9", "e\u0301"
	if strings.Contains(s, composed) {
		return strings.Replace(s, composed, decomposed, 1)
	}
	return strings.Replace(s, decomposed, composed, 1)
}

// c36LongKeyDigest: HMAC replaces a key longer than its block size (64 bytes
// for SHA-256) by the key's digest; a KDF built on HMAC may therefore treat a
// long password and the 32 raw digest bytes as the same password.
func c36LongKeyDigest(s string) string {
	if len(s) <= 64 {
		return s
	}
	d := sha256.Sum256([]byte(s))
	return string(d[:])
}

func c36DropLast(s string) string {
	_, n := utf8.DecodeLastRuneInString(s)
	return s[:len(s)-n]
}

// quick runs the first c36QuickVariants variants, thorough all of them
const c36QuickVariants = 7

var c36Variants = []c36Variant{
	{"trailing-space", func(s string) string { return s + " " }},
	{"trailing-newline", func(s string) string { return s + "\n" }},
	{"leading-space", func(s string) string { return " " + s }},
	{"trailing-ideographic-space", func(s string) string { return s + "\u3000" }},
	{"case-change", c36SwapCase},
	{"unicode-normalisation", c36Renormalise},
	{"trailing-nul", func(s string) string { return s + "\x00" }},
	{"trailing-tab", func(s string) string { return s + "\t" }},
	{"leading-newline", func(s string) string { return "\n" + s }},
	{"trailing-nbsp", func(s string) string { return s + "\u00a0" }},
	{"leading-bom", func(s string) string { return "\ufeff" + s }},
	{"char-appended", func(s string) string { return s + "x" }},
	{"char-removed", c36DropLast},
	{"hmac-long-key-digest", c36LongKeyDigest},
}

// base passwords: empty (so that " " vs "" is a case), a cased word with a
// composed character; thorough adds a one-letter, a Cyrillic and an
// already-space-padded password
var c36NearMissBases = []string{"", "Secret\u00e9", "p", "пароль", " x ", strings.Repeat("x", 65)}

const c36QuickBases = 2

func TestVerifC36FileNearMiss(t *testing.T) {
	nb := mc.Pick(c36QuickBases, len(c36NearMissBases))
	nv := mc.Pick(c36QuickVariants, len(c36Variants))
	nd := mc.Pick(1, 2) // quick: stored with the base, opened with the variant; thorough: also the reverse
	var vnames []string
	for _, v := range c36Variants[:nv] {
		vnames = append(vnames, v.name)
	}
	mc.Run(t, mc.Config{ID: "C36", Name: "C36-file-near-miss-passwords", MaxDev: -1, ShardLevels: 1, Params: map[string]interface{}{
		"base_passwords": fmt.Sprintf("%q", c36NearMissBases[:nb]), "variants": vnames, "directions": nd,
		"script": "Key(name, stored password) creates; Key(name, other password) must be rejected and leave the files unchanged; thorough: the stored password still opens the same key"}},
		func(x *mc.X) {
			c := x.Choose(nb * nv * nd)
			base := c36NearMissBases[c/(nv*nd)]
			v := c36Variants[(c/nd)%nv]
			reverse := c%nd == 1
			if x.Choose(2) == 0 {
				x.Logf("shard probe leaf, nothing to do") // keeps the per-shard probes free of scrypt calls
				return
			}
			variant := v.f(base)
			if variant == base {
				x.Logf("variant %s does not apply to %q", v.name, base)
				x.Outcome("not-applicable")
				return
			}
			stored, other := base, variant
			if reverse {
				stored, other = variant, base
			}
			x.Logf("stored with %q, opened with %q (%s, reverse=%v)", stored, other, v.name, reverse)
			x.Nontrivial()
			dir := c36TempDir(x)
			defer os.RemoveAll(dir)
			s := New(dir)
			k1, created, err := s.Key("a", stored)
			if err != nil {
				// a keystore may refuse to store a key under some password (e.g. one with
				// control characters); creation with ordinary passwords is checked by the
				// inputs harness. Nothing was stored, nothing can be opened.
				x.Logf("creation refused: %v", err)
				x.Outcome("creation-refused")
				x.Check(k1 == nil && !created && len(c36Snapshot(x, dir)) == 0, "refused-creation-left-key", "Key(a,%q) failed with %v but returned or stored a key", stored, err)
				return
			}
			x.Check(created && k1 != nil, "create-failed", "Key(a,%q) on an empty keystore = created %v, err %v", stored, created, err)
			snap := c36Snapshot(x, dir)
			k2, created, err := s.Key("a", other)
			x.Outcome("near-miss:" + c36ErrClass(err))
			x.Check(err != nil, "near-miss-password-accepted:"+v.name, "key stored with %q was opened with %q (created=%v, same key=%v)", stored, other, created, c36SameKey(k1, k2))
			x.Check(c36SameSnapshot(snap, c36Snapshot(x, dir)), "rejected-key-changed-files", "the rejected Key(a,%q) changed the key files", other)
			if mc.Thorough() {
				k3, created, err := s.Key("a", stored)
				x.Check(err == nil && !created && c36SameKey(k1, k3), "right-password-rejected", "Key(a,%q) with the stored password = created %v, err %v, same key %v", stored, created, err, c36SameKey(k1, k3))
			}
		})
}
