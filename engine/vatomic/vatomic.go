//go:build verif && go1.18
// +build verif,go1.18

// Package vatomic mirrors the sync/atomic functions used by scheduled packages.
package vatomic

import "github.com/gauss-project/aurorafs/pkg/zzverif/vsched"

func op(addr interface{}, f func()) {
	vsched.Op("atomic", nil, func() { vsched.Acquire(addr); f(); vsched.Release(addr) })
}

func AddInt32(a *int32, d int32) (n int32)   { op(a, func() { *a += d; n = *a }); return }
func AddInt64(a *int64, d int64) (n int64)   { op(a, func() { *a += d; n = *a }); return }
func AddUint32(a *uint32, d uint32) (n uint32) { op(a, func() { *a += d; n = *a }); return }
func AddUint64(a *uint64, d uint64) (n uint64) { op(a, func() { *a += d; n = *a }); return }
func LoadInt32(a *int32) (n int32)           { op(a, func() { n = *a }); return }
func LoadInt64(a *int64) (n int64)           { op(a, func() { n = *a }); return }
func LoadUint32(a *uint32) (n uint32)        { op(a, func() { n = *a }); return }
func LoadUint64(a *uint64) (n uint64)        { op(a, func() { n = *a }); return }
func StoreInt32(a *int32, v int32)           { op(a, func() { *a = v }) }
func StoreInt64(a *int64, v int64)           { op(a, func() { *a = v }) }
func StoreUint32(a *uint32, v uint32)        { op(a, func() { *a = v }) }
func StoreUint64(a *uint64, v uint64)        { op(a, func() { *a = v }) }
func CompareAndSwapInt32(a *int32, o, n int32) (ok bool) {
	op(a, func() {
		if *a == o {
			*a, ok = n, true
		}
	})
	return
}
func CompareAndSwapInt64(a *int64, o, n int64) (ok bool) {
	op(a, func() {
		if *a == o {
			*a, ok = n, true
		}
	})
	return
}
func CompareAndSwapUint32(a *uint32, o, n uint32) (ok bool) {
	op(a, func() {
		if *a == o {
			*a, ok = n, true
		}
	})
	return
}
func CompareAndSwapUint64(a *uint64, o, n uint64) (ok bool) {
	op(a, func() {
		if *a == o {
			*a, ok = n, true
		}
	})
	return
}
