//go:build verif
// +build verif

package hive2

// C29, request sequences: the same requester asks one responder twice and its
// addressbook record changes in between (reconnect from another address, record
// removed). Every reply is judged by the record the responder holds at that time.

import (
	"bytes"
	"context"
	"encoding/binary"
	"fmt"
	"io/ioutil"
	"testing"

	"github.com/gauss-project/aurorafs/pkg/boson"
	"github.com/gauss-project/aurorafs/pkg/hive2/pb"
	"github.com/gauss-project/aurorafs/pkg/logging"
	"github.com/gauss-project/aurorafs/pkg/p2p"
	"github.com/gauss-project/aurorafs/pkg/p2p/protobuf"
	"github.com/gauss-project/aurorafs/pkg/zzverif/mc"
)

type c29RecKind struct {
	name     string
	underlay string // "" = no record
	public   bool
}

var c29RecKinds = []c29RecKind{
	{"none", "", false},
	{"public-ip4", "/ip4/52.9.8.7/tcp/1634", true},
	{"private-ip4", "/ip4/10.9.8.7/tcp/1634", false},
	{"public-ip6", "/ip6/2600:1f00::77/tcp/1634", true},
	{"private-ip6", "/ip6/fd12::77/tcp/1634", false},
}

func TestVerifC29Seq(t *testing.T) {
	logger := logging.New(ioutil.Discard, 0)
	shapes := []c29Shape{{2, 2}, {6, 6}}
	limits := []int{2, 7, 40}
	posLists := [][]int32{{0}, {0, 1}, {0, 1, 2, 3, 4, 31}}
	nTargets := 2
	if mc.Thorough() {
		shapes = append(shapes, c29Shape{16, 16})
		limits = []int{1, 2, 3, 7, 16, 30, 40}
		posLists = append(posLists, []int32{1, 2, 31}, []int32{3, 4})
		nTargets = 3
	}
	repeats := mc.Pick(32, 48)
	worlds := map[int]*c29World{}
	defer func() {
		for _, w := range worlds {
			w.svc.Close()
			w.db.Close()
		}
	}()
	var shapeNames, kindNames []string
	for _, s := range shapes {
		shapeNames = append(shapeNames, fmt.Sprintf("%dconn+%dknown", s.conn, s.known))
	}
	for _, k := range c29RecKinds {
		kindNames = append(kindNames, k.name)
	}

	mc.Run(t, mc.Config{ID: "C29", Name: "C29-findnode-sequences", MaxDev: -1, Params: map[string]interface{}{
		"sequence":         "request, change of the requester's addressbook record, the same request again - on ONE fresh hive2 service",
		"requester_record": kindNames, "transitions": "every ordered pair of records (25)", "limit": limits, "pos_lists": posLists,
		"targets": nTargets, "peer_sets": shapeNames, "allow_private_cidrs": []bool{false, true},
		"requests_per_step": fmt.Sprintf("1 if the first reply is empty, else %d", repeats)}},
		func(x *mc.X) {
			k1 := x.Choose(len(c29RecKinds))
			k2 := x.Choose(len(c29RecKinds))
			allow := x.Choose(2) == 1
			limit := limits[x.Choose(len(limits))]
			pos := posLists[x.Choose(len(posLists))]
			ti := x.Choose(nTargets)
			si := x.Choose(len(shapes))
			target := c29Targets[ti]
			x.Logf("requester record %s then %s; limit=%d pos=%v target=T%d allowPrivate=%v peers=%s", c29RecKinds[k1].name, c29RecKinds[k2].name, limit, pos, ti, allow, shapeNames[si])

			w := worlds[si]
			if w == nil {
				var err error
				w, err = c29Build(shapes[si], c29ReqUnknown, logger)
				x.NoErr(err, "build kademlia/addressbook")
				worlds[si] = w
			}
			// one fresh service for the whole sequence (whatever it remembers between requests, it
			// starts without memory), the real shared Kad and addressbook
			svc := New(nil, w.book, 0, logger)
			defer svc.Close()
			svc.SetConfig(Config{Kad: w.kad, Base: c29Base, AllowPrivateCIDRs: allow})
			defer func() { _ = w.book.Remove(c29Requester) }()

			honoured := limit
			if honoured > maxPeersLimitStatement {
				honoured = maxPeersLimitStatement
			}
			for stepNo, k := range []int{k1, k2} {
				kind := c29RecKinds[k]
				if kind.underlay == "" {
					x.NoErr(w.book.Remove(c29Requester), "remove requester record")
				} else {
					x.NoErr(c29Put(w.book, c29Requester, kind.underlay), "put requester record")
				}
				withheld := false // is there a private candidate that must not be offered now?
				for _, p := range w.peers {
					if p.private && p.inBook && kind.public && !allow {
						po := c29PO(target.Bytes(), p.overlay.Bytes())
						for _, v := range pos {
							if int(v) == po {
								withheld = true
							}
						}
					}
				}
				if withheld {
					x.Tag(fmt.Sprintf("request-%d-private-candidate-must-be-withheld", stepNo+1))
					if stepNo == 1 && !c29RecKinds[k1].public {
						x.Tag("requester-became-public-before-second-request")
						x.Nontrivial()
					}
				}
				if stepNo == 1 && c29RecKinds[k1].public && !kind.public {
					x.Tag("requester-stopped-being-public-before-second-request")
				}
				reps := repeats
				for rep := 0; rep < reps; rep++ {
					var reqBuf bytes.Buffer
					wr := protobuf.NewWriter(c29RW{Writer: &reqBuf})
					x.NoErr(wr.WriteMsgWithContext(context.Background(), &pb.FindNodeReq{Target: target.Bytes(), Pos: pos, Limit: int32(limit)}), "encode request")
					st := &c29Stream{in: bytes.NewReader(reqBuf.Bytes())}
					x.NoErr(svc.onFindNode(context.Background(), p2p.Peer{Address: c29Requester}, st), "onFindNode")
					raw := st.out.Bytes()
					sz, n := binary.Uvarint(raw)
					if n <= 0 || int(sz) != len(raw)-n {
						x.Broken("reply is not exactly one delimited message")
					}
					var resp pb.Peers
					x.NoErr(resp.Unmarshal(raw[n:]), "decode reply")
					if rep == 0 && len(resp.Peers) == 0 {
						reps = 1
					}
					when := fmt.Sprintf("request %d (requester record: %s)", stepNo+1, kind.name)
					if len(resp.Peers) > honoured {
						x.Fail("seq-reply-exceeds-limit", "%s: limit=%d but the reply has %d peers", when, limit, len(resp.Peers))
					}
					seen := map[string]bool{}
					for _, p := range resp.Peers {
						ov := boson.NewAddress(p.Overlay)
						if ov.Equal(c29Requester) {
							x.Fail("seq-reply-contains-requester", "%s: reply offers the requester itself", when)
						}
						po := c29PO(target.Bytes(), p.Overlay)
						ok := false
						for _, v := range pos {
							if int(v) == po {
								ok = true
							}
						}
						if !ok {
							x.Fail("seq-reply-peer-outside-requested-orders", "%s: peer %s has proximity %d, requested %v", when, ov, po, pos)
						}
						if seen[ov.ByteString()] {
							x.Fail("seq-reply-repeats-peer", "%s: peer %s offered twice", when, ov)
						}
						seen[ov.ByteString()] = true
						priv, known := c29IsPrivateUnderlay(p.Underlay)
						if !known {
							x.Broken("cannot classify underlay %x", p.Underlay)
						}
						if priv && kind.public && !allow {
							key := "seq-reply-private-underlay-to-public-requester"
							if stepNo == 1 && !c29RecKinds[k1].public {
								key = "seq-private-underlay-after-requester-became-public"
							}
							x.Fail(key, "%s: peer %s with a private underlay offered to a requester whose current record is public (AllowPrivateCIDRs=false; record at the first request: %s)", when, ov, c29RecKinds[k1].name)
						}
					}
				}
			}
			x.Outcome(fmt.Sprintf("first-%v-then-%v", pubWord(c29RecKinds[k1].public), pubWord(c29RecKinds[k2].public)))
		})
}

func pubWord(p bool) string {
	if p {
		return "public"
	}
	return "not-public"
}
