//go:build verif
// +build verif

package routetab

// C28 (part A): route discovery is loop-free and terminates.
//
// N real routetab.Service instances (each with a real kademlia.Kad) are wired to
// the queueing streamer of pkg/zzverif/netsim. One node issues the route request
// FindRoute would issue; afterwards every transition delivers one in-flight
// onRouteReq/onRouteResp message to the destination's real handler, or drops it.
// See harness/C28/NOTES.md.

import (
	"bytes"
	"context"
	"encoding/binary"
	"fmt"
	"io/ioutil"
	"sort"
	"strings"
	"sync"
	"sync/atomic"
	"testing"
	"time"

	"github.com/ethereum/go-ethereum/common"
	"github.com/gauss-project/aurorafs/pkg/addressbook"
	"github.com/gauss-project/aurorafs/pkg/aurora"
	"github.com/gauss-project/aurorafs/pkg/boson"
	"github.com/gauss-project/aurorafs/pkg/crypto"
	discmock "github.com/gauss-project/aurorafs/pkg/discovery/mock"
	"github.com/gauss-project/aurorafs/pkg/logging"
	"github.com/gauss-project/aurorafs/pkg/p2p"
	p2pmock "github.com/gauss-project/aurorafs/pkg/p2p/mock"
	"github.com/gauss-project/aurorafs/pkg/routetab/pb"
	"github.com/gauss-project/aurorafs/pkg/shed"
	shedldb "github.com/gauss-project/aurorafs/pkg/shed/leveldb"
	mockstate "github.com/gauss-project/aurorafs/pkg/statestore/mock"
	"github.com/gauss-project/aurorafs/pkg/subscribe"
	"github.com/gauss-project/aurorafs/pkg/topology/kademlia"
	"github.com/gauss-project/aurorafs/pkg/topology/lightnode"
	"github.com/gauss-project/aurorafs/pkg/zzverif/mc"
	"github.com/gauss-project/aurorafs/pkg/zzverif/netsim"
	ma "github.com/multiformats/go-multiaddr"
)

const c28Driver = "verifc28leveldb"

func init() { shed.Register(c28Driver, shedldb.Driver{}) }

// ---- identities: real key-derived overlays with signed underlay records ----

const c28Letters = "ABCDEFX" // X = a node that is not part of the network (unreachable target)

const c28X = 6 // index of X

type c28Ident struct {
	overlay boson.Address
	addr    *aurora.Address
}

var c28Idents = func() []c28Ident {
	var ids []c28Ident
	for i := range c28Letters {
		pk := crypto.Secp256k1PrivateKeyFromBytes(bytes.Repeat([]byte{byte(0x21 + i)}, 32))
		signer := crypto.NewDefaultSigner(pk)
		ov, err := crypto.NewOverlayAddress(pk.PublicKey, 0)
		if err != nil {
			panic(err)
		}
		mu, err := ma.NewMultiaddr(fmt.Sprintf("/ip4/127.0.0.1/tcp/%d", 1634+i))
		if err != nil {
			panic(err)
		}
		a, err := aurora.NewAddress(signer, mu, ov, 0)
		if err != nil {
			panic(err)
		}
		ids = append(ids, c28Ident{overlay: ov, addr: a})
	}
	return ids
}()

func c28Idx(a []byte) int {
	for i, id := range c28Idents {
		if bytes.Equal(id.overlay.Bytes(), a) {
			return i
		}
	}
	return -1
}

func c28L(a []byte) string {
	if i := c28Idx(a); i >= 0 {
		return c28Letters[i : i+1]
	}
	return fmt.Sprintf("?%x", a)
}

func c28Path(items [][]byte) string {
	var sb strings.Builder
	for _, it := range items {
		sb.WriteString(c28L(it))
	}
	return sb.String()
}

func c28AddrPath(items []boson.Address) string {
	var sb strings.Builder
	for _, it := range items {
		sb.WriteString(c28L(it.Bytes()))
	}
	return sb.String()
}

// ---- topologies ------------------------------------------------------------

type c28Topo struct {
	name  string
	n     int
	edges [][2]int
}

func (t c28Topo) adj(a, b int) bool {
	for _, e := range t.edges {
		if (e[0] == a && e[1] == b) || (e[0] == b && e[1] == a) {
			return true
		}
	}
	return false
}

func (t c28Topo) degree(a int) int {
	d := 0
	for b := 0; b < t.n; b++ {
		if t.adj(a, b) {
			d++
		}
	}
	return d
}

var c28Topos = []c28Topo{
	{"line3", 3, [][2]int{{0, 1}, {1, 2}}},
	{"triangle3", 3, [][2]int{{0, 1}, {1, 2}, {0, 2}}},
	{"line4", 4, [][2]int{{0, 1}, {1, 2}, {2, 3}}},
	{"star4", 4, [][2]int{{0, 1}, {0, 2}, {0, 3}}},
	{"cycle4", 4, [][2]int{{0, 1}, {1, 2}, {2, 3}, {3, 0}}},
	{"cycle4+chord", 4, [][2]int{{0, 1}, {1, 2}, {2, 3}, {3, 0}, {0, 2}}},
	{"complete4", 4, [][2]int{{0, 1}, {0, 2}, {0, 3}, {1, 2}, {1, 3}, {2, 3}}},
	// 5 nodes: A-B, A-C, B-C, B-D, C-D, D-E. The smallest shape found in which a response is
	// forwarded back to a node that is already on its path (B and C are each other's pending
	// requester: B gets [E,D,B,C] from C), i.e. where onRouteResp's self-in-path discard matters.
	{"kite5", 5, [][2]int{{0, 1}, {0, 2}, {1, 2}, {1, 3}, {2, 3}, {3, 4}}},
	// trees for two discoveries of the same target that merge at an intermediate node and
	// reach it over chains of different length:
	// tee5: A-B-C-D with E hanging on C;  tee6: A-B-C-D-E with F hanging on D.
	{"tee5", 5, [][2]int{{0, 1}, {1, 2}, {2, 3}, {4, 2}}},
	{"tee6", 6, [][2]int{{0, 1}, {1, 2}, {2, 3}, {3, 4}, {5, 3}}},
}

// one kademlia per node and topology, shared (read-only) by all executions of
// the process: route discovery only reads the connected-peer set.
type c28World struct {
	kads []*kademlia.Kad
	dbs  []*shed.DB
}

func c28BuildWorld(t c28Topo, logger logging.Logger) (*c28World, error) {
	w := &c28World{}
	for i := 0; i < t.n; i++ {
		db, err := shed.NewDB("", &shed.Options{Driver: c28Driver})
		if err != nil {
			return nil, err
		}
		ab := addressbook.New(mockstate.NewStateStore())
		disc := discmock.NewDiscovery()
		disc.SetHive2(true) // no gossip goroutines on Connected
		kad, err := kademlia.New(c28Idents[i].overlay, ab, disc, p2pmock.New(), nil, nil, nil, db, logger, subscribe.NewSubPub(),
			kademlia.Options{BinMaxPeers: 10, NodeMode: aurora.NewModel().SetMode(aurora.FullNode)})
		if err != nil {
			return nil, err
		}
		for j := 0; j < t.n; j++ {
			if t.adj(i, j) {
				if err := ab.Put(c28Idents[j].overlay, *c28Idents[j].addr); err != nil {
					return nil, err
				}
				if err := kad.Connected(context.Background(), p2p.Peer{Address: c28Idents[j].overlay, Mode: aurora.NewModel().SetMode(aurora.FullNode)}, true); err != nil {
					return nil, err
				}
			}
		}
		w.kads = append(w.kads, kad)
		w.dbs = append(w.dbs, db)
	}
	return w, nil
}

// ---- canonical forms -------------------------------------------------------

func c28Unframe(data []byte) ([]byte, bool) {
	sz, k := binary.Uvarint(data)
	if k <= 0 || int(sz) != len(data)-k {
		return nil, false
	}
	return data[k:], true
}

type c28Decoded struct {
	kind  string // "req" / "resp"
	dest  []byte
	paths [][][]byte
	alpha int32
	utype int32
	ulist [][]byte
	ok    bool
}

func c28Decode(m *netsim.Msg) c28Decoded {
	body, ok := c28Unframe(m.Data())
	if !ok {
		return c28Decoded{}
	}
	switch m.Stream {
	case streamOnRouteReq:
		var r pb.RouteReq
		if r.Unmarshal(body) != nil {
			return c28Decoded{}
		}
		d := c28Decoded{kind: "req", dest: r.Dest, alpha: r.Alpha, utype: r.UType, ok: true}
		for _, p := range r.Paths {
			d.paths = append(d.paths, p.Items)
		}
		for _, u := range r.UList {
			d.ulist = append(d.ulist, u.Dest)
		}
		return d
	case streamOnRouteResp:
		var r pb.RouteResp
		if r.Unmarshal(body) != nil {
			return c28Decoded{}
		}
		d := c28Decoded{kind: "resp", dest: r.Dest, utype: r.UType, ok: true}
		for _, p := range r.Paths {
			d.paths = append(d.paths, p.Items)
		}
		for _, u := range r.UList {
			d.ulist = append(d.ulist, u.Dest)
		}
		return d
	}
	return c28Decoded{}
}

// canonical text of a message: signatures, sign bodies (timestamps) and the
// underlay bytes are dropped - no handler branches on them (verifyPath is
// `return true`; an UList entry either parses or not, and ours always parse).
func c28Canon(m *netsim.Msg) string {
	// a message is complete when its sender's handler has returned, i.e. before
	// anybody asks for its canonical text: memoise per message
	c28CanonMu.Lock()
	defer c28CanonMu.Unlock()
	if s, ok := c28CanonCache[m]; ok {
		return s
	}
	if len(c28CanonCache) > 4096 {
		c28CanonCache = map[*netsim.Msg]string{}
	}
	s := c28CanonText(m)
	c28CanonCache[m] = s
	return s
}

var (
	c28CanonMu    sync.Mutex
	c28CanonCache = map[*netsim.Msg]string{}
)

func c28CanonText(m *netsim.Msg) string {
	d := c28Decode(m)
	if !d.ok {
		return fmt.Sprintf("%s>%s %s undecodable(%d bytes)", c28L(m.From.Bytes()), c28L(m.To.Bytes()), m.Stream, len(m.Data()))
	}
	var ps []string
	for _, p := range d.paths {
		ps = append(ps, c28Path(p))
	}
	var us []string
	for _, u := range d.ulist {
		us = append(us, c28L(u))
	}
	return fmt.Sprintf("%s>%s %s dest=%s paths=%s alpha=%d utype=%d ulist=%s", c28L(m.From.Bytes()), c28L(m.To.Bytes()), d.kind, c28L(d.dest),
		strings.Join(ps, ","), d.alpha, d.utype, strings.Join(us, ","))
}

type c28Node struct {
	idx  int
	svc  *Service
	book addressbook.Interface
}

func c28NodeCanon(nd *c28Node, target boson.Address) string {
	var parts []string
	names := map[common.Hash]string{}
	nd.svc.routeTable.paths.Range(func(k, v interface{}) bool {
		p := v.(*Path)
		s := c28AddrPath(p.Items)
		names[k.(common.Hash)] = s
		parts = append(parts, "P:"+s)
		return true
	})
	nd.svc.routeTable.mu.RLock()
	for k, rs := range nd.svc.routeTable.routes {
		var sb strings.Builder
		for _, r := range rs {
			pn, ok := names[r.PathKey]
			if !ok {
				pn = "?"
			}
			fmt.Fprintf(&sb, "%s>%s,", pn, c28L(r.Neighbor.Bytes()))
		}
		parts = append(parts, fmt.Sprintf("R:%s=%s", c28L(k[:]), sb.String()))
	}
	nd.svc.routeTable.mu.RUnlock()
	pc := nd.svc.pendingCalls
	pc.mu.RLock()
	for k, items := range pc.respList {
		var sb strings.Builder
		for _, it := range items {
			fmt.Fprintf(&sb, "%s/%v,", c28L(it.Src.Bytes()), it.ResCh != nil)
		}
		parts = append(parts, fmt.Sprintf("W:%s=%s", c28L(k[:]), sb.String()))
	}
	pc.mu.RUnlock()
	pc.reqList.Range(func(k, _ interface{}) bool {
		ks := k.(string) // hex(target)+hex(next)
		if len(ks) == 128 {
			t, _ := boson.ParseHexAddress(ks[:64])
			n, _ := boson.ParseHexAddress(ks[64:])
			parts = append(parts, fmt.Sprintf("Q:%s>%s", c28L(t.Bytes()), c28L(n.Bytes())))
		} else {
			parts = append(parts, "Q:"+ks)
		}
		return true
	})
	if a, _ := nd.book.Get(target); a != nil {
		parts = append(parts, "U:knows-target-underlay")
	}
	sort.Strings(parts)
	return c28Letters[nd.idx:nd.idx+1] + "{" + strings.Join(parts, " ") + "}"
}

// ---- oracle ----------------------------------------------------------------

// checkPath judges one path (a sequence of overlays). recorder >= 0: the node that stored it.
func c28CheckPath(x *mc.X, topo c28Topo, items [][]byte, recorder int, maxTTL int, where string) {
	idx := make([]int, len(items))
	for i, it := range items {
		idx[i] = c28Idx(it)
		if idx[i] < 0 || idx[i] >= topo.n {
			x.Fail("path-has-unknown-node", "%s: path %s has an item that is not a node of the network", where, c28Path(items))
		}
	}
	for i := range idx {
		for j := i + 1; j < len(idx); j++ {
			if idx[i] == idx[j] {
				x.Fail("path-repeats-node", "%s: path %s contains %c twice", where, c28Path(items), c28Letters[idx[i]])
			}
		}
	}
	for i := 0; i+1 < len(idx); i++ {
		if !topo.adj(idx[i], idx[i+1]) {
			x.Fail("path-uses-non-link", "%s: path %s: %c-%c is not a neighbour link of topology %s", where, c28Path(items), c28Letters[idx[i]], c28Letters[idx[i+1]], topo.name)
		}
	}
	if recorder >= 0 {
		for _, i := range idx {
			if i == recorder {
				x.Fail("path-contains-recording-node", "%s: node %c recorded path %s which contains itself", where, c28Letters[recorder], c28Path(items))
			}
		}
		if !topo.adj(idx[len(idx)-1], recorder) {
			x.Fail("path-last-hop-not-neighbour-of-recorder", "%s: node %c recorded path %s whose last hop is not its neighbour", where, c28Letters[recorder], c28Path(items))
		}
		// "no longer than the hop limit": a path of k items recorded at a node is a route of k
		// hops from that node to the path's origin (k-1 inside the path + the link to its
		// last hop), so k <= MaxTTL - the convention of every length check in route.go/table.go.
		if len(items) > maxTTL {
			x.Fail("path-longer-than-hop-limit", "%s: node %c recorded path %s: %d nodes = %d hops from %c, hop limit %d", where, c28Letters[recorder], c28Path(items), len(items), len(items), c28Letters[recorder], maxTTL)
		}
	}
}

func c28CheckNode(x *mc.X, topo c28Topo, nd *c28Node, maxTTL int, when string) {
	where := fmt.Sprintf("%s, table of %c", when, c28Letters[nd.idx])
	nd.svc.routeTable.paths.Range(func(_, v interface{}) bool {
		p := v.(*Path)
		c28CheckPath(x, topo, convItemsToBytes(p.Items), nd.idx, maxTTL, where)
		if len(p.Items) == maxTTL {
			x.Tag("recorded-path-with-maxttl-items")
		}
		return true
	})
	// what the node returns to callers (GetRoute) for every possible target
	for t := 0; t < len(c28Idents); t++ {
		ps, err := nd.svc.GetRoute(context.Background(), c28Idents[t].overlay)
		if err != nil {
			continue
		}
		for _, p := range ps {
			c28CheckPath(x, topo, convItemsToBytes(p.Items), nd.idx, maxTTL, fmt.Sprintf("%s, GetRoute(%c) at %c", when, c28Letters[t], c28Letters[nd.idx]))
			found := false
			for _, it := range p.Items {
				if it.Equal(c28Idents[t].overlay) {
					found = true
				}
			}
			if !found {
				x.Fail("returned-route-lacks-target", "%s: GetRoute(%c) at %c returned %s", when, c28Letters[t], c28Letters[nd.idx], c28AddrPath(p.Items))
			}
		}
	}
}

// paths carried by a message just sent: distinct nodes joined by links, the sender last
func c28CheckMsg(x *mc.X, topo c28Topo, m *netsim.Msg, when string) {
	d := c28Decode(m)
	if !d.ok {
		x.Broken("%s: undecodable message %s", when, c28Canon(m))
	}
	for _, p := range d.paths {
		c28CheckPath(x, topo, p, -1, 0, fmt.Sprintf("%s, message %s", when, c28Canon(m)))
		if len(p) == 0 || !bytes.Equal(p[len(p)-1], m.From.Bytes()) {
			x.Fail("sent-path-does-not-end-in-sender", "%s: message %s", when, c28Canon(m))
		}
	}
	if !topo.adj(c28Idx(m.From.Bytes()), c28Idx(m.To.Bytes())) {
		x.Fail("message-to-non-neighbour", "%s: message %s", when, c28Canon(m))
	}
}

// ---- the exploration -------------------------------------------------------

type c28Scenario struct {
	topo      int
	alpha     int32
	initiator int
	target    int // index into c28Idents; 4 = X (unreachable)
	maxTTL    int32
	noDrops   bool // quick tier, 5-node scenario: delivery orders only, no message loss
	second    int  // a second node that starts a discovery for the same target at any point of the run (-1: none)
}

// quick tier: one representative (initiator, target) pair per orbit of the
// topology's automorphism group (e.g. on the cycle only "opposite" and
// "adjacent"); the thorough tier takes every ordered pair.
var c28QuickPairs = map[string][]string{
	"line3":        {"AC", "AB", "BA", "AX", "BX"},
	"triangle3":    {"AB", "AX"},
	"line4":        {"AD", "AC", "AB", "BD", "BA", "BC", "AX", "BX"},
	"star4":        {"BC", "BA", "AB", "AX", "BX"},
	"cycle4":       {"AC", "AB", "AX"},
	"cycle4+chord": {"BD", "AB", "AC", "BA", "AX", "BX"},
	"complete4":    {"AB", "AX"},
	"kite5":        {"AE"},
}

func c28Scenarios(thorough bool) []c28Scenario {
	var out []c28Scenario
	add := func(ti, i, target int) {
		t := c28Topos[ti]
		for _, ttl := range []int32{1, 2, 3, 10} {
			if t.name == "kite5" && (ttl < 3 || (!thorough && ttl != 10)) {
				continue // the far end is 3 hops away; quick tier: MaxTTL 10 only
			}
			if !thorough && t.name == "complete4" && (ttl == 1 || ttl == 10 || (ttl == 3 && target == c28X)) {
				continue // quick tier: the by far largest topology only with MaxTTL 2 (and 3 for a reachable target)
			}
			// alpha >= max degree: getNeighbor never has to pick a random subset
			out = append(out, c28Scenario{ti, 3, i, target, ttl, !thorough && t.name == "kite5", -1})
			// alpha = 1 only where every node has at most one candidate anyway
			// (a line, initiator at an end): still deterministic, and the
			// route lists are capped at one route.
			if strings.HasPrefix(t.name, "line") && t.degree(i) == 1 {
				out = append(out, c28Scenario{ti, 1, i, target, ttl, false, -1})
			}
		}
	}
	// two discoveries for one target ("first second target", MaxTTLs): the second request is
	// issued at any point of the run. Pending entries are keyed by the target only, so the
	// single response also travels back along the other, possibly longer, request chain.
	two := map[string][]string{
		"line4": {"ABD 2", "BAD 2", "ABD 3", "BAD 3"},
	}
	if thorough {
		two = map[string][]string{
			"line3":     {"ABC 1", "BAC 1", "ABC 2", "BAC 2", "ACB 2", "ABX 2"},
			"triangle3": {"ABC 2", "ABX 2"},
			"line4":     {"ABD 1", "BAD 1", "ABD 2", "BAD 2", "ABD 3", "BAD 3", "ABD 10", "ACD 2", "CAD 2", "ADC 2", "ADB 2", "BCD 2", "ADC 3", "ABX 2", "ADX 3"},
			"star4":     {"BCD 2", "BCA 2", "BAC 2", "ABC 2", "BCX 2"},
			"cycle4":    {"ABC 2", "ACB 2", "ABD 2", "ABC 3", "BDC 3"},
			"tee5":      {"AED 2", "EAD 2", "AED 3", "EAD 3", "ADE 2", "DAE 3"},
			"tee6":      {"AFE 3", "FAE 3"},
		}
	}
	for ti, t := range c28Topos {
		for _, spec := range two[t.name] {
			var ttl int
			fmt.Sscanf(spec[4:], "%d", &ttl)
			out = append(out, c28Scenario{ti, 3, strings.IndexByte(c28Letters, spec[0]), strings.IndexByte(c28Letters, spec[2]), int32(ttl), false, strings.IndexByte(c28Letters, spec[1])})
		}
		if strings.HasPrefix(t.name, "tee") {
			continue // only used with two initiators
		}
		if !thorough {
			for _, p := range c28QuickPairs[t.name] {
				add(ti, strings.IndexByte(c28Letters, p[0]), strings.IndexByte(c28Letters, p[1]))
			}
			continue
		}
		if t.name == "complete4" {
			// vertex- and edge-transitive: every (initiator, target) pair is the image of
			// A->B or A->X under an automorphism
			for _, p := range c28QuickPairs[t.name] {
				add(ti, strings.IndexByte(c28Letters, p[0]), strings.IndexByte(c28Letters, p[1]))
			}
			continue
		}
		if t.name == "kite5" {
			for _, p := range []string{"AE", "EA", "CE", "AX"} {
				add(ti, strings.IndexByte(c28Letters, p[0]), strings.IndexByte(c28Letters, p[1]))
			}
			continue
		}
		for i := 0; i < t.n; i++ {
			for tg := 0; tg <= t.n; tg++ {
				target := tg
				if tg == t.n {
					target = c28X
				}
				if target != i {
					add(ti, i, target)
				}
			}
		}
	}
	return out
}

func TestVerifC28(t *testing.T) {
	logger := logging.New(ioutil.Discard, 0)
	scen := c28Scenarios(mc.Thorough())
	maxDrops := mc.EnvInt("VERIF_C28_DROPS", mc.Pick(1, 2))
	stepCap := 300
	var scenNames []string
	for _, s := range scen {
		nm := fmt.Sprintf("%s/alpha%d/ttl%d/%c->%c", c28Topos[s.topo].name, s.alpha, s.maxTTL, c28Letters[s.initiator], c28Letters[s.target])
		if s.noDrops {
			nm += "/no-drops"
		}
		if s.second >= 0 {
			nm += fmt.Sprintf("/second-initiator-%c", c28Letters[s.second])
		}
		scenNames = append(scenNames, nm)
	}
	worlds := map[int]*c28World{}
	defer func() {
		for _, w := range worlds {
			for _, db := range w.dbs {
				db.Close()
			}
		}
	}()
	savedAlpha, savedTTL, savedPT := NeighborAlpha, atomic.LoadInt32(&MaxTTL), PendingTimeout
	defer func() { NeighborAlpha = savedAlpha; atomic.StoreInt32(&MaxTTL, savedTTL); PendingTimeout = savedPT }()
	// The pending-table collectors run on a 500 ms ticker and forget entries older than
	// PendingTimeout (5 s). An execution takes milliseconds, but a stalled process on a
	// busy box must not turn into different protocol behaviour: the timeout is configured
	// far beyond any execution (assumption "no pending GC during an execution").
	PendingTimeout = time.Hour
	var maxExec time.Duration
	defer func() { t.Logf("longest single execution: %v", maxExec) }()

	// State keys of the previous execution, indexed by step: consecutive DFS
	// executions share a prefix, whose keys need not be recomputed.
	var prevCh []int
	var prevKeys []string

	mc.Run(t, mc.Config{ID: "C28", Name: "C28-discovery-netsim", MaxDev: maxDrops, Params: map[string]interface{}{
		"scenarios(topology/alpha/MaxTTL/initiator->target)": scenNames, "max_drops": maxDrops,
		"transitions": "deliver any in-flight onRouteReq/onRouteResp message to the real handler, or drop it (deviation)",
		"step_cap":    stepCap}},
		func(x *mc.X) {
			t0 := time.Now()
			defer func() {
				if d := time.Since(t0); d > maxExec {
					maxExec = d
				}
			}()
			c0 := x.Choose(len(scen))
			sc := scen[c0]
			maxTTL := sc.maxTTL
			curCh := []int{c0}
			var curKeys []string
			same := len(prevCh) >= 1 && prevCh[0] == c0
			defer func() { prevCh, prevKeys = curCh, curKeys }()
			topo := c28Topos[sc.topo]
			target := c28Idents[sc.target].overlay
			x.Logf("topology %s edges %v, alpha=%d MaxTTL=%d, %c looks for %c", topo.name, topo.edges, sc.alpha, maxTTL, c28Letters[sc.initiator], c28Letters[sc.target])

			x.Tag("topology:" + topo.name)
			w := worlds[sc.topo]
			if w == nil {
				var err error
				w, err = c28BuildWorld(topo, logger)
				x.NoErr(err, "build kademlias")
				worlds[sc.topo] = w
			}
			atomic.StoreInt32(&MaxTTL, maxTTL)
			ctx, cancel := context.WithCancel(context.Background())
			defer cancel()
			net := netsim.New(c28Canon)
			nodes := make([]*c28Node, topo.n)
			for i := 0; i < topo.n; i++ {
				book := addressbook.New(mockstate.NewStateStore())
				for j := 0; j < topo.n; j++ {
					if topo.adj(i, j) {
						x.NoErr(book.Put(c28Idents[j].overlay, *c28Idents[j].addr), "addressbook")
					}
				}
				if w.kads[i].ConnectedPeers().Length() != topo.degree(i) {
					x.Broken("kademlia of %c has %d connected peers, want %d", c28Letters[i], w.kads[i].ConnectedPeers().Length(), topo.degree(i))
				}
				svc := New(c28Idents[i].overlay, ctx, p2pmock.New(), net.Streamer(c28Idents[i].overlay), book, 0,
					lightnode.NewContainer(c28Idents[i].overlay), w.kads[i], mockstate.NewStateStore(), logger, Options{Alpha: sc.alpha})
				net.AddNode(c28Idents[i].overlay, svc.Protocol())
				nodes[i] = &c28Node{idx: i, svc: svc, book: book}
			}
			if NeighborAlpha != sc.alpha {
				x.Broken("NeighborAlpha=%d", NeighborAlpha)
			}

			// the request FindRoute issues (without its blocking wait)
			kick := func(node int) chan struct{} {
				svc := nodes[node].svc
				forward := svc.getNeighbor(target, NeighborAlpha, target)
				if len(forward) > int(sc.alpha) {
					x.Broken("initiator picked a random subset")
				}
				ch := make(chan struct{}, len(forward))
				if len(forward) > 0 {
					svc.doRouteReq(ctx, forward, svc.self, target, nil, ch)
				}
				return ch
			}
			ini := nodes[sc.initiator].svc
			resCh := kick(sc.initiator)
			var resCh2 chan struct{}
			secondPending := sc.second >= 0
			if secondPending {
				x.Tag("two-initiators")
			}
			checked := map[*netsim.Msg]bool{}
			checkNew := func(when string) {
				for _, m := range net.InFlight() {
					if !checked[m] {
						checked[m] = true
						c28CheckMsg(x, topo, m, when)
					}
				}
			}
			checkNew("initial request")

			stateKey := func() string {
				var sb strings.Builder
				for _, nd := range nodes {
					sb.WriteString(c28NodeCanon(nd, target))
				}
				sb.WriteString(" | ")
				for _, m := range net.InFlight() {
					sb.WriteString(c28Canon(m))
					sb.WriteString(" ; ")
				}
				fmt.Fprintf(&sb, "signals=%d second-pending=%v signals2=%d", len(resCh), secondPending, len(resCh2))
				return sb.String()
			}
			onPath := map[string]bool{stateKey(): true}
			dropped := false
			step := 0
			for ; ; step++ {
				fl := net.InFlight()
				if len(fl) == 0 && !secondPending {
					break
				}
				if step >= stepCap {
					x.Fail("no-quiescence-within-step-cap", "%d messages still in flight after %d transitions", len(fl), step)
				}
				// interchangeable messages (same canonical text) are one choice
				var distinct []*netsim.Msg
				last := ""
				for _, m := range fl {
					if c := c28Canon(m); c != last || len(distinct) == 0 {
						distinct = append(distinct, m)
						last = c
					}
				}
				arity := len(distinct)
				if secondPending {
					arity++ // one more transition: the second node starts its discovery now
				}
				ci, dv := x.Choose(arity), 0
				if ci < len(distinct) && !sc.noDrops {
					dv = x.Deviate(2)
				}
				curCh = append(curCh, ci, dv)
				if n := len(curCh); !(same && len(prevCh) >= n && prevCh[n-2] == ci && prevCh[n-1] == dv && len(prevKeys) > step) {
					same = false
				}
				var m *netsim.Msg
				if ci < len(distinct) {
					m = distinct[ci]
				}
				if m == nil {
					x.Logf("step %d: %c starts its own discovery for %c (%d messages in flight)", step, c28Letters[sc.second], c28Letters[sc.target], len(fl))
					if len(fl) > 0 {
						x.Tag("second-discovery-started-while-first-in-progress")
					}
					resCh2 = kick(sc.second)
					secondPending = false
					if !x.Replaying() {
						checkNew(fmt.Sprintf("after step %d", step))
					}
				} else if dv == 1 {
					x.Logf("step %d: DROP    %s", step, c28Canon(m))
					net.Drop(m)
					dropped = true
				} else {
					x.Logf("step %d: deliver %s", step, c28Canon(m))
					_, err := net.Deliver(ctx, m)
					if err != nil {
						x.Broken("handler returned %v for %s", err, c28Canon(m))
					}
					d := c28Decode(m)
					if d.kind == "resp" {
						x.Tag("resp-delivered")
					}
					if !x.Replaying() { // prefix states were judged when first reached
						when := fmt.Sprintf("after step %d", step)
						c28CheckNode(x, topo, nodes[c28Idx(m.To.Bytes())], int(maxTTL), when)
						checkNew(when)
					}
				}
				var key string
				if same {
					key = prevKeys[step]
				} else {
					key = stateKey()
				}
				curKeys = append(curKeys, key)
				if onPath[key] {
					x.Fail("state-repeats-on-one-execution", "the same global state was reached twice in one execution (possible livelock): %s", key)
				}
				onPath[key] = true
				if x.Seen(fmt.Sprintf("%s ttl%d a%d %c>%c second%d nodrops%v :: %s", topo.name, maxTTL, sc.alpha, c28Letters[sc.initiator], c28Letters[sc.target], sc.second, sc.noDrops, key), 0) {
					return
				}
			}
			// quiescence
			for _, nd := range nodes {
				c28CheckNode(x, topo, nd, int(maxTTL), "at quiescence")
			}
			x.Nontrivial()
			got, err := ini.GetRoute(ctx, target)
			pend := false
			for _, nd := range nodes {
				nd.svc.pendingCalls.mu.RLock()
				if len(nd.svc.pendingCalls.respList) > 0 {
					pend = true
				}
				nd.svc.pendingCalls.mu.RUnlock()
			}
			cls := "initiator-has-no-route"
			if err == nil && len(got) > 0 {
				cls = "initiator-has-route"
			}
			if len(resCh) > 0 {
				cls += "+signalled"
			}
			if dropped {
				cls += "+drops"
			} else if pend {
				x.Tag("pending-entries-left-without-drop")
			}
			if sc.target == c28X {
				cls += "+unreachable-target"
			}
			if sc.second >= 0 {
				if g2, e2 := nodes[sc.second].svc.GetRoute(ctx, target); e2 == nil && len(g2) > 0 {
					cls += "+second-has-route"
				} else {
					cls += "+second-has-no-route"
				}
			}
			x.Outcome(cls)
		})
}
