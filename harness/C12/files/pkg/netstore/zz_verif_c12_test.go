//go:build verif
// +build verif

package netstore_test

import (
	"context"
	"encoding/binary"
	"fmt"
	"sort"
	"strings"
	"testing"

	"github.com/gauss-project/aurorafs/pkg/boson"
	"github.com/gauss-project/aurorafs/pkg/sctx"
	"github.com/gauss-project/aurorafs/pkg/storage"
	"github.com/gauss-project/aurorafs/pkg/zzverif/mc"
	"github.com/gauss-project/aurorafs/pkg/zzverif/nodelite"
)

// C12: no garbage-collection run deletes a chunk whose pin count is positive
// or a chunk that was stored by local upload, and no run changes a pin count.

type c12Op struct {
	name string
	// run performs the operation and returns an outcome string; upload=true
	// marks operations whose newly stored chunks count as "stored by upload".
	run    func(n *nodelite.Node) string
	upload bool
	reg    string // file that a successful run registers with chunkinfo (POST /aurora, cache)
	regOK  string // outcome that means success
}

func c12SpanChunk(letter byte) []byte {
	p := nodelite.Payload(letter)
	b := make([]byte, 8, 8+len(p))
	binary.LittleEndian.PutUint64(b, uint64(len(p)))
	return append(b, p...)
}

func c12Ops(u *nodelite.Universe, thorough, race bool) []c12Op {
	var ops []c12Op
	up := func(f string, pin bool) c12Op {
		nm := "aurora(" + f + ")"
		if pin {
			nm = "aurora+pin(" + f + ")"
		}
		return c12Op{name: nm, upload: true, reg: f, regOK: "201", run: func(n *nodelite.Node) string {
			c, ref := n.UploadAurora(f, u.ByName[f].Data, pin)
			if c == 201 && !ref.Equal(u.ByName[f].Root) {
				return "201-other-root"
			}
			return fmt.Sprint(c)
		}}
	}
	bytesUp := func(f string, pin bool) c12Op {
		nm := "bytes(" + f + ")"
		if pin {
			nm = "bytes+pin(" + f + ")"
		}
		return c12Op{name: nm, upload: true, run: func(n *nodelite.Node) string {
			c, _ := n.UploadBytes(u.ByName[f].Data, pin)
			return fmt.Sprint(c)
		}}
	}
	chunkUp := func(letter byte, pin bool) c12Op {
		nm := "chunk(" + string(letter) + ")"
		if pin {
			nm = "chunk+pin(" + string(letter) + ")"
		}
		return c12Op{name: nm, upload: true, run: func(n *nodelite.Node) string {
			c, _ := n.UploadChunk(c12SpanChunk(letter), pin)
			return fmt.Sprint(c)
		}}
	}
	cache := func(f string) c12Op {
		return c12Op{name: "cache(" + f + ")", reg: f, regOK: "ok", run: func(n *nodelite.Node) string {
			if err := n.Cache(u.ByName[f]); err != nil {
				return "err:" + strings.SplitN(err.Error(), ":", 2)[0]
			}
			return "ok"
		}}
	}
	pin := func(f string) c12Op {
		return c12Op{name: "pin(" + f + ")", run: func(n *nodelite.Node) string { return fmt.Sprint(n.PinAPI(u.ByName[f].Root)) }}
	}
	unpin := func(f string) c12Op {
		return c12Op{name: "unpin(" + f + ")", run: func(n *nodelite.Node) string { return fmt.Sprint(n.UnpinAPI(u.ByName[f].Root)) }}
	}
	// a download that stopped early: only the root chunk of the file is fetched under the file's
	// context (the tree stays partly stored and cannot be enumerated)
	partial := func(f string) c12Op {
		return c12Op{name: "partial(" + f + ")", run: func(n *nodelite.Node) string {
			if err := n.FetchChunk(u.ByName[f].Root, u.ByName[f].Root); err != nil {
				return "err:" + strings.SplitN(err.Error(), ":", 2)[0]
			}
			return "ok"
		}}
	}
	// one chunk pinned directly in the store (localstore API), here the root chunk of a file
	pinroot := func(f string) c12Op {
		return c12Op{name: "pinroot(" + f + ")", run: func(n *nodelite.Node) string {
			r := u.ByName[f].Root
			if err := n.DB.Set(sctx.SetRootHash(context.Background(), r), storage.ModeSetPin, r); err != nil {
				return "err:" + strings.SplitN(err.Error(), ":", 2)[0]
			}
			return "ok"
		}}
	}
	restart := c12Op{name: "restart", run: func(n *nodelite.Node) string {
		if err := n.Restart(); err != nil {
			return "err"
		}
		return "ok"
	}}
	if race {
		// operations that create pins, run concurrently with a collection run
		r := []c12Op{pin("A"), pin("C"), up("A", true), bytesUp("B", true)}
		if thorough {
			r = append(r, chunkUp('x', true))
		}
		return r
	}
	ops = append(ops, up("A", false), up("A", true), up("B", false), bytesUp("B", false), bytesUp("B", true),
		cache("A"), cache("B"), cache("C"), cache("R"), pin("A"), unpin("A"), restart, partial("C"), pinroot("C"))
	if thorough {
		ops = append(ops, chunkUp('x', true), cache("D"))
	}
	return ops
}

// c12RefOps: pinning uploads that chunkinfo does not reference-count (POST /bytes, POST /chunks) and the
// removal of their pins (DELETE /pins/{reference}).
func c12RefOps(u *nodelite.Universe) []c12Op {
	bref := u.ByName["B"].Ref
	var xaddr boson.Address
	for k, v := range u.Names {
		if v == "x" {
			xaddr = boson.MustParseHexAddress(k)
		}
	}
	return []c12Op{
		{name: "chunk+pin(x)", upload: true, run: func(n *nodelite.Node) string {
			c, _ := n.UploadChunk(c12SpanChunk('x'), true)
			return fmt.Sprint(c)
		}},
		{name: "unpin(bytes B)", run: func(n *nodelite.Node) string { return fmt.Sprint(n.UnpinAPI(bref)) }},
		{name: "unpin(chunk x)", run: func(n *nodelite.Node) string { return fmt.Sprint(n.UnpinAPI(xaddr)) }},
	}
}

// c12PinRef: which reference an operation pins or unpins ("" if none), by operation name.
func c12PinRef(name string) (ref string, unpin bool) {
	i, j := strings.IndexByte(name, '('), strings.IndexByte(name, ')')
	if i < 0 || j < i {
		return "", false
	}
	kind, arg := name[:i], name[i+1:j]
	switch {
	case kind == "unpin" && strings.HasPrefix(arg, "bytes "):
		return arg[6:] + ".f", true
	case kind == "unpin" && strings.HasPrefix(arg, "chunk "):
		return arg[6:], true
	case kind == "unpin":
		return arg + ".R", true
	case kind == "pin" || kind == "aurora+pin":
		return arg + ".R", false
	case kind == "bytes+pin":
		return arg + ".f", false
	case kind == "chunk+pin":
		return arg, false
	}
	return "", false
}

func c12Names(m map[string]bool) string {
	var ks []string
	for k := range m {
		ks = append(ks, k)
	}
	sort.Strings(ks)
	return strings.Join(ks, ",")
}

func TestVerifC12(t *testing.T) {
	names := []string{"A", "B", "C", "D", "R"}
	letters := map[string]string{"A": "xy", "B": "xz", "C": "y", "D": "ww", "R": "xx"}
	u, err := nodelite.BuildUniverse(names, letters)
	if err != nil {
		t.Fatalf("universe: %v", err)
	}
	if boson.ChunkSize != 512 {
		t.Fatalf("C12 expects the scaled geometry (chunk size 512), got %d", boson.ChunkSize)
	}
	thorough := mc.Thorough()
	depth := mc.Pick(4, 5)
	capacity := uint64(8)
	ops := c12Ops(u, thorough, false)
	raceOps := c12Ops(u, thorough, true)
	var opNames, raceNames []string
	for _, o := range ops {
		opNames = append(opNames, o.name)
	}
	for _, o := range raceOps {
		raceNames = append(raceNames, o.name)
	}
	// what a pinned reference contains: manifest roots -> whole tree, file entries (/bytes references) ->
	// entry root + data chunks, single chunks -> themselves
	refClosure := map[string][]string{}
	for _, f := range u.Files {
		var all, entry []string
		for _, a := range f.Closure {
			all = append(all, u.Name(a))
		}
		refClosure[u.Name(f.Root)] = all
		entry = append(entry, u.Name(f.Ref))
		for _, a := range f.DataCid {
			entry = append(entry, u.Name(a))
			refClosure[u.Name(a)] = []string{u.Name(a)}
		}
		if _, ok := refClosure[u.Name(f.Ref)]; !ok || len(entry) > len(refClosure[u.Name(f.Ref)]) {
			refClosure[u.Name(f.Ref)] = entry
		}
	}
	const gcCap = 8
	mc.Run(t, mc.Config{ID: "C12", Name: "C12-gc-pins-uploads", MaxDev: 1, Params: map[string]interface{}{
		"race_alphabet": raceNames, "max_racing_ops": 1,
		"race_points": "inside every collectGarbage call: testHookGCIteratorDone (candidates selected) and the entry of every chunkinfo.DelFile call the collector makes (one per candidate)",
		"depth": depth, "alphabet": opNames, "capacity": capacity, "gc_target_ratio": "as shipped (0.9)",
		"files": letters, "chunk_size": boson.ChunkSize, "initial_states": "empty (depth steps) | aurora(B), cache(R), cache(A) (depth-2 steps)", "gc": "run synchronously after every operation that left a trigger pending",
	}}, func(x *mc.X) {
		n, err := nodelite.New(nodelite.Options{Capacity: capacity, Universe: u})
		x.NoErr(err, "node")
		defer n.Close()
		uploaded := map[string]bool{}   // chunks whose current presence originates from an upload
		registered := map[string]bool{} // files uploaded through POST /aurora or cached, and not evicted since
		gcRuns, evictions := 0, 0
		// references for which an unpin request was issued (whatever it answered) and no pin succeeded since:
		// a failed unpin may have removed chunk pins and left the root pin, such references are not judged
		unpinAttempted := map[string]bool{}
		notePin := func(name, out string) {
			ref, unpin := c12PinRef(name)
			switch {
			case ref == "":
			case unpin:
				unpinAttempted[ref] = true
			case out == "201" || out == "200":
				delete(unpinAttempted, ref)
			}
		}
		// initial state: empty store (depth steps), or a store that already holds content sharing one chunk
		// three ways — B=[x,z] uploaded through POST /aurora, R=[x,x] (x repeated inside the file) and A=[x,y]
		// cached; gcSize 7 of capacity 8 — so that histories with two successive collection runs over
		// shared and repeated chunks are inside the bound (depth-2 steps)
		steps := depth
		initState := x.Choose(3)
		populated := initState == 1
		pinnedShared := initState == 2
		// quick: cache(R) is offered only on top of the populated state (thorough: everywhere)
		stepOps := ops
		if !populated && !thorough {
			stepOps = nil
			for _, o := range ops {
				if o.name != "cache(R)" {
					stepOps = append(stepOps, o)
				}
			}
		}
		if pinnedShared {
			// cached A=[x,y]; then two pinning uploads that chunkinfo does not count, both containing x:
			// POST /bytes B=[x,z] and POST /chunks x. On top of it the pins can be removed one by one
			// (pin counts are reference counts) before the store overflows.
			steps = depth - 2
			stepOps = append(append([]c12Op{}, stepOps...), c12RefOps(u)...)
			x.NoErr(n.Cache(u.ByName["A"]), "initial cache(A)")
			registered["A"] = true
			s0, err := n.Snap()
			x.NoErr(err, "snapshot")
			if c, _ := n.UploadBytes(u.ByName["B"].Data, true); c != 201 {
				x.Broken("initial pinned /bytes upload of B: %d", c)
			}
			if c, _ := n.UploadChunk(c12SpanChunk('x'), true); c != 201 {
				x.Broken("initial pinned /chunks upload of x: %d", c)
			}
			s1, err := n.Snap()
			x.NoErr(err, "snapshot")
			for c := range s1.Data {
				if !s0.Data[c] {
					uploaded[c] = true
				}
			}
			if s1.Trigger {
				x.Broken("initial state requests a collection run")
			}
			x.Logf("initial state: cache(A), bytes+pin(B), chunk+pin(x)   [%s]", s1.Key())
		}
		if populated {
			steps = depth - 2
			s0, err := n.Snap()
			x.NoErr(err, "snapshot")
			if c, _ := n.UploadAurora("B", u.ByName["B"].Data, false); c != 201 {
				x.Broken("initial upload of B: %d", c)
			}
			s1, err := n.Snap()
			x.NoErr(err, "snapshot")
			for c := range s1.Data {
				if !s0.Data[c] {
					uploaded[c] = true
				}
			}
			x.NoErr(n.Cache(u.ByName["R"]), "initial cache(R)")
			x.NoErr(n.Cache(u.ByName["A"]), "initial cache(A)")
			registered["B"], registered["R"], registered["A"] = true, true, true
			s2, err := n.Snap()
			x.NoErr(err, "snapshot")
			if s2.Trigger {
				x.Broken("initial state requests a collection run")
			}
			x.Logf("initial state: aurora(B), cache(R), cache(A)   [%s]", s2.Key())
		}
		for step := 0; step < steps; step++ {
			op := stepOps[x.Choose(len(stepOps))]
			s0, err := n.Snap()
			x.NoErr(err, "snapshot")
			out := op.run(n)
			s1, err := n.Snap()
			x.NoErr(err, "snapshot")
			if op.upload {
				for c := range s1.Data {
					if !s0.Data[c] {
						uploaded[c] = true
					}
				}
			}
			for c := range uploaded {
				if !s1.Data[c] {
					delete(uploaded, c) // removed by something that is not a GC run: no longer C12's subject
				}
			}
			if op.reg != "" && out == op.regOK {
				registered[op.reg] = true
			}
			notePin(op.name, out)
			x.Logf("%s -> %s   [%s]", op.name, out, s1.Key())
			x.Outcome(op.name[:strings.IndexAny(op.name+"(", "(")] + ":" + out)

			if s1.Trigger {
				// ---- a garbage-collection run (worker loop), with the C12 oracle around it
				// At every scheduling point inside the run one pin-creating operation may execute
				// (x.Deviate, at most one per execution). It completes — its HTTP answer is back —
				// before the collector goes on, so its pins must be honoured: the oracle's "before"
				// state is the state right after the racing operation.
				s0gc := s1
				raced, racePoint := "", ""
				var processed []string // roots whose DelFile call has returned when the racing operation ran
				var done []string
				race := func(point string) {
					k := x.Deviate(1 + len(raceOps))
					if k == 0 {
						return
					}
					r := raceOps[k-1]
					b, err := n.Snap()
					x.NoErr(err, "snapshot")
					out := r.run(n)
					a, err := n.Snap()
					x.NoErr(err, "snapshot")
					if r.upload {
						for c := range a.Data {
							if !b.Data[c] {
								uploaded[c] = true
							}
						}
					}
					if r.reg != "" && out == r.regOK {
						registered[r.reg] = true
					}
					notePin(r.name, out)
					raced, racePoint = r.name, point
					processed = append([]string{}, done...)
					s1 = a
					x.Logf("   .. inside the collection run, at %s: %s -> %s   [%s]", point, r.name, out, a.Key())
				}
				n.OnGCDelFile = func(root boson.Address) { race("entry of DelFile(" + u.Name(root) + ")") }
				var removedByGC []string // roots whose DelFile call succeeded: chunkinfo no longer knows the file
				n.AfterGCDelFile = func(root boson.Address, err error) {
					done = append(done, u.Name(root))
					if err == nil {
						removedByGC = append(removedByGC, u.Name(root))
					}
				}
				res := n.GCHooked(gcCap, func(run int) { race("gc iterator hook") })
				// references listed as pinned (GET /pins; a collection run never touches root pins)
				var pinnedRefsBefore []string
				if _, refs := n.ListPinsAPI(); true {
					for _, r := range refs {
						pinnedRefsBefore = append(pinnedRefsBefore, u.Name(r))
					}
					sort.Strings(pinnedRefsBefore)
				}
				n.OnGCDelFile, n.AfterGCDelFile = nil, nil
				gcRuns += res.Runs
				s2, err := n.Snap()
				x.NoErr(err, "snapshot")
				if raced != "" {
					x.Tag("gc-raced-by-pin-operation")
					if strings.HasPrefix(racePoint, "entry") {
						x.Tag("gc-raced-at-delfile-entry")
					}
				}
				var evicted []string
				for _, e := range s1.GC {
					still := false
					for _, e2 := range s2.GC {
						if e2.Root == e.Root {
							still = true
						}
					}
					if !still {
						evicted = append(evicted, e.Root)
					}
				}
				// a racing pin may have taken the file's gc entry away before the snapshot; the file was
				// evicted all the same if the collector's DelFile call for it succeeded
				for _, r := range removedByGC {
					have := false
					for _, e := range evicted {
						have = have || e == r
					}
					if !have {
						evicted = append(evicted, r)
					}
				}
				evictions += len(evicted)
				for _, r := range evicted {
					for _, f := range u.Files {
						if u.Name(f.Root) == r {
							delete(registered, f.Name)
						}
					}
				}
				// reference model of the pyramid reference count after the run: number of
				// registered files that were not evicted and contain the chunk
				refs := map[string]uint{}
				for f := range registered {
					for _, a := range u.ByName[f].Closure {
						refs[u.Name(a)]++
					}
				}
				x.Logf("GC runs=%d collected=%d done=%v err=%v capHit=%v evicted=%v   [%s]", res.Runs, res.Collected, res.Done, res.Err, res.CapHit, evicted, s2.Key())
				pinnedBefore := 0
				for _, c := range s1.Pin {
					if c > 0 {
						pinnedBefore++
					}
				}
				if len(evicted) > 0 && (pinnedBefore > 0 || len(uploaded) > 0) {
					x.Nontrivial()
				}
				if len(evicted) > 0 {
					x.Tag("gc-evicted-a-file")
					for c, r := range refs {
						if r > 0 && s1.Data[c] && s2.Data[c] {
							x.Tag("gc-kept-chunk-shared-with-registered-file")
							break
						}
					}
				}
				if res.CapHit {
					x.Tag("gc-loop-cap-hit")
				}
				if res.Err != nil {
					x.Tag("gc-returned-error")
				}
				evictedUploadedRoot := false
				for _, r := range evicted {
					if uploaded[r] {
						evictedUploadedRoot = true
					}
				}
				// deterministic order of inspection
				var cs []string
				for c := range s1.Data {
					cs = append(cs, c)
				}
				sort.Strings(cs)
				ctx := fmt.Sprintf("evicted %v; pins before {%s}; uploaded {%s}", evicted, c12PinStr(s1.Pin), c12Names(uploaded))
				// 0. chunks pinned by the racing operation (it had returned before the collector removed them)
				for _, c := range cs {
					if raced != "" && s0gc.Pin[c] == 0 && s1.Pin[c] > 0 && !s2.Data[c] {
						x.Tag("gc-hit-pinned-chunk")
						shape := "before-its-file-was-processed"
						for _, r := range processed {
							for _, f := range u.Files {
								if u.Name(f.Root) == r {
									for _, a := range f.Closure {
										if u.Name(a) == c {
											shape = "after-its-file-was-processed"
										}
									}
								}
							}
						}
						x.Fail("gc-deleted-chunk-pinned-during-run-"+shape, "GC deleted %s although %s (at %s) had pinned it (count %d) and returned before the collector removed it; %s", c, raced, racePoint, s1.Pin[c], ctx)
					}
				}
				// 1. chunks that a registered, not evicted file contains must survive in any case
				for _, c := range cs {
					if !s2.Data[c] && refs[c] > 0 && (s1.Pin[c] > 0 || uploaded[c]) {
						x.Fail("gc-deleted-protected-chunk-of-remaining-registered-file", "GC deleted %s (pin %d, uploaded %v) although %d registered files that were not evicted contain it (the pyramid reference count must keep it); %s", c, s1.Pin[c], uploaded[c], refs[c], ctx)
					}
				}
				// 2. pinned chunks
				for _, c := range cs {
					if s1.Pin[c] > 0 && !s2.Data[c] {
						x.Tag("gc-hit-pinned-chunk")
						x.Fail("gc-deleted-pinned-chunk", "GC deleted %s whose pin count was %d; %s", c, s1.Pin[c], ctx)
					}
				}
				var ps []string
				for c := range s1.Pin {
					ps = append(ps, c)
				}
				for c := range s2.Pin {
					if _, ok := s1.Pin[c]; !ok {
						ps = append(ps, c)
					}
				}
				sort.Strings(ps)
				for _, c := range ps {
					if s1.Pin[c] != s2.Pin[c] {
						x.Fail("gc-changed-pin-count", "GC changed the pin count of %s from %d to %d; %s", c, s1.Pin[c], s2.Pin[c], ctx)
					}
				}
				// 2b. content of references that are listed as pinned (root pin present) must survive, whatever
				// the pin index says about the single chunks: pin counts are reference counts, a chunk pinned
				// through two references stays protected while one of them is pinned
				for _, pr := range pinnedRefsBefore {
					if unpinAttempted[pr] {
						continue
					}
					for _, c := range refClosure[pr] {
						if s1.Data[c] && !s2.Data[c] {
							x.Fail("gc-deleted-chunk-of-pinned-reference", "GC deleted %s (pin count in the index: %d) although reference %s, which contains it, is listed as pinned; %s", c, s1.Pin[c], pr, ctx)
						}
					}
				}
				// 3. uploaded chunks
				for _, c := range cs {
					if uploaded[c] && !s2.Data[c] {
						if evictedUploadedRoot {
							x.Fail("gc-evicted-uploaded-file", "GC evicted an uploaded file and deleted its uploaded chunk %s; %s", c, ctx)
						}
						x.Fail("gc-deleted-uploaded-chunk-of-evicted-cached-file", "GC deleted uploaded chunk %s while evicting a cached file that contains it; %s", c, ctx)
					}
				}
				for c := range uploaded {
					if !s2.Data[c] {
						delete(uploaded, c)
					}
				}
				x.Outcome(fmt.Sprintf("gc:evicted=%d,pinned-before=%v,uploaded-before=%v,done=%v", len(evicted), pinnedBefore > 0, len(uploaded) > 0, res.Done && !res.CapHit))
			}
			ik, err := n.InfoKey()
			x.NoErr(err, "infokey")
			sk, err := n.Snap()
			x.NoErr(err, "snapshot")
			if x.Seen(sk.Key()+"#"+ik+"#U:"+c12Names(uploaded)+"#R:"+c12Names(registered)+"#UA:"+c12Names(unpinAttempted), steps-step-1) {
				return
			}
		}
		if gcRuns > 0 {
			x.Tag("execution-with-gc-run")
		}
		if evictions > 1 {
			x.Tag("execution-with-two-evictions")
		}
	})
}

func c12PinStr(m map[string]uint64) string {
	var ks []string
	for k := range m {
		ks = append(ks, k)
	}
	sort.Strings(ks)
	var b strings.Builder
	for _, k := range ks {
		fmt.Fprintf(&b, "%s=%d ", k, m[k])
	}
	return strings.TrimSpace(b.String())
}
