//go:build verif
// +build verif

package traversal

// C09: traversal reports exactly the chunks of a file or directory.
//
// Every execution uploads one object (a plain or encrypted file, or a mantaray directory of
// such files) through the real pipeline into an in-memory store whose Put is recorded, next to
// an unrelated decoy file that is not recorded. Then
//   Traverse(x)                == recorded set W (as chunk addresses)
//   keys(GetPyramid(x))        ⊆  W
//   lists of GetChunkHashes(x) ⊆  W,   pyramid ∪ lists == W.

import (
	"bytes"
	"context"
	crand "crypto/rand"
	"encoding/binary"
	"fmt"
	"io"
	"sort"
	"strings"
	"sync"
	"testing"

	"github.com/gauss-project/aurorafs/pkg/boson"
	"github.com/gauss-project/aurorafs/pkg/cac"
	"github.com/gauss-project/aurorafs/pkg/file/loadsave"
	"github.com/gauss-project/aurorafs/pkg/file/pipeline"
	"github.com/gauss-project/aurorafs/pkg/file/pipeline/builder"
	"github.com/gauss-project/aurorafs/pkg/manifest"
	"github.com/gauss-project/aurorafs/pkg/storage"
	smock "github.com/gauss-project/aurorafs/pkg/storage/mock"
	"github.com/gauss-project/aurorafs/pkg/zzverif/mc"
	"golang.org/x/crypto/sha3"
)

type verifC09Locked struct {
	mu sync.Mutex
	r  io.Reader
}

func (l *verifC09Locked) Read(p []byte) (int, error) {
	l.mu.Lock()
	defer l.mu.Unlock()
	return l.r.Read(p)
}

// store with a recording Put
type verifC09Store struct {
	*smock.MockStorer
	mu  sync.Mutex
	on  bool
	rec map[string]bool // chunk addresses (hex) put while `on`
}

func (s *verifC09Store) Put(ctx context.Context, mode storage.ModePut, chs ...boson.Chunk) ([]bool, error) {
	s.mu.Lock()
	if s.on {
		for _, c := range chs {
			s.rec[c.Address().String()] = true
		}
	}
	s.mu.Unlock()
	return s.MockStorer.Put(ctx, mode, chs...)
}

// file contents: kind 0 = every byte position dependent (all chunks distinct), kind 1 = period of one
// chunk (all full chunks identical => shared chunk addresses), salt distinguishes files
func verifC09Data(l, kind int, salt byte) []byte {
	d := make([]byte, l)
	c := int(boson.ChunkSize)
	for i := range d {
		j := i
		if kind == 1 {
			j = i % c
		}
		d[i] = byte(1+(j*131+(j>>8)*17)%255) ^ salt
	}
	return d
}

func verifC09Upload(ctx context.Context, x *mc.X, st *verifC09Store, data []byte, encrypted bool) boson.Address {
	p := builder.NewPipelineBuilder(ctx, st, storage.ModePutUpload, encrypted)
	addr, err := builder.FeedPipeline(ctx, p, bytes.NewReader(data))
	x.NoErr(err, "upload")
	return addr
}

// chunk address of a reported reference (encrypted references are address||key)
func verifC09Addr(ref []byte) string {
	if len(ref) > boson.HashSize {
		ref = ref[:boson.HashSize]
	}
	return boson.NewAddress(ref).String()
}

func verifC09Sorted(m map[string]bool) []string {
	var r []string
	for k := range m {
		r = append(r, k[:8])
	}
	sort.Strings(r)
	return r
}

// the three checks of the statement on object `root` whose written chunk set is st.rec
func verifC09Check(ctx context.Context, x *mc.X, st *verifC09Store, root boson.Address, what, situation string) {
	w := st.rec
	tr := New(st)
	// 1. Traverse
	seen := map[string]bool{}
	var terr error
	if pv := mc.Try(func() {
		terr = tr.Traverse(ctx, root, func(a boson.Address) error { seen[verifC09Addr(a.Bytes())] = true; return nil })
	}); pv != nil {
		x.Fail("traverse-panic", "%s: Traverse panics: %v", what, pv)
	}
	x.Check(terr == nil, "traverse-error"+situation, "%s: Traverse: %v", what, terr)
	for a := range w {
		if !seen[a] {
			x.Fail("traverse-misses-written-chunk", "%s: chunk %s.. was written but not reported (written %d, reported %d)", what, a[:8], len(w), len(seen))
		}
	}
	for a := range seen {
		if !w[a] {
			x.Fail("traverse-reports-foreign-chunk", "%s: reported chunk %s.. was not written for this object (written %v)", what, a[:8], verifC09Sorted(w))
		}
	}
	// 2. pyramid and data lists
	var pyr map[string][]byte
	var perr error
	if pv := mc.Try(func() { pyr, perr = tr.GetPyramid(ctx, root) }); pv != nil {
		x.Fail("pyramid-panic", "%s: GetPyramid panics: %v", what, pv)
	}
	x.Check(perr == nil, "pyramid-error"+situation, "%s: GetPyramid: %v", what, perr)
	cover := map[string]bool{}
	for k, data := range pyr {
		a, err := boson.ParseHexAddress(k)
		x.NoErr(err, "pyramid key")
		ka := verifC09Addr(a.Bytes())
		if !w[ka] {
			x.Fail("pyramid-has-foreign-chunk", "%s: pyramid key %s.. is not a written chunk", what, ka[:8])
		}
		cover[ka] = true
		if len(a.Bytes()) == boson.HashSize {
			// plain: the pyramid carries the chunk itself
			ch, err := st.MockStorer.Get(ctx, storage.ModeGetRequest, a)
			x.NoErr(err, "stored chunk of a pyramid key")
			x.Check(bytes.Equal(ch.Data(), data), "pyramid-data-differs-from-chunk", "%s: pyramid entry %s.. has %d bytes, the stored chunk %d", what, ka[:8], len(data), len(ch.Data()))
		}
	}
	var lists [][][]byte
	var herr error
	if pv := mc.Try(func() { lists, _, herr = tr.GetChunkHashes(ctx, root, nil) }); pv != nil {
		x.Fail("chunk-hashes-panic", "%s: GetChunkHashes panics: %v", what, pv)
	}
	x.Check(herr == nil, "chunk-hashes-error"+situation, "%s: GetChunkHashes: %v", what, herr)
	nData := 0
	for _, l := range lists {
		for _, h := range l {
			ha := verifC09Addr(h)
			if !w[ha] {
				x.Fail("data-list-has-foreign-chunk", "%s: data chunk %s.. is not a written chunk", what, ha[:8])
			}
			cover[ha] = true
			nData++
		}
	}
	for a := range w {
		if !cover[a] {
			x.Fail("pyramid-and-data-lists-miss-chunk", "%s: written chunk %s.. is neither in the pyramid (%d keys) nor in the data lists (%d entries)", what, a[:8], len(pyr), nData)
		}
	}
	x.Logf("%s: %d chunks written, %d reported, pyramid %d, data entries %d in %d lists", what, len(w), len(seen), len(pyr), nData, len(lists))
}

func verifC09Setup(x *mc.X, label string) (context.Context, *verifC09Store) {
	shake := sha3.NewShake128()
	shake.Write([]byte(label))
	crand.Reader = &verifC09Locked{r: shake}
	st := &verifC09Store{MockStorer: smock.NewStorer(), rec: map[string]bool{}}
	return context.Background(), st
}

func TestVerifC09Files(t *testing.T) {
	c := int(boson.ChunkSize)
	b := int(boson.Branches)
	var lengths []int
	var desc string
	if c > 4096 {
		lengths = []int{0, 1, c - 1, c, c + 1, 2*c + 1}
		desc = "production geometry: 0,1,C-1,C,C+1,2C+1"
	} else {
		max := c*b*b + 2*c + 3
		if mc.Thorough() {
			max = c*b*b*b + 2*c + 3
		}
		for i := 0; i <= max; i++ {
			lengths = append(lengths, i)
		}
		desc = fmt.Sprintf("all 0..%d (chunk %d, %d / %d references per plain / encrypted intermediate chunk)", max, c, b, b/2)
	}
	const blk = 32
	mc.Run(t, mc.Config{ID: "C09", Name: fmt.Sprintf("C09-files-%dbranches", b), MaxDev: -1, ShardLevels: 1, Params: map[string]interface{}{
		"lengths": desc, "n_lengths": len(lengths), "content": []string{"all chunks distinct", "period one chunk (identical full chunks)"},
		"mode": []string{"plain", "encrypted"}, "decoy": "an unrelated 2-chunk file in the same store, uploaded before or after"}},
		func(x *mc.X) {
			bi := x.Choose((len(lengths) + blk - 1) / blk)
			n := len(lengths) - bi*blk
			if n > blk {
				n = blk
			}
			l := lengths[bi*blk+x.Choose(n)]
			kind := x.Choose(2)
			encrypted := x.Bool()
			decoyFirst := false
			if c <= 4096 || mc.Thorough() {
				decoyFirst = x.Bool()
			}
			ctx, st := verifC09Setup(x, fmt.Sprintf("file-%d-%d-%v", l, kind, encrypted))
			decoy := verifC09Data(c+7, 0, 0x5a)
			if decoyFirst {
				verifC09Upload(ctx, x, st, decoy, encrypted)
			}
			st.on = true
			data := verifC09Data(l, kind, 0)
			root := verifC09Upload(ctx, x, st, data, encrypted)
			st.on = false
			if !decoyFirst {
				verifC09Upload(ctx, x, st, decoy, encrypted)
			}
			what := fmt.Sprintf("file of %d bytes (content kind %d, encrypted %v)", l, kind, encrypted)
			x.Logf("%s, decoy first %v", what, decoyFirst)
			verifC09Check(ctx, x, st, root, what, "")
			// information only (not part of the statement): the data list of a plain file is in file order
			if !encrypted {
				lists, _, err := New(st).GetChunkHashes(ctx, root, nil)
				ok := err == nil && len(lists) == 1
				if ok {
					var want [][]byte
					for off := 0; off < l || off == 0; off += c {
						end := off + c
						if end > l {
							end = l
						}
						sd := make([]byte, 8+end-off)
						binary.LittleEndian.PutUint64(sd, uint64(end-off))
						copy(sd[8:], data[off:end])
						ch, err := cac.NewWithDataSpan(sd)
						x.NoErr(err, "cac.NewWithDataSpan")
						want = append(want, ch.Address().Bytes())
						if l == 0 {
							break
						}
					}
					ok = len(want) == len(lists[0])
					for i := 0; ok && i < len(want); i++ {
						ok = bytes.Equal(want[i], lists[0][i])
					}
				}
				x.Outcome(fmt.Sprintf("data-list-in-file-order=%v", ok))
			}
			switch {
			case l <= c:
				x.Tag("single-chunk")
			case len(st.rec) > 0:
				x.Nontrivial()
				if kind == 1 && l >= 2*c {
					x.Tag("shared-chunk-addresses")
				}
			}
		})
}

var verifC09Patterns = []string{"all paths the same 1-chunk file", "sizes 0,1,C,C+1,2C+5,3C by path index, distinct content", "as before but paths 0 and 3 share one file", "periodic content (shared chunks inside and across files)"}

// uploads a decoy, then (recorded) the files of the path subset and the manifest
func verifC09BuildDir(ctx context.Context, x *mc.X, st *verifC09Store, sub, pat int, encrypted, rootEntry bool) (boson.Address, []string) {
	c := int(boson.ChunkSize)
	sizes := []int{0, 1, c, c + 1, 2*c + 5, 3 * c}
	verifC09Upload(ctx, x, st, verifC09Data(c+7, 0, 0x5a), encrypted) // decoy
	st.on = true
	ls := loadsave.New(st, func() pipeline.Interface {
		return builder.NewPipelineBuilder(ctx, st, storage.ModePutUpload, encrypted)
	})
	m, err := manifest.NewDefaultManifest(ls, encrypted)
	x.NoErr(err, "NewDefaultManifest")
	var names []string
	for i, p := range verifC09Paths {
		if sub&(1<<uint(i)) == 0 {
			continue
		}
		var data []byte
		switch pat {
		case 0:
			data = verifC09Data(1, 0, 1)
		case 1:
			data = verifC09Data(sizes[i], 0, byte(i+1))
		case 2:
			j := i
			if i == 3 {
				j = 0
			}
			data = verifC09Data(sizes[j], 0, byte(j+1))
		default:
			data = verifC09Data(sizes[i], 1, 0)
		}
		ref := verifC09Upload(ctx, x, st, data, encrypted)
		err := m.Add(ctx, p, manifest.NewEntry(ref, map[string]string{manifest.EntryMetadataFilenameKey: p}))
		x.NoErr(err, "manifest Add")
		names = append(names, fmt.Sprintf("%s:%d", p, len(data)))
	}
	if rootEntry {
		err := m.Add(ctx, manifest.RootPath, manifest.NewEntry(boson.ZeroAddress, map[string]string{manifest.WebsiteIndexDocumentSuffixKey: "index.html"}))
		x.NoErr(err, "manifest Add root")
	}
	root, err := m.Store(ctx)
	x.NoErr(err, "manifest Store")
	st.on = false
	return root, names
}

func verifC09Subsets() []int {
	nsub := 1 << uint(len(verifC09Paths))
	if int(boson.ChunkSize) > 4096 && !mc.Thorough() {
		return []int{3, 0x18, 0x3f} // production geometry, quick tier
	}
	var subsets []int
	for s := 1; s < nsub; s++ {
		subsets = append(subsets, s)
	}
	return subsets
}

// Pyramid exchange: the receiving node gets the pyramid of x (GetPyramid on the uploader) and runs
// GetChunkHashes(x, pyramid) on its own store, which may already hold some of the pyramid's chunks.
// Afterwards the receiver must hold exactly the pyramid: every pyramid chunk retrievable with the
// same bytes, nothing else written, Traverse on the receiver reports the written set W, GetPyramid
// on the receiver gives the same key set, and the returned data lists together with the pyramid
// cover W.
var verifC09ReceiverStates = []string{"empty", "root chunk only", "root and every second other pyramid chunk", "every pyramid chunk but the root", "every second non-root pyramid chunk", "all pyramid chunks"}

func verifC09Exchange(ctx context.Context, x *mc.X, up *verifC09Store, root boson.Address, what string, state int) {
	w := up.rec
	pyr, err := New(up).GetPyramid(ctx, root)
	x.Check(err == nil, "pyramid-error", "%s: GetPyramid on the uploader: %v", what, err)
	var keys []string
	for k := range pyr {
		if k != root.String() {
			keys = append(keys, k)
		}
	}
	sort.Strings(keys)
	if _, ok := pyr[root.String()]; !ok {
		x.Fail("pyramid-without-root", "%s: pyramid has no entry for the reference itself", what)
	}
	recv := &verifC09Store{MockStorer: smock.NewStorer(), rec: map[string]bool{}}
	pre := func(k string) {
		a, err := boson.ParseHexAddress(k)
		x.NoErr(err, "pyramid key")
		_, err = recv.MockStorer.Put(ctx, storage.ModePutRequest, boson.NewChunk(a, append([]byte{}, pyr[k]...)))
		x.NoErr(err, "pre-populating the receiver")
	}
	held := 0
	switch state {
	case 1:
		pre(root.String())
		held = 1
	case 2:
		pre(root.String())
		held = 1
		for i := 0; i < len(keys); i += 2 {
			pre(keys[i])
			held++
		}
	case 3:
		for _, k := range keys {
			pre(k)
			held++
		}
	case 4:
		for i := 1; i < len(keys); i += 2 {
			pre(keys[i])
			held++
		}
	case 5:
		pre(root.String())
		held = 1
		for _, k := range keys {
			pre(k)
			held++
		}
	}
	x.Logf("%s: pyramid of %d chunks, receiver holds %d of them before the exchange (%s)", what, len(pyr), held, verifC09ReceiverStates[state])
	if held > 0 && held < len(pyr) {
		x.Tag("receiver-holds-part-of-the-pyramid")
		x.Nontrivial()
	}
	if held == 1 && len(pyr) > 1 && state == 1 {
		x.Tag("receiver-holds-only-the-root-of-a-larger-pyramid")
	}
	cp := map[string][]byte{}
	for k, v := range pyr {
		cp[k] = append([]byte{}, v...)
	}
	recv.on = true
	rt := New(recv)
	var lists [][][]byte
	var xerr error
	if pv := mc.Try(func() { lists, _, xerr = rt.GetChunkHashes(ctx, root, cp) }); pv != nil {
		x.Fail("exchange-panic", "%s: GetChunkHashes(ref, pyramid) panics: %v", what, pv)
	}
	recv.on = false
	x.Check(xerr == nil, "exchange-error", "%s: GetChunkHashes(ref, pyramid) on a receiver that holds %s: %v", what, verifC09ReceiverStates[state], xerr)
	// the receiver stores exactly the pyramid
	for k, data := range pyr {
		a, _ := boson.ParseHexAddress(k)
		ch, err := recv.MockStorer.Get(ctx, storage.ModeGetRequest, a)
		if err != nil {
			x.Fail("exchange-leaves-pyramid-chunk-missing", "%s: receiver held %s; after the exchange pyramid chunk %s.. is not in its store (%v); pyramid has %d chunks", what, verifC09ReceiverStates[state], k[:8], err, len(pyr))
		}
		x.Check(bytes.Equal(ch.Data(), data), "exchange-stores-different-data", "%s: pyramid chunk %s.. stored with %d bytes, pyramid has %d", what, k[:8], len(ch.Data()), len(data))
	}
	for a := range recv.rec {
		if _, ok := pyr[a]; !ok {
			x.Fail("exchange-stores-foreign-chunk", "%s: the exchange wrote chunk %s.. which is not in the pyramid", what, a[:8])
		}
	}
	// the receiver can traverse the reference and sees the same chunks as the uploader
	seen := map[string]bool{}
	var terr error
	if pv := mc.Try(func() {
		terr = rt.Traverse(ctx, root, func(a boson.Address) error { seen[verifC09Addr(a.Bytes())] = true; return nil })
	}); pv != nil {
		x.Fail("exchange-receiver-traverse-panic", "%s: Traverse on the receiver panics: %v", what, pv)
	}
	x.Check(terr == nil, "exchange-receiver-traverse-error", "%s: Traverse on the receiver (held %s before): %v", what, verifC09ReceiverStates[state], terr)
	for a := range w {
		x.Check(seen[a], "exchange-receiver-traverse-differs", "%s: receiver's Traverse does not report written chunk %s..", what, a[:8])
	}
	for a := range seen {
		x.Check(w[a], "exchange-receiver-traverse-differs", "%s: receiver's Traverse reports %s.. which was not written for the object", what, a[:8])
	}
	rp, perr := rt.GetPyramid(ctx, root)
	x.Check(perr == nil, "exchange-receiver-pyramid-error", "%s: GetPyramid on the receiver: %v", what, perr)
	x.Check(len(rp) == len(pyr), "exchange-receiver-pyramid-differs", "%s: receiver's pyramid has %d chunks, the uploader's %d", what, len(rp), len(pyr))
	for k := range pyr {
		if _, ok := rp[k]; !ok {
			x.Fail("exchange-receiver-pyramid-differs", "%s: receiver's pyramid lacks %s..", what, k[:8])
		}
	}
	// data lists of the exchange and the pyramid cover the written set
	cover := map[string]bool{}
	for k := range pyr {
		cover[k] = true
	}
	for _, l := range lists {
		for _, h := range l {
			ha := verifC09Addr(h)
			x.Check(w[ha], "exchange-data-list-has-foreign-chunk", "%s: data chunk %s.. of the exchange is not a written chunk", what, ha[:8])
			cover[ha] = true
		}
	}
	for a := range w {
		x.Check(cover[a], "exchange-pyramid-and-data-lists-miss-chunk", "%s: written chunk %s.. is neither in the pyramid nor in the exchange's data lists", what, a[:8])
	}
	x.Outcome(fmt.Sprintf("receiver-%d:%s", state, verifC09ReceiverStates[state]))
}

// A single file as the HTTP API stores it: a manifest with the root entry ("/", zero reference,
// index document) and one entry for the file. (The exchange of a raw multi-chunk file reference is
// not something the node does - chunk-info roots are manifest references - and GetChunkHashes cannot
// do it: it first reads the whole reference as a manifest, which needs the data chunks.)
func TestVerifC09ExchangeFileManifests(t *testing.T) {
	c := int(boson.ChunkSize)
	b := int(boson.Branches)
	var lengths []int
	if c > 4096 {
		lengths = []int{0, 1, c, c + 1, 2*c + 1}
	} else {
		lengths = []int{0, 1, c - 1, c, c + 1, 2 * c, 2*c + 1, 3*c + 5, b*c - 1, b * c, b*c + 1, b*c + c, b*c + c + 1, 2*b*c + 1}
	}
	mc.Run(t, mc.Config{ID: "C09", Name: fmt.Sprintf("C09-exchange-file-manifests-%dbranches", b), MaxDev: -1, ShardLevels: 1, Params: map[string]interface{}{
		"file_lengths": lengths, "chunk_size": c, "branches": b, "manifest": "Add(/, zero reference + index document); Add(<name>, file reference) as pkg/api/aurora.go does", "mode": "plain",
		"receiver_store_before_exchange": verifC09ReceiverStates}},
		func(x *mc.X) {
			l := lengths[x.Choose(len(lengths))]
			state := x.Choose(len(verifC09ReceiverStates))
			kind := x.Choose(2)
			ctx, st := verifC09Setup(x, fmt.Sprintf("xfile-%d-%d", l, kind))
			verifC09Upload(ctx, x, st, verifC09Data(c+7, 0, 0x5a), false) // decoy
			st.on = true
			ls := loadsave.New(st, func() pipeline.Interface { return builder.NewPipelineBuilder(ctx, st, storage.ModePutUpload, false) })
			m, err := manifest.NewDefaultManifest(ls, false)
			x.NoErr(err, "NewDefaultManifest")
			x.NoErr(m.Add(ctx, manifest.RootPath, manifest.NewEntry(boson.ZeroAddress, map[string]string{manifest.WebsiteIndexDocumentSuffixKey: "file.bin"})), "manifest Add root")
			ref := verifC09Upload(ctx, x, st, verifC09Data(l, kind, 0), false)
			x.NoErr(m.Add(ctx, "file.bin", manifest.NewEntry(ref, map[string]string{manifest.EntryMetadataFilenameKey: "file.bin", manifest.EntryMetadataContentTypeKey: "application/octet-stream"})), "manifest Add file")
			root, err := m.Store(ctx)
			x.NoErr(err, "manifest Store")
			st.on = false
			if l > b*c {
				x.Tag("file-with-three-levels")
			}
			verifC09Exchange(ctx, x, st, root, fmt.Sprintf("manifest of one file of %d bytes (content kind %d)", l, kind), state)
		})
}

func TestVerifC09ExchangeDirs(t *testing.T) {
	subsets := verifC09Subsets()
	mc.Run(t, mc.Config{ID: "C09", Name: fmt.Sprintf("C09-exchange-dirs-%dbranches", boson.Branches), MaxDev: -1, ShardLevels: 1, Params: map[string]interface{}{
		"paths": verifC09Paths, "path_sets": len(subsets), "file_patterns": verifC09Patterns, "mode": "plain",
		"root_entry": []string{"none", "Add(/, zero reference + website metadata)"}, "receiver_store_before_exchange": verifC09ReceiverStates, "chunk_size": boson.ChunkSize}},
		func(x *mc.X) {
			sub := subsets[x.Choose(len(subsets))]
			pat := x.Choose(len(verifC09Patterns))
			rootEntry := x.Bool()
			state := x.Choose(len(verifC09ReceiverStates))
			ctx, st := verifC09Setup(x, fmt.Sprintf("xdir-%d-%d", sub, pat))
			root, names := verifC09BuildDir(ctx, x, st, sub, pat, false, rootEntry)
			verifC09Exchange(ctx, x, st, root, fmt.Sprintf("directory {%s} pattern %d root-entry %v", strings.Join(names, " "), pat, rootEntry), state)
			x.Outcome(fmt.Sprintf("entries-%d", len(names)))
		})
}

// "b/a": the same base name as the top-level "a", in another directory
var verifC09Paths = []string{"a", "ab", "abc", "b/c", "b/a", "index.html"}

func TestVerifC09Dirs(t *testing.T) {
	c := int(boson.ChunkSize)
	patterns := verifC09Patterns
	subsets := verifC09Subsets()
	mc.Run(t, mc.Config{ID: "C09", Name: fmt.Sprintf("C09-dirs-%dbranches", boson.Branches), MaxDev: -1, ShardLevels: 1, Params: map[string]interface{}{
		"paths": verifC09Paths, "path_sets": fmt.Sprintf("%d subsets (all non-empty ones unless production quick)", len(subsets)), "file_patterns": patterns,
		"mode": []string{"plain", "encrypted"}, "root_entry": []string{"none", "Add(/, zero reference + website metadata) after the files"}, "chunk_size": c}},
		func(x *mc.X) {
			sub := subsets[x.Choose(len(subsets))]
			pat := x.Choose(len(patterns))
			encrypted := x.Bool()
			rootEntry := x.Bool()
			ctx, st := verifC09Setup(x, fmt.Sprintf("dir-%d-%d-%v", sub, pat, encrypted))
			root, names := verifC09BuildDir(ctx, x, st, sub, pat, encrypted, rootEntry)
			st.on = false
			verifC09Upload(ctx, x, st, verifC09Data(2*c+1, 0, 0xa5), encrypted) // second decoy
			situation := ""
			if encrypted && rootEntry {
				// the reference-less root entry is stored as 64 zero bytes in an encrypted manifest
				situation = ":encrypted-manifest-with-root-entry"
			}
			x.Logf("directory {%s} pattern %d encrypted %v root-entry %v", strings.Join(names, " "), pat, encrypted, rootEntry)
			verifC09Check(ctx, x, st, root, fmt.Sprintf("directory {%s} pattern %d encrypted %v root-entry %v", strings.Join(names, " "), pat, encrypted, rootEntry), situation)
			x.Outcome(fmt.Sprintf("entries-%d", len(names)))
			if len(names) > 1 {
				x.Nontrivial()
			}
			if pat != 1 && len(names) > 1 {
				x.Tag("files-sharing-chunks")
			}
		})
}
