//go:build verif && go1.18
// +build verif,go1.18

package vsched

import (
	"fmt"
	"reflect"
)

// chanState is the scheduler's model of one Go channel. The real channel is
// used only as identity (and for cap); values never travel through it, except
// that a real close by unrewritten code (e.g. a context's Done channel) is
// noticed by polling.
type chanState struct {
	keep   interface{} // keeps the real channel alive so its address is not reused
	cap    int
	q      []interface{}
	closed bool
	clk    vc // clock released by senders / closer
	qclk   []vc
	poll   func() bool // reports whether the real channel has been closed
}

type chanCase struct {
	send bool
	cs   *chanState // nil for a nil channel (never ready)
	val  interface{}
	// filled when resolved
	got   interface{}
	ok    bool
}

type pendingChanOp struct {
	cases  []*chanCase
	chosen int
}

func (s *S) stateOf(ch interface{}, poll func() bool) *chanState {
	v := reflect.ValueOf(ch)
	if v.IsNil() {
		return nil
	}
	p := v.Pointer()
	cs := s.chans[p]
	if cs == nil {
		cs = &chanState{keep: ch, cap: v.Cap(), poll: poll, clk: vc{}}
		s.chans[p] = cs
	}
	if cs.poll == nil {
		cs.poll = poll
	}
	return cs
}

func (cs *chanState) isClosed() bool {
	if !cs.closed && cs.poll != nil && cs.poll() {
		cs.closed = true
	}
	return cs.closed
}

func pollClosed[T any](ch <-chan T) func() bool {
	return func() bool {
		select {
		case _, ok := <-ch:
			if ok {
				panic("vsched: a value arrived on a real channel that is managed by the scheduler (sent by unrewritten code)")
			}
			return true
		default:
			return false
		}
	}
}

// caseReady reports whether case c of thread t can fire now.
func (s *S) caseReady(t *thread, c *chanCase) bool {
	cs := c.cs
	if cs == nil {
		return false
	}
	if c.send {
		if cs.isClosed() {
			return true // will panic, like the real thing
		}
		if cs.cap > 0 {
			return len(cs.q) < cs.cap
		}
		return s.partner(t, cs, false) != nil
	}
	if len(cs.q) > 0 || cs.isClosed() {
		return true
	}
	if cs.cap == 0 {
		return s.partner(t, cs, true) != nil
	}
	return false
}

// partner finds another thread parked at a (send if wantSend else recv) case on cs.
func (s *S) partner(t *thread, cs *chanState, wantSend bool) *thread {
	for _, u := range s.threads {
		if u == t || u.done || u.pend == nil || u.resolved {
			continue
		}
		for _, c := range u.pend.cases {
			if c.cs == cs && c.send == wantSend {
				return u
			}
		}
	}
	return nil
}

func (s *S) partners(t *thread, cs *chanState, wantSend bool) (us []*thread, idx []int) {
	for _, u := range s.threads {
		if u == t || u.done || u.pend == nil || u.resolved {
			continue
		}
		for i, c := range u.pend.cases {
			if c.cs == cs && c.send == wantSend {
				us = append(us, u)
				idx = append(idx, i)
				break
			}
		}
	}
	return
}

// doSelect parks the running thread on the cases and performs one.
// Returns the index of the case that fired, or -1 for default.
func (s *S) doSelect(what string, cases []*chanCase, hasDefault bool) int {
	t := s.cur
	p := &pendingChanOp{cases: cases, chosen: -2}
	t.pend = p
	t.resolved = false
	s.yield(what, func() bool {
		if hasDefault {
			return true
		}
		for _, c := range cases {
			if s.caseReady(t, c) {
				return true
			}
		}
		return false
	})
	t.pend = nil
	if t.resolved {
		// a rendezvous partner completed one of our cases
		t.resolved = false
		return p.chosen
	}
	var ready []int
	for i, c := range cases {
		if s.caseReady(t, c) {
			ready = append(ready, i)
		}
	}
	if len(ready) == 0 {
		if !hasDefault {
			panic("vsched: select resumed with no ready case")
		}
		return -1
	}
	i := ready[0]
	if len(ready) > 1 {
		i = ready[s.x.Choose(len(ready))]
	}
	c := cases[i]
	cs := c.cs
	if c.send {
		if cs.isClosed() {
			panic("send on closed channel")
		}
		if cs.cap > 0 {
			cs.q = append(cs.q, c.val)
			cs.qclk = append(cs.qclk, t.clock.copy())
			t.clock[t.id]++
			return i
		}
		us, idx := s.partners(t, cs, false)
		k := 0
		if len(us) > 1 {
			k = s.x.Choose(len(us))
		}
		u, uc := us[k], us[k].pend.cases[idx[k]]
		uc.got, uc.ok = c.val, true
		u.pend.chosen = idx[k]
		u.resolved = true
		// unbuffered: both directions synchronise
		tc := t.clock.copy()
		t.clock.join(u.clock)
		u.clock.join(tc)
		t.clock[t.id]++
		u.clock[u.id]++
		return i
	}
	// receive
	if len(cs.q) > 0 {
		c.got, c.ok = cs.q[0], true
		t.clock.join(cs.qclk[0])
		cs.q, cs.qclk = cs.q[1:], cs.qclk[1:]
		return i
	}
	if cs.isClosed() {
		c.got, c.ok = nil, false
		t.clock.join(cs.clk)
		return i
	}
	us, idx := s.partners(t, cs, true)
	k := 0
	if len(us) > 1 {
		k = s.x.Choose(len(us))
	}
	u, uc := us[k], us[k].pend.cases[idx[k]]
	c.got, c.ok = uc.val, true
	u.pend.chosen = idx[k]
	u.resolved = true
	tc := t.clock.copy()
	t.clock.join(u.clock)
	u.clock.join(tc)
	t.clock[t.id]++
	u.clock[u.id]++
	return i
}

func conv[T any](v interface{}) T {
	if v == nil {
		var z T
		return z
	}
	return v.(T)
}

// Send is `ch <- v`.
func Send[T any](ch chan<- T, v T) {
	s := sched()
	if s == nil {
		seqSend(ch, v)
		return
	}
	cs := s.stateOf(ch, nil)
	s.doSelect(fmt.Sprintf("send %T", ch), []*chanCase{{send: true, cs: cs, val: v}}, false)
}

// Recv is `<-ch`.
func Recv[T any](ch <-chan T) T {
	v, _ := Recv2(ch)
	return v
}

// Recv2 is `v, ok := <-ch`.
func Recv2[T any](ch <-chan T) (T, bool) {
	s := sched()
	if s == nil {
		return seqRecv(ch)
	}
	c := &chanCase{cs: s.stateOf(ch, pollClosed(ch))}
	s.doSelect(fmt.Sprintf("recv %T", ch), []*chanCase{c}, false)
	return conv[T](c.got), c.ok
}

// Close is close(ch).
func Close[T any](ch chan<- T) {
	s := sched()
	if s == nil {
		if cur != nil {
			return
		}
		close(ch)
		return
	}
	s.yield("close", nil)
	cs := s.stateOf(ch, nil)
	if cs == nil {
		panic("close of nil channel")
	}
	if cs.closed {
		panic("close of closed channel")
	}
	cs.closed = true
	cs.clk.join(s.cur.clock)
	s.cur.clock[s.cur.id]++
}

// outside a scheduled execution only operations that cannot block are allowed
func seqSend[T any](ch chan<- T, v T) {
	if cur != nil {
		return // tearing down
	}
	select {
	case ch <- v:
	default:
		panic("vsched: blocking send outside a scheduled execution")
	}
}

func seqRecv[T any](ch <-chan T) (T, bool) {
	var z T
	if cur != nil {
		return z, false
	}
	select {
	case v, ok := <-ch:
		return v, ok
	default:
		panic("vsched: blocking receive outside a scheduled execution")
	}
}

// Sel builds a select statement.
type Sel struct {
	cases []*chanCase
	s     *S
}

// RecvCase is the typed result holder of a receive case.
type RecvCase[T any] struct{ c *chanCase }

// Val returns the received value.
func (r *RecvCase[T]) Val() T { return conv[T](r.c.got) }

// Ok reports whether the value was sent (false: channel closed).
func (r *RecvCase[T]) Ok() bool { return r.c.ok }

// NewSel starts a select.
func NewSel() *Sel { return &Sel{s: sched()} }

// AddRecv adds `case v := <-ch`.
func AddRecv[T any](sel *Sel, ch <-chan T) *RecvCase[T] {
	c := &chanCase{}
	if sel.s != nil {
		c.cs = sel.s.stateOf(ch, pollClosed(ch))
	}
	sel.cases = append(sel.cases, c)
	return &RecvCase[T]{c}
}

// AddSend adds `case ch <- v`.
func AddSend[T any](sel *Sel, ch chan<- T, v T) {
	c := &chanCase{send: true, val: v}
	if sel.s != nil {
		c.cs = sel.s.stateOf(ch, nil)
	}
	sel.cases = append(sel.cases, c)
}

// Wait performs the select and returns the fired case index (-1 = default).
func (sel *Sel) Wait(hasDefault bool) int {
	if sel.s == nil || sel.s.killing {
		if hasDefault {
			return -1
		}
		if cur != nil {
			panic(killSignal{})
		}
		panic("vsched: select without default outside a scheduled execution")
	}
	return sel.s.doSelect("select", sel.cases, hasDefault)
}
