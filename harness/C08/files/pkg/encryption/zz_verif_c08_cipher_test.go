//go:build verif
// +build verif

package encryption

// C08 part (a): Encrypt/Decrypt of pkg/encryption are inverse for every key, payload
// length up to the padding size, initial counter and padding; with padding configured the
// ciphertext has exactly the padded length and longer payloads are rejected.
// Padding bytes come from crypto/rand: the oracle never looks at them.

import (
	"bytes"
	crand "crypto/rand"
	"fmt"
	"sort"
	"testing"

	"github.com/gauss-project/aurorafs/pkg/boson"
	"github.com/gauss-project/aurorafs/pkg/zzverif/mc"
	"golang.org/x/crypto/sha3"
)

func verifC08Uniq(cand []int, lo, hi int) []int {
	seen := map[int]bool{}
	var r []int
	for _, c := range cand {
		if c >= lo && c <= hi && !seen[c] {
			seen[c] = true
			r = append(r, c)
		}
	}
	sort.Ints(r)
	return r
}

func verifC08Range(lo, hi int) []int {
	var r []int
	for i := lo; i <= hi; i++ {
		r = append(r, i)
	}
	return r
}

func verifC08Payload(l int) []byte {
	d := make([]byte, l)
	for i := range d {
		d[i] = byte(1 + (i*131+(i>>8)*17)%255)
	}
	return d
}

func TestVerifC08Cipher(t *testing.T) {
	type conf struct {
		padding int
		lengths []int
		desc    string
	}
	c := int(boson.ChunkSize)
	dense := func(p int) []int {
		return verifC08Uniq([]int{0, 1, 31, 32, 33, 63, 64, 65, 95, 96, 97, p/2 - 1, p / 2, p/2 + 1, p/2 + 31, p/2 + 32, p/2 + 33,
			p - 65, p - 64, p - 63, p - 33, p - 32, p - 31, p - 1, p, p + 1, p + 32, 2 * p}, 0, 2*p)
	}
	confs := []conf{
		{0, append(verifC08Range(0, mc.Pick(130, 300)), 4095, 4096, 4097), "no padding: all lengths 0..130 (thorough 0..300), 4095..4097"},
		{32, verifC08Range(0, 34), "all 0..34 (33, 34 are over the padding)"},
		{64, verifC08Range(0, 66), "all 0..66"},
		{96, verifC08Range(0, 98), "all 0..98"},
		{4096, dense(4096), "boundary-dense around 0, p/2, p (+-1, +-32 bytes), p+1, p+32, 2p"},
	}
	if mc.Thorough() {
		confs = append(confs, conf{c, dense(c), "chunk size: boundary-dense around 0, p/2, p, p+1, p+32, 2p"})
	} else {
		confs = append(confs, conf{c, verifC08Uniq([]int{0, 1, 32, 33, c/2 + 1, c - 32, c - 1, c, c + 1}, 0, 2*c), "chunk size: 0,1,32,33,p/2+1,p-32,p-1,p,p+1"})
	}
	if mc.Thorough() {
		confs = append(confs, conf{128, verifC08Range(0, 130), "all 0..130"}, conf{4096, verifC08Range(0, 4097), "all 0..4097"})
	}
	keys := [][]byte{bytes.Repeat([]byte{0}, KeyLength), bytes.Repeat([]byte{0xff}, KeyLength), verifC08Payload(KeyLength)}
	keyNames := []string{"zeros", "ff", "pattern"}
	ctrs := []uint32{0, 1, 0xffffffff, uint32(c / ReferenceSize)}
	var flat [][2]int
	params := map[string]interface{}{"keys": keyNames, "init_counters": ctrs, "decrypter": []string{"fresh instance", "same instance after Reset"}}
	for ci, cf := range confs {
		for li := range cf.lengths {
			flat = append(flat, [2]int{ci, li})
		}
		params[fmt.Sprintf("padding_%d_conf%d", cf.padding, ci)] = map[string]interface{}{"lengths": cf.desc, "n_lengths": len(cf.lengths)}
	}
	mc.Run(t, mc.Config{ID: "C08", Name: "C08-cipher", MaxDev: -1, ShardLevels: 1, Params: params}, func(x *mc.X) {
		fl := flat[x.Choose(len(flat))]
		cf := confs[fl[0]]
		l := cf.lengths[fl[1]]
		ki := x.Choose(len(keys))
		ctr := ctrs[x.Choose(len(ctrs))]
		same := x.Bool()
		x.Logf("padding=%d length=%d key=%s initCtr=%d sameInstance=%v", cf.padding, l, keyNames[ki], ctr, same)
		// padding bytes come from crypto/rand: make them a deterministic stream per execution
		shake := sha3.NewShake128()
		shake.Write([]byte(fmt.Sprintf("cipher-%d-%d", cf.padding, l)))
		crand.Reader = shake
		payload := verifC08Payload(l)
		orig := append([]byte{}, payload...)
		e := New(append([]byte{}, keys[ki]...), cf.padding, ctr, sha3.NewLegacyKeccak256)
		ct, err := e.Encrypt(payload)
		x.Check(bytes.Equal(payload, orig), "encrypt-modifies-input", "Encrypt changed its input")
		if cf.padding > 0 && l > cf.padding {
			x.Outcome("overlong-rejected")
			x.Check(err != nil, "overlong-payload-accepted", "padding %d: payload of %d bytes accepted (ciphertext %d bytes)", cf.padding, l, len(ct))
			return
		}
		x.Check(err == nil, "encrypt-error", "padding %d length %d: %v", cf.padding, l, err)
		wantLen := l
		if cf.padding > 0 {
			wantLen = cf.padding
			x.Outcome("padded")
			if l < cf.padding {
				x.Nontrivial()
			}
		} else {
			x.Outcome("unpadded")
		}
		if l%KeyLength != 0 {
			x.Tag("partial-last-segment")
		}
		x.Check(len(ct) == wantLen, "ciphertext-length", "padding %d length %d: ciphertext has %d bytes, want %d", cf.padding, l, len(ct), wantLen)
		var d Interface
		if same {
			e.Reset()
			d = e
		} else {
			d = New(append([]byte{}, keys[ki]...), cf.padding, ctr, sha3.NewLegacyKeccak256)
		}
		pt, err := d.Decrypt(ct)
		x.Check(err == nil, "decrypt-error", "padding %d length %d: Decrypt: %v", cf.padding, l, err)
		x.Check(len(pt) >= l, "plaintext-too-short", "decrypted %d bytes, payload had %d", len(pt), l)
		if !bytes.Equal(pt[:l], orig) {
			i := 0
			for pt[i] == orig[i] {
				i++
			}
			x.Fail("decrypt-not-inverse", "padding %d length %d key %s ctr %d: first differing byte at %d", cf.padding, l, keyNames[ki], ctr, i)
		}
		if l >= KeyLength && ki == 0 {
			// keystream sanity (not an oracle): with the all-zero key the ciphertext still differs from the payload
			if !bytes.Equal(ct[:l], orig) {
				x.Tag("ciphertext-differs-from-payload")
			}
		}
	})
}
