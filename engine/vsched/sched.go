//go:build verif && go1.18
// +build verif,go1.18

// Package vsched is a controlled cooperative scheduler for real goroutines.
// Exactly one registered thread runs at a time; every synchronisation
// operation of rewritten code (see /verif/engine/rewrite) is a scheduling
// point at which the next thread is chosen through mc.X, so the explorer
// enumerates schedules. Switching away from a thread that could continue costs
// one preemption (deviation). It also keeps vector clocks over the
// synchronisation events and reports happens-before races on Touch markers.
package vsched

import (
	"fmt"
	"sort"
	"strings"
	"time"

	"github.com/gauss-project/aurorafs/pkg/zzverif/mc"
)

type killSignal struct{}

type vc map[int]int

func (a vc) join(b vc) {
	for k, v := range b {
		if a[k] < v {
			a[k] = v
		}
	}
}
func (a vc) copy() vc {
	c := make(vc, len(a))
	for k, v := range a {
		c[k] = v
	}
	return c
}

type thread struct {
	id      int
	name    string
	driver  bool
	wake    chan struct{}
	done    bool
	ready   func() bool // nil = runnable
	what    string      // description of pending op
	clock   vc
	steps   int
	resolved bool // a rendezvous partner completed this thread's pending channel op
	pend    *pendingChanOp
	exited  chan struct{}
}

// Options configure one scheduled execution.
type Options struct {
	MaxSteps     int  // scheduling points per execution before BROKEN (default 20000)
	MaxTimers    int  // virtual timer firings allowed per execution (default 0: timers never fire)
	TimerCost    int  // deviation cost of firing a timer while a thread could run (default 1)
	NoPreemptCost bool // explore all interleavings without charging preemptions
	Trace        bool // log every scheduling decision with x.Logf
	DelayBounded bool // every non-default choice costs one deviation, also when the running thread cannot continue (delay bounding)
	Sequential   bool // no exploration: always continue the running thread, else the lowest runnable id
}

// S is the scheduler of one execution.
type S struct {
	x        *mc.X
	opt      Options
	threads  []*thread
	cur      *thread
	finished chan struct{} // closed when the execution is over
	killing  bool
	over     bool
	panicVal interface{}
	verdict  string // "", "deadlock"
	steps    int
	chans    map[uintptr]*chanState
	touches  map[touchKey]*touchState
	now      time.Duration
	timers   []*vtimer
	timerSeq int
	fired    int
	preempts int
	objClock map[interface{}]vc
	Races    []string
	deadlockInfo string
	skewed   bool
}

var cur *S

// Active reports whether a scheduled execution is in progress.
func Active() bool { return cur != nil && !cur.killing }

func sched() *S {
	s := cur
	if s == nil || s.killing {
		return nil
	}
	return s
}

// Run executes body as thread 0 under a fresh scheduler and returns when every
// driver thread (body and threads started with S.Go) has finished and every
// other thread is blocked or finished. It reports deadlock (a driver blocked
// with nothing enabled) through the returned string; panics raised inside
// threads (including mc's Fail signal) are re-raised in the caller.
func Run(x *mc.X, opt Options, body func(s *S)) (verdict string) {
	if cur != nil {
		x.Broken("vsched.Run: nested or leaked scheduler")
	}
	if opt.MaxSteps == 0 {
		opt.MaxSteps = 20000
	}
	if opt.TimerCost == 0 {
		opt.TimerCost = 1
	}
	s := &S{x: x, opt: opt, finished: make(chan struct{}), chans: map[uintptr]*chanState{}, touches: map[touchKey]*touchState{}, objClock: map[interface{}]vc{}}
	cur = s
	t0 := s.newThread("main", true, nil)
	s.cur = t0
	go s.threadMain(t0, func() { body(s) })
	t0.wake <- struct{}{}
	select {
	case <-s.finished:
	case <-time.After(60 * time.Second):
		cur = nil
		x.Broken("vsched: no scheduling progress for 60 s of real time (uninstrumented blocking operation?) running=%s threads=%s", s.cur.name, s.describe())
	}
	// kill whatever is still parked
	s.killing = true
	for _, t := range s.threads {
		if !t.done {
			t.wake <- struct{}{}
			select {
			case <-t.exited:
			case <-time.After(20 * time.Second):
				cur = nil
				x.Broken("vsched: thread %s did not exit when killed", t.name)
			}
		}
	}
	cur = nil
	if s.panicVal != nil {
		panic(s.panicVal)
	}
	return s.verdict
}

func (s *S) newThread(name string, driver bool, parent *thread) *thread {
	t := &thread{id: len(s.threads), name: name, driver: driver, wake: make(chan struct{}, 1), exited: make(chan struct{}), clock: vc{}}
	if parent != nil {
		t.clock = parent.clock.copy()
		parent.clock[parent.id]++
	}
	t.clock[t.id] = 1
	s.threads = append(s.threads, t)
	return t
}

func (s *S) threadMain(t *thread, f func()) {
	defer close(t.exited)
	<-t.wake
	defer func() {
		r := recover()
		t.done = true
		if s.killing {
			return
		}
		if r != nil {
			if _, ok := r.(killSignal); !ok {
				if s.panicVal == nil {
					s.panicVal = r
				}
				s.finish()
				return
			}
			return
		}
		s.reschedule(t)
	}()
	if s.killing {
		return
	}
	f()
}

func (s *S) finish() {
	if !s.over {
		s.over = true
		close(s.finished)
	}
}

// Go starts f as a driver thread (the execution waits for it to finish).
func (s *S) Go(name string, f func()) {
	t := s.newThread(name, true, s.cur)
	go s.threadMain(t, f)
}

// Go is what a rewritten `go` statement calls: f becomes a background thread.
func Go(f func()) {
	s := sched()
	if s == nil {
		if cur != nil { // being torn down: do not start anything
			return
		}
		go f()
		return
	}
	t := s.newThread(fmt.Sprintf("bg%d", len(s.threads)), false, s.cur)
	go s.threadMain(t, f)
}

func (s *S) describe() string {
	var b []string
	for _, t := range s.threads {
		st := "runnable"
		if t.done {
			st = "done"
		} else if t.ready != nil && !t.isReady() {
			st = "blocked:" + t.what
		} else if t.what != "" {
			st = "at:" + t.what
		}
		b = append(b, fmt.Sprintf("%s[%s]", t.name, st))
	}
	return strings.Join(b, " ")
}

func (t *thread) isReady() bool {
	if t.done {
		return false
	}
	if t.resolved {
		return true
	}
	return t.ready == nil || t.ready()
}

// yield parks the running thread at an operation that can proceed once ready()
// holds and lets the explorer choose who runs next. On return the operation may
// be performed (ready() holds, or the thread's channel op was resolved).
func (s *S) yield(what string, ready func() bool) {
	t := s.cur
	t.ready, t.what = ready, what
	s.reschedule(t)
	t.ready, t.what = nil, ""
}

func (s *S) reschedule(self *thread) {
	for {
		s.steps++
		if s.steps > s.opt.MaxSteps {
			s.panicVal = fmt.Sprintf("vsched: step horizon %d exceeded: %s", s.opt.MaxSteps, s.describe())
			s.finishFrom(self)
			return
		}
		var en []*thread
		selfReady := !self.done && self.isReady()
		if selfReady {
			en = append(en, self)
		}
		for _, t := range s.threads {
			if t != self && t.isReady() {
				en = append(en, t)
			}
		}
		timer := s.nextTimer()
		canFire := timer != nil
		n := len(en)
		if canFire {
			n++
		}
		if n == 0 {
			// quiescent: fine if every driver finished, deadlock otherwise
			for _, t := range s.threads {
				if t.driver && !t.done {
					s.verdict = "deadlock"
					s.deadlockInfo = s.describe()
					break
				}
			}
			s.finishFrom(self)
			return
		}
		c := 0
		if n > 1 && !s.opt.Sequential {
			cost := 0
			if (selfReady || s.opt.DelayBounded) && !s.opt.NoPreemptCost {
				cost = 1
			}
			c = s.x.ChooseCost(n, cost)
		}
		if canFire && c == len(en) {
			// firing a timer while some thread could run is a deviation too (charged above when
			// self is ready; when only others are ready the choice is free)
			if len(en) > 0 {
				s.skewed = true // virtual time advances although a thread could run
			}
			s.fire(timer)
			continue
		}
		next := en[c]
		if s.opt.Trace {
			s.x.Logf("sched: %s -> %s (%s)", self.name, next.name, next.what)
		}
		if next != self && selfReady {
			s.preempts++
		}
		if next == self {
			return
		}
		s.cur = next
		next.steps++
		next.wake <- struct{}{}
		if self.done {
			return
		}
		<-self.wake
		if s.killing {
			panic(killSignal{})
		}
		return
	}
}

// finishFrom ends the execution from the running thread: signals Run and parks
// (or, for a finished thread, simply returns).
func (s *S) finishFrom(self *thread) {
	s.finish()
	if self.done {
		return
	}
	<-self.wake
	panic(killSignal{})
}

// Point is a plain scheduling point (always enabled).
func Point(what string) {
	if s := sched(); s != nil {
		s.yield(what, nil)
	}
}

// Yield is Point for harness code.
func (s *S) Yield() { s.yield("yield", nil) }

// Block parks the running thread until cond holds (evaluated by the scheduler).
func Block(what string, cond func() bool) {
	if s := sched(); s != nil {
		s.yield(what, cond)
	}
}

// X returns the explorer handle of the execution.
func (s *S) X() *mc.X { return s.x }

// Preemptions returns the number of preemptive switches so far.
func (s *S) Preemptions() int { return s.preempts }

// TimeSkewed reports whether a timer ever fired while some thread was runnable, i.e.
// whether runnable threads were starved for a positive amount of virtual time.
func (s *S) TimeSkewed() bool { return s.skewed }

// DeadlockInfo describes the thread states at a deadlock verdict.
func (s *S) DeadlockInfo() string { return s.deadlockInfo }

// ---------------------------------------------------------------- happens-before

// Acquire joins obj's release clock into the running thread.
func Acquire(obj interface{}) {
	s := sched()
	if s == nil {
		return
	}
	if c, ok := s.objClock[obj]; ok {
		s.cur.clock.join(c)
	}
}

// Release publishes the running thread's clock on obj.
func Release(obj interface{}) {
	s := sched()
	if s == nil {
		return
	}
	c, ok := s.objClock[obj]
	if !ok {
		c = vc{}
		s.objClock[obj] = c
	}
	c.join(s.cur.clock)
	s.cur.clock[s.cur.id]++
}

type touchKey struct {
	obj   interface{}
	field string
}
type epoch struct{ tid, clk int }
type touchState struct {
	w     epoch
	wName string
	reads map[int]int
}

// Touch records an access of the running thread to (obj, field) and reports a
// happens-before race with an earlier conflicting access.
func Touch(obj interface{}, field string, write bool) {
	s := sched()
	if s == nil {
		return
	}
	t := s.cur
	k := touchKey{obj, field}
	st := s.touches[k]
	if st == nil {
		st = &touchState{reads: map[int]int{}}
		s.touches[k] = st
	}
	race := ""
	if st.w.clk > 0 && st.w.tid != t.id && t.clock[st.w.tid] < st.w.clk {
		race = fmt.Sprintf("write by %s / %s by %s", s.threads[st.w.tid].name, map[bool]string{true: "write", false: "read"}[write], t.name)
	}
	if write && race == "" {
		ids := make([]int, 0, len(st.reads))
		for id := range st.reads {
			ids = append(ids, id)
		}
		sort.Ints(ids)
		for _, id := range ids {
			if id != t.id && t.clock[id] < st.reads[id] {
				race = fmt.Sprintf("read by %s / write by %s", s.threads[id].name, t.name)
				break
			}
		}
	}
	if race != "" {
		msg := fmt.Sprintf("%s: unordered %s", field, race)
		s.Races = append(s.Races, msg)
		s.x.Fail("race-"+field, "happens-before race on %s", msg)
	}
	if write {
		st.w = epoch{t.id, t.clock[t.id]}
		st.reads = map[int]int{}
	} else {
		st.reads[t.id] = t.clock[t.id]
	}
}

// Quiesce parks the running thread until no other thread can run (all others
// blocked or finished): the system has settled.
func (s *S) Quiesce() {
	self := s.cur
	s.yield("quiesce", func() bool {
		for _, t := range s.threads {
			if t != self && t.isReady() {
				return false
			}
		}
		return true
	})
}

// Quiescent reports whether no thread other than the running one can run.
func (s *S) Quiescent() bool {
	for _, t := range s.threads {
		if t != s.cur && t.isReady() {
			return false
		}
	}
	return true
}

// TouchAppend records the element writes an append(a, n values) performs when it
// stays inside a's backing array.
func TouchAppend[T any](a []T, n int) {
	if sched() == nil {
		return
	}
	if len(a)+n <= cap(a) {
		full := a[:cap(a)]
		for k := 0; k < n; k++ {
			Touch(&full[len(a)+k], "elem", true)
		}
	}
}

// TouchCopy records the element accesses of copy(dst, src).
func TouchCopy[T any](dst, src []T) {
	if sched() == nil {
		return
	}
	n := len(dst)
	if len(src) < n {
		n = len(src)
	}
	for k := 0; k < n; k++ {
		Touch(&src[k], "elem", false)
		Touch(&dst[k], "elem", true)
	}
}

// MapKeys returns the keys of m in a deterministic order (sorted by their printed
// form). Under an active scheduler a map with more than one key may also be
// visited in the reverse order: that is one deviation. This replaces the random
// iteration order of `range m` in rewritten code.
func MapKeys[K comparable, V any](m map[K]V) []K {
	keys := make([]K, 0, len(m))
	for k := range m {
		keys = append(keys, k)
	}
	sort.Slice(keys, func(i, j int) bool { return fmt.Sprint(keys[i]) < fmt.Sprint(keys[j]) })
	if s := sched(); s != nil && len(keys) > 1 && !s.opt.Sequential {
		if s.x.ChooseCost(2, 1) == 1 {
			for i, j := 0, len(keys)-1; i < j; i, j = i+1, j-1 {
				keys[i], keys[j] = keys[j], keys[i]
			}
		}
	}
	return keys
}
