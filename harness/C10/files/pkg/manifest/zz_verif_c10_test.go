//go:build verif
// +build verif

package manifest

// C10: a directory manifest (mantaray) behaves as a map path -> (reference, metadata)
// under every sequence of Add / Remove / Store / Store+reload / read, compared with a
// plain Go map after every sequence (on the live object and again after Store+reload).

import (
	"bytes"
	"context"
	crand "crypto/rand"
	"errors"
	"fmt"
	"io"
	"reflect"
	"sort"
	"strings"
	"sync"
	"testing"

	"github.com/gauss-project/aurorafs/pkg/boson"
	"github.com/gauss-project/aurorafs/pkg/file"
	"github.com/gauss-project/aurorafs/pkg/file/loadsave"
	"github.com/gauss-project/aurorafs/pkg/file/pipeline"
	"github.com/gauss-project/aurorafs/pkg/file/pipeline/builder"
	"github.com/gauss-project/aurorafs/pkg/storage"
	smock "github.com/gauss-project/aurorafs/pkg/storage/mock"
	"github.com/gauss-project/aurorafs/pkg/zzverif/mc"
	"golang.org/x/crypto/sha3"
)

type verifC10Entry struct {
	name string
	fill byte
	meta map[string]string
}

var verifC10Paths = []string{"a", "ab", "abc", "a/b", "a/c", "b"}

var verifC10Entries = []verifC10Entry{
	{"e1", 0x11, map[string]string{"Filename": "one"}},
	{"e2", 0x22, map[string]string{"Filename": "two", "Content-Type": "text/plain; charset=utf-8"}},
	{"e3", 0x33, nil},
}

// the entry the API writes on RootPath: zero reference, website metadata
var verifC10RootEntry = verifC10Entry{"e0(zero reference)", 0x00, map[string]string{WebsiteIndexDocumentSuffixKey: "index.html"}}

func verifC10IsZero(b []byte) bool {
	for _, c := range b {
		if c != 0 {
			return false
		}
	}
	return true
}

type verifC10LockedReader struct {
	mu sync.Mutex
	r  io.Reader
}

func (l *verifC10LockedReader) Read(p []byte) (int, error) {
	l.mu.Lock()
	defer l.mu.Unlock()
	return l.r.Read(p)
}

type verifC10Val struct {
	ref  []byte
	meta map[string]string
}

// canonical dump of the in-memory trie (reads the dependency's unexported fields through reflect)
func verifC10Dump(n reflect.Value, withRefs bool, b *strings.Builder) {
	if n.IsNil() {
		b.WriteString("<nil>")
		return
	}
	n = n.Elem()
	fmt.Fprintf(b, "{t%d s%d", n.FieldByName("nodeType").Uint(), n.FieldByName("refBytesSize").Int())
	ref := n.FieldByName("ref")
	switch {
	case ref.IsNil():
		b.WriteString(" r-")
	case withRefs:
		fmt.Fprintf(b, " r%x", ref.Bytes())
	default:
		b.WriteString(" r+")
	}
	if withRefs {
		fmt.Fprintf(b, " k%x", n.FieldByName("obfuscationKey").Bytes())
	}
	fmt.Fprintf(b, " e%x", n.FieldByName("entry").Bytes())
	md := n.FieldByName("metadata")
	if md.Len() > 0 {
		var ks []string
		for _, k := range md.MapKeys() {
			ks = append(ks, k.String())
		}
		sort.Strings(ks)
		for _, k := range ks {
			fmt.Fprintf(b, " m[%s=%s]", k, md.MapIndex(reflect.ValueOf(k)).String())
		}
	}
	forks := n.FieldByName("forks")
	if forks.IsNil() {
		b.WriteString(" f-}")
		return
	}
	keys := forks.MapKeys()
	sort.Slice(keys, func(i, j int) bool { return keys[i].Uint() < keys[j].Uint() })
	for _, k := range keys {
		f := forks.MapIndex(k).Elem()
		fmt.Fprintf(b, " [%c %q ", byte(k.Uint()), f.FieldByName("prefix").Bytes())
		verifC10Dump(f.FieldByName("Node"), withRefs, b)
		b.WriteString("]")
	}
	b.WriteString("}")
}

func verifC10ModelKey(model map[string]verifC10Val) string {
	var ks []string
	for k, v := range model {
		ks = append(ks, fmt.Sprintf("%s=%x/%d", k, v.ref, len(v.meta)))
	}
	sort.Strings(ks)
	return strings.Join(ks, ",")
}

func verifC10MetaEq(a, b map[string]string) bool {
	if len(a) != len(b) {
		return false
	}
	for k, v := range a {
		if w, ok := b[k]; !ok || w != v {
			return false
		}
	}
	return true
}

// one Test function per harness (a replay file addresses one harness)
func TestVerifC10Plain(t *testing.T)     { verifC10Run(t, false, false) }
func TestVerifC10Encrypted(t *testing.T) { verifC10Run(t, true, false) }

// longer sequences over a smaller alphabet (thorough tier, scaled geometry)
func TestVerifC10SmallAlphabet(t *testing.T) {
	if !mc.Thorough() || boson.Branches > 64 {
		t.Skip("thorough tier, scaled geometry only")
	}
	verifC10Run(t, false, true)
}

func verifC10Run(t *testing.T, encrypted, small bool) {
	depth := mc.Pick(4, 5)
	name := fmt.Sprintf("C10-plain-%dbranches", boson.Branches)
	if encrypted {
		depth = mc.Pick(3, 4)
		name = fmt.Sprintf("C10-encrypted-%dbranches", boson.Branches)
	}
	if boson.Branches > 64 {
		depth -= 2 // production geometry: same code, every stored node costs a 256 KiB chunk (and its encryption)
	}
	verifC10Paths, verifC10Entries := verifC10Paths, verifC10Entries
	if small {
		depth = 7
		name = fmt.Sprintf("C10-plain-small-alphabet-%dbranches", boson.Branches)
		verifC10Paths = []string{"a", "ab", "a/b"}
		verifC10Entries = []verifC10Entry{verifC10Entries[0], verifC10Entries[2]}
	}
	depth = mc.EnvInt("VERIF_C10_DEPTH", depth)
	refSize := boson.HashSize
	if encrypted {
		refSize = 2 * boson.HashSize
	}
	probes := []string{"a", "ab", "abc", "a/b", "a/c", "b", "/", "abcd", "a/", "c", "ba"}
	prefixes := []string{"a", "ab", "abc", "a/", "a/b", "a/c", "b", "/", "abcd", "a/d", "c", "ba"}
	var entryNames []string
	for _, e := range verifC10Entries {
		entryNames = append(entryNames, fmt.Sprintf("%s(meta %d keys)", e.name, len(e.meta)))
	}
	mc.Run(t, mc.Config{ID: "C10", Name: name, MaxDev: -1, Params: map[string]interface{}{
		"depth": depth, "paths": verifC10Paths, "entries": entryNames, "root_entry": "Add(\"/\", zero reference + website metadata) as the API writes it",
		"encrypted": encrypted, "chunk_size": boson.ChunkSize,
		"ops":             "stop | Add(path,entry) for every path x entry | Add(/,e0) | Store | Store+reload | read-all (Lookup of every probe, HasPrefix of every prefix, checked) | Lookup(abc) alone (partial load) | Remove(path) for every path present in the reference map",
		"lookup_probes":   probes,
		"hasprefix_probe": prefixes,
		"final_check":     "at stop / depth bound: every Lookup and HasPrefix on the live object, then Store + reload and again",
		"pruning":         map[bool]string{false: "canonical key = reference map + reflective dump of the in-memory trie incl. node references", true: "none (node references are random in encrypted mode); states are only counted"}[encrypted],
	}}, func(x *mc.X) {
		ctx := context.Background()
		// deterministic "randomness" per execution (obfuscation keys and chunk encryption keys are read
		// from crypto/rand.Reader at call time)
		shake := sha3.NewShake128()
		shake.Write([]byte("C10"))
		crand.Reader = &verifC10LockedReader{r: shake} // mantaray saves sibling nodes from concurrent goroutines
		storer := smock.NewStorer()
		pipeFn := func() pipeline.Interface { return builder.NewPipelineBuilder(ctx, storer, storage.ModePutUpload, encrypted) }
		var ls file.LoadSaver = loadsave.New(storer, pipeFn)
		m, err := NewDefaultManifest(ls, encrypted)
		x.NoErr(err, "NewDefaultManifest")
		model := map[string]verifC10Val{}
		ever := map[string]bool{} // every path added so far

		// History predicates (computed from the operations and the reference map only). They name the
		// situation a violation follows, so that distinct defects get distinct keys; a violation in a
		// history without any of them keeps its plain symptom key.
		var hz struct {
			stored, readSinceStore, realRefSinceLoad                                              bool
			zeroRefOnly, rmPrefix, addOnStored, rmAfterStore, addAfterStoreRead, emptyMeta, rm bool
		}
		fail := func(symptom, format string, a ...interface{}) {
			key := symptom
			switch {
			case hz.zeroRefOnly:
				key = "zero-reference-entry-before-any-real-reference"
			case hz.rmPrefix:
				key = "remove-of-path-that-prefixes-another-entry"
			case hz.addOnStored:
				key = "add-at-stored-inner-or-value-node"
			case hz.rmAfterStore:
				key = "remove-after-store"
			case hz.addAfterStoreRead:
				key = "add-after-store-and-read"
			case hz.emptyMeta && strings.HasPrefix(symptom, "wrong-metadata"):
				key = "overwrite-with-empty-metadata-keeps-old"
			case hz.rm && strings.HasPrefix(symptom, "hasprefix-true-without-entry"):
				key = "remove-leaves-dangling-prefix"
			}
			x.Fail(key, "["+symptom+"] "+format, a...)
		}
		// every call of the manifest API goes through try: a panic inside is a violation, not a broken harness
		try := func(what string, f func()) {
			if pv := mc.Try(f); pv != nil {
				fail("panic:"+strings.SplitN(what, "(", 2)[0], "%s panics: %v", what, pv)
			}
		}
		lookup := func(obj Interface, where, p string) {
			var e Entry
			var err error
			try(fmt.Sprintf("Lookup(%q) [%s]", p, where), func() { e, err = obj.Lookup(ctx, p) })
			want, present := model[p]
			switch {
			case present && errors.Is(err, ErrNotFound):
				fail("entry-missing:"+where, "%s: Lookup(%q) = not found, final mapping has %x %v", where, p, want.ref, want.meta)
			case present && err != nil:
				fail("lookup-error:"+where, "%s: Lookup(%q): %v", where, p, err)
			case !present && err == nil:
				fail("entry-should-be-absent:"+where, "%s: Lookup(%q) = %s %v, final mapping has no such path", where, p, e.Reference(), e.Metadata())
			case !present && !errors.Is(err, ErrNotFound):
				fail("lookup-error:"+where, "%s: Lookup(%q) of an absent path: %v (want ErrNotFound)", where, p, err)
			case present:
				// weakest reading: the empty reference and the all-zero reference are the same "no reference"
				if !bytes.Equal(e.Reference().Bytes(), want.ref) && !(len(want.ref) == 0 && verifC10IsZero(e.Reference().Bytes())) {
					fail("wrong-reference:"+where, "%s: Lookup(%q) reference %s, final mapping has %x", where, p, e.Reference(), want.ref)
				}
				if !verifC10MetaEq(e.Metadata(), want.meta) {
					fail("wrong-metadata:"+where, "%s: Lookup(%q) metadata %v, final mapping has %v", where, p, e.Metadata(), want.meta)
				}
			}
		}
		checkAll := func(obj Interface, where string) {
			for _, p := range probes {
				lookup(obj, where, p)
			}
			for _, q := range prefixes {
				var got bool
				var err error
				try(fmt.Sprintf("HasPrefix(%q) [%s]", q, where), func() { got, err = obj.HasPrefix(ctx, q) })
				if err != nil {
					fail("hasprefix-error:"+where, "%s: HasPrefix(%q): %v", where, q, err)
				}
				want := false
				for k := range model {
					if strings.HasPrefix(k, q) {
						want = true
					}
				}
				if got && !want {
					fail("hasprefix-true-without-entry:"+where, "%s: HasPrefix(%q) = true, no path of the final mapping starts with it (mapping: %s)", where, q, verifC10ModelKey(model))
				}
				if !got && want {
					fail("hasprefix-false-with-entry:"+where, "%s: HasPrefix(%q) = false, mapping: %s", where, q, verifC10ModelKey(model))
				}
			}
		}
		store := func(what string) boson.Address {
			var addr boson.Address
			var err error
			try(what, func() { addr, err = m.Store(ctx) })
			if err != nil {
				fail("store-error", "%s: %v", what, err)
			}
			return addr
		}
		finalCheck := func() {
			checkAll(m, "live")
			addr := store("Store() [final]")
			r, err := NewDefaultManifestReference(addr, ls)
			x.NoErr(err, "NewDefaultManifestReference")
			checkAll(r, "reloaded")
			x.Outcome(fmt.Sprintf("entries-%d", len(model)))
		}
		add := func(p string, e verifC10Entry, ref []byte) {
			x.Logf("Add(%q, %s)", p, e.name)
			if old, ok := model[p]; ok {
				x.Tag("overwrite")
				x.Nontrivial()
				if len(old.meta) > 0 && len(e.meta) == 0 {
					hz.emptyMeta = true
				}
			}
			if hz.stored {
				// the path is, or is a prefix of, a path that was added at some time (also one removed
				// again: its branching point may remain): it may name an existing stored trie node
				for k := range ever {
					if strings.HasPrefix(k, p) {
						hz.addOnStored = true
					}
				}
			}
			ever[p] = true
			if len(ref) > 0 {
				hz.realRefSinceLoad = true
			} else if !hz.realRefSinceLoad {
				hz.zeroRefOnly = true
			}
			if hz.stored && hz.readSinceStore {
				hz.addAfterStoreRead = true
			}
			for k := range model {
				if k != p && (strings.HasPrefix(k, p) || strings.HasPrefix(p, k)) {
					x.Tag("add-path-prefix-related-to-existing")
				}
			}
			var meta map[string]string
			if e.meta != nil {
				meta = map[string]string{}
				for k, v := range e.meta {
					meta[k] = v
				}
			}
			var err error
			try(fmt.Sprintf("Add(%q,%s)", p, e.name), func() { err = m.Add(ctx, p, NewEntry(boson.NewAddress(ref), meta)) })
			if err != nil {
				fail("add-error", "Add(%q,%s): %v", p, e.name, err)
			}
			model[p] = verifC10Val{ref, e.meta}
		}

		for step := 0; step < depth; step++ {
			var present []string
			for _, p := range append(append([]string{}, verifC10Paths...), RootPath) {
				if _, ok := model[p]; ok {
					present = append(present, p)
				}
			}
			nAdd := len(verifC10Paths) * len(verifC10Entries)
			op := x.Choose(1 + nAdd + 5 + len(present))
			switch {
			case op == 0:
				x.Logf("stop")
				finalCheck()
				return
			case op <= nAdd:
				e := verifC10Entries[(op-1)%len(verifC10Entries)]
				add(verifC10Paths[(op-1)/len(verifC10Entries)], e, bytes.Repeat([]byte{e.fill}, refSize))
			case op == nAdd+1:
				add(RootPath, verifC10RootEntry, boson.ZeroAddress.Bytes())
				x.Tag("root-entry-with-zero-reference")
			case op == nAdd+2:
				x.Logf("Store")
				store("Store()")
				hz.stored = true // nodes loaded by earlier reads stay loaded: readSinceStore is kept
			case op == nAdd+3:
				x.Logf("Store+reload")
				addr := store("Store()")
				m, err = NewDefaultManifestReference(addr, ls)
				x.NoErr(err, "NewDefaultManifestReference")
				hz.stored, hz.readSinceStore, hz.realRefSinceLoad = true, false, false
				x.Nontrivial()
			case op == nAdd+4:
				x.Logf("read-all")
				checkAll(m, "live")
				hz.readSinceStore = true
			case op == nAdd+5:
				x.Logf("Lookup(\"abc\")")
				lookup(m, "live", "abc")
				hz.readSinceStore = true
			default:
				p := present[op-nAdd-6]
				x.Logf("Remove(%q)", p)
				for k := range model {
					if k != p && strings.HasPrefix(k, p) {
						x.Tag("remove-path-that-is-prefix-of-another")
						hz.rmPrefix = true
					}
				}
				if hz.stored {
					hz.rmAfterStore = true
				}
				hz.rm = true
				hz.readSinceStore = true // Remove loads the nodes on its path like a read does
				var err error
				try(fmt.Sprintf("Remove(%q)", p), func() { err = m.Remove(ctx, p) })
				if err != nil {
					fail("remove-error", "Remove(%q) of a present path: %v", p, err)
				}
				delete(model, p)
				x.Nontrivial()
			}
			if step == depth-1 {
				break // depth bound: final check below (no pruning after the last choice, so re-runs see the same execution)
			}
			var b strings.Builder
			b.WriteString(verifC10ModelKey(model))
			var ek []string
			for k := range ever {
				ek = append(ek, k)
			}
			sort.Strings(ek)
			fmt.Fprintf(&b, "|%+v|%v|", hz, ek)
			verifC10Dump(reflect.ValueOf(m.(*mantarayManifest).trie), !encrypted, &b)
			if encrypted {
				x.State(b.String())
			} else if x.Seen(b.String(), depth-step-1) {
				return
			}
		}
		finalCheck()
	})
}
