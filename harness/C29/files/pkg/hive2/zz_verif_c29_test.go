//go:build verif
// +build verif

package hive2

// C29: peer-exchange (hive2 findNode) replies respect the request.
//
// The real onFindNode handler is invoked synchronously on an in-memory stream
// against a real kademlia.Kad and a real addressbook holding signed
// aurora.Address records. See harness/C29/NOTES.md.

import (
	"bytes"
	"context"
	"encoding/binary"
	"fmt"
	"io"
	"io/ioutil"
	"net"
	"strings"
	"testing"
	"time"

	"github.com/gauss-project/aurorafs/pkg/addressbook"
	"github.com/gauss-project/aurorafs/pkg/aurora"
	"github.com/gauss-project/aurorafs/pkg/boson"
	"github.com/gauss-project/aurorafs/pkg/crypto"
	"github.com/gauss-project/aurorafs/pkg/hive2/pb"
	"github.com/gauss-project/aurorafs/pkg/logging"
	"github.com/gauss-project/aurorafs/pkg/p2p"
	p2pmock "github.com/gauss-project/aurorafs/pkg/p2p/mock"
	"github.com/gauss-project/aurorafs/pkg/p2p/protobuf"
	pingpongmock "github.com/gauss-project/aurorafs/pkg/pingpong/mock"
	"github.com/gauss-project/aurorafs/pkg/shed"
	shedldb "github.com/gauss-project/aurorafs/pkg/shed/leveldb"
	mockstate "github.com/gauss-project/aurorafs/pkg/statestore/mock"
	"github.com/gauss-project/aurorafs/pkg/subscribe"
	"github.com/gauss-project/aurorafs/pkg/topology"
	"github.com/gauss-project/aurorafs/pkg/topology/kademlia"
	"github.com/gauss-project/aurorafs/pkg/zzverif/mc"
	ma "github.com/multiformats/go-multiaddr"
)

// ---- in-memory stream: request bytes in, reply bytes out -------------------

type c29Stream struct {
	in  *bytes.Reader
	out bytes.Buffer
}

func (s *c29Stream) Read(p []byte) (int, error)   { return s.in.Read(p) }
func (s *c29Stream) Write(p []byte) (int, error)  { return s.out.Write(p) }
func (s *c29Stream) Close() error                 { return nil }
func (s *c29Stream) FullClose() error             { return nil }
func (s *c29Stream) Reset() error                 { return nil }
func (s *c29Stream) Headers() p2p.Headers         { return nil }
func (s *c29Stream) ResponseHeaders() p2p.Headers { return nil }

type c29RW struct {
	io.Reader
	io.Writer
}

// ---- address universe ------------------------------------------------------

func c29Overlay(first byte, idx int, tail byte) boson.Address {
	b := make([]byte, 32)
	b[0] = first
	b[1] = byte(idx)
	b[31] = tail
	return boson.NewAddress(b)
}

// own definition of the proximity order (leading common bits, capped at MaxPO=31)
func c29PO(a, b []byte) int {
	for i := 0; i < len(a) && i < len(b); i++ {
		x := a[i] ^ b[i]
		for j := 0; j < 8; j++ {
			if x&(0x80>>uint(j)) != 0 {
				po := i*8 + j
				if po > 31 {
					po = 31
				}
				return po
			}
		}
	}
	return 31
}

type c29Peer struct {
	overlay   boson.Address
	underlay  string
	private   bool // underlay is a private-network address (RFC1918 / fc00::/7), by construction
	connected bool
	inBook    bool
}

var (
	c29Base    = c29Overlay(0xF0, 0, 0)
	c29Targets = []boson.Address{
		c29Overlay(0x08, 0, 0), // T0: far from the node
		c29Base,                // T1: the node's own address
		c29Overlay(0x55, 0x55, 0x55),
		c29Overlay(0x80, 0xFF, 0x01),
	}
	c29Requester = c29Overlay(0x81, 0xEE, 0x07) // PO 0 to T0/T2, PO 1 to T1, PO>=7 to T3
)

// first bytes cycle so that the proximity orders 0,1,2,3,4 and 31 w.r.t. every target occur
var c29FirstBytes = []byte{0x80, 0x40, 0x20, 0x08, 0xF0, 0x10, 0xC0, 0x60, 0x04, 0x55, 0x30}

// private flag, underlay of the i-th generated peer
func c29Underlay(i int) (string, bool) {
	switch i % 6 {
	case 0:
		return fmt.Sprintf("/ip4/34.1.2.%d/tcp/1634", i+1), false
	case 1:
		return fmt.Sprintf("/ip4/10.0.0.%d/tcp/1634", i+1), true
	case 2:
		return fmt.Sprintf("/ip4/192.168.7.%d/tcp/1634", i+1), true
	case 3:
		return fmt.Sprintf("/ip6/2600:1f00::%x/tcp/1634", i+1), false
	case 4:
		return fmt.Sprintf("/ip6/fd12::%x/tcp/1634", i+1), true
	default:
		return fmt.Sprintf("/ip4/172.16.3.%d/tcp/1634", i+1), true
	}
}

// independent classification for the oracle (checks the construction above)
func c29IsPrivateUnderlay(b []byte) (private, known bool) {
	m, err := ma.NewMultiaddrBytes(b)
	if err != nil {
		return false, false
	}
	parts := strings.Split(m.String(), "/")
	if len(parts) < 3 {
		return false, false
	}
	ip := net.ParseIP(parts[2])
	if ip == nil {
		return false, false
	}
	for _, c := range []string{"10.0.0.0/8", "172.16.0.0/12", "192.168.0.0/16", "fc00::/7"} {
		_, n, _ := net.ParseCIDR(c)
		if n.Contains(ip) {
			return true, true
		}
	}
	return false, true
}

// peer-set shapes: number of connected peers and of known-only peers
type c29Shape struct{ conn, known int }

const (
	c29ReqPublic = iota
	c29ReqPrivate
	c29ReqUnknown
)

var c29ReqNames = []string{"public", "private", "not-in-addressbook"}

type c29World struct {
	kad   *kademlia.Kad
	book  addressbook.Interface
	peers []c29Peer
	db    *shed.DB
	svc   *Service // the service under test (stateless between requests apart from metrics counters)
}

const c29Driver = "verifc29leveldb"

func init() { shed.Register(c29Driver, shedldb.Driver{}) }

var c29Signer = crypto.NewDefaultSigner(crypto.Secp256k1PrivateKeyFromBytes(bytes.Repeat([]byte{0x42}, 32)))

func c29Put(book addressbook.Interface, overlay boson.Address, underlay string) error {
	mu, err := ma.NewMultiaddr(underlay)
	if err != nil {
		return err
	}
	addr, err := aurora.NewAddress(c29Signer, mu, overlay, 0)
	if err != nil {
		return err
	}
	return book.Put(overlay, *addr)
}

func c29Build(shape c29Shape, reqKind int, logger logging.Logger) (*c29World, error) {
	db, err := shed.NewDB("", &shed.Options{Driver: c29Driver})
	if err != nil {
		return nil, err
	}
	book := addressbook.New(mockstate.NewStateStore())
	p2ps := p2pmock.New()
	h := New(nil, book, 0, logger) // discovery driver handed to kademlia (never started)
	ppm := pingpongmock.New(func(_ context.Context, _ boson.Address, _ ...string) (time.Duration, error) { return 0, nil })
	kad, err := kademlia.New(c29Base, book, h, p2ps, ppm, nil, nil, db, logger, subscribe.NewSubPub(),
		kademlia.Options{BinMaxPeers: 100, NodeMode: aurora.NewModel().SetMode(aurora.FullNode)})
	if err != nil {
		return nil, err
	}
	w := &c29World{kad: kad, book: book, db: db, svc: New(nil, book, 0, logger)}
	n := shape.conn + shape.known
	for i := 0; i < n; i++ {
		first := c29FirstBytes[i%len(c29FirstBytes)]
		idx, tail := i+1, byte(0)
		if first == 0x08 || first == 0xF0 {
			// differs from target T0 (0x08..) / the node's own address T1 (0xF0..) only in the last byte: PO 31
			idx, tail = 0, byte(i+1)
		}
		ul, priv := c29Underlay(i)
		p := c29Peer{overlay: c29Overlay(first, idx, tail), underlay: ul, private: priv, connected: i < shape.conn, inBook: true}
		if i == n-1 && shape.known > 1 {
			p.inBook = false // a known peer without an addressbook record
		}
		for _, q := range w.peers {
			if q.overlay.Equal(p.overlay) {
				return nil, fmt.Errorf("duplicate overlay generated for peer %d", i)
			}
		}
		w.peers = append(w.peers, p)
	}
	for _, p := range w.peers {
		if p.inBook {
			if err := c29Put(book, p.overlay, p.underlay); err != nil {
				return nil, err
			}
		}
		if p.connected {
			if err := kad.Connected(context.Background(), p2p.Peer{Address: p.overlay}, true); err != nil {
				return nil, err
			}
		} else {
			kad.AddPeers(p.overlay)
		}
	}
	// the requester is a connected peer
	switch reqKind {
	case c29ReqPublic:
		err = c29Put(book, c29Requester, "/ip4/52.9.8.7/tcp/1634")
	case c29ReqPrivate:
		err = c29Put(book, c29Requester, "/ip4/10.9.8.7/tcp/1634")
	}
	if err != nil {
		return nil, err
	}
	if err := kad.Connected(context.Background(), p2p.Peer{Address: c29Requester}, true); err != nil {
		return nil, err
	}
	return w, nil
}

func (w *c29World) counts() (conn, known int) {
	_ = w.kad.EachPeer(func(boson.Address, uint8) (bool, bool, error) { conn++; return false, false, nil }, topology.Filter{})
	_ = w.kad.EachKnownPeer(func(boson.Address, uint8) (bool, bool, error) { known++; return false, false, nil })
	return
}

func TestVerifC29(t *testing.T) {
	logger := logging.New(ioutil.Discard, 0)
	shapes := []c29Shape{{0, 0}, {1, 0}, {0, 1}, {2, 2}, {6, 6}, {16, 16}}
	posLists := [][]int32{{}, {0}, {1}, {2}, {31}, {0, 0}, {0, 1}, {1, 2, 31}, {0, 1, 2, 3, 4, 31}, {3, 4}}
	nTargets := 3
	if mc.Thorough() {
		shapes = append(shapes, c29Shape{3, 9}, c29Shape{12, 3}, c29Shape{20, 20}, c29Shape{35, 0}, c29Shape{0, 35}, c29Shape{35, 35})
		posLists = nil
		for mask := 0; mask < 64; mask++ { // all subsets of {0,1,2,3,4,31}
			var l []int32
			for b, v := range []int32{0, 1, 2, 3, 4, 31} {
				if mask&(1<<uint(b)) != 0 {
					l = append(l, v)
				}
			}
			posLists = append(posLists, l)
		}
		posLists = append(posLists, []int32{0, 0}, []int32{1, 0, 1}, []int32{31, 31, 2})
		nTargets = 4
	}
	// limits: all of 0..40 in the thorough tier; the quick tier keeps every boundary
	// (0,1,2,3 around the conn/known split, odd/even, 29..32 around the cap of 30, 40)
	var limits []int
	for l := 0; l <= 40; l++ {
		limits = append(limits, l)
	}
	if !mc.Thorough() {
		limits = []int{0, 1, 2, 3, 4, 5, 6, 9, 10, 15, 16, 20, 29, 30, 31, 32, 39, 40}
	}
	repeats := mc.Pick(32, 48)

	// Kad/addressbook worlds are immutable under onFindNode (checked below), so one
	// instance per (shape, requester kind) is built lazily and shared by all
	// executions of this process instead of paying a leveldb open per execution.
	worlds := map[[2]int]*c29World{}
	defer func() {
		for _, w := range worlds {
			w.svc.Close()
			w.db.Close()
		}
	}()
	var shapeNames []string
	for _, s := range shapes {
		shapeNames = append(shapeNames, fmt.Sprintf("%dconn+%dknown", s.conn, s.known))
	}

	mc.Run(t, mc.Config{ID: "C29", Name: "C29-findnode-enum", MaxDev: -1, Params: map[string]interface{}{
		"limit": limits, "pos_lists": posLists, "targets": nTargets, "peer_sets": shapeNames,
		"requests_per_execution": fmt.Sprintf("1 if the first reply is empty, else %d (random selection inside the implementation)", repeats), "requester": c29ReqNames, "allow_private_cidrs": []bool{false, true},
		"underlays": "ip4 34.x (public) 10.x 192.168.x 172.16.x (private), ip6 2600:: (public) fd12:: (private)"}},
		func(x *mc.X) {
			limit := limits[x.Choose(len(limits))]
			pos := posLists[x.Choose(len(posLists))]
			ti := x.Choose(nTargets)
			allow := x.Choose(2) == 1
			reqKind := x.Choose(3)
			si := x.Choose(len(shapes))
			target := c29Targets[ti]
			x.Logf("limit=%d pos=%v target=T%d allowPrivate=%v requester=%s peers=%s", limit, pos, ti, allow, c29ReqNames[reqKind], shapeNames[si])

			w := worlds[[2]int{si, reqKind}]
			if w == nil {
				var err error
				w, err = c29Build(shapes[si], reqKind, logger)
				x.NoErr(err, "build kademlia/addressbook")
				worlds[[2]int{si, reqKind}] = w
			}
			conn0, known0 := w.counts()
			if conn0 != shapes[si].conn+1 || known0 != shapes[si].conn+shapes[si].known+1 {
				x.Broken("kademlia holds %d connected / %d known peers, expected %d / %d", conn0, known0, shapes[si].conn+1, shapes[si].conn+shapes[si].known+1)
			}

			svc := w.svc
			svc.SetConfig(Config{Kad: w.kad, Base: c29Base, AllowPrivateCIDRs: allow})

			// how many peers could legitimately be offered (for vacuity counters only)
			cand := 0
			for _, p := range w.peers {
				if !p.inBook {
					continue
				}
				po := c29PO(target.Bytes(), p.overlay.Bytes())
				ok := false
				for _, v := range pos {
					if int(v) == po {
						ok = true
					}
				}
				if ok && !(p.private && reqKind == c29ReqPublic && !allow) {
					cand++
				}
			}

			honoured := limit
			if honoured > maxPeersLimitStatement {
				honoured = maxPeersLimitStatement
			}
			// Which candidates are selected is random in the implementation whenever a
			// choice exists; then the same request is repeated and every reply judged.
			// (math/rand re-seeded from the clock - it cannot be controlled from outside).
			// An empty first reply means the implementation found no candidate at all: nothing
			// was selected and one request is enough. Otherwise the same request is sent
			// `repeats` times and every reply is judged.
			reps := repeats
			n := 0
			for rep := 0; rep < reps; rep++ {
				// request on the in-memory stream
				var reqBuf bytes.Buffer
				wr := protobuf.NewWriter(c29RW{Writer: &reqBuf})
				x.NoErr(wr.WriteMsgWithContext(context.Background(), &pb.FindNodeReq{Target: target.Bytes(), Pos: pos, Limit: int32(limit)}), "encode request")
				st := &c29Stream{in: bytes.NewReader(reqBuf.Bytes())}
				err := svc.onFindNode(context.Background(), p2p.Peer{Address: c29Requester}, st)
				x.NoErr(err, "onFindNode")
				var resp pb.Peers
				// the reply is one varint-length-delimited pb.Peers message
				raw := st.out.Bytes()
				sz, k := binary.Uvarint(raw)
				if k <= 0 || int(sz) != len(raw)-k {
					x.Broken("reply is not exactly one delimited message (%d bytes, prefix %d/%d)", len(raw), sz, k)
				}
				x.NoErr(resp.Unmarshal(raw[k:]), "decode reply")

				if rep == 0 && len(resp.Peers) == 0 {
					reps = 1
				}

				// ---- oracle, on the reply only ----
				if rep > 0 && len(resp.Peers) != n {
					x.Tag("reply-size-varies-between-repetitions")
				}
				n = len(resp.Peers)
				if n > honoured {
					switch {
					case limit < 2:
						x.Fail("reply-exceeds-limit-below-2", "limit=%d but the reply has %d peers", limit, n)
					case limit > maxPeersLimitStatement:
						x.Fail("reply-exceeds-30", "limit=%d (30 honoured) but the reply has %d peers", limit, n)
					default:
						x.Fail("reply-exceeds-limit", "limit=%d but the reply has %d peers", limit, n)
					}
				}
				seen := map[string]bool{}
				for _, p := range resp.Peers {
					ov := boson.NewAddress(p.Overlay)
					if ov.Equal(c29Requester) {
						x.Fail("reply-contains-requester", "reply offers the requester itself")
					}
					po := c29PO(target.Bytes(), p.Overlay)
					ok := false
					for _, v := range pos {
						if int(v) == po {
							ok = true
						}
					}
					if !ok {
						x.Fail("reply-peer-outside-requested-orders", "peer %s has proximity %d to the target, requested orders %v", ov, po, pos)
					}
					if seen[ov.ByteString()] {
						x.Fail("reply-repeats-peer", "peer %s offered twice", ov)
					}
					seen[ov.ByteString()] = true
					priv, known := c29IsPrivateUnderlay(p.Underlay)
					if !known {
						x.Broken("cannot classify underlay %x", p.Underlay)
					}
					if priv && reqKind == c29ReqPublic && !allow {
						x.Fail("reply-private-underlay-to-public-requester", "peer %s with a private underlay offered to a requester with a public address (AllowPrivateCIDRs=false)", ov)
					}
				}
			}
			conn1, known1 := w.counts()
			if conn1 != conn0 || known1 != known0 {
				x.Broken("onFindNode changed the kademlia peer sets (%d/%d -> %d/%d)", conn0, known0, conn1, known1)
			}
			// vacuity counters (all computed from the request and the peer set, not from the random selection)
			for _, p := range w.peers {
				if p.private && p.inBook && !(reqKind == c29ReqPublic && !allow) {
					po := c29PO(target.Bytes(), p.overlay.Bytes())
					for _, v := range pos {
						if int(v) == po {
							x.Tag("private-candidate-may-be-offered")
						}
					}
				}
			}
			if cand > honoured {
				x.Tag("more-candidates-than-limit")
				x.Nontrivial()
			}
			if limit > maxPeersLimitStatement && cand > maxPeersLimitStatement {
				x.Tag("limit-above-30-with-more-than-30-candidates")
			}
			if limit > maxPeersLimitStatement && n == maxPeersLimitStatement {
				x.Tag("limit-above-30-reply-has-exactly-30")
			}
			if reqKind == c29ReqPublic && !allow {
				for _, p := range w.peers {
					if p.private && p.inBook {
						po := c29PO(target.Bytes(), p.overlay.Bytes())
						for _, v := range pos {
							if int(v) == po {
								x.Tag("private-candidate-withheld-from-public-requester")
								x.Nontrivial()
							}
						}
					}
				}
			}
			rpo := c29PO(target.Bytes(), c29Requester.Bytes())
			for _, v := range pos {
				if int(v) == rpo && reqKind != c29ReqUnknown {
					x.Tag("requester-matches-requested-order")
					x.Nontrivial()
				}
			}
			switch {
			case n == 0 && cand == 0:
				x.Outcome("empty-reply-no-candidate")
			case n == 0:
				x.Outcome("empty-reply-despite-candidates")
			case n == honoured:
				x.Outcome("reply-size-equals-limit")
			case n < honoured:
				x.Outcome("reply-smaller-than-limit")
			default:
				x.Outcome("reply-larger-than-limit")
			}
		})
}

const maxPeersLimitStatement = 30 // "with at most 30 honoured"
