//go:build verif && go1.18
// +build verif,go1.18

package mem

import (
	"crypto/ecdsa"
	"fmt"
	"testing"

	"github.com/gauss-project/aurorafs/pkg/zzverif/mc"
	"github.com/gauss-project/aurorafs/pkg/zzverif/vsched"
)

// concurrent Key requests on the in-memory keystore: asking again (also from another
// goroutine) returns the same key rather than creating a new one.
func TestVerifC36MemSched(t *testing.T) {
	maxDev := mc.Pick(2, 3)
	type req struct{ name, pw string }
	menu := []req{{"a", "p"}, {"a", "q"}, {"b", "p"}}
	mc.Run(t, mc.Config{ID: "C36", Name: "C36-mem-concurrent", MaxDev: maxDev, Params: map[string]interface{}{
		"threads": "2-3 goroutines, one Key(name,password) each, then every name is asked once more sequentially", "requests": fmt.Sprint(menu), "preemption_bound": maxDev}},
		func(x *mc.X) {
			n := 2 + x.Choose(mc.Pick(1, 2))
			reqs := make([]req, n)
			prev := -1
			for i := range reqs {
				k := x.Choose(len(menu))
				if k < prev {
					return
				}
				prev = k
				reqs[i] = menu[k]
			}
			x.Logf("requests %v", reqs)
			type res struct {
				pk      *ecdsa.PrivateKey
				created bool
				err     error
			}
			out := make([]res, n)
			var s *Service
			verdict := vsched.Run(x, vsched.Options{MaxSteps: 2000}, func(sc *vsched.S) {
				s = New()
				for i := range reqs {
					i := i
					sc.Go(fmt.Sprintf("T%d", i), func() {
						pk, c, err := s.Key(reqs[i].name, reqs[i].pw)
						out[i] = res{pk, c, err}
					})
				}
				sc.Quiesce()
				if sc.Preemptions() > 0 {
					x.Nontrivial()
				}
			})
			if verdict != "" {
				x.Fail("deadlock", "scheduler verdict %s", verdict)
			}
			// per name: exactly one creation; every successful request for the name holds the same key,
			// and asking again with the creator's password returns that key
			for _, name := range []string{"a", "b"} {
				creators, var1 := 0, (*ecdsa.PrivateKey)(nil)
				cpw := ""
				asked := false
				for i, r := range reqs {
					if r.name != name {
						continue
					}
					asked = true
					if out[i].err == nil && out[i].created {
						creators++
						var1, cpw = out[i].pk, r.pw
					}
				}
				if !asked {
					continue
				}
				x.Check(creators == 1, "concurrent-key-created-more-than-once", "name %q: %d of the concurrent requests report created=true (requests %v)", name, creators, reqs)
				for i, r := range reqs {
					if r.name != name {
						continue
					}
					if r.pw == cpw {
						x.Check(out[i].err == nil && out[i].pk != nil && out[i].pk.D.Cmp(var1.D) == 0, "concurrent-key-differs", "name %q: request %d with the creating password got a different key or an error (%v)", name, i, out[i].err)
					} else {
						x.Check(out[i].err != nil, "wrong-password-accepted-concurrently", "name %q: request %d with another password than the creator's was honoured", name, i)
					}
				}
				again, created, err := s.Key(name, cpw)
				x.Check(err == nil && !created && again.D.Cmp(var1.D) == 0, "key-not-stable-after-concurrent-creation", "name %q: asking again returned created=%v err=%v or a different key", name, created, err)
			}
			x.Outcome(fmt.Sprint(len(reqs)))
		})
}
