//go:build verif
// +build verif

package multicast

import (
	"context"
	"fmt"
	"io"
	"testing"
	"time"

	"github.com/gauss-project/aurorafs/pkg/aurora"
	"github.com/gauss-project/aurorafs/pkg/boson"
	"github.com/gauss-project/aurorafs/pkg/logging"
	"github.com/gauss-project/aurorafs/pkg/multicast/model"
	"github.com/gauss-project/aurorafs/pkg/multicast/pb"
	"github.com/gauss-project/aurorafs/pkg/p2p"
	"github.com/gauss-project/aurorafs/pkg/routetab"
	"github.com/gauss-project/aurorafs/pkg/subscribe"
	kadmock "github.com/gauss-project/aurorafs/pkg/topology/kademlia/mock"
	"github.com/gauss-project/aurorafs/pkg/zzverif/mc"
	"github.com/gauss-project/aurorafs/pkg/zzverif/wire"
	"github.com/gogf/gf/v2/os/gcache"
)

// stubs (same idea as the C38 harness: real Service, stub route/kademlia/SubPub)

var c37Kad = kadmock.NewMockKademlia() // stateless for what pkg/multicast asks of it; its constructor starts a goroutine

type c37Route struct {
	routetab.RouteTab
	nb map[string]bool
}

func (r *c37Route) IsNeighbor(a boson.Address) bool                    { return r.nb[a.ByteString()] }
func (r *c37Route) Connect(context.Context, boson.Address) error        { return nil }

type c37SubPub struct{ n int }

var _ subscribe.SubPub = (*c37SubPub)(nil)

func (s *c37SubPub) Subscribe(subscribe.INotifier, string, string, string) error { return nil }
func (s *c37SubPub) Publish(string, string, string, interface{}) error           { s.n++; return nil }
func (s *c37SubPub) PublishArray(string, string, string, []interface{}) error    { return nil }

func c37Addr(tag, i byte) boson.Address {
	b := make([]byte, 32)
	b[0], b[1], b[31] = tag, i, i
	return boson.NewAddress(b)
}

var (
	c37Self    = c37Addr(0x80, 1)
	c37Sender  = c37Addr(0xc0, 2) // neighbour, sends the messages
	c37Member  = c37Addr(0x40, 3) // neighbour, connected member of the joined group
	c37Kept    = c37Addr(0x20, 4) // not a neighbour, kept member of the joined group
	c37Obs     = c37Addr(0x10, 5) // neighbour, connected member of the observed group
	c37Joined  = c37Addr(0xaa, 6) // gid of a group this node joined
	c37Observe = c37Addr(0xbb, 7) // gid of a group this node only knows peers of
	c37NoGroup = c37Addr(0xcc, 8) // unknown gid
	c37Peer    = p2p.Peer{Address: c37Sender, Mode: aurora.NewModel().SetMode(aurora.FullNode)}
)

type c37Node struct {
	svc *Service
	sr  *wire.Streamer
	sub *c37SubPub
}

func c37NewNode(reply []byte, msgSub bool) *c37Node {
	// the package-global de-duplication cache must not leak between executions
	cache = gcache.NewWithAdapter(gcache.NewAdapterMemory())
	n := &c37Node{sub: &c37SubPub{}}
	n.sr = &wire.Streamer{Reply: func(boson.Address, string, string, int) []byte { return reply }}
	route := &c37Route{nb: map[string]bool{c37Sender.ByteString(): true, c37Member.ByteString(): true, c37Obs.ByteString(): true}}
	n.svc = NewService(c37Self, aurora.NewModel().SetMode(aurora.FullNode), nil, n.sr, c37Kad, route, logging.New(io.Discard, 0), n.sub, Option{Dev: true})
	j := n.svc.newGroup(c37Joined, model.ConfigNodeGroup{Name: "joined", GType: model.GTypeJoin})
	j.multicastSub = true
	j.groupMsgSub = msgSub
	j.connectedPeers.Add(c37Member)
	j.keepPeers.Add(c37Kept)
	o := n.svc.newGroup(c37Observe, model.ConfigNodeGroup{Name: "observed", GType: model.GTypeKnown})
	o.connectedPeers.Add(c37Obs)
	// neutralise notifyPeers' 500 ms real-time rate limiter for the groups that exist
	for _, g := range n.svc.getGroupAll() {
		g.groupPeersLastSend = time.Time{}
	}
	return n
}

func (n *c37Node) handler(x *mc.X, name string) p2p.HandlerFunc {
	for _, s := range n.svc.Protocol().StreamSpecs {
		if s.Name == name {
			return s.Handler
		}
	}
	x.Broken("no registered handler %q", name)
	return nil
}

// followUp: local operations over the group state a message may have created
func (n *c37Node) followUp() {
	s := n.svc
	for _, g := range s.getGroupAll() {
		_ = g.getPeers()
		g.pruneKnown()
	}
	_ = s.getAllProtectPeers()
	_ = s.getGIDsByte()
	for _, gid := range []boson.Address{c37Joined, c37Observe, c37NoGroup, boson.ZeroAddress} {
		_ = s.getSkipInGroupPeers(gid)
		_ = s.getForwardNodes(gid, c37Sender)
		_, _ = s.GetGroupPeers(gid.String())
	}
	// a later well-formed findGroup request served from the (possibly polluted) state
	_ = s.onFindGroup(context.Background(), c37Peer, wire.NewStream(wire.Frame(&pb.FindGroupReq{Gid: c37NoGroup.Bytes(), Limit: 4, Ttl: 0})))
	s.gcGroup()
}

var c37Int32 = []int32{0, 1, 2, 4, -1, -2147483648, 2147483647}

// Limit is a count: a handler that sizes an allocation with it dies with an
// unrecoverable "fatal error: out of memory" for 2^31-1 (51 GB of slice headers
// under bin/check's address-space limit), which would lose the whole shard
// instead of reporting the violation that the negative values already show.
// The largest count in the main enumeration is therefore 2^20; 2^31-1 is
// only enumerated with VERIF_C37_DEEP=1.
func c37Limits() []int32 {
	l := []int32{0, 1, 2, 4, -1, -2147483648, 1 << 20}
	if mc.EnvInt("VERIF_C37_DEEP", 0) != 0 {
		l = append(l, 2147483647)
	}
	return l
}

func TestVerifC37(t *testing.T) {
	gids := append(wire.BytesField(c37NoGroup.Bytes(), 64<<10),
		wire.BytesVal{Name: "joined", V: c37Joined.Bytes()}, wire.BytesVal{Name: "observed", V: c37Observe.Bytes()})

	// ---- FindGroupReq: full product gid(11) x limit(7) x ttl(7) x paths(6)
	pathSets := []struct {
		name string
		p    [][]byte
	}{
		{"none", nil}, {"sender", [][]byte{c37Sender.Bytes()}}, {"all-members", [][]byte{c37Member.Bytes(), c37Kept.Bytes(), c37Obs.Bytes()}},
		{"odd-lengths", [][]byte{{}, {1}, make([]byte, 33)}}, {"64KiB-entry", [][]byte{make([]byte, 64<<10)}}, {"self", [][]byte{c37Self.Bytes()}},
	}
	fg := wire.Standard(&pb.FindGroupReq{Gid: c37Joined.Bytes(), Limit: 2, Ttl: 1, Paths: [][]byte{c37Sender.Bytes()}})
	for _, g := range gids {
		for _, l := range c37Limits() {
			for _, ttl := range c37Int32 {
				for _, ps := range pathSets {
					fg = append(fg, wire.Msg(fmt.Sprintf("gid=%s,limit=%d,ttl=%d,paths=%s", g.Name, l, ttl, ps.name), &pb.FindGroupReq{Gid: g.V, Limit: l, Ttl: ttl, Paths: ps.p}))
				}
			}
		}
	}
	// FindGroupResp read by the forwarding branch of onFindGroup (getGroupNode)
	fr := wire.Standard(&pb.FindGroupResp{Addresses: [][]byte{c37Member.Bytes(), c37Obs.Bytes()}})
	for _, a := range wire.BytesField(c37Member.Bytes(), 64<<10) {
		fr = append(fr, wire.Msg("addresses=["+a.Name+"]", &pb.FindGroupResp{Addresses: [][]byte{a.V}}))
	}
	fr = append(fr, wire.Msg("addresses=none", &pb.FindGroupResp{}), wire.Msg("addresses=[empty,1-byte,33-bytes,self]", &pb.FindGroupResp{Addresses: [][]byte{{}, {1}, make([]byte, 33), c37Self.Bytes()}}))

	// ---- MulticastMsg: product id(5) x createTime(5) x origin(11) x gid(11) x data(3) pairwise
	u64 := []uint64{7, 0, 1, 1<<63 - 1, ^uint64(0)}
	i64 := []int64{1700000000000, 0, -1, -9223372036854775808, 9223372036854775807}
	origins := append(wire.BytesField(c37Addr(0x55, 9).Bytes(), 64<<10), wire.BytesVal{Name: "self", V: c37Self.Bytes()}, wire.BytesVal{Name: "sender", V: c37Sender.Bytes()})
	datas := []wire.BytesVal{{Name: "valid", V: []byte("payload")}, {Name: "absent", V: nil}, {Name: "512KiB", V: make([]byte, 512<<10)}}
	mm := wire.Standard(&pb.MulticastMsg{Id: 7, CreateTime: 1700000000000, Origin: c37Addr(0x55, 9).Bytes(), Gid: c37Joined.Bytes(), Data: []byte("payload")})
	for ii, id := range u64 {
		for ci, ct := range i64 {
			for _, o := range origins {
				for _, g := range gids {
					for _, d := range datas {
						dev := 0
						if ii != 0 {
							dev++
						}
						if ci != 0 {
							dev++
						}
						if o.Name != "valid" {
							dev++
						}
						if d.Name != "valid" {
							dev++
						}
						if dev > 1 { // gid is always free: every (gid, one other deviation) pair
							continue
						}
						mm = append(mm, wire.Msg(fmt.Sprintf("id=%d,createTime=%d,origin=%s,gid=%s,data=%s", id, ct, o.Name, g.Name, d.Name),
							&pb.MulticastMsg{Id: id, CreateTime: ct, Origin: o.V, Gid: g.V, Data: d.V}))
					}
				}
			}
		}
	}

	// ---- GroupMsg: gid(11) x type(7) x data(3) x err(2); single frames only (see NOTES: a second frame after a
	// SendReceive message reaches `st.r.ReadMsg(nil)` in a bare goroutine of notifyMessage)
	gm := wire.Standard(&pb.GroupMsg{Gid: c37Joined.Bytes(), Data: []byte("hello"), Type: int32(SendOnly)})
	for _, g := range gids {
		for _, ty := range c37Int32 {
			for _, d := range datas {
				for _, e := range []string{"", "boom"} {
					gm = append(gm, wire.Msg(fmt.Sprintf("gid=%s,type=%d,data=%s,err=%q", g.Name, ty, d.Name, e), &pb.GroupMsg{Gid: g.V, Type: ty, Data: d.V, Err: e}))
				}
			}
		}
	}
	if mc.EnvInt("VERIF_C37_DEEP", 0) != 0 {
		two := append(wire.Frame(&pb.GroupMsg{Gid: c37Joined.Bytes(), Type: int32(SendReceive)}), wire.Frame(&pb.GroupMsg{})...)
		gm = append(gm, wire.Case{Name: "DEEP:SendReceive-then-second-frame", Data: two})
	}

	// ---- group-creating messages (Notify, handshake GIDs): every new group makes notifyPeers sleep up to
	// 500 ms of real time, so these two handlers are enumerated in the thorough tier only
	gidLists := []struct {
		name string
		l    [][]byte
	}{
		{"none", nil}, {"joined", [][]byte{c37Joined.Bytes()}}, {"observed+joined", [][]byte{c37Observe.Bytes(), c37Joined.Bytes()}},
		{"new", [][]byte{c37NoGroup.Bytes()}}, {"odd-lengths", [][]byte{{}, {1}, make([]byte, 31), make([]byte, 33)}}, {"64KiB", [][]byte{make([]byte, 64<<10)}},
		{"duplicates", [][]byte{c37Joined.Bytes(), c37Joined.Bytes(), c37NoGroup.Bytes(), c37NoGroup.Bytes()}},
	}
	nt := wire.Standard(&pb.Notify{Status: int32(NotifyJoinGroup), Gids: [][]byte{c37Joined.Bytes()}})
	hs := wire.Standard(&pb.GIDs{Gid: [][]byte{c37Joined.Bytes()}})
	for _, gl := range gidLists {
		for _, st := range []int32{1, 2, 0, 3, -1, -2147483648, 2147483647} {
			nt = append(nt, wire.Msg(fmt.Sprintf("status=%d,gids=%s", st, gl.name), &pb.Notify{Status: st, Gids: gl.l}))
		}
		hs = append(hs, wire.Msg("gids="+gl.name, &pb.GIDs{Gid: gl.l}))
	}

	run := func(stream string, msgSub bool, reply []byte) func(x *mc.X, c wire.Case) string {
		return func(x *mc.X, c wire.Case) string {
			n := c37NewNode(reply, msgSub)
			err := n.handler(x, stream)(context.Background(), c37Peer, wire.NewStream(c.Data))
			if n.sr.Count() > 0 {
				x.Tag("multicast-" + stream + "-forwarded")
			}
			n.followUp()
			return wire.ErrClass(err)
		}
	}
	targets := []wire.Target{
		{Name: "handler(multicast/findGroup)", Cases: fg, Run: run(streamFindGroup, false, wire.Frame(&pb.FindGroupResp{Addresses: [][]byte{c37Member.Bytes()}}))},
		{Name: "handler(multicast/findGroup)/forwarding-read", Cases: fr, Run: func(x *mc.X, c wire.Case) string {
			n := c37NewNode(c.Data, false)
			err := n.handler(x, streamFindGroup)(context.Background(), c37Peer, wire.NewStream(wire.Frame(&pb.FindGroupReq{Gid: c37NoGroup.Bytes(), Limit: 3})))
			if n.sr.Count() == 0 {
				x.Broken("findGroup for an unknown gid was not forwarded")
			}
			n.followUp()
			return wire.ErrClass(err)
		}},
		{Name: "handler(multicast/multicast)", Cases: mm, Run: run(streamMulticast, false, nil)},
		{Name: "handler(multicast/message) not subscribed", Cases: gm, Run: run(streamMessage, false, nil)},
		{Name: "handler(multicast/message) subscribed", Cases: gm, Run: run(streamMessage, true, nil)},
	}
	if mc.Thorough() {
		targets = append(targets,
			wire.Target{Name: "handler(multicast/notify)", Cases: nt, Run: run(streamNotify, false, nil)},
			wire.Target{Name: "handler(multicast/handshake)", Cases: hs, Run: run(streamHandshake, false, nil)},
		)
	}
	wire.Explore(t, func(cfg mc.Config, body func(*mc.X)) { mc.Run(t, cfg, body) }, "C37-multicast", map[string]interface{}{
		"alphabet": "FindGroupReq: standard framing/wire faults + full product gid{unknown,absent,empty,1,31,33,64,other,64KiB,joined,observed} x limit{0,1,2,4,-1,min,2^20} x ttl{0,1,2,4,-1,min,max} x paths{none,sender,all members,odd lengths,64KiB entry,self}; FindGroupResp (read while forwarding): standard faults + address field values; MulticastMsg: standard faults + every gid x one deviation of id{7,0,1,2^63-1,2^64-1}, createTime{now,0,-1,min,max}, origin{11 values incl. self, sender}, data{valid,absent,512KiB}; GroupMsg: standard faults + gid(11) x type{0,1,2,4,-1,min,max} x data(3) x err(2), group subscribed / not subscribed; thorough: Notify status{1,2,0,3,-1,min,max} x gid lists(7), handshake GIDs lists(7), each with standard faults",
	}, targets)
}
