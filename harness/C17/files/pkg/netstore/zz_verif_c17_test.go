//go:build verif
// +build verif

package netstore_test

import (
	"context"
	"fmt"
	"sort"
	"strings"
	"testing"

	"github.com/gauss-project/aurorafs/pkg/boson"
	"github.com/gauss-project/aurorafs/pkg/zzverif/mc"
	"github.com/gauss-project/aurorafs/pkg/zzverif/nodelite"
)

// C17: the availability record the node keeps for itself marks a data chunk
// present only if it is stored locally; "fully downloaded" only if all data
// chunks are stored; after a file is deleted no availability, discovery or
// source record for it remains, in memory or persisted.

// one more crash point than any delete of the universe has state-store units (observed maximum: 4);
// reaching the last point means a delete has more units than modelled -> the check reports itself broken
var c17MaxCrashUnits = mc.Pick(5, 8) // thorough: files with discovery records have up to 6 units

type c17Op struct {
	name, kind, file, chunk string
}

func c17Addr(u *nodelite.Universe, name string) boson.Address {
	for k, v := range u.Names {
		if v == name {
			return boson.MustParseHexAddress(k)
		}
	}
	panic("c17: unknown chunk " + name)
}

// distinct data chunks of a file in first-occurrence order: the index space of its bit vector
func c17DataOrder(u *nodelite.Universe, f *nodelite.File) []string {
	seen := map[string]bool{}
	var out []string
	for _, a := range f.DataCid {
		nm := u.Name(a)
		if !seen[nm] {
			seen[nm] = true
			out = append(out, nm)
		}
	}
	return out
}

func TestVerifC17(t *testing.T) {
	// F=[x,y,x,z,w]: a data chunk repeated inside the file and followed by further distinct chunks — bit
	// indices (distinct chunks, first-occurrence order) differ from positions in the file
	names := []string{"A", "B", "D", "F"}
	letters := map[string]string{"A": "xy", "B": "xz", "D": "ww", "F": "xyxzw"}
	u, err := nodelite.BuildUniverse(names, letters)
	if err != nil {
		t.Fatalf("universe: %v", err)
	}
	thorough := mc.Thorough()
	depth := mc.Pick(4, 5)
	ops := []c17Op{
		{"upload(A)", "upload", "A", ""},
		{"pyramid(A)", "pyramid", "A", ""},     // pyramid response from a peer: file becomes tracked, no data chunk stored
		{"fetch(A,x)", "fetch-data", "A", "x"}, // Get under A's context through netstore: local hit or retrieval from the peer
		{"fetch(A,y)", "fetch-data", "A", "y"},
		{"read(A,A.f)", "read-intermediate", "A", "A.f"}, // local Get of the file entry's root (intermediate) chunk under A's context
		{"read(A,A.m1)", "read-manifest", "A", "A.m1"},   // local Get of a manifest chunk under A's context
		{"read(A,A.R)", "read-root", "A", "A.R"},
		{"discover(A)", "discover", "A", ""}, // a chunk-info response from a peer about A
		{"restart", "restart", "", ""},
		{"delete(A)", "delete", "A", ""},
		{"upload(B)", "upload", "B", ""},
		{"delete(B)", "delete", "B", ""},
		{"pyramid(F)", "pyramid", "F", ""}, // partial local presence of F: single data chunks fetched one by one
		{"fetch(F,y)", "fetch-data", "F", "y"},
		{"fetch(F,z)", "fetch-data", "F", "z"},
	}
	if thorough {
		ops = append(ops,
			c17Op{"pyramid(B)", "pyramid", "B", ""}, c17Op{"fetch(B,x)", "fetch-data", "B", "x"}, c17Op{"fetch(B,z)", "fetch-data", "B", "z"},
			c17Op{"read(B,B.f)", "read-intermediate", "B", "B.f"}, c17Op{"upload(D)", "upload", "D", ""}, c17Op{"pyramid(D)", "pyramid", "D", ""},
			c17Op{"fetch(D,w)", "fetch-data", "D", "w"}, c17Op{"delete(D)", "delete", "D", ""},
			c17Op{"fetch(F,x)", "fetch-data", "F", "x"}, c17Op{"fetch(F,w)", "fetch-data", "F", "w"}, c17Op{"upload(F)", "upload", "F", ""}, c17Op{"delete(F)", "delete", "F", ""})
	}
	var opNames []string
	for _, o := range ops {
		opNames = append(opNames, o.name)
	}
	order := map[string][]string{}
	for _, f := range u.Files {
		order[f.Name] = c17DataOrder(u, f)
	}
	self := nodelite.SelfAddr.String()
	mc.Run(t, mc.Config{ID: "C17", Name: "C17-availability-records", MaxDev: 1, Params: map[string]interface{}{
		"crash_points": fmt.Sprintf("every delete may be interrupted after 0..%d state-store durability units (then restart); at most one crash per execution", c17MaxCrashUnits-1),
		"depth": depth, "alphabet": opNames, "initial_states": "empty (depth steps) | upload(A), discover(A) (depth-1 steps)", "files": letters, "chunk_size": boson.ChunkSize, "capacity": 1000,
		"checked_after_every_step": "self bit vector of every tracked file vs. local presence of its data chunks; isDownload; records of deleted files (tables, getters, raw state store keys)",
	}}, func(x *mc.X) {
		n, err := nodelite.New(nodelite.Options{Capacity: 1000, Universe: u})
		x.NoErr(err, "node")
		defer n.Close()
		deleted := map[string]bool{} // files deleted successfully and not tracked again since

		check := func(o c17Op) {
			s, err := n.Snap()
			x.NoErr(err, "snapshot")
			tb := n.CI.VerifTables()
			keys, err := n.StateKeys()
			x.NoErr(err, "state keys")
			// ---- 1./2. availability never overclaims
			for _, f := range u.Files {
				root := f.Root.String()
				bits, tracked := tb.Presence[root][self]
				if !tracked {
					continue
				}
				ord := order[f.Name]
				x.Check(bits.Len == len(ord), "self-bit-vector-length", "file %s: self bit vector has %d bits, file has %d distinct data chunks", f.Name, bits.Len, len(ord))
				all := true
				for i, c := range ord {
					set := bits.B[i/8]&(1<<uint(i%8)) != 0
					all = all && set
					if set && !s.Data[c] {
						key := "self-bit-set-for-missing-data-chunk"
						if strings.HasPrefix(o.kind, "read-") {
							key = "self-bit-set-by-read-of-non-data-chunk"
						}
						x.Fail(key, "after %s: availability record of %s marks data chunk #%d (%s) present but it is not stored; bits %0*b, stored {%s}", o.name, f.Name, i, c, bits.Len, bits.B[0], c17Stored(s))
					}
				}
				dl := n.CI.VerifIsDownload(f.Root)
				x.Check(dl == all, "isdownload-disagrees-with-bit-vector", "file %s: isDownload=%v but all-bits-set=%v", f.Name, dl, all)
				if dl {
					x.Tag("file-reported-fully-downloaded")
					for _, c := range ord {
						x.Check(s.Data[c], "fully-downloaded-with-missing-data-chunk", "after %s: %s is reported fully downloaded but data chunk %s is not stored", o.name, f.Name, c)
					}
				}
				// what the node advertises (GetChunkInfoServerOverlays) is the same vector
				for _, ov := range n.CI.GetChunkInfoServerOverlays(f.Root) {
					if ov.Overlay == self {
						x.Check(ov.Bit.Len == bits.Len && fmt.Sprintf("%x", ov.Bit.B) == fmt.Sprintf("%x", bits.B), "advertised-vector-differs", "file %s: advertised %x, table %x", f.Name, ov.Bit.B, bits.B)
					}
				}
			}
			// ---- 3. nothing remains of a deleted file
			var ds []string
			for f := range deleted {
				ds = append(ds, f)
			}
			sort.Strings(ds)
			for _, fn := range ds {
				f := u.ByName[fn]
				root := f.Root.String()
				sym := u.Name(f.Root)
				if _, ok := tb.Presence[root]; ok {
					x.Fail("deleted-file-availability-record-in-memory", "after %s: availability table still has %s (deleted)", o.name, fn)
				}
				if _, ok := tb.Overlays[root]; ok {
					x.Fail("deleted-file-availability-record-in-memory", "after %s: overlay list still has %s (deleted)", o.name, fn)
				}
				if _, ok := tb.Discover[root]; ok {
					x.Fail("deleted-file-discovery-record-in-memory", "after %s: discovery table still has %s (deleted)", o.name, fn)
				}
				if _, ok := tb.Source[root]; ok {
					x.Fail("deleted-file-source-record-in-memory", "after %s: source table still has %s (deleted)", o.name, fn)
				}
				for _, k := range keys {
					for _, p := range []string{"chunk-", "discover-", "sourceChunk-", "sourcePyramid-"} {
						if strings.HasPrefix(k, p+sym) {
							x.Fail("deleted-file-record-persisted-"+strings.TrimSuffix(p, "-"), "after %s: state store still holds %q for deleted file %s", o.name, k, fn)
						}
					}
				}
				x.Check(len(n.CI.GetChunkInfoServerOverlays(f.Root)) == 0, "deleted-file-still-advertised", "after %s: GetChunkInfoServerOverlays(%s) not empty", o.name, fn)
				x.Check(len(n.CI.GetChunkInfoDiscoverOverlays(f.Root)) == 0, "deleted-file-discovery-getter", "after %s: GetChunkInfoDiscoverOverlays(%s) not empty", o.name, fn)
				src := n.CI.GetChunkInfoSource(f.Root)
				x.Check(src.PyramidSource == "" && len(src.ChunkSource) == 0, "deleted-file-source-getter", "after %s: GetChunkInfoSource(%s) = %+v", o.name, fn, src)
				_, roots := n.CI.GetFileList(nodelite.SelfAddr)
				for _, r := range roots {
					x.Check(!r.Equal(f.Root), "deleted-file-in-file-list", "after %s: GetFileList still lists %s", o.name, fn)
				}
			}
		}

		// initial state: empty store (depth steps), or A uploaded and a discovery record about A received from
		// a peer (depth-1 steps) — histories "interrupted delete, restart, re-upload, delete" then fit the bound
		steps := depth
		if x.Choose(2) == 1 {
			steps = depth - 1
			if c, _ := n.UploadAurora("A", u.ByName["A"].Data, false); c != 201 {
				x.Broken("initial upload of A: %d", c)
			}
			n.CI.VerifOnChunkInfoResp(context.Background(), u.ByName["A"].Root, nodelite.PeerAddr, map[string][]byte{nodelite.PeerAddr.String(): {0x03}})
			x.Logf("initial state: upload(A), discover(A)")
		}
		for step := 0; step < steps; step++ {
			o := ops[x.Choose(len(ops))]
			var out string
			f := u.ByName[o.file]
			switch o.kind {
			case "upload":
				c, _ := n.UploadAurora(o.file, f.Data, false)
				out = fmt.Sprint(c)
				if c == 201 {
					delete(deleted, o.file)
				}
			case "pyramid":
				err := n.CachePyramid(f)
				out = c13Err17(err)
				if err == nil {
					delete(deleted, o.file)
				}
			case "fetch-data":
				// only meaningful once the file is tracked (the joiner of a download runs after the pyramid is known)
				err := n.FetchChunk(f.Root, c17Addr(u, o.chunk))
				out = c13Err17(err)
				if err == nil {
					x.Tag("data-chunk-fetched-under-file-context")
				}
			case "read-intermediate", "read-manifest", "read-root":
				n.Deliverable = func(boson.Address) bool { return false } // local read only
				err := n.FetchChunk(f.Root, c17Addr(u, o.chunk))
				n.Deliverable = nil
				out = c13Err17(err)
				if err == nil {
					x.Tag("non-data-chunk-read-under-file-context")
					x.Nontrivial()
				}
			case "discover":
				n.CI.VerifOnChunkInfoResp(context.Background(), f.Root, nodelite.PeerAddr, map[string][]byte{nodelite.PeerAddr.String(): {0x03}})
				out = "ok"
			case "restart":
				out = c13Err17(n.Restart())
			case "delete":
				// fault dimension: the node may die inside the delete. k = 0: no crash; k >= 1: the first
				// k-1 state-store durability units of the operation (record removals; single Put/Delete or
				// batch commit) are applied — together with everything the chunk store wrote before them,
				// i.e. the handler's chunk removals — the next one and all later writes are lost, then the
				// node restarts on the surviving images (prefix-of-write-log model; one crash per execution).
				k := x.Deviate(1 + c17MaxCrashUnits)
				if k > 0 {
					n.ArmStateStoreCrash(k - 1)
				}
				c := n.DeleteAPI(f.Root)
				out = fmt.Sprint(c)
				crashed := false
				if k > 0 {
					var units int
					crashed, units = n.EndCrashEpisode()
					if crashed && k == c17MaxCrashUnits {
						x.Broken("a delete has more than %d state-store units: raise c17MaxCrashUnits", c17MaxCrashUnits-1)
					}
					if crashed {
						out = fmt.Sprintf("%d, node died after %d state-store unit(s) of the delete; restarted", c, k-1)
						x.Tag("delete-interrupted-by-crash")
						x.Nontrivial()
						x.NoErr(n.Restart(), "restart after crash")
					} else {
						out = fmt.Sprintf("%d (crash point %d not reached: the delete has %d state-store units)", c, k-1, units)
					}
				}
				if c == 200 && !crashed {
					deleted[o.file] = true
					x.Tag("file-deleted")
					x.Nontrivial()
				}
			}
			ik, err := n.InfoKey()
			x.NoErr(err, "infokey")
			x.Logf("%s -> %s", o.name, out)
			x.Logf("      %s", ik)
			x.Outcome(o.kind + ":" + out)
			// weakest reading: any later operation that names the file may legitimately create records
			// for it again; remnants are judged right after the delete and across operations on other
			// files and restarts
			if o.file != "" && o.kind != "delete" {
				delete(deleted, o.file)
			}
			check(o)
			sk, err := n.Snap()
			x.NoErr(err, "snapshot")
			var ds []string
			for f := range deleted {
				ds = append(ds, f)
			}
			sort.Strings(ds)
			if x.Seen(sk.Key()+"#"+ik+"#DEL:"+strings.Join(ds, ","), steps-step-1) {
				return
			}
		}
	})
}

func c17Stored(s nodelite.Snapshot) string {
	var ks []string
	for k := range s.Data {
		ks = append(ks, k)
	}
	sort.Strings(ks)
	return strings.Join(ks, ",")
}

func c13Err17(err error) string {
	if err == nil {
		return "ok"
	}
	s := err.Error()
	if i := strings.IndexByte(s, ':'); i > 0 {
		s = s[:i]
	}
	if len(s) > 28 {
		s = s[:28]
	}
	return "err:" + s
}
