//go:build verif
// +build verif

package netstore_test

import (
	"context"
	"fmt"
	"strings"
	"testing"

	"github.com/gauss-project/aurorafs/pkg/boson"
	"github.com/gauss-project/aurorafs/pkg/sctx"
	"github.com/gauss-project/aurorafs/pkg/storage"
	"github.com/gauss-project/aurorafs/pkg/zzverif/mc"
	"github.com/gauss-project/aurorafs/pkg/zzverif/nodelite"
)

// C13: outside a collection run the persisted gcSize equals the sum of the
// per-file counters in gcIndex (= what localstore.New recomputes); whenever
// collection has quiesced that total does not exceed the capacity.

type c13Op struct {
	name string
	kind string // violation keys name the kind of the operation after which the equality first fails
	run  func(n *nodelite.Node) string
	race bool // may be executed at the interleaving point inside a collection run
}

func c13Err(err error) string {
	if err == nil {
		return "ok"
	}
	s := err.Error()
	if i := strings.IndexByte(s, ':'); i > 0 {
		s = s[:i]
	}
	if len(s) > 24 {
		s = s[:24]
	}
	return "err:" + s
}

func c13Ops(u *nodelite.Universe, thorough bool) []c13Op {
	bg := context.Background()
	file := func(f string) *nodelite.File { return u.ByName[f] }
	cache := func(f string) c13Op {
		return c13Op{name: "cache(" + f + ")", kind: "request-put", race: true, run: func(n *nodelite.Node) string { return c13Err(n.Cache(file(f))) }}
	}
	// batch: the file's pyramid arrives as usual, then all data chunks are stored by ONE
	// Put(ModePutRequest) call under the file's root context (sources reported first, as retrieval does)
	batch := func(f string) c13Op {
		return c13Op{name: "batchput(" + f + ")", kind: "request-put-batch", race: true, run: func(n *nodelite.Node) string {
			fl := file(f)
			if err := n.CachePyramid(fl); err != nil {
				return c13Err(err)
			}
			var chs []boson.Chunk
			for _, a := range fl.DataCid {
				if err := n.CI.OnChunkRetrieved(a, fl.Root, nodelite.PeerAddr); err != nil {
					return c13Err(err)
				}
				chs = append(chs, boson.NewChunk(a, u.Chunks[a.String()]))
			}
			_, err := n.DB.Put(sctx.SetRootHash(bg, fl.Root), storage.ModePutRequest, chs...)
			return c13Err(err)
		}}
	}
	get := func(f, chunk string, withRoot bool) c13Op {
		nm := fmt.Sprintf("get(%s|%s)", chunk, f)
		if !withRoot {
			nm = fmt.Sprintf("get(%s|-)", chunk)
		}
		return c13Op{name: nm, kind: "get-request", race: true, run: func(n *nodelite.Node) string {
			var addr boson.Address
			for k, v := range u.Names {
				if v == chunk {
					addr = boson.MustParseHexAddress(k)
				}
			}
			n.Deliverable = func(boson.Address) bool { return false } // a pure local Get: misses stay misses
			defer func() { n.Deliverable = nil }()
			root := boson.ZeroAddress
			if withRoot {
				root = file(f).Root
			}
			return c13Err(n.FetchChunk(root, addr))
		}}
	}
	remove := func(f, chunk string) c13Op {
		return c13Op{name: fmt.Sprintf("remove(%s|%s)", chunk, f), kind: "set-remove", race: true, run: func(n *nodelite.Node) string {
			var addr boson.Address
			for k, v := range u.Names {
				if v == chunk {
					addr = boson.MustParseHexAddress(k)
				}
			}
			return c13Err(n.DB.Set(sctx.SetRootHash(bg, file(f).Root), storage.ModeSetRemove, addr))
		}}
	}
	del := func(f string) c13Op {
		return c13Op{name: "delete(" + f + ")", kind: "delete-file", race: true, run: func(n *nodelite.Node) string { return fmt.Sprint(n.DeleteAPI(file(f).Root)) }}
	}
	pin := func(f string) c13Op {
		return c13Op{name: "pin(" + f + ")", kind: "pin", race: true, run: func(n *nodelite.Node) string { return fmt.Sprint(n.PinAPI(file(f).Root)) }}
	}
	unpin := func(f string) c13Op {
		return c13Op{name: "unpin(" + f + ")", kind: "unpin", race: true, run: func(n *nodelite.Node) string { return fmt.Sprint(n.UnpinAPI(file(f).Root)) }}
	}
	restart := c13Op{name: "restart", kind: "reopen", run: func(n *nodelite.Node) string { return c13Err(n.Restart()) }}
	ops := []c13Op{cache("A"), cache("B"), cache("D"), batch("A"), get("A", "A.R", true), get("A", "x", false),
		remove("A", "y"), del("A"), pin("A"), unpin("A"), pin("D"), unpin("D"), restart}
	if thorough {
		ops = append(ops, cache("C"), batch("B"), get("B", "x", true), remove("B", "x"), pin("B"), unpin("B"))
	}
	return ops
}

func TestVerifC13(t *testing.T) {
	names := []string{"A", "B", "C", "D"}
	letters := map[string]string{"A": "xy", "B": "xz", "C": "y", "D": "ww"}
	u, err := nodelite.BuildUniverse(names, letters)
	if err != nil {
		t.Fatalf("universe: %v", err)
	}
	thorough := mc.Thorough()
	depth := mc.Pick(3, 4)
	maxDev := mc.Pick(1, 1)
	capacities := []uint64{8, 1000} // 8: two cached files overflow; 1000: collection never triggers (pure accounting histories)
	ops := c13Ops(u, thorough)
	var opNames, raceNames []string
	var raceOps []c13Op
	for _, o := range ops {
		opNames = append(opNames, o.name)
		if o.race {
			raceOps = append(raceOps, o)
			raceNames = append(raceNames, o.name)
		}
	}
	const gcCap = 8
	mc.Run(t, mc.Config{ID: "C13", Name: "C13-gc-accounting", MaxDev: maxDev, Params: map[string]interface{}{
		"depth": depth, "alphabet": opNames, "race_alphabet": raceNames, "max_racing_ops": maxDev, "capacities": capacities,
		"files": letters, "chunk_size": boson.ChunkSize,
		"gc": "worker loop run synchronously after every operation that left a trigger pending; in each collectGarbage call one racing operation may run at testHookGCIteratorDone",
	}}, func(x *mc.X) {
		capacity := capacities[x.Choose(len(capacities))]
		x.Logf("capacity %d", capacity)
		n, err := nodelite.New(nodelite.Options{Capacity: capacity, Universe: u})
		x.NoErr(err, "node")
		defer n.Close()
		check := func(kind, what string) nodelite.Snapshot {
			s, err := n.Snap()
			x.NoErr(err, "snapshot")
			if run, _ := n.DB.VerifGCRunning(); run {
				x.Broken("gcRunning still set outside a collection run")
			}
			if sum := s.GCSum(); s.GCSize != sum {
				x.Logf("      [%s]", s.Key())
				x.Fail("gcsize-ne-counter-total-after-"+kind, "after %s: persisted gcSize=%d but the gc index counters total %d   [%s]", what, s.GCSize, sum, s.Key())
			}
			return s
		}
		gcs, raced := 0, 0
		for step := 0; step < depth; step++ {
			op := ops[x.Choose(len(ops))]
			out := op.run(n)
			x.Logf("%s -> %s", op.name, out)
			x.Outcome(op.kind + ":" + out)
			s := check(op.kind, op.name)
			x.Logf("      [%s]", s.Key())
			if s.Trigger {
				racedNow := ""
				res := n.GCHooked(gcCap, func(run int) {
					k := x.Deviate(1 + len(raceOps))
					if k == 0 {
						return
					}
					r := raceOps[k-1]
					out := r.run(n)
					racedNow += r.kind + " "
					raced++
					x.Logf("   .. during collectGarbage #%d, between candidate selection and eviction: %s -> %s", run+1, r.name, out)
				})
				gcs += res.Runs
				kind, what := "gc", "a collection run"
				if racedNow != "" {
					kind, what = "raced-gc", "a collection run raced by "+strings.TrimSpace(racedNow)
					x.Tag("gc-raced")
				}
				if res.Err != nil {
					x.Tag("gc-returned-error")
				}
				if res.CapHit {
					// never quiesces within the cap: the second sentence of the property does not apply; recorded, not judged
					x.Tag("gc-worker-loop-still-triggered-after-8-runs")
					x.Logf("GC runs=%d: still triggered after the cap", res.Runs)
					return
				}
				s2 := check(kind, what)
				x.Logf("GC runs=%d collected=%d done=%v err=%v   [%s]", res.Runs, res.Collected, res.Done, res.Err, s2.Key())
				x.Nontrivial()
				// quiesced: no trigger pending, last run reported done
				if sum := s2.GCSum(); sum > capacity {
					x.Fail("quiesced-above-capacity-after-"+kind, "collection quiesced after %s but the recorded cached-chunk total is %d > capacity %d   [%s]", what, sum, capacity, s2.Key())
				}
				x.Outcome(fmt.Sprintf("gc:runs=%d,raced=%v,err=%v", res.Runs, racedNow != "", res.Err != nil))
			} else if sum := s.GCSum(); sum > capacity {
				// no collection requested although the total exceeds the capacity
				x.Fail("idle-above-capacity-after-"+op.kind, "no collection pending after %s but the recorded cached-chunk total is %d > capacity %d   [%s]", op.name, sum, capacity, s.Key())
			}
			ik, err := n.InfoKey()
			x.NoErr(err, "infokey")
			sk, err := n.Snap()
			x.NoErr(err, "snapshot")
			if x.Seen(fmt.Sprintf("cap%d#", capacity)+sk.Key()+"#"+ik, depth-step-1) {
				return
			}
		}
		if gcs > 0 {
			x.Tag("execution-with-gc-run")
		}
	})
}
