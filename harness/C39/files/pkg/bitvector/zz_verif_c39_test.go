//go:build verif
// +build verif

package bitvector

import (
	"fmt"
	"testing"

	"github.com/gauss-project/aurorafs/pkg/zzverif/mc"
)

// reference model: a plain []bool of the vector's length.
func verifIdx(l int) []int {
	if l <= 10 {
		r := make([]int, l)
		for i := range r {
			r[i] = i
		}
		return r
	}
	cand := []int{0, 1, 7, 8, 9, 255, 256, 257, l - 10, l - 9, l - 8, l - 2, l - 1}
	seen := map[int]bool{}
	var r []int
	for _, c := range cand {
		if c >= 0 && c < l && !seen[c] {
			seen[c] = true
			r = append(r, c)
		}
	}
	return r
}

func TestVerifC39(t *testing.T) {
	maxLen := mc.Pick(96, 512)
	depth := mc.Pick(2, 3)
	// every length up to maxLen, plus lengths around the byte-index width (256) and the statement's upper end
	var lengths []int
	for l := 1; l <= maxLen; l++ {
		lengths = append(lengths, l)
	}
	if maxLen < 512 {
		lengths = append(lengths, 255, 256, 257, 264, 300, 511, 512)
	}
	fills := []byte{0x00, 0xff, 0xa5}
	masks := []byte{0x00, 0xff, 0x5a, 0x81}
	mc.Run(t, mc.Config{ID: "C39", Name: "C39-bitvector", MaxDev: -1, Params: map[string]interface{}{
		"lengths": fmt.Sprintf("1..%d plus 255,256,257,264,300,511,512", maxLen), "extra_backing_bytes": []int{0, 1, 2}, "fill": fills, "mask_bytes": masks, "depth": depth,
		"indices": "all for len<=10, else {0,1,7,8,9,l-10,l-9,l-8,l-2,l-1}"}},
		func(x *mc.X) {
			l := lengths[x.Choose(len(lengths))]
			extra := x.Choose(3)
			fill := fills[x.Choose(len(fills))]
			need := (l + 7) / 8
			back := make([]byte, need+extra)
			for i := range back {
				back[i] = fill
			}
			ref := make([]bool, l)
			for i := range ref {
				ref[i] = back[i/8]&(1<<uint(i%8)) != 0
			}
			var bv *BitVector
			var err error
			if extra == 0 && fill == 0 {
				bv, err = New(l)
				x.Logf("New(%d)", l)
			} else {
				bv, err = NewFromBytes(back, l)
				x.Logf("NewFromBytes(%d bytes of %#x, %d)", len(back), fill, l)
			}
			x.Check(err == nil && bv != nil, "constructor-rejects-valid", "constructor failed for len %d backing %d: %v", l, len(back), err)
			if extra == 0 {
				x.Check(len(bv.Bytes()) == need, "new-backing-size", "len %d: backing has %d bytes, want %d", l, len(bv.Bytes()), need)
			}
			if extra > 0 {
				x.Nontrivial()
			}
			idx := verifIdx(l)
			compare := func(when string) {
				x.Check(bv.Len() == l, "len", "%s: Len()=%d want %d", when, bv.Len(), l)
				all := true
				for i := 0; i < l; i++ {
					if g := bv.Get(i); g != ref[i] {
						x.Fail("get-mismatch", "%s: Get(%d)=%v want %v (len %d, backing %d)", when, i, g, ref[i], l, len(back))
					}
					all = all && ref[i]
				}
				if eq := bv.Equals(); eq != all {
					k := "equals-exact-backing"
					if extra > 0 {
						k = "equals-long-backing"
					}
					x.Fail(k, "%s: Equals()=%v but all-bits-set is %v (len %d, backing %d bytes, fill %#x)", when, eq, all, l, len(back), fill)
				}
				// encode / decode round trip preserves every bit
				enc := append([]byte{}, bv.Bytes()...)
				d, err := NewFromBytes(enc, bv.Len())
				x.Check(err == nil, "roundtrip-rejected", "%s: NewFromBytes(Bytes(),Len()) failed: %v", when, err)
				for i := 0; i < l; i++ {
					if d.Get(i) != ref[i] {
						x.Fail("roundtrip-bit", "%s: bit %d differs after Bytes/NewFromBytes", when, i)
					}
				}
				if d.Equals() != all {
					x.Fail("roundtrip-equals", "%s: Equals differs after round trip", when)
				}
			}
			compare("init")
			x.Outcome(fmt.Sprintf("init-equals=%v", bv.Equals()))
			for step := 0; step < depth; step++ {
				nops := 1 + 2*len(idx) + 2*(len(masks)+1)
				op := x.Choose(nops)
				if op == 0 {
					x.Logf("stop")
					break
				}
				op--
				switch {
				case op < len(idx):
					i := idx[op]
					bv.Set(i)
					ref[i] = true
					x.Logf("Set(%d)", i)
				case op < 2*len(idx):
					i := idx[op-len(idx)]
					bv.Unset(i)
					ref[i] = false
					x.Logf("Unset(%d)", i)
				default:
					m := op - 2*len(idx)
					unset := m >= len(masks)+1
					if unset {
						m -= len(masks) + 1
					}
					var mask []byte
					wrong := m == len(masks)
					if wrong {
						mask = make([]byte, len(back)+1)
					} else {
						mask = make([]byte, len(back))
						for i := range mask {
							mask[i] = masks[m]
						}
					}
					var err error
					if unset {
						err = bv.UnsetBytes(mask)
						x.Logf("UnsetBytes(%d x %#x) -> %v", len(mask), mask[0], err)
					} else {
						err = bv.SetBytes(mask)
						x.Logf("SetBytes(%d x %#x) -> %v", len(mask), mask[0], err)
					}
					if wrong {
						x.Check(err != nil, "mask-length-accepted", "mask of %d bytes accepted for backing of %d", len(mask), len(back))
					} else {
						x.Check(err == nil, "mask-rejected", "mask of right length rejected: %v", err)
						for i := 0; i < l; i++ {
							if mask[i/8]&(1<<uint(i%8)) != 0 {
								ref[i] = !unset
							}
						}
					}
				}
				compare(fmt.Sprintf("after step %d", step+1))
				if step > 0 {
					x.Nontrivial()
				}
			}
			x.Outcome(fmt.Sprintf("final-equals=%v", bv.Equals()))
		})
}
