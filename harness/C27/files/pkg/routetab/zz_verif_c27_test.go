//go:build verif
// +build verif

package routetab

// C27: route tables hold consistent, bounded routes.
//
// Operation-sequence exploration of the real *Table (newRouteTable) on the real
// leveldb state store (in-memory), with paths produced by the real
// generatePaths signing chain. See harness/C27/NOTES.md.

import (
	"encoding/json"
	"fmt"
	"io/ioutil"
	"sort"
	"strings"
	"sync/atomic"
	"testing"
	"time"

	"github.com/ethereum/go-ethereum/common"
	"github.com/gauss-project/aurorafs/pkg/boson"
	"github.com/gauss-project/aurorafs/pkg/logging"
	"github.com/gauss-project/aurorafs/pkg/routetab/pb"
	_ "github.com/gauss-project/aurorafs/pkg/shed/leveldb"
	ldbstate "github.com/gauss-project/aurorafs/pkg/statestore/leveldb"
	mockstate "github.com/gauss-project/aurorafs/pkg/statestore/mock"
	"github.com/gauss-project/aurorafs/pkg/storage"
	"github.com/gauss-project/aurorafs/pkg/zzverif/mc"
)

const c27NodeNames = "sabcd" // s = the table's own node

// hop limit of the run: the longest regular menu paths (abac, bacd) have exactly MaxTTL items,
// the 3-item paths MaxTTL-1, "sbacd" MaxTTL+1
const c27MaxTTL = 4

func c27Addr(i int) boson.Address {
	b := make([]byte, 32)
	for k := range b {
		b[k] = byte(0x11 * (i + 1))
	}
	b[0] = byte(0xA0 + i)
	return boson.NewAddress(b)
}

var c27Nodes = func() []boson.Address {
	r := make([]boson.Address, len(c27NodeNames))
	for i := range r {
		r[i] = c27Addr(i)
	}
	return r
}()

func c27NodeIdx(a boson.Address) int {
	for i, n := range c27Nodes {
		if n.Equal(a) {
			return i
		}
	}
	return -1
}

func c27Name(a boson.Address) string {
	if i := c27NodeIdx(a); i >= 0 {
		return c27NodeNames[i : i+1]
	}
	return "?" + a.String()
}

func c27Names(as []boson.Address) string {
	s := make([]string, len(as))
	for i, a := range as {
		s[i] = c27Name(a)
	}
	sort.Strings(s)
	return strings.Join(s, "")
}

// the path menu (node letters, origin first, last = the neighbour that handed the path over)
var c27Menu = []string{
	"ab",    // 0
	"ac",    // 1
	"ad",    // 2  (three different next hops for target a -> cap with alpha 1 and 2)
	"acb",   // 3  same next hop as 0 for target a, other path; target c
	"cad",   // 4  targets c,a
	"abac",  // 5  repeated node
	"asb",   // 6  contains the table's own node
	"bacd",  // 7  length 4; targets b,a,c (third route for c)
	"b",     // 8  too short: must be ignored
	"sbacd", // 9  MaxTTL+1 items: the receiving handlers (route.go) never hand it to the table
}

func c27Items(spec string) []boson.Address {
	r := make([]boson.Address, len(spec))
	for i := range spec {
		r[i] = c27Nodes[strings.IndexByte(c27NodeNames, spec[i])]
	}
	return r
}

func c27Spec(items []boson.Address) string {
	var sb strings.Builder
	for _, a := range items {
		sb.WriteString(c27Name(a))
	}
	return sb.String()
}

// c27BuildPath runs the real signing chain: every node on the path extends it
// with its own generatePaths, exactly as onRouteReq/onRouteResp forwarders do.
func c27BuildPath(spec string) *pb.Path {
	var cur []*pb.Path
	for _, n := range c27Items(spec) {
		cur = newRouteTable(n, nil).generatePaths(cur)
	}
	if len(cur) != 1 {
		panic("generatePaths chain did not produce exactly one path")
	}
	return cur[0]
}

func c27Clone(p *pb.Path) *pb.Path {
	q := &pb.Path{Sign: append([]byte{}, p.Sign...)}
	for _, b := range p.Bodys {
		q.Bodys = append(q.Bodys, append([]byte{}, b...))
	}
	for _, b := range p.Items {
		q.Items = append(q.Items, append([]byte{}, b...))
	}
	return q
}

const (
	c27Tick = 2 * time.Hour // virtual clock step
	c27Mid  = time.Hour     // Gc threshold between "fresh" and "old"
)

// c27Shift emulates the passing of d: every timestamp the table keeps (in
// memory and in the state store) moves d into the past. time.Now is only ever
// compared with these timestamps, so this is equivalent to advancing the clock.
func c27Shift(x *mc.X, tab *Table, store storage.StateStorer, d time.Duration) {
	tab.paths.Range(func(_, v interface{}) bool {
		p := v.(*Path)
		p.UsedTime = p.UsedTime.Add(-d)
		p.CreateTime = p.CreateTime.Add(-d)
		return true
	})
	type kv struct {
		k string
		p Path
	}
	var list []kv
	x.NoErr(store.Iterate(pathPrefix, func(k, v []byte) (bool, error) {
		var p Path
		if err := json.Unmarshal(v, &p); err != nil {
			return true, err
		}
		list = append(list, kv{string(k), p})
		return false, nil
	}), "iterate persisted paths")
	for _, e := range list {
		e.p.UsedTime = e.p.UsedTime.Add(-d)
		e.p.CreateTime = e.p.CreateTime.Add(-d)
		x.NoErr(store.Put(e.k, e.p), "rewrite persisted path")
	}
}

// c27Wipe removes every route-table key from the shared store.
func c27Wipe(x *mc.X, store storage.StateStorer) {
	for _, prefix := range []string{pathPrefix, routePrefix} {
		var keys []string
		x.NoErr(store.Iterate(prefix, func(k, _ []byte) (bool, error) {
			keys = append(keys, string(k))
			return false, nil
		}), "iterate for wipe")
		for _, k := range keys {
			x.NoErr(store.Delete(k), "wipe")
		}
	}
}

var c27KeyName = func() map[common.Hash]string {
	m := map[common.Hash]string{}
	for _, s := range c27Menu {
		key, _ := generatePathItems(convItemsToBytes(c27Items(s)))
		m[key] = s
	}
	return m
}()

// c27SafeStore keeps the harness from blocking: statestore/mock's Iterate holds its read lock
// while the callback runs, so a Delete issued from inside the callback (ResumePaths/ResumeRoutes
// drop undecodable or over-long records that way) would dead-lock. The deletes are applied
// right after the iteration instead - the behaviour of the leveldb state store.
type c27SafeStore struct {
	storage.StateStorer
	iterating bool
	deferred  []string
}

func (s *c27SafeStore) Iterate(prefix string, fn storage.StateIterFunc) error {
	s.iterating = true
	err := s.StateStorer.Iterate(prefix, fn)
	s.iterating = false
	for _, k := range s.deferred {
		_ = s.StateStorer.Delete(k)
	}
	s.deferred = nil
	return err
}

func (s *c27SafeStore) Delete(key string) error {
	if s.iterating {
		s.deferred = append(s.deferred, key)
		return nil
	}
	return s.StateStorer.Delete(key)
}

func c27Old(p *Path) bool { return time.Since(p.UsedTime) > c27Mid }

// c27Canon dumps everything that can influence future behaviour: the in-memory
// paths (items + age class), the ordered route lists, and the same two things as
// persisted. Signatures/bodies and exact timestamps are dropped: no table code
// branches on them except through the age class w.r.t. the Gc thresholds used.
func c27Canon(x *mc.X, tab *Table, store storage.StateStorer) string {
	var parts []string
	tab.paths.Range(func(_, v interface{}) bool {
		p := v.(*Path)
		parts = append(parts, fmt.Sprintf("P:%s/%v", c27Spec(p.Items), c27Old(p)))
		return true
	})
	tab.mu.RLock()
	for k, rs := range tab.routes {
		var sb strings.Builder
		for _, r := range rs {
			pk, ok := c27KeyName[r.PathKey]
			if !ok {
				pk = "?"
			}
			fmt.Fprintf(&sb, "%s>%s,", pk, c27Name(r.Neighbor))
		}
		parts = append(parts, fmt.Sprintf("R:%x=%s", k[:1], sb.String()))
	}
	tab.mu.RUnlock()
	x.NoErr(store.Iterate(pathPrefix, func(k, v []byte) (bool, error) {
		var p Path
		if err := json.Unmarshal(v, &p); err != nil {
			return true, err
		}
		parts = append(parts, fmt.Sprintf("SP:%s/%v", c27Spec(p.Items), c27Old(&p)))
		return false, nil
	}), "iterate persisted paths")
	x.NoErr(store.Iterate(routePrefix, func(k, v []byte) (bool, error) {
		parts = append(parts, "SR:"+string(k[len(routePrefix):len(routePrefix)+2])+"="+string(v))
		return false, nil
	}), "iterate persisted routes")
	sort.Strings(parts)
	return strings.Join(parts, "|")
}

type c27Model struct {
	live map[int]bool // menu index -> saved and not deleted/expired since
	old  map[int]bool // live path whose last save/use is at least one tick ago
}

func (m *c27Model) String() string {
	var s []string
	for i := range c27Menu {
		if m.live[i] {
			s = append(s, fmt.Sprintf("%s/%v", c27Menu[i], m.old[i]))
		}
	}
	return strings.Join(s, ",")
}

// targetBeforeLast reports whether node t occurs in spec at a position before the last hop.
func c27TargetBeforeLast(spec string, t int) bool {
	return len(spec) >= 2 && strings.IndexByte(spec[:len(spec)-1], c27NodeNames[t]) >= 0
}

func c27Oracle(x *mc.X, tab *Table, m *c27Model, alpha int, reloaded bool, when string) {
	sfx := ""
	if reloaded {
		sfx = "-after-reload"
	}
	for t := range c27Nodes {
		target := c27Nodes[t]
		tn := c27NodeNames[t : t+1]
		// white box: length of the route list
		tab.mu.RLock()
		nr := len(tab.routes[getTargetKey(target)])
		tab.mu.RUnlock()
		if nr > alpha {
			x.Fail("route-list-exceeds-alpha"+sfx, "%s: target %s has %d routes, alpha=%d", when, tn, nr, alpha)
		}
		got, err := tab.Get(target)
		if err == nil && len(got) > alpha {
			x.Fail("get-returns-more-than-alpha"+sfx, "%s: Get(%s) returned %d paths, alpha=%d", when, tn, len(got), alpha)
		}
		for _, p := range got {
			spec := c27Spec(p.Items)
			if !c27TargetBeforeLast(spec, t) {
				x.Fail("returned-path-lacks-target-before-last-hop"+sfx, "%s: Get(%s) returned path %s", when, tn, spec)
			}
			idx := -1
			for i, ms := range c27Menu {
				if ms == spec {
					idx = i
				}
			}
			if idx < 0 {
				x.Fail("returned-path-never-saved"+sfx, "%s: Get(%s) returned path %s which was never saved", when, tn, spec)
			}
			if !m.live[idx] {
				x.Fail("returned-deleted-or-expired-path"+sfx, "%s: Get(%s) returned path %s which was deleted/expired (live: [%s])", when, tn, spec, m)
			}
		}
		// which next hops are backed by a stored path containing the target before its last hop:
		// the path must be live in the reference AND really be stored, i.e. be among the paths the
		// table itself returns for the target (just validated above)
		var backed, modelBacked [len(c27NodeNames)]bool
		for i, ms := range c27Menu {
			if m.live[i] && c27TargetBeforeLast(ms, t) {
				modelBacked[strings.IndexByte(c27NodeNames, ms[len(ms)-1])] = true
			}
		}
		for _, p := range got {
			if h := c27NodeIdx(p.Items[len(p.Items)-1]); h >= 0 && modelBacked[h] {
				backed[h] = true
			}
		}
		// all skip lists over {a,b,c,d}
		for mask := 0; mask < 16; mask++ {
			skips := c27SkipSets[mask]
			next := tab.GetNextHop(target, skips...)
			var seen [len(c27NodeNames)]bool
			for _, n := range next {
				ni := c27NodeIdx(n)
				if ni < 0 {
					x.Fail("nexthop-unknown-node"+sfx, "%s: GetNextHop(%s) offered unknown node %s", when, tn, n)
				}
				if seen[ni] {
					x.Fail("nexthop-duplicate"+sfx, "%s: GetNextHop(%s, skips=%s) offered %s twice", when, tn, c27Names(skips), c27Name(n))
				}
				seen[ni] = true
				if ni > 0 && mask&(1<<uint(ni-1)) != 0 {
					x.Fail("nexthop-in-skip-list"+sfx, "%s: GetNextHop(%s, skips=%s) offered %s", when, tn, c27Names(skips), c27Name(n))
				}
				if !backed[ni] {
					x.Fail("nexthop-without-stored-path"+sfx, "%s: GetNextHop(%s, skips=%s) offered %s, but no stored (saved, not deleted/expired) path containing %s ends in %s; live paths: [%s]",
						when, tn, c27Names(skips), c27Name(n), tn, c27Name(n), m)
				}
			}
		}
	}
}

var c27SkipSets = func() [][]boson.Address {
	r := make([][]boson.Address, 16)
	for mask := range r {
		for b := 0; b < 4; b++ {
			if mask&(1<<uint(b)) != 0 {
				r[mask] = append(r[mask], c27Nodes[b+1])
			}
		}
	}
	return r
}()

type c27Op struct {
	kind string
	arg  int
	t, n int
}

func c27Ops() []c27Op {
	var ops []c27Op
	for i := range c27Menu {
		ops = append(ops, c27Op{kind: "save", arg: i})
	}
	for i, ms := range c27Menu {
		if len(ms) >= 2 && len(ms) <= c27MaxTTL {
			ops = append(ops, c27Op{kind: "delete", arg: i})
		}
	}
	ops = append(ops, c27Op{kind: "gc-old"}, c27Op{kind: "gc-all"}, c27Op{kind: "tick"}, c27Op{kind: "reload"})
	// updateUsedTime(target, neighbour) as getNextHopRandom does after choosing a next hop
	for _, tn := range []string{"ab", "ac", "ad", "cb", "cd"} {
		ops = append(ops, c27Op{kind: "touch", t: strings.IndexByte(c27NodeNames, tn[0]), n: strings.IndexByte(c27NodeNames, tn[1])})
	}
	return ops
}

func TestVerifC27(t *testing.T) {
	c27Run(t, "C27-table-opseq", false, mc.EnvInt("VERIF_C27_DEPTH", mc.Pick(5, 7)))
}

// the same exploration, shallower, on the real leveldb state store
func TestVerifC27Leveldb(t *testing.T) {
	c27Run(t, "C27-table-opseq-leveldb", true, mc.EnvInt("VERIF_C27_LDB_DEPTH", mc.Pick(3, 4)))
}

func c27Run(t *testing.T, name string, useLdb bool, depth int) {
	menu := make([]*pb.Path, len(c27Menu))
	for i, s := range c27Menu {
		menu[i] = c27BuildPath(s)
		if c27Spec(func() []boson.Address { _, it := generatePathItems(menu[i].Items); return it }()) != s {
			t.Fatalf("signing chain produced wrong items for %s", s)
		}
		if len(menu[i].Bodys) != len(s) || len(menu[i].Sign) == 0 {
			t.Fatalf("signing chain produced no signature chain for %s", s)
		}
	}
	// configured number of routes per target: the default 2, the minimum 1, and 3 (thorough: 4)
	// so that a target can hold three routes whose last hops repeat non-adjacently (b,c,b ...)
	alphas := []int{1, 2, 3}
	if mc.Thorough() {
		alphas = []int{1, 2, 3, 4}
	}
	ops := c27Ops()
	var opNames []string
	for _, o := range ops {
		switch o.kind {
		case "save", "delete":
			opNames = append(opNames, o.kind+"("+c27Menu[o.arg]+")")
		case "touch":
			opNames = append(opNames, fmt.Sprintf("touch(%c,%c)", c27NodeNames[o.t], c27NodeNames[o.n]))
		default:
			opNames = append(opNames, o.kind)
		}
	}
	savedAlpha := NeighborAlpha
	savedTTL := atomic.LoadInt32(&MaxTTL)
	defer func() { NeighborAlpha = savedAlpha; atomic.StoreInt32(&MaxTTL, savedTTL) }()
	logger := logging.New(ioutil.Discard, 0)
	storeName := "statestore/mock (fresh per execution)"
	if useLdb {
		storeName = "statestore/leveldb in-memory (shared by up to 64 executions, emptied before each)"
	}

	var ldb storage.StateStorer
	ldbUses := 0
	defer func() {
		if ldb != nil {
			ldb.Close()
		}
	}()

	mc.Run(t, mc.Config{ID: "C27", Name: name, MaxDev: -1, Params: map[string]interface{}{
		"depth": depth, "alpha": alphas, "nodes": "s(self) a b c d", "path_menu": c27Menu, "ops": opNames,
		"observed_every_state": "Get(t) for all 5 nodes; GetNextHop(t, skips) for all 5 nodes x all 16 skip subsets of {a,b,c,d}",
		"clock":                "tick = all in-memory and persisted timestamps shifted 2h into the past; gc-old = Gc(1h); gc-all = Gc(-1h)",
		"store":                storeName, "max_ttl": c27MaxTTL}},
		func(x *mc.X) {
			alpha := alphas[x.Choose(len(alphas))]
			NeighborAlpha = int32(alpha)
			atomic.StoreInt32(&MaxTTL, c27MaxTTL)
			var store storage.StateStorer
			if useLdb {
				// opening/closing an in-memory leveldb costs ~70 ms and deleted keys
				// slow its iterators down, so one store is shared by up to 64
				// executions and emptied before each of them (logically fresh).
				if ldb == nil || ldbUses >= 64 {
					if ldb != nil {
						ldb.Close()
					}
					var err error
					ldb, err = ldbstate.NewInMemoryStateStore(logger)
					x.NoErr(err, "state store")
					ldbUses = 0
				}
				ldbUses++
				c27Wipe(x, ldb)
				store = ldb
			} else {
				store = &c27SafeStore{StateStorer: mockstate.NewStateStore()}
			}
			self := c27Nodes[0]
			tab := newRouteTable(self, store)
			m := &c27Model{live: map[int]bool{}, old: map[int]bool{}}
			reloaded := false
			x.Logf("alpha=%d", alpha)
			c27Oracle(x, tab, m, alpha, reloaded, "initially")
			for step := 0; step < depth; step++ {
				oi := x.Choose(len(ops))
				op := ops[oi]
				x.Logf("step %d: %s", step, opNames[oi])
				switch op.kind {
				case "save":
					spec := c27Menu[op.arg]
					if len(spec) > c27MaxTTL {
						// onRouteReq / onRouteResp discard paths with more than MaxTTL items before
						// Table.SavePaths is called ("paths received from peers" never include them)
						x.Tag("over-long-path-discarded-by-receiver-rule")
						break
					}
					if len(spec) == c27MaxTTL {
						x.Tag("save-path-with-exactly-maxttl-items")
					}
					// does this save hit the cap branch for some target?
					if len(spec) >= 2 {
						for k := 0; k < len(spec)-1; k++ {
							tk := getTargetKey(c27Items(spec[k : k+1])[0])
							pk, _ := generatePathItems(menu[op.arg].Items)
							if len(tab.routes[tk]) >= alpha && !existRoute(TargetRoute{Neighbor: c27Items(spec[len(spec)-1:])[0], PathKey: pk}, tab.routes[tk]) {
								x.Tag("save-evicts-route-at-cap")
								x.Nontrivial()
							}
						}
					}
					if m.live[op.arg] {
						x.Tag("save-duplicate")
					}
					tab.SavePath(c27Clone(menu[op.arg]))
					if len(spec) >= 2 {
						m.live[op.arg] = true
						m.old[op.arg] = false
						switch op.arg {
						case 5:
							x.Tag("save-path-with-repeated-node")
						case 6:
							x.Tag("save-path-containing-self")
						}
					} else {
						x.Tag("save-too-short-path")
					}
				case "delete":
					if m.live[op.arg] {
						x.Tag("delete-live-path")
						x.Nontrivial()
					}
					tab.Delete(&Path{Items: c27Items(c27Menu[op.arg])})
					delete(m.live, op.arg)
					delete(m.old, op.arg)
				case "gc-old", "gc-all":
					exp := c27Mid
					if op.kind == "gc-all" {
						exp = -time.Hour
					}
					nOld, nFresh := 0, 0
					for i := range c27Menu {
						if m.live[i] && (m.old[i] || op.kind == "gc-all") {
							nOld++
							delete(m.live, i)
							delete(m.old, i)
						} else if m.live[i] {
							nFresh++
						}
					}
					tab.Gc(exp)
					if nOld > 0 {
						x.Tag("gc-expires-path")
						x.Nontrivial()
					}
					if nOld > 0 && nFresh > 0 {
						x.Tag("gc-expires-some-keeps-some")
					}
				case "tick":
					c27Shift(x, tab, store, c27Tick)
					for i := range m.live {
						m.old[i] = true
					}
				case "reload":
					// persisted route entries whose path is no longer persisted?
					stored := map[string]bool{}
					x.NoErr(store.Iterate(pathPrefix, func(k, _ []byte) (bool, error) {
						stored[strings.ToLower(strings.TrimPrefix(string(k), pathPrefix))] = true
						return false, nil
					}), "iterate persisted paths")
					x.NoErr(store.Iterate(routePrefix, func(_, v []byte) (bool, error) {
						var rs []TargetRoute
						if err := json.Unmarshal(v, &rs); err != nil {
							return true, err
						}
						for _, r := range rs {
							if !stored[strings.ToLower(r.PathKey.String())] {
								x.Tag("reload-with-persisted-route-of-removed-path")
							}
						}
						return false, nil
					}), "iterate persisted routes")
					if len(m.live) > 0 {
						x.Tag("reload-with-stored-paths")
						x.Nontrivial()
					}
					tab = newRouteTable(self, store)
					tab.ResumeRoutes()
					tab.ResumePaths()
					reloaded = true
				case "touch":
					// weakest model: every live path that could serve (t -> n) counts as used now
					before := map[string]bool{}
					tab.paths.Range(func(_, v interface{}) bool { p := v.(*Path); before[c27Spec(p.Items)] = c27Old(p); return true })
					tab.updateUsedTime(c27Nodes[op.t], c27Nodes[op.n])
					tab.paths.Range(func(_, v interface{}) bool {
						p := v.(*Path)
						if before[c27Spec(p.Items)] && !c27Old(p) {
							x.Tag("touch-refreshes-old-path")
						}
						return true
					})
					for i, ms := range c27Menu {
						if m.live[i] && c27TargetBeforeLast(ms, op.t) && ms[len(ms)-1] == c27NodeNames[op.n] {
							m.old[i] = false
						}
					}
				}
				if x.Replaying() {
					// this state was observed and checked when the prefix was first executed
					continue
				}
				c27Oracle(x, tab, m, alpha, reloaded, fmt.Sprintf("after step %d (%s)", step, opNames[oi]))
				key := fmt.Sprintf("a%d r%v M[%s] %s", alpha, reloaded, m, c27Canon(x, tab, store))
				if x.Seen(key, depth-step-1) {
					return
				}
			}
			x.Outcome(fmt.Sprintf("final-live-paths=%d", len(m.live)))
		})
}
