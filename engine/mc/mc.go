//go:build verif
// +build verif

// Package mc is a stateless, deviation-bounded, choice-sequence explorer.
// A harness body is a deterministic function of the sequence of answers
// returned by X.Choose / X.Deviate; Run enumerates all sequences depth-first by
// re-executing the body (odometer order), optionally pruned by canonical state
// keys (X.Seen) and partitioned over processes (VERIF_SHARD=i/n).
package mc

import (
	"crypto/md5"
	"encoding/json"
	"fmt"
	"os"
	"path/filepath"
	"runtime/debug"
	"sort"
	"strconv"
	"strings"
	"testing"
	"time"
)

// Config describes one harness.
type Config struct {
	ID     string // property id, e.g. "C39"
	Name   string // harness name, unique per Test function
	MaxDev int    // bound on summed deviation cost; <0 = unbounded
	// MaxExec stops after that many executions (0 = none); hitting it clears `exhaustive`.
	MaxExec int64
	// ShardLevels is the number of leading choice levels used to partition the
	// search over shards (default 2). Runs whose prefix is shorter are repeated in every shard.
	ShardLevels int
	// Params is free-form information copied into the result (alphabets, bounds).
	Params map[string]interface{}
}

type abortSignal struct{}

type failure struct {
	Key string `json:"key"`
	Msg string `json:"msg"`
}

// X is the handle a harness body uses during one execution.
type X struct {
	e       *explorer
	prefix  []int
	choices []int
	arities []int
	costs   []int
	dev     int
	log     []string
	fail    *failure
	nontriv bool
	pruned  bool
	tags    map[string]bool
	outs    []string
	sts     [][16]byte
}

type seenRec struct{ depth, budget int }

type explorer struct {
	cfg        Config
	shardI     int
	shardN     int
	deadline   time.Time
	execs      int64
	owned      int64
	transitions int64
	nontrivial int64
	prunedRuns int64
	maxLen     int
	seen       map[[16]byte][]seenRec
	states     map[[16]byte]struct{}
	outcomes   map[string]int64
	tagCounts  map[string]int64
	violations map[string]*violation
	samples    []sample
	exhaustive bool
	stopReason string
	broken     string
	replayOnly bool
}

type violation struct {
	Key     string   `json:"key"`
	Msg     string   `json:"msg"`
	Choices []int    `json:"choices"`
	Log     []string `json:"log"`
	Count   int64    `json:"count"`
}

type sample struct {
	Exec    int64    `json:"exec"`
	Choices []int    `json:"choices"`
	Log     []string `json:"log"`
}

// Tier returns "quick" or "thorough".
func Tier() string {
	if os.Getenv("VERIF_TIER") == "thorough" {
		return "thorough"
	}
	return "quick"
}

// Thorough reports whether the thorough tier was requested.
func Thorough() bool { return Tier() == "thorough" }

// Pick returns q in the quick tier and t in the thorough tier.
func Pick(q, t int) int {
	if Thorough() {
		return t
	}
	return q
}

// EnvInt reads an integer parameter from the environment.
func EnvInt(name string, def int) int {
	if v := os.Getenv(name); v != "" {
		if n, err := strconv.Atoi(v); err == nil {
			return n
		}
	}
	return def
}

// Choose returns a value in [0,n); all values are explored; no deviation cost.
func (x *X) Choose(n int) int { return x.choose(n, 0) }

// Deviate returns a value in [0,n); 0 is the default answer and every non-zero
// answer costs one deviation against Config.MaxDev.
func (x *X) Deviate(n int) int { return x.choose(n, 1) }

// ChooseCost is Choose with an explicit cost for non-zero answers.
func (x *X) ChooseCost(n, cost int) int { return x.choose(n, cost) }

// Bool is Choose(2)==1.
func (x *X) Bool() bool { return x.choose(2, 0) == 1 }

func (x *X) choose(n, cost int) int {
	if n <= 0 {
		x.e.broken = fmt.Sprintf("Choose(%d) with non-positive arity at position %d", n, len(x.choices))
		panic(abortSignal{})
	}
	pos := len(x.choices)
	c := 0
	if pos < len(x.prefix) {
		c = x.prefix[pos]
		if c >= n {
			x.e.broken = fmt.Sprintf("HARNESS-NONDETERMINISM: replayed choice %d out of range (arity %d) at position %d, prefix %v", c, n, pos, x.prefix)
			panic(abortSignal{})
		}
	}
	if pos+1 >= len(x.prefix) {
		x.e.transitions++ // a new edge: the advanced choice itself or a default extension
	}
	k := 0
	if c != 0 {
		k = cost
	}
	x.choices = append(x.choices, c)
	x.arities = append(x.arities, n)
	x.costs = append(x.costs, cost)
	x.dev += k
	return c
}

// Replaying reports whether the execution is still inside the forced prefix.
func (x *X) Replaying() bool { return len(x.choices) < len(x.prefix) }

// DevLeft returns the remaining deviation budget (large when unbounded).
func (x *X) DevLeft() int {
	if x.e.cfg.MaxDev < 0 {
		return 1 << 30
	}
	return x.e.cfg.MaxDev - x.dev
}

// Logf appends a line to the execution's human-readable trace.
func (x *X) Logf(format string, a ...interface{}) {
	if len(x.log) < 400 {
		x.log = append(x.log, fmt.Sprintf(format, a...))
	}
}

// Fail records a violation with a stable key and ends the execution.
func (x *X) Fail(key, format string, a ...interface{}) {
	x.fail = &failure{Key: key, Msg: fmt.Sprintf(format, a...)}
	panic(abortSignal{})
}

// Check fails with key unless cond holds.
func (x *X) Check(cond bool, key, format string, a ...interface{}) {
	if !cond {
		x.Fail(key, format, a...)
	}
}

// Broken reports a harness (not property) problem and stops everything.
func (x *X) Broken(format string, a ...interface{}) {
	x.e.broken = fmt.Sprintf(format, a...)
	panic(abortSignal{})
}

// NoErr is Broken on a non-nil error: for setup steps that must succeed.
func (x *X) NoErr(err error, what string) {
	if err != nil {
		x.Broken("%s: %v", what, err)
	}
}

// Nontrivial marks the execution as having exercised the interesting branch.
func (x *X) Nontrivial() { x.nontriv = true }

// Tag counts executions that reached a named situation (vacuity guard).
func (x *X) Tag(name string) {
	if x.tags == nil {
		x.tags = map[string]bool{}
	}
	x.tags[name] = true
}

// Outcome records an observed outcome class; distinct classes are counted.
func (x *X) Outcome(class string) {
	if !x.Replaying() {
		x.outs = append(x.outs, class)
	}
}

func hashKey(key string) [16]byte { return md5.Sum([]byte(key)) }

// State records a canonical state key (counted, not pruned).
func (x *X) State(key string) {
	if x.Replaying() {
		return
	}
	x.sts = append(x.sts, hashKey(key))
}

// Seen records the canonical state key and reports whether the state was
// already expanded with at least `remaining` further steps and at least the
// current deviation budget. The harness should end the execution when it
// returns true. Never prunes while replaying a prefix.
func (x *X) Seen(key string, remaining int) bool {
	if x.Replaying() {
		return false
	}
	h := hashKey(key)
	x.sts = append(x.sts, h)
	b := x.DevLeft()
	recs := x.e.seen[h]
	for _, r := range recs {
		if r.depth >= remaining && r.budget >= b {
			x.pruned = true
			return true
		}
	}
	out := recs[:0]
	for _, r := range recs {
		if !(remaining >= r.depth && b >= r.budget) {
			out = append(out, r)
		}
	}
	x.e.seen[h] = append(out, seenRec{remaining, b})
	return false
}

func (e *explorer) run(prefix []int, body func(*X)) (x *X) {
	x = &X{e: e, prefix: prefix}
	defer func() {
		if r := recover(); r != nil {
			if _, ok := r.(abortSignal); ok {
				return
			}
			e.broken = fmt.Sprintf("unexpected panic in harness body (choices %v): %v\n%s", x.choices, r, debug.Stack())
		}
	}()
	body(x)
	return x
}

func (e *explorer) owns(choices []int) bool {
	if e.shardN <= 1 {
		return true
	}
	h := uint32(2166136261)
	for i := 0; i < e.levels(); i++ {
		c := 0
		if i < len(choices) {
			c = choices[i]
		}
		h = (h ^ uint32(c+1)) * 16777619
		h ^= h >> 13
	}
	return int(h%uint32(e.shardN)) == e.shardI
}

func (e *explorer) levels() int {
	if e.cfg.ShardLevels > 0 {
		return e.cfg.ShardLevels
	}
	return 2
}

func (e *explorer) account(x *X) {
	e.execs++
	e.owned++
	if len(x.choices) > e.maxLen {
		e.maxLen = len(x.choices)
	}
	if x.nontriv {
		e.nontrivial++
	}
	if x.pruned {
		e.prunedRuns++
	}
	for t := range x.tags {
		e.tagCounts[t]++
	}
	for _, o := range x.outs {
		e.outcomes[o]++
	}
	for _, h := range x.sts {
		e.states[h] = struct{}{}
	}
	n := e.owned
	if n == 1 || n == 2 || n == 10 || n == 100 || n == 1000 || n == 10000 || n == 100000 {
		if len(e.samples) < 8 {
			lg := x.log
			if len(lg) > 40 {
				lg = append(append([]string{}, lg[:40]...), "…")
			}
			e.samples = append(e.samples, sample{Exec: n, Choices: append([]int{}, x.choices...), Log: lg})
		}
	}
	if x.fail != nil {
		v := e.violations[x.fail.Key]
		if v == nil {
			if len(e.violations) < 40 {
				e.violations[x.fail.Key] = &violation{Key: x.fail.Key, Msg: x.fail.Msg, Choices: append([]int{}, x.choices...), Log: x.log, Count: 1}
			}
		} else {
			v.Count++
			if len(x.choices) < len(v.Choices) {
				v.Msg, v.Choices, v.Log = x.fail.Msg, append([]int{}, x.choices...), x.log
			}
		}
	}
}

func (e *explorer) explore(body func(*X)) {
	prefix := []int{}
	for {
		if e.cfg.MaxExec > 0 && e.owned >= e.cfg.MaxExec {
			e.exhaustive, e.stopReason = false, fmt.Sprintf("execution cap %d reached", e.cfg.MaxExec)
			return
		}
		if !e.deadline.IsZero() && time.Now().After(e.deadline) {
			e.exhaustive, e.stopReason = false, "time budget reached"
			return
		}
		x := e.run(prefix, body)
		if e.broken != "" {
			return
		}
		if len(x.choices) < len(prefix) {
			e.broken = fmt.Sprintf("HARNESS-NONDETERMINISM: execution ended after %d choices while replaying prefix %v", len(x.choices), prefix)
			return
		}
		own := e.owns(x.choices)
		if own {
			e.account(x)
		}
		// odometer: deepest position that can be advanced within the deviation bound
		i := len(x.choices) - 1
		// a whole subtree below the sharding levels that is not owned is skipped at once
		if !own && i > e.levels()-1 {
			i = e.levels() - 1
		}
		for ; i >= 0; i-- {
			if x.choices[i]+1 >= x.arities[i] {
				continue
			}
			if e.cfg.MaxDev >= 0 && x.costs[i] > 0 && x.choices[i] == 0 {
				d := 0
				for j := 0; j < i; j++ {
					if x.choices[j] != 0 {
						d += x.costs[j]
					}
				}
				if d+x.costs[i] > e.cfg.MaxDev {
					continue
				}
			}
			break
		}
		if i < 0 {
			return
		}
		prefix = append(append([]int{}, x.choices[:i]...), x.choices[i]+1)
	}
}

// Result is what one shard writes for the driver.
type Result struct {
	ID          string                 `json:"id"`
	Name        string                 `json:"name"`
	Shard       string                 `json:"shard"`
	Tier        string                 `json:"tier"`
	Executions  int64                  `json:"executions"`
	Transitions int64                  `json:"transitions"`
	States      int                    `json:"states"`
	Nontrivial  int64                  `json:"nontrivial"`
	PrunedRuns  int64                  `json:"pruned_runs"`
	MaxLen      int                    `json:"max_choice_len"`
	MaxDev      int                    `json:"max_dev"`
	Outcomes    map[string]int64       `json:"outcomes"`
	Tags        map[string]int64       `json:"tags"`
	Exhaustive  bool                   `json:"exhaustive"`
	StopReason  string                 `json:"stop_reason,omitempty"`
	Broken      string                 `json:"broken,omitempty"`
	Determinism string                 `json:"determinism_selfcheck"`
	Violations  []*violation           `json:"violations"`
	Samples     []sample               `json:"samples"`
	Params      map[string]interface{} `json:"params,omitempty"`
	WallS       float64                `json:"wall_s"`
	StatesFile  string                 `json:"states_file,omitempty"`
}

func sameRun(a, b *X) string {
	if fmt.Sprint(a.choices) != fmt.Sprint(b.choices) || fmt.Sprint(a.arities) != fmt.Sprint(b.arities) {
		return fmt.Sprintf("choice/arity sequence differs: %v/%v vs %v/%v", a.choices, a.arities, b.choices, b.arities)
	}
	if strings.Join(a.log, "\n") != strings.Join(b.log, "\n") {
		return fmt.Sprintf("logs differ:\n--- first\n%s\n--- second\n%s", strings.Join(a.log, "\n"), strings.Join(b.log, "\n"))
	}
	fa, fb := "", ""
	if a.fail != nil {
		fa = a.fail.Key
	}
	if b.fail != nil {
		fb = b.fail.Key
	}
	if fa != fb {
		return fmt.Sprintf("failure differs: %q vs %q", fa, fb)
	}
	return ""
}

// Run explores body exhaustively within cfg's bounds and writes the shard result.
func Run(t *testing.T, cfg Config, body func(*X)) {
	start := time.Now()
	e := &explorer{cfg: cfg, shardN: 1, exhaustive: true,
		seen: map[[16]byte][]seenRec{}, states: map[[16]byte]struct{}{},
		outcomes: map[string]int64{}, tagCounts: map[string]int64{}, violations: map[string]*violation{}}
	shard := os.Getenv("VERIF_SHARD")
	if shard != "" {
		if _, err := fmt.Sscanf(shard, "%d/%d", &e.shardI, &e.shardN); err != nil || e.shardN < 1 || e.shardI >= e.shardN {
			t.Fatalf("bad VERIF_SHARD %q", shard)
		}
	}
	if b := EnvInt("VERIF_BUDGET_S", 0); b > 0 {
		e.deadline = start.Add(time.Duration(b) * time.Second)
	}
	res := &Result{ID: cfg.ID, Name: cfg.Name, Shard: shard, Tier: Tier(), MaxDev: cfg.MaxDev, Params: cfg.Params}
	out := os.Getenv("VERIF_OUT")

	if rp := os.Getenv("VERIF_REPLAY"); rp != "" {
		// replay one recorded choice sequence, print its trace
		var rec struct {
			Name    string `json:"name"`
			Choices []int  `json:"choices"`
		}
		data, err := os.ReadFile(rp)
		if err != nil {
			t.Fatalf("replay: %v", err)
		}
		if err := json.Unmarshal(data, &rec); err != nil {
			t.Fatalf("replay: %v", err)
		}
		if rec.Name != cfg.Name {
			t.Skipf("replay file is for harness %q", rec.Name)
		}
		e.outcomes = map[string]int64{}
		x := e.run(rec.Choices, body)
		if e.broken != "" {
			t.Fatalf("BROKEN-CHECK %s", e.broken)
		}
		for _, l := range x.log {
			fmt.Println("  " + l)
		}
		if x.fail != nil {
			fmt.Printf("REPLAY-VIOLATION property=%s key=%s %s\n", cfg.ID, x.fail.Key, x.fail.Msg)
			t.Fail()
		} else {
			fmt.Printf("REPLAY-OK property=%s\n", cfg.ID)
		}
		return
	}

	// determinism self-check: the all-default execution twice
	a := e.run(nil, body)
	if e.broken == "" {
		e.seen = map[[16]byte][]seenRec{}
		e.states = map[[16]byte]struct{}{}
		b := e.run(nil, body)
		if e.broken == "" {
			if d := sameRun(a, b); d != "" {
				e.broken = "HARNESS-NONDETERMINISM in default execution: " + d
			}
		}
	}
	res.Determinism = "ok"
	// reset what the self-check touched
	e.seen = map[[16]byte][]seenRec{}
	e.states = map[[16]byte]struct{}{}
	e.outcomes = map[string]int64{}
	e.transitions = 0
	if e.broken == "" {
		e.explore(body)
	}
	// confirm every violation 5 times
	if e.broken == "" {
		for _, v := range e.violations {
			for i := 0; i < 5 && e.broken == ""; i++ {
				x := e.run(v.Choices, body)
				if e.broken != "" {
					break
				}
				if x.fail == nil || x.fail.Key != v.Key || fmt.Sprint(x.choices) != fmt.Sprint(v.Choices) {
					e.broken = fmt.Sprintf("HARNESS-NONDETERMINISM: violation %q at %v did not reproduce on re-run %d", v.Key, v.Choices, i+1)
				}
			}
		}
	}
	if e.broken != "" {
		res.Determinism = "failed-or-not-run"
	}
	res.Executions, res.Transitions, res.States = e.owned, e.transitions, len(e.states)
	res.Nontrivial, res.PrunedRuns, res.MaxLen = e.nontrivial, e.prunedRuns, e.maxLen
	res.Outcomes, res.Tags = e.outcomes, e.tagCounts
	res.Exhaustive, res.StopReason, res.Broken = e.exhaustive, e.stopReason, e.broken
	keys := make([]string, 0, len(e.violations))
	for k := range e.violations {
		keys = append(keys, k)
	}
	sort.Strings(keys)
	for _, k := range keys {
		res.Violations = append(res.Violations, e.violations[k])
	}
	res.Samples = e.samples
	res.WallS = time.Since(start).Seconds()
	if out != "" {
		base := filepath.Join(out, cfg.Name+"."+strings.ReplaceAll(shard, "/", "of"))
		if len(e.states) > 0 {
			buf := make([]byte, 0, 16*len(e.states))
			for h := range e.states {
				buf = append(buf, h[:]...)
			}
			if err := os.WriteFile(base+".states", buf, 0o644); err == nil {
				res.StatesFile = base + ".states"
			}
		}
		data, _ := json.MarshalIndent(res, "", " ")
		if err := os.WriteFile(base+".json", data, 0o644); err != nil {
			t.Fatalf("write result: %v", err)
		}
	}
	if e.broken != "" {
		t.Fatalf("BROKEN-CHECK %s: %s", cfg.Name, e.broken)
	}
	for _, v := range res.Violations {
		t.Logf("violation %s: %s (choices %v)", v.Key, v.Msg, v.Choices)
	}
	t.Logf("%s shard=%s executions=%d transitions=%d states=%d nontrivial=%d outcomes=%d exhaustive=%v %s", cfg.Name, shard, e.owned, e.transitions, len(e.states), e.nontrivial, len(e.outcomes), e.exhaustive, e.stopReason)
}

// Try runs f and returns the value of a panic raised by it (nil if none).
// The engine's own abort signal (raised by Fail/Broken) is passed through.
func Try(f func()) (p interface{}) {
	defer func() {
		if r := recover(); r != nil {
			if _, ok := r.(abortSignal); ok {
				panic(r)
			}
			p = r
		}
	}()
	f()
	return nil
}
