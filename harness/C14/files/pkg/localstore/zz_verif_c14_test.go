//go:build verif
// +build verif

package localstore

// C14 — "Local store stays consistent across crashes".
//
// Crash-point enumeration (DESIGN.md §2.5): a history of store operations runs
// crash-free on the logging shed driver engine/crashdrv; for every prefix k of
// its log of durability units (single Put, single Delete, whole batch Commit)
// the durable image is rebuilt, the real localstore.New reopens it, and the
// recovered indexes are compared with the states before and after the
// operation that was interrupted.  Histories and crash points both come from
// x.Choose.

import (
	"bytes"
	"context"
	"fmt"
	"io/ioutil"
	"strings"
	"testing"

	"github.com/gauss-project/aurorafs/pkg/boson"
	"github.com/gauss-project/aurorafs/pkg/chunkinfo"
	"github.com/gauss-project/aurorafs/pkg/logging"
	"github.com/gauss-project/aurorafs/pkg/sctx"
	"github.com/gauss-project/aurorafs/pkg/shed"
	"github.com/gauss-project/aurorafs/pkg/storage"
	"github.com/gauss-project/aurorafs/pkg/zzverif/crashdrv"
	"github.com/gauss-project/aurorafs/pkg/zzverif/mc"
)

// ---- universe -------------------------------------------------------------

// addresses: r1, r2 (file roots), x (shared by both files), y (F1), z (F2)
var verifC14Names = []string{"r1", "r2", "x", "y", "z"}

type verifC14Universe struct {
	addr  map[string]boson.Address
	data  map[string][]byte
	files map[string][]string // root name -> chunks of the file (root last)
}

func verifC14NewUniverse() *verifC14Universe {
	u := &verifC14Universe{addr: map[string]boson.Address{}, data: map[string][]byte{}}
	first := map[string]byte{"r1": 0x80, "r2": 0x40, "x": 0xc0, "y": 0xa0, "z": 0x20} // r1,x,y share bin 0
	for i, n := range verifC14Names {
		a := make([]byte, 32)
		a[0], a[31] = first[n], byte(i+1)
		u.addr[n] = boson.NewAddress(a)
		u.data[n] = append([]byte{byte(4 + i), 0, 0, 0, 0, 0, 0, 0}, []byte(strings.Repeat(n, 4+i))[:4+i]...)
	}
	u.files = map[string][]string{"r1": {"x", "y", "r1"}, "r2": {"x", "z", "r2"}}
	return u
}

func (u *verifC14Universe) name(a []byte) string {
	for _, n := range verifC14Names {
		if bytes.Equal(u.addr[n].Bytes(), a) {
			return n
		}
	}
	return fmt.Sprintf("FOREIGN-%x", a)
}

// ---- chunkinfo stub (what gc.go needs: IsDiscover, DelDiscover, DelFile, GetChunkPyramid)

type verifC14CI struct {
	chunkinfo.Interface // every other method is unreachable from localstore (nil → panic = BROKEN)
	u          *verifC14Universe
	registered map[string]bool // root name
	reverse    bool
}

func (c *verifC14CI) IsDiscover(boson.Address) bool { return false }
func (c *verifC14CI) DelDiscover(boson.Address)     {}

// GetChunkPyramid mirrors chunkinfo.getUnRepeatChunk: the chunks of the file
// (root included) that no other registered file references.
func (c *verifC14CI) GetChunkPyramid(root boson.Address) []*chunkinfo.PyramidCidNum {
	rn := c.u.name(root.Bytes())
	if !c.registered[rn] {
		return nil
	}
	var out []*chunkinfo.PyramidCidNum
	for _, ch := range c.u.files[rn] {
		refs := 0
		for f, on := range c.registered {
			if !on {
				continue
			}
			for _, o := range c.u.files[f] {
				if o == ch {
					refs++
				}
			}
		}
		if refs > 1 {
			continue
		}
		out = append(out, &chunkinfo.PyramidCidNum{Cid: c.u.addr[ch], Number: 1})
	}
	if c.reverse { // the real list comes out of a map: any order is possible
		for i, j := 0, len(out)-1; i < j; i, j = i+1, j-1 {
			out[i], out[j] = out[j], out[i]
		}
	}
	return out
}

func (c *verifC14CI) DelFile(root boson.Address, del func() error) error {
	rn := c.u.name(root.Bytes())
	if !c.registered[rn] {
		return storage.ErrNotFound
	}
	if err := del(); err != nil {
		return err
	}
	delete(c.registered, rn)
	return nil
}

// ---- state dump -------------------------------------------------------------

type verifC14State struct {
	bundle  map[string]string // per address: data entry | pin entry | access entry
	data    map[string][]byte
	pin     map[string]uint64
	gc      map[string]string // per address: its gc index entries
	reach   map[string]bool   // every gc entry of the address matches its access time and bin id
	gcSize  uint64
	sumG    uint64
	foreign string
	binLag  string // chunk whose bin id exceeds its bin's id counter
}

func (s *verifC14State) String() string {
	var b strings.Builder
	for _, n := range verifC14Names {
		if s.bundle[n] != "" || s.gc[n] != "" {
			fmt.Fprintf(&b, "%s{%s gc[%s]} ", n, s.bundle[n], s.gc[n])
		}
	}
	fmt.Fprintf(&b, "gcSize=%d sumG=%d", s.gcSize, s.sumG)
	return b.String()
}

func verifC14Dump(x *mc.X, db *DB, u *verifC14Universe) *verifC14State {
	s := &verifC14State{bundle: map[string]string{}, data: map[string][]byte{}, pin: map[string]uint64{}, gc: map[string]string{}, reach: map[string]bool{}}
	dbin := map[string]uint64{}
	acc := map[string]int64{}
	hasAcc := map[string]bool{}
	d, p, a := map[string]string{}, map[string]string{}, map[string]string{}
	note := func(addr []byte) string {
		n := u.name(addr)
		if strings.HasPrefix(n, "FOREIGN") {
			s.foreign = n
		}
		return n
	}
	x.NoErr(db.retrievalDataIndex.Iterate(func(it shed.Item) (bool, error) {
		n := note(it.Address)
		s.data[n] = append([]byte(nil), it.Data...)
		dbin[n] = it.BinID
		d[n] = fmt.Sprintf("D(bin%d,t%d,%x)", it.BinID, it.StoreTimestamp, it.Data)
		return false, nil
	}, nil), "iterate data index")
	x.NoErr(db.pinIndex.Iterate(func(it shed.Item) (bool, error) {
		n := note(it.Address)
		s.pin[n] = it.PinCounter
		p[n] = fmt.Sprintf("P(%d)", it.PinCounter)
		return false, nil
	}, nil), "iterate pin index")
	x.NoErr(db.retrievalAccessIndex.Iterate(func(it shed.Item) (bool, error) {
		n := note(it.Address)
		acc[n], hasAcc[n] = it.AccessTimestamp, true
		a[n] = fmt.Sprintf("A(t%d)", it.AccessTimestamp)
		return false, nil
	}, nil), "iterate access index")
	for _, n := range verifC14Names {
		s.reach[n] = true
		if d[n] != "" || p[n] != "" || a[n] != "" {
			s.bundle[n] = strings.Join([]string{d[n], p[n], a[n]}, "|")
		}
	}
	x.NoErr(db.gcIndex.Iterate(func(it shed.Item) (bool, error) {
		n := note(it.Address)
		s.gc[n] += fmt.Sprintf("(t%d,bin%d,n%d)", it.AccessTimestamp, it.BinID, it.GCounter)
		s.sumG += it.GCounter
		_, hasData := s.data[n]
		if !hasAcc[n] || acc[n] != it.AccessTimestamp || !hasData || dbin[n] != it.BinID {
			s.reach[n] = false
		}
		return false, nil
	}, nil), "iterate gc index")
	gs, err := db.gcSize.Get()
	x.NoErr(err, "gcSize.Get")
	s.gcSize = gs
	for _, n := range verifC14Names {
		if _, ok := s.data[n]; ok {
			c, err := db.binIDs.Get(uint64(db.po(u.addr[n])))
			x.NoErr(err, "binIDs.Get")
			if dbin[n] > c {
				s.binLag = fmt.Sprintf("%s has bin id %d, counter of its bin is %d", n, dbin[n], c)
			}
		}
	}
	return s
}

// ---- environment: one crash-free run ------------------------------------------

type verifC14Env struct {
	x      *mc.X
	u      *verifC14Universe
	db     *DB
	img    *crashdrv.Image
	name   string
	ci     *verifC14CI
	clk    int64
	snaps  []*verifC14State // snaps[m] = state before micro-op m; last = final state
	micros []string         // micro-op names
	owner  []int            // micro-op -> history step
	step   int
}

var (
	verifC14Clock  *int64
	verifC14Images int
)

const verifC14HugeCapacity = 1 << 40

func verifC14Open(x *mc.X, path string) *DB {
	db, err := New(path, make([]byte, 32), &Options{Driver: crashdrv.Name, Capacity: verifC14HugeCapacity}, logging.New(ioutil.Discard, 0))
	x.NoErr(err, "localstore.New on a fresh image")
	return db
}

func verifC14NewEnv(x *mc.X, u *verifC14Universe, prelude bool) *verifC14Env {
	verifC14Images++
	e := &verifC14Env{x: x, u: u, name: fmt.Sprintf("verifC14-%d", verifC14Images)}
	verifC14Clock = &e.clk
	e.img = crashdrv.NewImage(e.name)
	e.db = verifC14Open(x, e.name)
	e.ci = &verifC14CI{u: u, registered: map[string]bool{}}
	e.db.SetChunkInfo(e.ci)
	if prelude {
		_, err := e.db.Put(context.Background(), storage.ModePutUploadPin, boson.NewChunk(u.addr["x"], append([]byte(nil), u.data["x"]...)))
		x.NoErr(err, "prelude put")
	}
	e.img.StartLog() // crash points start after the store has been created
	e.snaps = []*verifC14State{verifC14Dump(x, e.db, u)}
	return e
}

func (e *verifC14Env) ctx(root string) context.Context {
	if root == "" {
		return context.Background()
	}
	return sctx.SetRootHash(context.Background(), e.u.addr[root])
}

// micro runs one store call as a marked micro-operation and snapshots the
// state after it (after waiting for the updateGC goroutines it spawned).
func (e *verifC14Env) micro(name string, f func() error) error {
	m := len(e.micros)
	e.img.SetMark(m)
	err := f()
	e.db.updateGCWG.Wait()
	e.micros = append(e.micros, name)
	e.owner = append(e.owner, e.step)
	e.snaps = append(e.snaps, verifC14Dump(e.x, e.db, e.u))
	e.x.Logf("  [%d] %s -> %v", m, name, err)
	return err
}

func (e *verifC14Env) put(mode storage.ModePut, ch, root string) {
	e.micro(fmt.Sprintf("Put(%s,%s,root=%s)", mode, ch, root), func() error {
		_, err := e.db.Put(e.ctx(root), mode, boson.NewChunk(e.u.addr[ch], append([]byte(nil), e.u.data[ch]...)))
		return err
	})
}

func (e *verifC14Env) set(mode storage.ModeSet, ch, root string) error {
	return e.micro(fmt.Sprintf("Set(%s,%s,root=%s)", mode, ch, root), func() error {
		return e.db.Set(e.ctx(root), mode, e.u.addr[ch])
	})
}

// gc plays collectGarbageWorker's loop synchronously. The store is opened with
// a huge capacity so that no operation ever raises the real worker's trigger
// (it stays parked); the small capacity is in force only around collectGarbage.
func (e *verifC14Env) gc(capacity uint64, reverse bool) {
	e.ci.reverse = reverse
	e.db.capacity = capacity
	for i := 0; i < 8; i++ {
		var done bool
		err := e.micro(fmt.Sprintf("collectGarbage#%d", i), func() error {
			var err error
			_, done, err = e.db.collectGarbage()
			return err
		})
		if err != nil || done {
			break
		}
	}
	e.db.capacity = verifC14HugeCapacity
	e.ci.reverse = false
}

// ---- history alphabet ------------------------------------------------------------

type verifC14Op struct {
	name string
	run  func(e *verifC14Env)
}

func verifC14Alphabet(full bool, capacity uint64) []verifC14Op {
	cache := func(root string) func(e *verifC14Env) {
		return func(e *verifC14Env) { // as retrieval does: root first, then the chunks, all with the file context
			f := e.u.files[root]
			e.put(storage.ModePutRequest, root, root)
			for _, ch := range f[:len(f)-1] {
				e.put(storage.ModePutRequest, ch, root)
			}
			e.ci.registered[root] = true
		}
	}
	eachChunk := func(mode storage.ModeSet, root string) func(e *verifC14Env) {
		return func(e *verifC14Env) { // as pinning.CreatePin / DeletePin do: every chunk with the file context
			for _, ch := range e.u.files[root] {
				e.set(mode, ch, root)
			}
		}
	}
	deleteFile := func(root string) func(e *verifC14Env) {
		return func(e *verifC14Env) { // as api.fileDeleteHandler does through chunkinfo.DelFile
			_ = e.ci.DelFile(e.u.addr[root], func() error {
				for _, c := range e.ci.GetChunkPyramid(e.u.addr[root]) {
					if c.Cid.Equal(e.u.addr[root]) {
						continue
					}
					_ = e.set(storage.ModeSetRemove, e.u.name(c.Cid.Bytes()), root)
				}
				_ = e.set(storage.ModeSetRemove, root, root)
				return nil
			})
		}
	}
	ops := []verifC14Op{
		{"upload(x)", func(e *verifC14Env) { e.put(storage.ModePutUpload, "x", "") }},
		{"uploadpin(x)", func(e *verifC14Env) { e.put(storage.ModePutUploadPin, "x", "") }},
		{"uploadpin(y,r1)", func(e *verifC14Env) { e.put(storage.ModePutUploadPin, "y", "r1") }},
		{"cache(F1)", cache("r1")},
		{"cache(F2)", cache("r2")},
		{"pin(x,r1)", func(e *verifC14Env) { e.set(storage.ModeSetPin, "x", "r1") }},
		{"unpin(x,r1)", func(e *verifC14Env) { e.set(storage.ModeSetUnpin, "x", "r1") }},
		{"pinfile(F1)", eachChunk(storage.ModeSetPin, "r1")},
		{"unpinfile(F1)", eachChunk(storage.ModeSetUnpin, "r1")},
		{"remove(x,r1)", func(e *verifC14Env) { e.set(storage.ModeSetRemove, "x", "r1") }},
		{"deletefile(F1)", deleteFile("r1")},
		{"get(x,r1)", func(e *verifC14Env) {
			e.micro("Get(Request,x,root=r1)", func() error {
				_, err := e.db.Get(e.ctx("r1"), storage.ModeGetRequest, e.u.addr["x"])
				return err
			})
		}},
		{"gc", func(e *verifC14Env) { e.gc(capacity, false) }},
	}
	if full {
		ops = append(ops,
			verifC14Op{"pin(x)", func(e *verifC14Env) { e.set(storage.ModeSetPin, "x", "") }},
			verifC14Op{"unpin(x)", func(e *verifC14Env) { e.set(storage.ModeSetUnpin, "x", "") }},
			verifC14Op{"pin(r1,r1)", func(e *verifC14Env) { e.set(storage.ModeSetPin, "r1", "r1") }},
			verifC14Op{"remove(r1)", func(e *verifC14Env) { e.set(storage.ModeSetRemove, "r1", "") }},
			verifC14Op{"sync(y)", func(e *verifC14Env) { e.set(storage.ModeSetSync, "y", "") }},
			verifC14Op{"gc-reverse-pyramid", func(e *verifC14Env) { e.gc(capacity, true) }},
		)
	}
	return ops
}

// ---- the check ---------------------------------------------------------------

func TestVerifC14(t *testing.T) {
	length := mc.EnvInt("VERIF_C14_LEN", mc.Pick(3, 4))
	capacity := uint64(mc.EnvInt("VERIF_C14_CAPACITY", 2))
	u := verifC14NewUniverse()
	ops := verifC14Alphabet(mc.Thorough(), capacity)
	names := make([]string, len(ops))
	for i := range ops {
		names[i] = ops[i].name
	}
	savedNow := now
	defer func() { now = savedNow }()
	now = func() int64 { *verifC14Clock++; return *verifC14Clock }

	mc.Run(t, mc.Config{ID: "C14", Name: "C14-crash", MaxDev: -1, Params: map[string]interface{}{
		"history_length": length, "initial_states": []string{"empty", "x upload-pinned (pin counter 1)"}, "alphabet": names, "gc_capacity": capacity,
		"universe":     "files F1=[x,y]+root r1, F2=[x,z]+root r2 (x shared); r1,x,y in one proximity bin",
		"crash_points": "every prefix 0..n of the crash-free run's log of durability units (single Put / single Delete / batch Commit), log started after the store was created",
	}}, func(x *mc.X) {
		hist := make([]int, length)
		for i := range hist {
			hist[i] = x.Choose(len(ops))
		}
		// initial state: empty store, or a store that already holds x pinned by
		// an upload (written before the log starts: not a crash point). The
		// second start lets a short history reach "pin counter 2, then gc".
		prelude := x.Choose(2)
		e := verifC14NewEnv(x, u, prelude == 1)
		x.Logf("initial state: %s", []string{"empty store", "x upload-pinned"}[prelude])
		rname := e.name + "-recovered"
		var rdb *DB
		defer func() {
			if rdb != nil {
				rdb.updateGCWG.Wait()
				_ = rdb.Close()
			}
			crashdrv.Drop(e.name, rname)
		}()
		for i, h := range hist {
			e.step = i
			x.Logf("%s", ops[h].name)
			ops[h].run(e)
		}
		x.NoErr(e.db.Close(), "close crash-free store")
		x.NoErr(e.img.SelfCheck(), "write log completeness")
		log := e.img.Log()
		n := len(log)

		// evidence: write-log shape of every operation of the history
		perStep := map[int][]string{}
		for _, un := range log {
			perStep[e.owner[un.Mark]] = append(perStep[e.owner[un.Mark]], un.Shape())
		}
		for i, h := range hist {
			x.Tag(fmt.Sprintf("units %s: %s", ops[h].name, strings.Join(perStep[i], " ")))
		}

		// ---- crash point ----
		k := x.Choose(n + 1)
		var before, after *verifC14State
		opName, micro := "none(clean-reopen)", "clean reopen"
		torn := false
		if k < n {
			m := log[k].Mark
			before, after = e.snaps[m], e.snaps[m+1]
			opName, micro = ops[hist[e.owner[m]]].name, e.micros[m]
			torn = k > 0 && log[k-1].Mark == m
		} else {
			before, after = e.snaps[len(e.snaps)-1], e.snaps[len(e.snaps)-1]
		}
		x.Logf("crash after %d of %d durability units, inside %s / %s (torn=%v)", k, n, opName, micro, torn)
		e.img.Prefix(k, rname)

		// ---- recovery: the real New on the surviving image ----
		verifC14Clock = new(int64)
		*verifC14Clock = e.clk
		var err error
		rdb, err = New(rname, make([]byte, 32), &Options{Driver: crashdrv.Name, Capacity: verifC14HugeCapacity}, logging.New(ioutil.Discard, 0))
		x.Check(err == nil, "reopen-fails/"+opName, "localstore.New on the image after %d/%d units (inside %s): %v", k, n, micro, err)
		rec := verifC14Dump(x, rdb, u)
		x.Logf("before:    %s", before)
		x.Logf("after:     %s", after)
		x.Logf("recovered: %s", rec)
		x.State(rec.String())
		x.Check(rec.foreign == "", "foreign-address-after-recovery", "recovered index contains %s", rec.foreign)

		same := func(a, b *verifC14State) bool {
			for _, nm := range verifC14Names {
				if a.bundle[nm] != b.bundle[nm] || a.gc[nm] != b.gc[nm] {
					return false
				}
			}
			return true
		}
		class := "mixed"
		switch {
		case same(rec, before) && same(rec, after):
			class = "unchanged"
		case same(rec, before):
			class = "before"
		case same(rec, after):
			class = "after"
		}
		x.Outcome(strings.SplitN(opName, "(", 2)[0] + ":" + class)
		if torn {
			x.Tag("crash-inside-multi-unit-operation")
			x.Tag("torn " + micro[:strings.IndexAny(micro+"(", "(#")] + " -> " + class)
		}
		if k < n && class != "unchanged" {
			x.Nontrivial()
		}

		bg := context.Background()
		for _, nm := range verifC14Names {
			// pin counts equal their value before or after the interrupted operation
			x.Check(rec.pin[nm] == before.pin[nm] || rec.pin[nm] == after.pin[nm], "pin-count-neither-before-nor-after/"+opName,
				"%s: pin counter %d after recovery, %d before and %d after %s (crash after %d/%d units)", nm, rec.pin[nm], before.pin[nm], after.pin[nm], micro, k, n)
			// fully present with consistent bookkeeping, or fully absent:
			// data + pin + access entry of the chunk are those of one state
			x.Check(rec.bundle[nm] == before.bundle[nm] || rec.bundle[nm] == after.bundle[nm], "chunk-torn-by-crash/"+opName,
				"%s: recovered entries {%s} are neither those before {%s} nor those after {%s} %s (crash after %d/%d units)", nm, rec.bundle[nm], before.bundle[nm], after.bundle[nm], micro, k, n)
			x.Check(rec.gc[nm] == before.gc[nm] || rec.gc[nm] == after.gc[nm], "gc-entry-torn-by-crash/"+opName,
				"%s: recovered gc entries [%s] are neither those before [%s] nor those after [%s] %s (crash after %d/%d units)", nm, rec.gc[nm], before.gc[nm], after.gc[nm], micro, k, n)
			if before.reach[nm] && after.reach[nm] {
				x.Check(rec.reach[nm], "gc-entry-unreachable-after-crash/"+opName,
					"%s: gc entries [%s] do not match access/data entries {%s} after recovery, they did before and after %s", nm, rec.gc[nm], rec.bundle[nm], micro)
			}
			// what the public API reports agrees with the data index, bytes exact
			stored, present := rec.data[nm]
			has, err := rdb.Has(bg, storage.ModeHasChunk, u.addr[nm])
			x.NoErr(err, "Has after recovery")
			x.Check(has == present, "has-disagrees-with-index-after-recovery", "%s: Has=%v, data index %v", nm, has, present)
			ch, err := rdb.Get(bg, storage.ModeGetLookup, u.addr[nm])
			if present {
				x.Check(err == nil && bytes.Equal(ch.Data(), u.data[nm]) && bytes.Equal(stored, u.data[nm]), "chunk-bytes-damaged-after-recovery/"+opName,
					"%s: Get after recovery: %v, stored %x want %x", nm, err, stored, u.data[nm])
			} else {
				x.Check(err != nil, "absent-chunk-readable-after-recovery", "%s", nm)
			}
		}
		// consistent bookkeeping: the per-bin id counter has not fallen behind a
		// stored chunk (it never does in any crash-free state: same batch)
		if before.binLag == "" && after.binLag == "" {
			x.Check(rec.binLag == "", "bin-id-counter-behind-chunk/"+opName, "%s after recovery (crash after %d/%d units, inside %s)", rec.binLag, k, n, micro)
		}
		// the cached-chunk counter is at least the recomputed total
		if rec.gcSize < rec.sumG {
			x.Fail("gcsize-below-recomputed-total/"+opName, "gcSize=%d < sum of GCounter=%d after reopening (crash after %d/%d units, inside %s)", rec.gcSize, rec.sumG, k, n, micro)
		}
		if rec.gcSize != before.gcSize && rec.gcSize != after.gcSize {
			x.Tag("gcsize-repaired-by-New-on-reopen")
		}
		if k == n {
			x.Check(class == "unchanged", "clean-reopen-changes-state", "reopening without a crash changed the indexes: %s vs %s", rec, before)
		}
	})
}

