//go:build verif
// +build verif

package boson

import (
	"fmt"
	"math/big"
	"math/bits"
	"testing"

	"github.com/gauss-project/aurorafs/pkg/zzverif/mc"
)

// ---- reference, written from the statement ---------------------------------

// verifLeadingEqualBits returns the number of leading equal bits of two
// equal-length byte strings (= leading zero bits of their XOR) and whether the
// strings differ at all.
func verifLeadingEqualBits(a, b []byte) (n int, differ bool) {
	for i := range a {
		if d := a[i] ^ b[i]; d != 0 {
			return n + bits.LeadingZeros8(d), true
		}
		n += 8
	}
	return n, false
}

func verifCap(n, cap int) int {
	if n > cap {
		return cap
	}
	return n
}

// verifXorInt is the XOR distance as a big integer (big-endian), computed
// without any code from the package under test.
func verifXorInt(a, b []byte) *big.Int {
	r := new(big.Int)
	for i := range a {
		r.Lsh(r, 8)
		r.Or(r, big.NewInt(int64(a[i]^b[i])))
	}
	return r
}

// ---- part A: Proximity / ExtendedProximity --------------------------------

var verifC20Lens = []int{0, 1, 2, 3, 4, 5, 8, 32}
var verifC20Base = []byte{0x00, 0xff, 0xa5}

// tail patterns for the XOR bits after the first set bit
const (
	verifTailZero = iota
	verifTailOnes
	verifTailAlt
	verifTailN
)

func TestVerifC20Proximity(t *testing.T) {
	fns := []struct {
		name string
		f    func(a, b []byte) uint8
		cap  int
	}{
		{"Proximity", Proximity, int(MaxPO)},
		{"ExtendedProximity", ExtendedProximity, int(ExtendedPO)},
	}
	mc.Run(t, mc.Config{ID: "C20", Name: "C20-proximity", MaxDev: -1, Params: map[string]interface{}{
		"functions":           []string{"Proximity", "ExtendedProximity"},
		"lengths":             verifC20Lens,
		"first_differing_bit": "every p in 0..8*len-1, and 'none' (equal addresses)",
		"xor_tail_after_p":    []string{"all 0", "all 1", "alternating 01"},
		"base_fill":           fmt.Sprintf("%x", verifC20Base),
		"orders":              "both argument orders in every execution",
		"caps":                map[string]int{"MaxPO": int(MaxPO), "ExtendedPO": int(ExtendedPO)},
	}}, func(x *mc.X) {
		li := x.Choose(len(verifC20Lens))
		l := verifC20Lens[li]
		p := x.Choose(8*l + 1) // 8*l = no differing bit
		fi := x.Choose(len(fns))
		tail := x.Choose(verifTailN)
		base := verifC20Base[x.Choose(len(verifC20Base))]
		fn := fns[fi]

		xor := make([]byte, l)
		if p < 8*l {
			xor[p/8] |= 0x80 >> uint(p%8)
			for q := p + 1; q < 8*l; q++ {
				set := false
				switch tail {
				case verifTailOnes:
					set = true
				case verifTailAlt:
					set = (q-p)%2 == 0
				}
				if set {
					xor[q/8] |= 0x80 >> uint(q%8)
				}
			}
		}
		one := make([]byte, l)
		other := make([]byte, l)
		for i := range one {
			one[i] = base
			other[i] = base ^ xor[i]
		}
		x.Logf("%s(one=%x, other=%x) len=%d first differing bit p=%d tail=%d", fn.name, one, other, l, p, tail)

		var ab, ba uint8
		if pv := mc.Try(func() { ab = fn.f(one, other) }); pv != nil {
			x.Fail("panic-"+fn.name, "%s(%x,%x) panicked: %v", fn.name, one, other, pv)
		}
		if pv := mc.Try(func() { ba = fn.f(other, one) }); pv != nil {
			x.Fail("panic-"+fn.name, "%s(%x,%x) panicked: %v", fn.name, other, one, pv)
		}
		x.Logf("-> %d / swapped %d", ab, ba)
		x.Check(ab == ba, "asymmetric-"+fn.name, "%s(%x,%x)=%d but swapped=%d", fn.name, one, other, ab, ba)

		n, differ := verifLeadingEqualBits(one, other)
		if differ != (p < 8*l) || (differ && n != p) {
			x.Broken("harness built a wrong pair: p=%d l=%d n=%d differ=%v", p, l, n, differ)
		}
		// Weakest reading: when the addresses are equal and have fewer bits than
		// the cap, the statement's "number of leading equal bits capped" (8*len)
		// and the conventional answer "cap" disagree; only no-panic and symmetry
		// are checked there.
		if !differ && 8*l < fn.cap {
			x.Tag("equal-short-address-oracle-skipped")
			x.Outcome(fn.name + ":short-equal")
			return
		}
		want := verifCap(n, fn.cap)
		switch {
		case !differ:
			x.Tag("equal-addresses")
			x.Outcome(fn.name + ":equal->cap")
		case n < fn.cap:
			x.Outcome(fn.name + ":below-cap")
		case n == fn.cap:
			x.Tag("first-difference-exactly-at-cap")
			x.Nontrivial()
			x.Outcome(fn.name + ":at-cap")
		case n < 8*(fn.cap/8+1):
			// beyond the cap but still inside the bytes the function inspects
			x.Tag("first-difference-beyond-cap-inside-inspected-bytes")
			x.Nontrivial()
			x.Outcome(fn.name + ":beyond-cap-inspected")
		default:
			x.Tag("first-difference-beyond-inspected-bytes")
			x.Nontrivial()
			x.Outcome(fn.name + ":beyond-inspected")
		}
		if int(ab) != want {
			key := "wrong-order-" + fn.name
			if int(ab) > fn.cap {
				key = "exceeds-cap-" + fn.name
			}
			x.Fail(key, "%s(%x,%x)=%d, want min(%d leading equal bits, cap %d)=%d", fn.name, one, other, ab, n, fn.cap, want)
		}
	})
}

// ---- part B: Distance / DistanceCmp / Closer -------------------------------

var verifC20Bytes = []byte{0x00, 0x01, 0x7f, 0x80, 0xfe, 0xff}

func verifC20CheckTriple(x *mc.X, a, p, q []byte) {
	x.Logf("a=%x x=%x y=%x", a, p, q)
	dp, dq := verifXorInt(a, p), verifXorInt(a, q)
	// reference: +1 when p is closer to a than q, -1 when farther, 0 when equal
	want := -dp.Cmp(dq)

	got, err := DistanceCmp(a, p, q)
	x.Check(err == nil, "distancecmp-error-equal-lengths", "DistanceCmp(%x,%x,%x) error %v", a, p, q, err)
	rev, err := DistanceCmp(a, q, p)
	x.Check(err == nil, "distancecmp-error-equal-lengths", "DistanceCmp(%x,%x,%x) error %v", a, q, p, err)
	x.Logf("DistanceCmp=%d reversed=%d reference=%d", got, rev, want)
	x.Check(got == want, "distancecmp-disagrees-with-bigint", "DistanceCmp(a=%x,x=%x,y=%x)=%d, big.Int comparison of XOR distances says %d (dx=%s dy=%s)", a, p, q, got, want, dp, dq)
	x.Check(rev == -got, "distancecmp-not-antisymmetric", "DistanceCmp(a=%x,%x,%x)=%d but swapped=%d", a, p, q, got, rev)

	// Distance returns the XOR as a big integer
	d1, err := Distance(a, p)
	x.Check(err == nil && d1 != nil, "distance-error-equal-lengths", "Distance(%x,%x) error %v", a, p, err)
	x.Check(d1.Cmp(dp) == 0, "distance-value", "Distance(%x,%x)=%s want %s", a, p, d1, dp)
	d2, err := Distance(p, a)
	x.Check(err == nil && d2 != nil, "distance-error-equal-lengths", "Distance(%x,%x) error %v", p, a, err)
	x.Check(d2.Cmp(dp) == 0, "distance-asymmetric", "Distance(%x,%x)=%s want %s", p, a, d2, dp)
	d3, err := Distance(a, q)
	x.Check(err == nil && d3 != nil, "distance-error-equal-lengths", "Distance(%x,%x) error %v", a, q, err)
	x.Check(d3.Cmp(dq) == 0, "distance-value", "Distance(%x,%x)=%s want %s", a, q, d3, dq)
	// ordering by Distance agrees with DistanceCmp
	x.Check(-d1.Cmp(d3) == got, "distance-order-vs-distancecmp", "Distance order %d vs DistanceCmp %d", -d1.Cmp(d3), got)

	// Closer: "p is closer to a than q is" == DistanceCmp(a,p,q)==1
	cl, err := NewAddress(p).Closer(NewAddress(a), NewAddress(q))
	x.Check(err == nil, "closer-error-equal-lengths", "Closer error %v", err)
	x.Check(cl == (want == 1), "closer-disagrees", "Address(%x).Closer(target %x, than %x)=%v, reference says %v", p, a, q, cl, want == 1)
	cl2, err := NewAddress(q).Closer(NewAddress(a), NewAddress(p))
	x.Check(err == nil, "closer-error-equal-lengths", "Closer error %v", err)
	x.Check(cl2 == (want == -1), "closer-disagrees", "Address(%x).Closer(target %x, than %x)=%v, reference says %v", q, a, p, cl2, want == -1)

	x.Outcome(fmt.Sprintf("cmp=%d", want))
	// first differing byte between dx and dy is not the first byte: the
	// comparison has to walk past equal prefix bytes
	for i := range a {
		if (a[i] ^ p[i]) != (a[i] ^ q[i]) {
			if i > 0 {
				x.Tag("decided-after-equal-prefix")
				x.Nontrivial()
			}
			// the signed/unsigned boundary: exactly one distance byte has the top bit
			if ((a[i]^p[i])^(a[i]^q[i]))&0x80 != 0 {
				x.Tag("deciding-byte-differs-in-top-bit")
			}
			// raw bytes order differently from XOR distances
			if (p[i] < q[i]) != ((a[i] ^ p[i]) < (a[i] ^ q[i])) {
				x.Tag("raw-byte-order-differs-from-xor-order")
				x.Nontrivial()
			}
			break
		}
	}
}

func TestVerifC20Distance(t *testing.T) {
	nb := len(verifC20Bytes)
	naddr := nb * nb
	pos := []int{0, 1, 15, 30, 31}
	mc.Run(t, mc.Config{ID: "C20", Name: "C20-distance", MaxDev: -1, Params: map[string]interface{}{
		"short":       "all triples (a,x,y) of 2-byte addresses over the byte alphabet",
		"byte_values": fmt.Sprintf("%x", verifC20Bytes),
		"long":        "32-byte addresses: a = fill, x = a with byte i set to u, y = a with byte j set to v; i,j in positions, u,v in byte_values, fill in {0x00,0xa5}",
		"positions":   pos,
	}}, func(x *mc.X) {
		mk := func(i int) []byte { return []byte{verifC20Bytes[i/nb], verifC20Bytes[i%nb]} }
		shape := x.Choose(naddr + 2)
		if shape < naddr {
			a := mk(shape)
			p := mk(x.Choose(naddr))
			q := mk(x.Choose(naddr))
			verifC20CheckTriple(x, a, p, q)
			return
		}
		fill := []byte{0x00, 0xa5}[shape-naddr]
		i := pos[x.Choose(len(pos))]
		u := verifC20Bytes[x.Choose(nb)]
		j := pos[x.Choose(len(pos))]
		v := verifC20Bytes[x.Choose(nb)]
		a := make([]byte, 32)
		for k := range a {
			a[k] = fill
		}
		p := append([]byte{}, a...)
		q := append([]byte{}, a...)
		p[i] = u
		q[j] = v
		x.Tag("32-byte")
		verifC20CheckTriple(x, a, p, q)
	})
}
