//go:build verif
// +build verif

// Package crashdrv is a shed storage driver for crash-point enumeration
// (DESIGN.md §2.5). It is registered with shed.Register under the name
// "verifcrash" and keeps every database ("image") in a process-wide registry,
// keyed by the path that is handed to shed.NewDB / localstore.New, as an
// ordered in-memory map.
//
// Crash model. Every driver-level durability unit — a single Put, a single
// Delete, a whole batch Commit — is appended to the image's write log (when
// logging is on). goleveldb writes each of these as one journal record on one
// journal, so after the process stops abruptly the persistent state is the
// state produced by a *prefix* of that log. A harness therefore
//
//  1. runs a history once, crash-free, with logging on (LogLen gives n),
//  2. for a crash point k in 0..n calls Prefix(k, name): a new registered image
//     holding the state at StartLog plus the first k units — exactly what a
//     run that lost every write after the k-th leaves behind,
//  3. opens a fresh store on that image (localstore.New(name, …, Driver:
//     crashdrv.Name)) and evaluates the recovery invariant.
//
// Since the code under test is deterministic up to the crash, the log of the
// crash-free run *is* the write sequence of every crashing run; running on
// (the store's own reads see all its writes) and cutting the log afterwards is
// the same as dropping the writes after the k-th. Prefix(n) must equal the
// live state — SelfCheck verifies the log is complete.
//
// Read semantics mirror pkg/shed/leveldb: Get of a missing key returns
// driver.ErrNotFound, Has returns (false, nil), cursors and snapshots work on
// the state at the time they were created (goleveldb iterators and snapshots
// are point-in-time), a cursor is positioned by Seek at the first key >= the
// query key. Schema bookkeeping (key {0} JSON, fields prefix 1, indexes from
// prefix 2) is the same as in pkg/shed/leveldb/schema.go, written through Put
// so that it shows up in the log like there.
package crashdrv

import (
	"bytes"
	"encoding/json"
	"errors"
	"fmt"
	"sort"
	"sync"

	"github.com/gauss-project/aurorafs/pkg/shed"
	"github.com/gauss-project/aurorafs/pkg/shed/driver"
)

// Name is the driver name to put into shed.Options.Driver / localstore.Options.Driver.
const Name = "verifcrash"

func init() { shed.Register(Name, Driver{}) }

// Write is one key-level mutation inside a durability unit.
type Write struct {
	Key    []byte
	Value  []byte
	Delete bool
}

// Unit is one durability unit of the write log.
type Unit struct {
	Kind   string // "put", "delete", "batch"
	Writes []Write
	Mark   int // value of the harness marker when the unit was written
}

// Shape is a short description such as "batch[3p1d]" used for evidence.
func (u Unit) Shape() string {
	if u.Kind != "batch" {
		return u.Kind
	}
	p, d := 0, 0
	for _, w := range u.Writes {
		if w.Delete {
			d++
		} else {
			p++
		}
	}
	return fmt.Sprintf("batch[%dp%dd]", p, d)
}

// Image is one database.
type Image struct {
	mu      sync.Mutex
	kv      map[string][]byte // live state (what the running store reads)
	base    map[string][]byte // state at StartLog
	log     []Unit
	logging bool
	mark    int
	opens   int
}

var (
	regMu    sync.Mutex
	registry = map[string]*Image{}
)

// NewImage creates (or replaces) the empty image registered under name.
func NewImage(name string) *Image {
	im := &Image{kv: map[string][]byte{}}
	regMu.Lock()
	registry[name] = im
	regMu.Unlock()
	return im
}

// Lookup returns the image registered under name, or nil.
func Lookup(name string) *Image {
	regMu.Lock()
	defer regMu.Unlock()
	return registry[name]
}

// Drop removes images from the registry.
func Drop(names ...string) {
	regMu.Lock()
	for _, n := range names {
		delete(registry, n)
	}
	regMu.Unlock()
}

func cloneMap(m map[string][]byte) map[string][]byte {
	c := make(map[string][]byte, len(m))
	for k, v := range m {
		c[k] = append([]byte(nil), v...)
	}
	return c
}

// StartLog snapshots the live state as the log's base, clears the log and
// switches logging on.
func (im *Image) StartLog() {
	im.mu.Lock()
	im.base = cloneMap(im.kv)
	im.log = nil
	im.logging = true
	im.mu.Unlock()
}

// StopLog switches logging off (the log is kept).
func (im *Image) StopLog() {
	im.mu.Lock()
	im.logging = false
	im.mu.Unlock()
}

// SetMark sets the marker copied into subsequently logged units (e.g. the
// index of the history step that is running).
func (im *Image) SetMark(m int) {
	im.mu.Lock()
	im.mark = m
	im.mu.Unlock()
}

// LogLen is the number of durability units logged since StartLog.
func (im *Image) LogLen() int {
	im.mu.Lock()
	defer im.mu.Unlock()
	return len(im.log)
}

// Log returns a copy of the unit log.
func (im *Image) Log() []Unit {
	im.mu.Lock()
	defer im.mu.Unlock()
	return append([]Unit(nil), im.log...)
}

func applyUnit(m map[string][]byte, u Unit) {
	for _, w := range u.Writes {
		if w.Delete {
			delete(m, string(w.Key))
		} else {
			m[string(w.Key)] = append([]byte(nil), w.Value...)
		}
	}
}

// Prefix registers under name a new image holding the base state plus the first
// k logged units: the durable state of a run that stopped right after its k-th
// durability unit.
func (im *Image) Prefix(k int, name string) *Image {
	im.mu.Lock()
	if im.base == nil || k < 0 || k > len(im.log) {
		im.mu.Unlock()
		panic(fmt.Sprintf("crashdrv: Prefix(%d) outside log of length %d (StartLog called: %v)", k, len(im.log), im.base != nil))
	}
	m := cloneMap(im.base)
	for _, u := range im.log[:k] {
		applyUnit(m, u)
	}
	im.mu.Unlock()
	n := &Image{kv: m}
	regMu.Lock()
	registry[name] = n
	regMu.Unlock()
	return n
}

// SelfCheck reports an error if base + whole log differs from the live state
// (i.e. some write bypassed the log).
func (im *Image) SelfCheck() error {
	im.mu.Lock()
	defer im.mu.Unlock()
	if im.base == nil {
		return errors.New("crashdrv: SelfCheck without StartLog")
	}
	m := cloneMap(im.base)
	for _, u := range im.log {
		applyUnit(m, u)
	}
	if len(m) != len(im.kv) {
		return fmt.Errorf("crashdrv: replayed log has %d keys, live state %d", len(m), len(im.kv))
	}
	for k, v := range im.kv {
		if w, ok := m[k]; !ok || !bytes.Equal(v, w) {
			return fmt.Errorf("crashdrv: key %x differs between replayed log and live state", k)
		}
	}
	return nil
}

// Dump returns the live state as sorted "hexkey=hexvalue" lines (debugging, canonical keys).
func (im *Image) Dump() []string {
	im.mu.Lock()
	defer im.mu.Unlock()
	out := make([]string, 0, len(im.kv))
	for _, k := range sortedKeys(im.kv) {
		out = append(out, fmt.Sprintf("%x=%x", k, im.kv[k]))
	}
	return out
}

// Opens reports how many times the image has been opened through the driver.
func (im *Image) Opens() int {
	im.mu.Lock()
	defer im.mu.Unlock()
	return im.opens
}

func sortedKeys(m map[string][]byte) []string {
	ks := make([]string, 0, len(m))
	for k := range m {
		ks = append(ks, k)
	}
	sort.Strings(ks) // byte-wise, like goleveldb's default comparer
	return ks
}

func (im *Image) write(u Unit) {
	im.mu.Lock()
	applyUnit(im.kv, u)
	if im.logging {
		u.Mark = im.mark
		im.log = append(im.log, u)
	}
	im.mu.Unlock()
}

// ---- driver ----------------------------------------------------------------

// Driver implements driver.Driver. Open attaches to the image registered under
// the path (an unknown path creates an empty image, like opening a new directory).
type Driver struct{}

func (Driver) Open(path, options string) (driver.DB, error) {
	regMu.Lock()
	im := registry[path]
	if im == nil {
		im = &Image{kv: map[string][]byte{}}
		registry[path] = im
	}
	regMu.Unlock()
	im.mu.Lock()
	im.opens++
	im.mu.Unlock()
	return &DB{im: im}, nil
}

// DB implements driver.BatchDB on an Image.
type DB struct {
	im     *Image
	closed bool
}

var _ driver.BatchDB = (*DB)(nil)

var errClosed = errors.New("crashdrv: database closed")

func (d *DB) Put(key driver.Key, value driver.Value) error {
	if d.closed {
		return errClosed
	}
	d.im.write(Unit{Kind: "put", Writes: []Write{{Key: append([]byte(nil), key.Data...), Value: append([]byte(nil), value.Data...)}}})
	return nil
}

func (d *DB) Delete(key driver.Key) error {
	if d.closed {
		return errClosed
	}
	d.im.write(Unit{Kind: "delete", Writes: []Write{{Key: append([]byte(nil), key.Data...), Delete: true}}})
	return nil
}

func (d *DB) Get(key driver.Key) ([]byte, error) {
	if d.closed {
		return nil, errClosed
	}
	d.im.mu.Lock()
	defer d.im.mu.Unlock()
	v, ok := d.im.kv[string(key.Data)]
	if !ok {
		return nil, driver.ErrNotFound
	}
	return append([]byte{}, v...), nil
}

func (d *DB) Has(key driver.Key) (bool, error) {
	if d.closed {
		return false, errClosed
	}
	d.im.mu.Lock()
	defer d.im.mu.Unlock()
	_, ok := d.im.kv[string(key.Data)]
	return ok, nil
}

func (d *DB) Close() error {
	d.closed = true
	return nil
}

// ---- snapshot ----------------------------------------------------------------

type snapshot struct{ kv map[string][]byte }

func (d *DB) GetSnapshot() (driver.Snapshot, error) {
	if d.closed {
		return nil, errClosed
	}
	d.im.mu.Lock()
	defer d.im.mu.Unlock()
	return &snapshot{kv: cloneMap(d.im.kv)}, nil
}

func (s *snapshot) Get(key driver.Key) ([]byte, error) {
	v, ok := s.kv[string(key.Data)]
	if !ok {
		return nil, driver.ErrNotFound
	}
	return append([]byte{}, v...), nil
}

func (s *snapshot) Has(key driver.Key) (bool, error) {
	_, ok := s.kv[string(key.Data)]
	return ok, nil
}

func (s *snapshot) Close() error { return nil }

// ---- batch -------------------------------------------------------------------

type batch struct {
	d      *DB
	writes []Write
}

func (d *DB) NewBatch() driver.Batching { return &batch{d: d} }

func (b *batch) Put(key driver.Key, value driver.Value) error {
	b.writes = append(b.writes, Write{Key: append([]byte(nil), key.Data...), Value: append([]byte(nil), value.Data...)})
	return nil
}

func (b *batch) Delete(key driver.Key) error {
	b.writes = append(b.writes, Write{Key: append([]byte(nil), key.Data...), Delete: true})
	return nil
}

// Commit writes the batch as ONE durability unit (also when it is empty: goleveldb
// skips empty batches, and an empty unit changes nothing, so it is not logged).
func (b *batch) Commit() error {
	if b.d.closed {
		return errClosed
	}
	if len(b.writes) == 0 {
		return nil
	}
	b.d.im.write(Unit{Kind: "batch", Writes: append([]Write(nil), b.writes...)})
	return nil
}

// ---- cursor ------------------------------------------------------------------

// cursor iterates a point-in-time copy, with goleveldb iterator positioning:
// pos == -1 is "before first", pos == len is "after last".
type cursor struct {
	keys [][]byte
	vals [][]byte
	pos  int
}

func (d *DB) Search(q driver.Query) driver.Cursor {
	d.im.mu.Lock()
	c := &cursor{pos: -1}
	for _, k := range sortedKeys(d.im.kv) {
		if q.MatchPrefix && !bytes.HasPrefix([]byte(k), q.Prefix.Data) {
			continue
		}
		c.keys = append(c.keys, []byte(k))
		c.vals = append(c.vals, append([]byte(nil), d.im.kv[k]...))
	}
	d.im.mu.Unlock()
	c.Seek(q.Prefix)
	return c
}

func (c *cursor) Valid() bool { return c.pos >= 0 && c.pos < len(c.keys) }

func (c *cursor) Seek(key driver.Key) bool {
	c.pos = sort.Search(len(c.keys), func(i int) bool { return bytes.Compare(c.keys[i], key.Data) >= 0 })
	return c.Valid()
}

func (c *cursor) Next() bool {
	if c.pos < len(c.keys) {
		c.pos++
	}
	return c.Valid()
}

func (c *cursor) Prev() bool {
	if c.pos >= 0 {
		c.pos--
	}
	return c.Valid()
}

func (c *cursor) Last() bool {
	c.pos = len(c.keys) - 1
	return c.Valid()
}

func (c *cursor) Key() []byte {
	if !c.Valid() {
		return nil
	}
	return c.keys[c.pos]
}

func (c *cursor) Value() []byte {
	if !c.Valid() {
		return nil
	}
	return c.vals[c.pos]
}

func (c *cursor) Error() error { return nil }
func (c *cursor) Close() error { return nil }

// ---- schema (same layout and algorithm as pkg/shed/leveldb/schema.go) ----------

var keySchema = []byte{0}

const (
	keyPrefixFields     byte = 1
	keyPrefixIndexStart byte = 2
)

func (d *DB) DefaultFieldKey() []byte { return []byte{keyPrefixFields} }
func (d *DB) DefaultIndexKey() []byte { return []byte{keyPrefixIndexStart} }

func (d *DB) getSchema() (s driver.SchemaSpec, err error) {
	b, err := d.Get(driver.Key{Data: keySchema})
	if err != nil {
		return s, err
	}
	err = json.Unmarshal(b, &s)
	return s, err
}

func (d *DB) putSchema(s driver.SchemaSpec) error {
	b, err := json.Marshal(s)
	if err != nil {
		return err
	}
	return d.Put(driver.Key{Data: keySchema}, driver.Value{Data: b})
}

func (d *DB) InitSchema() error {
	_, err := d.getSchema()
	if err != nil {
		if errors.Is(err, driver.ErrNotFound) {
			return d.putSchema(driver.SchemaSpec{Fields: make([]driver.FieldSpec, 0), Indexes: make([]driver.IndexSpec, 0)})
		}
		return err
	}
	return nil
}

func (d *DB) GetSchemaSpec() (driver.SchemaSpec, error) { return d.getSchema() }

func (d *DB) CreateField(spec driver.FieldSpec) ([]byte, error) {
	if spec.Name == "" {
		return nil, errors.New("field name cannot be blank")
	}
	if spec.Type == "" {
		return nil, errors.New("field type cannot be blank")
	}
	s, err := d.getSchema()
	if err != nil {
		return nil, fmt.Errorf("get schema: %w", err)
	}
	found := false
	for _, f := range s.Fields {
		if f.Name == spec.Name {
			if f.Type != spec.Type {
				return nil, fmt.Errorf("field %q of type %q stored as %q in db", spec.Name, spec.Type, f.Type)
			}
			found = true
			break
		}
	}
	if !found {
		s.Fields = append(s.Fields, spec)
		if err := d.putSchema(s); err != nil {
			return nil, fmt.Errorf("put schema: %w", err)
		}
	}
	return append([]byte{keyPrefixFields}, []byte(spec.Name)...), nil
}

func (d *DB) CreateIndex(spec driver.IndexSpec) ([]byte, error) {
	s, err := d.getSchema()
	if err != nil {
		return nil, fmt.Errorf("get schema: %w", err)
	}
	nextID := keyPrefixIndexStart
	for _, f := range s.Indexes {
		if f.Prefix[0] >= nextID {
			nextID = f.Prefix[0] + 1
		}
		if f.Name == spec.Name {
			return f.Prefix, nil
		}
	}
	spec.Prefix = []byte{nextID}
	s.Indexes = append(s.Indexes, spec)
	return spec.Prefix, d.putSchema(s)
}

func (d *DB) RenameIndex(oldName, newName string) (bool, error) {
	if oldName == "" {
		return false, errors.New("index name cannot be blank")
	}
	if newName == "" {
		return false, errors.New("new index name cannot be blank")
	}
	if newName == oldName {
		return false, nil
	}
	s, err := d.getSchema()
	if err != nil {
		return false, fmt.Errorf("get schema: %w", err)
	}
	for i, f := range s.Indexes {
		if f.Name == oldName {
			s.Indexes[i].Name = newName
			return true, d.putSchema(s)
		}
		if f.Name == newName {
			return true, nil
		}
	}
	return false, nil
}
