//go:build verif
// +build verif

package routetab

// C28 (part D): "a recorded path never contains the recording node", at handler level.
//
// One real Service receives, through its registered onRouteReq / onRouteResp handlers,
// a message from a neighbour whose path (built with the real signing chain) contains
// the node itself at every possible position - first, middle, last - or not at all.
// Nothing that contains the node may be recorded, returned or sent on.
// (In a network this situation needs a response assembled from a passive path of an
// earlier discovery that reaches its origin again through a merged pending list - a
// 7-node scenario; the invariant the handlers must enforce is the same.)

import (
	"bytes"
	"context"
	"fmt"
	"io/ioutil"
	"strings"
	"sync/atomic"
	"testing"
	"time"

	"github.com/gauss-project/aurorafs/pkg/addressbook"
	"github.com/gauss-project/aurorafs/pkg/logging"
	p2pmock "github.com/gauss-project/aurorafs/pkg/p2p/mock"
	"github.com/gauss-project/aurorafs/pkg/p2p/protobuf"
	"github.com/gauss-project/aurorafs/pkg/routetab/pb"
	mockstate "github.com/gauss-project/aurorafs/pkg/statestore/mock"
	"github.com/gauss-project/aurorafs/pkg/topology/lightnode"
	"github.com/gauss-project/aurorafs/pkg/zzverif/mc"
	"github.com/gauss-project/aurorafs/pkg/zzverif/netsim"
)

func TestVerifC28SelfPath(t *testing.T) {
	logger := logging.New(ioutil.Discard, 0)
	ti := topoIdxByName("kite5")
	topo := c28Topos[ti]
	var world *c28World
	defer func() {
		if world != nil {
			for _, db := range world.dbs {
				db.Close()
			}
		}
	}()
	savedAlpha, savedTTL, savedPT := NeighborAlpha, atomic.LoadInt32(&MaxTTL), PendingTimeout
	defer func() { NeighborAlpha = savedAlpha; atomic.StoreInt32(&MaxTTL, savedTTL); PendingTimeout = savedPT }()

	receivers := []int{0, 1} // quick: A (two neighbours) and B (three)
	if mc.Thorough() {
		receivers = []int{0, 1, 2, 3, 4}
	}
	var recvNames []string
	for _, r := range receivers {
		recvNames = append(recvNames, c28Letters[r:r+1])
	}

	mc.Run(t, mc.Config{ID: "C28", Name: "C28-self-in-received-path", MaxDev: -1, Params: map[string]interface{}{
		"topology": topo.name + " (the receiving node's neighbours)", "receiver": recvNames, "sender": "every neighbour of the receiver",
		"message":     []string{"RouteReq", "RouteResp"},
		"path":        "every sequence of 1..3 distinct other nodes ending in the sender, with the receiver inserted at every position (first ... last) or not at all; real signing chain",
		"second_path": "RouteResp only: none / a clean second path / the clean path first and the path with the receiver second",
		"dest":        "origin of the path, its middle element, the receiver, X (thorough: every node and X)", "pending_requester": []bool{false, true}, "max_ttl": 10}},
		func(x *mc.X) {
			self := receivers[x.Choose(len(receivers))]
			var nbrs, others []int
			for i := 0; i < topo.n; i++ {
				if i != self {
					others = append(others, i)
					if topo.adj(self, i) {
						nbrs = append(nbrs, i)
					}
				}
			}
			sender := nbrs[x.Choose(len(nbrs))]
			kind := []string{"req", "resp"}[x.Choose(2)]
			// sequences of distinct other nodes ending in the sender
			var rest []int
			for _, o := range others {
				if o != sender {
					rest = append(rest, o)
				}
			}
			seqs := [][]int{{sender}}
			for _, a := range rest {
				seqs = append(seqs, []int{a, sender})
				for _, b := range rest {
					if b != a {
						seqs = append(seqs, []int{a, b, sender})
					}
				}
			}
			base := seqs[x.Choose(len(seqs))]
			pos := x.Choose(len(base)+2) - 1 // -1: not at all; 0..len(base): insert the receiver there
			path := append([]int{}, base...)
			if pos >= 0 {
				path = append(append(append([]int{}, base[:pos]...), self), base[pos:]...)
			}
			second := 0
			if kind == "resp" {
				second = x.Choose(3)
			}
			// destination: the path's origin, its middle element, the receiver itself, X (thorough: every node)
			dests := []int{path[0]}
			for _, d := range []int{path[len(path)/2], self, c28X} {
				dup := false
				for _, e := range dests {
					if e == d {
						dup = true
					}
				}
				if !dup {
					dests = append(dests, d)
				}
			}
			if mc.Thorough() {
				dests = append(append([]int{}, others...), self, c28X)
			}
			dest := dests[x.Choose(len(dests))]
			pendingReq := x.Choose(2) == 1
			names := func(p []int) string {
				var sb strings.Builder
				for _, i := range p {
					sb.WriteByte(c28Letters[i])
				}
				return sb.String()
			}
			where := "not at all"
			switch {
			case pos == 0:
				where = "first"
				x.Tag("receiver-first-in-path")
			case pos == len(base):
				where = "last"
				x.Tag("receiver-last-in-path")
			case pos > 0:
				where = "in the middle"
				x.Tag("receiver-in-the-middle-of-path")
			}
			x.Logf("node %c receives a Route%s for %c from %c with path %s (receiver %s), second path variant %d, pending requester %v", c28Letters[self], kind, c28Letters[dest], c28Letters[sender], names(path), where, second, pendingReq)

			if world == nil {
				var err error
				world, err = c28BuildWorld(topo, logger)
				x.NoErr(err, "build kademlias")
			}
			atomic.StoreInt32(&MaxTTL, 10)
			PendingTimeout = time.Hour
			ctx, cancel := context.WithCancel(context.Background())
			defer cancel()
			net := netsim.New(c28Canon)
			book := addressbook.New(mockstate.NewStateStore())
			for j := 0; j < topo.n; j++ {
				if topo.adj(self, j) {
					x.NoErr(book.Put(c28Idents[j].overlay, *c28Idents[j].addr), "addressbook")
				}
			}
			svc := New(c28Idents[self].overlay, ctx, p2pmock.New(), net.Streamer(c28Idents[self].overlay), book, 0,
				lightnode.NewContainer(c28Idents[self].overlay), world.kads[self], mockstate.NewStateStore(), logger, Options{Alpha: 3})
			net.AddNode(c28Idents[self].overlay, svc.Protocol())
			if pendingReq {
				// somebody asked this node for the destination before: a response will be forwarded
				for _, o := range nbrs {
					if o != sender {
						svc.pendingCalls.Add(c28Idents[dest].overlay, c28Idents[o].overlay, c28Idents[sender].overlay, nil)
						break
					}
				}
			}
			sign := func(p []int) *pb.Path {
				var cur []*pb.Path
				for _, i := range p {
					cur = newRouteTable(c28Idents[i].overlay, nil).generatePaths(cur)
				}
				return cur[0]
			}
			paths := []*pb.Path{sign(path)}
			switch second {
			case 1:
				paths = append(paths, sign(base))
			case 2:
				paths = []*pb.Path{sign(base), sign(path)}
			}
			var buf bytes.Buffer
			wr := protobuf.NewWriter(c28RW{&buf})
			stream := streamOnRouteReq
			if kind == "req" {
				x.NoErr(wr.WriteMsgWithContext(ctx, &pb.RouteReq{Dest: c28Idents[dest].overlay.Bytes(), Alpha: 3, Paths: paths[:1], UType: uTypeTarget}), "encode")
			} else {
				stream = streamOnRouteResp
				x.NoErr(wr.WriteMsgWithContext(ctx, &pb.RouteResp{Dest: c28Idents[dest].overlay.Bytes(), Paths: paths, UType: uTypeTarget}), "encode")
			}
			// put the message on the wire as coming from the sender and deliver it to the real handler
			st, err := net.Streamer(c28Idents[sender].overlay).NewStream(ctx, c28Idents[self].overlay, nil, ProtocolName, ProtocolVersion, stream)
			x.NoErr(err, "open stream")
			_, err = st.Write(buf.Bytes())
			x.NoErr(err, "write")
			var in *netsim.Msg
			for _, m := range net.InFlight() {
				in = m
			}
			if _, err := net.Deliver(ctx, in); err != nil {
				x.Broken("handler returned %v", err)
			}

			// ---- nothing that contains the receiver may have been recorded, returned or sent on ----
			recorded := 0
			svc.routeTable.paths.Range(func(_, v interface{}) bool {
				p := v.(*Path)
				recorded++
				for _, it := range p.Items {
					if it.Equal(svc.self) {
						x.Fail("received-path-containing-self-recorded", "node %c recorded path %s received in a Route%s from %c (receiver %s in the received path %s)",
							c28Letters[self], c28AddrPath(p.Items), kind, c28Letters[sender], where, names(path))
					}
				}
				return true
			})
			for tgt := range c28Idents {
				ps, err := svc.GetRoute(ctx, c28Idents[tgt].overlay)
				if err != nil {
					continue
				}
				for _, p := range ps {
					for _, it := range p.Items {
						if it.Equal(svc.self) {
							x.Fail("received-path-containing-self-returned", "GetRoute(%c) at %c returns %s", c28Letters[tgt], c28Letters[self], c28AddrPath(p.Items))
						}
					}
				}
			}
			sent := 0
			for _, m := range net.InFlight() {
				d := c28Decode(m)
				if !d.ok {
					x.Broken("undecodable message sent")
				}
				sent++
				for _, p := range d.paths {
					for i, it := range p {
						if bytes.Equal(it, svc.self.Bytes()) && i != len(p)-1 {
							x.Fail("received-path-containing-self-sent-on", "node %c sent %s", c28Letters[self], c28Canon(m))
						}
					}
				}
			}
			if pos >= 0 {
				x.Nontrivial()
			}
			x.Outcome(fmt.Sprintf("receiver-%s:recorded=%v:sent=%v", strings.ReplaceAll(where, " ", "-"), recorded > 0, sent > 0))
		})
}

func topoIdxByName(name string) int {
	for i, c := range c28Topos {
		if c.name == name {
			return i
		}
	}
	panic("no topology " + name)
}
