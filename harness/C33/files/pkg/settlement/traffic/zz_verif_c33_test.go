//go:build verif && go1.18
// +build verif,go1.18

package traffic

import (
	"context"
	"fmt"
	"io"
	"math/big"
	"testing"

	"github.com/ethereum/go-ethereum/common"
	"github.com/ethereum/go-ethereum/core/types"
	"github.com/gauss-project/aurorafs/pkg/boson"
	"github.com/gauss-project/aurorafs/pkg/crypto"
	"github.com/gauss-project/aurorafs/pkg/logging"
	"github.com/gauss-project/aurorafs/pkg/p2p"
	chequePkg "github.com/gauss-project/aurorafs/pkg/settlement/traffic/cheque"
	"github.com/gauss-project/aurorafs/pkg/statestore/mock"
	"github.com/gauss-project/aurorafs/pkg/storage"
	"github.com/gauss-project/aurorafs/pkg/subscribe"
	"github.com/gauss-project/aurorafs/pkg/zzverif/mc"
	"github.com/gauss-project/aurorafs/pkg/zzverif/vsched"
)

const c33ChainID = 1

// ---- logging state store: every Put/Delete is one durability unit ----------------------------

type c33write struct {
	key   string
	val   interface{} // nil = delete
	clock int
}

type c33store struct {
	storage.StateStorer
	log   []c33write
	clock *int
}

func (s *c33store) Get(key string, i interface{}) error {
	vsched.Point("store.Get")
	return s.StateStorer.Get(key, i)
}

// a store call is an I/O operation: the caller can be descheduled right before it,
// after its arguments have been evaluated
func (s *c33store) Put(key string, i interface{}) error {
	vsched.Point("store.Put")
	*s.clock++
	s.log = append(s.log, c33write{key, i, *s.clock})
	return s.StateStorer.Put(key, i)
}
func (s *c33store) Delete(key string) error {
	vsched.Point("store.Delete")
	*s.clock++
	s.log = append(s.log, c33write{key, nil, *s.clock})
	return s.StateStorer.Delete(key)
}

// ---- stubs -------------------------------------------------------------------------------------

type c33Chain struct{ self common.Address }

func (c *c33Chain) TransferredAddress(common.Address) ([]common.Address, error) { return nil, nil }
func (c *c33Chain) RetrievedAddress(common.Address) ([]common.Address, error)   { return nil, nil }
func (c *c33Chain) BalanceOf(common.Address) (*big.Int, error)                  { return big.NewInt(1000), nil }
func (c *c33Chain) RetrievedTotal(common.Address) (*big.Int, error)             { return big.NewInt(0), nil }
func (c *c33Chain) TransferredTotal(common.Address) (*big.Int, error)           { return big.NewInt(0), nil }
func (c *c33Chain) TransAmount(_, _ common.Address) (*big.Int, error)           { return big.NewInt(0), nil }
func (c *c33Chain) CashChequeBeneficiary(context.Context, boson.Address, common.Address, common.Address, *big.Int, []byte) (*types.Transaction, error) {
	return nil, fmt.Errorf("not used")
}

type c33PubSub struct{}

func (c33PubSub) Subscribe(subscribe.INotifier, string, string, string) error { return nil }
func (c33PubSub) Publish(string, string, string, interface{}) error           { return nil }
func (c33PubSub) PublishArray(string, string, string, []interface{}) error    { return nil }

type c33P2P struct{ p2p.Service }

func (c33P2P) Disconnect(boson.Address, string) error { return nil }

type c33Cashout struct{}

func (c33Cashout) CashCheque(context.Context, boson.Address, common.Address, common.Address) (common.Hash, error) {
	return common.Hash{}, nil
}
func (c33Cashout) WaitForReceipt(context.Context, common.Hash) (uint64, error) { return 1, nil }

type c33Proto struct {
	emitted []int64
	clock   *int
	clocks  []int
}

func (p *c33Proto) EmitCheque(_ context.Context, _ boson.Address, c *chequePkg.SignedCheque) error {
	*p.clock++
	p.emitted = append(p.emitted, c.CumulativePayout.Int64())
	p.clocks = append(p.clocks, *p.clock)
	return nil
}

var (
	c33Self   common.Address
	c33Signer chequePkg.ChequeSigner
	c33PeerA  common.Address
	c33PeerO  boson.Address
)

func init() {
	b := make([]byte, 32)
	for i := range b {
		b[i] = 1
	}
	s := crypto.NewDefaultSigner(crypto.Secp256k1PrivateKeyFromBytes(b))
	c33Self, _ = s.EthereumAddress()
	c33Signer = chequePkg.NewChequeSigner(s, c33ChainID)
	for i := range b {
		b[i] = 2
	}
	s2 := crypto.NewDefaultSigner(crypto.Secp256k1PrivateKeyFromBytes(b))
	c33PeerA, _ = s2.EthereumAddress()
	ov := make([]byte, 32)
	for i := range ov {
		ov[i] = 0xfd
	}
	c33PeerO = boson.NewAddress(ov)
}

func c33start(x *mc.X, st storage.StateStorer, proto *c33Proto, register bool) *Service {
	ab := NewAddressBook(st)
	if register {
		x.NoErr(ab.PutBeneficiary(c33PeerO, c33PeerA), "register peer")
	}
	cs := chequePkg.NewChequeStore(st, c33Self, chequePkg.RecoverCheque, c33ChainID)
	svc := New(logging.New(io.Discard, 0), c33Self, st, &c33Chain{c33Self}, cs, c33Cashout{}, c33P2P{}, ab, c33Signer, proto, c33ChainID, c33PubSub{})
	svc.SetNotifyPaymentFunc(func(boson.Address, *big.Int) error { return nil })
	x.NoErr(svc.Init(), "Service.Init")
	return svc
}

type c33alpha struct {
	kind string // retrieve transfer pay
	amt  int64
}

type c33done struct {
	op     c33alpha
	ret    int   // clock at return (0 = did not return)
	cheque int64 // in-memory last sent cumulative payout when a pay returned
}

var c33ops = []c33alpha{{"retrieve", 3}, {"retrieve", 7}, {"transfer", 5}, {"transfer", 2}, {"pay", 5}}

func TestVerifC33(t *testing.T) {
	maxDev := mc.Pick(2, 3)
	nThreads := mc.Pick(2, 3)
	mc.Run(t, mc.Config{ID: "C33", Name: "C33-traffic-restart", MaxDev: maxDev, ShardLevels: 3, Params: map[string]interface{}{
		"threads": nThreads, "ops_per_thread": "1 (threads 0 and 1 may get 2 in the thorough tier)", "alphabet": fmt.Sprint(c33ops), "delay_bound": maxDev,
		"crash": "restart on every prefix of the state-store write log (0..n writes) after the concurrent phase",
		"peers": 1}},
		func(x *mc.X) { c33explore(x, nThreads, false) })
}

type c33shape struct {
	chain   common.Address
	overlay boson.Address
}

// c33Shapes: one peer per first hex digit of the chain address (derived from the keys 0x03.., 0x04.., ...)
var c33Shapes = func() []c33shape {
	var out []c33shape
	seen := map[byte]bool{}
	for seed := 3; seed < 250 && len(out) < 16; seed++ {
		b := make([]byte, 32)
		for i := range b {
			b[i] = byte(seed)
		}
		a, err := crypto.NewDefaultSigner(crypto.Secp256k1PrivateKeyFromBytes(b)).EthereumAddress()
		if err != nil {
			continue
		}
		d := a[0] >> 4
		if seen[d] {
			continue
		}
		seen[d] = true
		ov := make([]byte, 32)
		for i := range ov {
			ov[i] = byte(seed)
		}
		out = append(out, c33shape{a, boson.NewAddress(ov)})
	}
	return out
}()

// TestVerifC33Shapes: the restart clauses for peers of every chain-address shape (the store keys
// embed the address in hex), default schedule only.
func TestVerifC33Shapes(t *testing.T) {
	mc.Run(t, mc.Config{ID: "C33", Name: "C33-restart-address-shapes", MaxDev: 0, Params: map[string]interface{}{
		"peers": fmt.Sprintf("%d chain addresses, one per first hex digit", len(c33Shapes)), "program": "retrieve 3, pay, transfer 2, retrieve 7, pay on one thread",
		"crash": "restart on every prefix of the state-store write log"}},
		func(x *mc.X) { c33explore(x, 1, true) })
}

func c33explore(x *mc.X, nThreads int, shapes bool) {
	// Payments are issued by accounting's single settle goroutine, one at a time: only thread 0
	// pays. Mode 1 is one driver thread alternating traffic and payments (two cheques in a row).
	var progs [][]c33alpha
	if shapes {
		// peer identities by the shape of their chain address (first hex digit 0..f): one
		// driver thread, traffic and payments in both directions, then every restart point
		k := x.Choose(len(c33Shapes))
		savedA, savedO := c33PeerA, c33PeerO
		c33PeerA, c33PeerO = c33Shapes[k].chain, c33Shapes[k].overlay
		defer func() { c33PeerA, c33PeerO = savedA, savedO }()
		x.Logf("peer chain address %s", c33PeerA.Hex())
		progs = [][]c33alpha{{{"retrieve", 3}, {"pay", 1}, {"transfer", 2}, {"retrieve", 7}, {"pay", 1}}}
	} else if x.Choose(2) == 1 {
		progs = [][]c33alpha{{{"retrieve", 3}, {"pay", 1}, {"retrieve", 7}, {"pay", 1}}}
		if mc.Thorough() && x.Bool() {
			progs = append(progs, []c33alpha{{"transfer", 2}})
		}
	} else {
		progs = make([][]c33alpha, nThreads)
		prev := -1
		for i := range progs {
			menu := len(c33ops)
			if i > 0 {
				menu-- // "pay" is the last entry: traffic updates only
			}
			k := x.Choose(menu)
			if i > 1 && k < prev {
				x.Logf("symmetric duplicate skipped")
				return
			}
			prev = k
			progs[i] = append(progs[i], c33ops[k])
			if i == 0 && c33ops[k].kind != "pay" && x.Bool() {
				progs[i] = append(progs[i], c33alpha{"pay", 1})
			}
		}
		if mc.Thorough() {
			if k := x.Choose(len(c33ops)); k > 0 {
				progs[0] = append(progs[0], c33ops[k-1])
			}
		}
	}
	x.Logf("programs %v", progs)
	clock := 0
	base := mock.NewStateStore()
	st := &c33store{StateStorer: base, clock: &clock}
	proto := &c33Proto{clock: &clock}
	var done []*c33done
	setupWrites := 0
	verdict := vsched.Run(x, vsched.Options{MaxSteps: 20000, DelayBounded: true}, func(s *vsched.S) {
		svc := c33start(x, st, proto, true)
		setupWrites = len(st.log)
		for i := range progs {
			prog, name := progs[i], fmt.Sprintf("T%d", i)
			s.Go(name, func() {
				for _, a := range prog {
					d := &c33done{op: a}
					done = append(done, d)
					var err error
					switch a.kind {
					case "retrieve":
						err = svc.PutRetrieveTraffic(c33PeerO, big.NewInt(a.amt))
					case "transfer":
						err = svc.PutTransferTraffic(c33PeerO, big.NewInt(a.amt))
					case "pay":
						err = svc.Pay(context.Background(), c33PeerO, big.NewInt(a.amt))
					}
					if err != nil && err != ErrInsufficientFunds {
						x.Broken("operation %v failed: %v", a, err)
					}
					if a.kind == "pay" {
						d.cheque = svc.getTraffic(c33PeerA).retrieveChequeTraffic.Int64()
					}
					clock++
					d.ret = clock
				}
			})
		}
		s.Quiesce()
		if s.Preemptions() > 0 {
			x.Nontrivial()
		}
	})
	if verdict != "" {
		x.Fail("deadlock", "scheduler verdict %s", verdict)
	}
	// ---- restart at a prefix of the write log ------------------------------------
	n := len(st.log) - setupWrites
	k := x.Choose(n + 1) // 0 => everything persisted ... choice c keeps n-c writes
	keep := setupWrites + n - k
	cutClock := 1 << 30
	if keep < len(st.log) {
		cutClock = st.log[keep].clock // the first dropped write was issued at this clock
	}
	lastKept := 0
	if keep > 0 {
		lastKept = st.log[keep-1].clock
	}
	img := mock.NewStateStore()
	for _, w := range st.log[:keep] {
		if w.val == nil {
			_ = img.Delete(w.key)
		} else {
			x.NoErr(img.Put(w.key, w.val), "rebuild image")
		}
	}
	// acknowledged before the crash = returned before the last surviving write was issued
	// (the crash lies after that write); with nothing dropped everything is acknowledged
	var ackRetrieve, ackTransfer, allRetrieve, ackCheque int64
	for _, d := range done {
		acked := d.ret != 0 && (keep == len(st.log) || d.ret < lastKept)
		if acked && d.cheque > ackCheque {
			ackCheque = d.cheque
		}
		switch d.op.kind {
		case "retrieve":
			allRetrieve += d.op.amt
			if acked {
				ackRetrieve += d.op.amt
			}
		case "transfer":
			if acked {
				ackTransfer += d.op.amt
			}
		}
	}
	var ackEmitted int64
	for i, c := range proto.emitted {
		if keep == len(st.log) || proto.clocks[i] < lastKept {
			if c > ackEmitted {
				ackEmitted = c
			}
		}
	}
	_ = cutClock
	x.Logf("write log: %d writes after setup, restart keeps %d; acknowledged retrieve=%d transfer=%d emitted-cumulative=%d", n, n-k, ackRetrieve, ackTransfer, ackEmitted)
	if k > 0 {
		x.Tag("crash-inside-history")
	}
	proto2 := &c33Proto{clock: &clock}
	verdict = vsched.Run(x, vsched.Options{MaxSteps: 20000, Sequential: true}, func(s *vsched.S) {
		svc := c33start(x, img, proto2, false)
		tr := svc.getTraffic(c33PeerA)
		gotR, gotT := tr.retrieveTraffic.Int64(), tr.transferTraffic.Int64()
		x.Logf("restored retrieve=%d transfer=%d cheque=%d", gotR, gotT, tr.retrieveChequeTraffic.Int64())
		if gotR < ackRetrieve {
			x.Fail("restored-retrieve-total-below-acknowledged", "after restart the consumed-traffic total is %d but %d had been acknowledged before the restart (programs %v, %d of %d writes survived)", gotR, ackRetrieve, progs, n-k, n)
		}
		if got := tr.retrieveChequeTraffic.Int64(); got < ackCheque {
			x.Fail("restored-last-cheque-below-acknowledged", "after restart the last sent cumulative payout is %d but a payment that had returned before the restart had sent %d (programs %v, %d of %d writes survived)", got, ackCheque, progs, n-k, n)
		}
		if gotT < ackTransfer {
			x.Fail("restored-transfer-total-below-acknowledged", "after restart the served-traffic total is %d but %d had been acknowledged before the restart (programs %v, %d of %d writes survived)", gotT, ackTransfer, progs, n-k, n)
		}
		// a cheque issued after the restart
		_ = svc.PutRetrieveTraffic(c33PeerO, big.NewInt(6))
		_ = svc.Pay(context.Background(), c33PeerO, big.NewInt(1))
		s.Quiesce()
		for _, c := range proto2.emitted {
			if c > allRetrieve+6 {
				x.Fail("cheque-after-restart-exceeds-traffic", "cheque with cumulative payout %d issued after restart although only %d traffic was ever consumed", c, allRetrieve+6)
			}
			if k == 0 && c <= ackEmitted {
				x.Fail("cheque-after-clean-restart-not-increasing", "cheque with cumulative payout %d issued after a clean restart; %d had already been sent", c, ackEmitted)
			}
		}
	})
	if verdict != "" {
		x.Fail("deadlock-after-restart", "scheduler verdict %s", verdict)
	}
	x.Outcome(fmt.Sprintf("writes=%d", n))
	x.State(fmt.Sprintf("%v|%d|%d|%d|%d|%v|%v", progs, n, k, ackRetrieve, ackTransfer, proto.emitted, proto2.emitted))
}
