//go:build verif
// +build verif

// Stub mounted over the stale upstream test file (it does not compile in the
// pinned tree: chunkinfo mock lacks GetManifest, shed.TestDriver is undefined).
package localstore
