//go:build verif
// +build verif

package soc

import (
	"bytes"
	"encoding/binary"
	"fmt"
	"testing"

	gethcrypto "github.com/ethereum/go-ethereum/crypto"
	"github.com/gauss-project/aurorafs/pkg/boson"
	"github.com/gauss-project/aurorafs/pkg/cac"
	"github.com/gauss-project/aurorafs/pkg/crypto"
	"github.com/gauss-project/aurorafs/pkg/zzverif/keyalpha"
	"github.com/gauss-project/aurorafs/pkg/zzverif/mc"
	"golang.org/x/crypto/sha3"
)

// ---- independent reference ---------------------------------------------------

func verifKeccak(parts ...[]byte) []byte {
	h := sha3.NewLegacyKeccak256()
	for _, p := range parts {
		h.Write(p)
	}
	return h.Sum(nil)
}

// naive BMT from the definition (see harness C04): keccak(span || merkle root of
// the data zero-padded to ChunkSize, leaves = keccak of 64-byte pieces).
func verifRoot(padded []byte) []byte {
	if len(padded) == 64 {
		return verifKeccak(padded)
	}
	h := len(padded) / 2
	return verifKeccak(verifRoot(padded[:h]), verifRoot(padded[h:]))
}

func verifBMT(payload []byte) []byte {
	padded := make([]byte, boson.ChunkSize)
	copy(padded, payload[8:])
	return verifKeccak(payload[:8], verifRoot(padded))
}

// verifRecoverOwner recovers the Ethereum address of the signer of `digest`
// (EIP-191 personal message over the 32-byte digest) with go-ethereum's
// Ecrecover (libsecp256k1), after normalising the 65-byte r||s||v signature:
// v = 27..34 encodes recovery id (v-27)&3 and a "compressed key" flag (v-27)&4
// that does not belong to the signature proper.
func verifRecoverOwner(sig, digest []byte) (owner []byte, ok bool) {
	if len(sig) != 65 || sig[64] < 27 || sig[64] > 34 {
		return nil, false
	}
	msg := verifKeccak([]byte(fmt.Sprintf("\x19Ethereum Signed Message:\n%d", len(digest))), digest)
	n := append([]byte{}, sig...)
	n[64] = (sig[64] - 27) & 3
	pub, err := gethcrypto.Ecrecover(msg, n)
	if err != nil || len(pub) != 65 {
		return nil, false
	}
	return verifKeccak(pub[1:])[12:], true
}

// verifRefValid evaluates the statement on a raw (address, data) pair.
func verifRefValid(addr, data []byte) (valid bool, why string, owner []byte) {
	C := boson.ChunkSize
	if len(data) < 32+65+8 {
		return false, "shorter than id+signature+span", nil
	}
	id, sig, payload := data[:32], data[32:97], data[97:]
	if len(payload) > C+8 {
		return false, "wrapped payload too long", nil
	}
	wrapped := verifBMT(payload)
	owner, ok := verifRecoverOwner(sig, verifKeccak(id, wrapped))
	if !ok {
		return false, "signature does not recover a key", nil
	}
	if !bytes.Equal(addr, verifKeccak(id, owner)) {
		return false, "address is not keccak(id||recovered owner)", owner
	}
	return true, "", owner
}

// ---- alphabets ------------------------------------------------------------------

// verifKeys: three ordinary keys, then (appended by verifInitKeys) one boundary
// key per keyalpha class: public X / Y / both with a leading zero byte, X / Y
// with two leading zero bytes.
var verifKeys = [][]byte{
	bytes.Repeat([]byte{0x11}, 32),
	{0x63, 0x4f, 0xb5, 0xa8, 0x72, 0x39, 0x6d, 0x96, 0x93, 0xe5, 0xc9, 0xf9, 0xd7, 0x23, 0x3c, 0xfa, 0x93, 0xf3, 0x95, 0xc0, 0x93, 0x37, 0x10, 0x17, 0xff, 0x44, 0xaa, 0x9a, 0xe6, 0x56, 0x4c, 0xdd},
	append(make([]byte, 31), 0x01), // scalar 1: public key is the generator
}

var verifKeyNames = []string{"0x11..", "fixed test key", "scalar 1"}

func verifInitKeys() error {
	if len(verifKeys) > 3 {
		return nil
	}
	ks, err := keyalpha.Boundary()
	if err != nil {
		return err
	}
	for _, k := range ks {
		verifKeys = append(verifKeys, k.Priv)
		verifKeyNames = append(verifKeyNames, fmt.Sprintf("%s (stream position %d)", k.Name, k.Index))
	}
	return nil
}

func verifID(i int) []byte {
	id := make([]byte, 32)
	switch i {
	case 1:
		for k := range id {
			id[k] = 0xff
		}
	case 2:
		for k := range id {
			id[k] = byte(k*37 + 5)
		}
	}
	return id
}

type verifBase struct {
	id, owner, payload, data, addr []byte
	wrappedAddr                    []byte
	indep                          []byte // id||sig||payload signed with go-ethereum, not with the code under test
}

const (
	verifOpNone = iota
	verifOpData
	verifOpHeader
	verifOpAddr
	verifOpAddrShape
	verifOpTrunc
	verifOpExtend
	verifOpRebindID
	verifOpIndependent
)

type verifOp struct {
	kind, pos int
	val       byte
}

func verifOps(n int, header byte, full, bothXor bool) []verifOp {
	ops := []verifOp{{kind: verifOpNone}, {kind: verifOpIndependent}}
	other := header ^ 0x07 // 27 <-> 28
	for _, v := range []byte{header + 4, other, other + 4, 0, 26, 35} {
		ops = append(ops, verifOp{kind: verifOpHeader, pos: 96, val: v})
	}
	for k := 0; k < 32; k++ {
		ops = append(ops, verifOp{kind: verifOpAddr, pos: k, val: 0x01})
		if bothXor {
			ops = append(ops, verifOp{kind: verifOpAddr, pos: k, val: 0x80})
		}
	}
	for k := 0; k < 3; k++ {
		ops = append(ops, verifOp{kind: verifOpAddrShape, pos: k})
	}
	// replay of the signed payload under another id: id byte changed AND the
	// address recomputed as keccak(id'||owner)
	for _, p := range []int{0, 15, 31} {
		ops = append(ops, verifOp{kind: verifOpRebindID, pos: p, val: 0x01}, verifOp{kind: verifOpRebindID, pos: p, val: 0x80})
	}
	if !full {
		return ops
	}
	for p := 0; p < n; p++ {
		ops = append(ops, verifOp{kind: verifOpData, pos: p, val: 0x01}, verifOp{kind: verifOpData, pos: p, val: 0x80})
	}
	for t := 0; t < n; t++ {
		ops = append(ops, verifOp{kind: verifOpTrunc, pos: t})
	}
	ops = append(ops, verifOp{kind: verifOpExtend})
	return ops
}

// verifChooseIdx picks an index 0..n-1 as two choices (block of 8, offset), so
// that the engine's sharding on the first two choice levels can skip whole
// blocks that belong to another shard.
func verifChooseIdx(x *mc.X, n int) int {
	const k = 8
	hi := x.Choose((n + k - 1) / k)
	rem := n - hi*k
	if rem > k {
		rem = k
	}
	return hi*k + x.Choose(rem)
}

func TestVerifC05(t *testing.T) {
	C := boson.ChunkSize
	if C > 4096 {
		t.Fatalf("BROKEN-CHECK C05 is meant to run at the scaled geometry (ChunkSize=%d)", C)
	}
	if err := verifInitKeys(); err != nil {
		t.Fatalf("BROKEN-CHECK %v", err)
	}
	nk := len(verifKeys)
	dataLens := []int{1, 32, C}
	thorough := mc.Thorough()
	baseMemo := map[int]*verifBase{}
	opsMemo := map[int][]verifOp{}

	mc.Run(t, mc.Config{ID: "C05", Name: "C05-soc", MaxDev: -1, Params: map[string]interface{}{
		"keys":              verifKeyNames,
		"key_search":        "boundary keys: first key of each class in the stream priv_i = keccak256('verif-boundary-key-stream'||BE64(i)); bound 2^13 positions (one leading zero byte), 2^20 (both coordinates / two leading zero bytes)",
		"ids":               []string{"zero", "0xff..", "fixed pattern"},
		"wrapped_data_lens": dataLens,
		"chunk_size_C":      C,
		"combos":            "all keys x ids x lens: unmutated round trip (owner compared with go-ethereum's PubkeyToAddress for every key), a chunk signed independently with go-ethereum, signature header byte values, id re-binding, address lengths, every address byte (xor 0x01; also xor 0x80 on full combos); byte mutations and truncations on one combo per key (id index = key mod 3, len index = (key+id) mod 3) in quick / all combos in thorough",
		"independent":       "id||sig||span||data with sig = go-ethereum crypto.Sign over the EIP-191 hash of keccak(id||wrapped address), v = 27+recid, address = keccak(id||PubkeyToAddress(key)): must be Valid and parse to that owner",
		"data_mutation":     "every byte of id(32)+signature(65)+span(8)+data, xor 0x01 and xor 0x80",
		"header_byte":       "signature byte 64 set to {v+4, other recovery id, other recovery id+4, 0, 26, 35}",
		"address_mutation":  "every byte xor 0x01 and xor 0x80; 31 bytes; 33 bytes; empty",
		"truncation":        "to every length 0..len-1, and extension by one zero byte",
		"id_rebinding":      "id byte {0,15,31} xor {0x01,0x80} with the address recomputed as keccak(id'||owner) (signed payload replayed under another id)",
	}}, func(x *mc.X) {
		combo := x.Choose(nk * 9)
		ki, ii, li := combo/9, (combo/3)%3, combo%3
		full := thorough || (ii == ki%3 && li == (ki+ii)%3)

		b := baseMemo[combo]
		if b == nil {
			// build and sign with the code under test
			priv := crypto.Secp256k1PrivateKeyFromBytes(verifKeys[ki])
			signer := crypto.NewDefaultSigner(priv)
			id := verifID(ii)
			wd := make([]byte, dataLens[li])
			for k := range wd {
				wd[k] = byte(k*29+3) | 1
			}
			wrapped, err := cac.New(wd)
			x.NoErr(err, "cac.New")
			sch, err := New(append([]byte{}, id...), wrapped).Sign(signer)
			x.NoErr(err, "Sign")
			// independent owner of the key
			gk, err := gethcrypto.ToECDSA(verifKeys[ki])
			x.NoErr(err, "geth ToECDSA")
			span := make([]byte, 8)
			binary.LittleEndian.PutUint64(span, uint64(len(wd)))
			b = &verifBase{id: id, owner: gethcrypto.PubkeyToAddress(gk.PublicKey).Bytes(), payload: append(span, wd...),
				data: append([]byte{}, sch.Data()...), addr: append([]byte{}, sch.Address().Bytes()...)}
			b.wrappedAddr = verifBMT(b.payload)
			// the same chunk made without the code under test
			digest := verifKeccak(id, b.wrappedAddr)
			msg := verifKeccak([]byte(fmt.Sprintf("\x19Ethereum Signed Message:\n%d", len(digest))), digest)
			isig, err := gethcrypto.Sign(msg, gk)
			x.NoErr(err, "geth Sign")
			isig[64] += 27
			b.indep = append(append(append([]byte{}, id...), isig...), b.payload...)
			baseMemo[combo] = b
		}
		n := len(b.data)
		ops := opsMemo[combo]
		if ops == nil {
			hdr := byte(27)
			if n > 96 {
				hdr = b.data[96]
			}
			ops = verifOps(n, hdr, full, full)
			opsMemo[combo] = ops
		}
		op := ops[verifChooseIdx(x, len(ops))]
		x.Logf("key %d [%s] id %d wrapped data %d bytes: serialized %d bytes, header byte %d", ki, verifKeyNames[ki], ii, dataLens[li], n, b.data[96])

		data := append([]byte{}, b.data...)
		addr := append([]byte{}, b.addr...)
		region := ""
		switch op.kind {
		case verifOpNone:
			x.Logf("unmutated")
		case verifOpIndependent:
			data = append([]byte{}, b.indep...)
			addr = verifKeccak(b.id, b.owner)
			x.Logf("chunk signed with go-ethereum, address = keccak(id||PubkeyToAddress(key))")
		case verifOpData:
			data[op.pos] ^= op.val
			switch {
			case op.pos < 32:
				region = "id"
			case op.pos < 96:
				region = "signature-rs"
			case op.pos == 96:
				region = "signature-header"
			case op.pos < 105:
				region = "span"
			default:
				region = "wrapped-data"
			}
			x.Logf("data byte %d (%s) ^= %#x", op.pos, region, op.val)
		case verifOpHeader:
			data[96] = op.val
			region = "signature-header"
			x.Logf("signature header byte := %d", op.val)
		case verifOpAddr:
			addr[op.pos] ^= op.val
			region = "address"
			x.Logf("address byte %d ^= %#x", op.pos, op.val)
		case verifOpAddrShape:
			region = "address-length"
			switch op.pos {
			case 0:
				addr = addr[:31]
			case 1:
				addr = append(addr, 0)
			default:
				addr = nil
			}
			x.Logf("address length := %d", len(addr))
		case verifOpTrunc:
			data = data[:op.pos]
			region = "truncated"
			x.Logf("truncated to %d bytes", op.pos)
		case verifOpRebindID:
			data[op.pos] ^= op.val
			addr = verifKeccak(data[:32], b.owner)
			region = "id-rebound"
			x.Logf("id byte %d ^= %#x and address := keccak(id'||owner)", op.pos, op.val)
		case verifOpExtend:
			data = append(data, 0)
			region = "extended"
			x.Logf("extended by one zero byte")
		}

		ch := boson.NewChunk(boson.NewAddress(addr), data)
		var got bool
		if pv := mc.Try(func() { got = Valid(ch) }); pv != nil {
			x.Fail("panic-valid", "Valid panicked (%s): %v", region, pv)
		}
		var s *SOC
		var ferr error
		if pv := mc.Try(func() { s, ferr = FromChunk(ch) }); pv != nil {
			x.Fail("panic-fromchunk", "FromChunk panicked (%s): %v", region, pv)
		}
		want, why, refOwner := verifRefValid(addr, data)
		x.Logf("Valid=%v FromChunk err=%v reference valid=%v %s", got, ferr, want, why)

		if op.kind == verifOpIndependent {
			if !want || !bytes.Equal(refOwner, b.owner) {
				x.Broken("harness built an independent chunk its own reference rejects: %s", why)
			}
			x.Nontrivial()
			x.Tag("independently-signed")
			x.Check(got, "rejects-independently-signed-chunk", "a chunk signed by key %d [%s] outside the code under test (address = keccak(id||key's Ethereum address %x)) is not Valid", ki, verifKeyNames[ki], b.owner)
			x.Check(ferr == nil && s != nil, "rejects-independently-signed-chunk", "FromChunk failed on an independently signed chunk: %v", ferr)
			x.Check(bytes.Equal(s.owner, b.owner), "owner-is-not-the-keys-ethereum-address", "FromChunk reports owner %x, the key's Ethereum address is %x (key %d [%s])", s.owner, b.owner, ki, verifKeyNames[ki])
			x.Outcome("independent->valid")
			return
		}
		if op.kind == verifOpNone {
			// owner-specific clauses first, so that a wrong owner derivation gets its own key
			x.Check(ferr == nil && s != nil, "fromchunk-rejects-signed-chunk", "FromChunk failed on the freshly signed chunk: %v", ferr)
			x.Check(bytes.Equal(s.owner, b.owner), "owner-is-not-the-keys-ethereum-address", "owner parsed back as %x, the key's Ethereum address is %x (key %d [%s])", s.owner, b.owner, ki, verifKeyNames[ki])
			x.Check(bytes.Equal(b.addr, verifKeccak(b.id, b.owner)), "address-not-keccak-id-owner", "signed chunk address %x, keccak(id||owner) %x", b.addr, verifKeccak(b.id, b.owner))
		}

		// accepted only if the signature over keccak(id||wrapped address) recovers
		// the owner the address commits to; hence every alteration of id, signature,
		// payload or address that is not another encoding of the same authentic
		// chunk must be rejected
		x.Check(!got || want, "accepts-unauthenticated-"+regionOr(region, "unmutated"), "Valid accepted a chunk the reference rejects (%s): %s", region, why)

		if op.kind == verifOpNone {
			x.Check(want, "reference-rejects-signed-chunk", "reference rejects the freshly signed chunk: %s", why)
			x.Check(got, "signed-chunk-invalid", "freshly signed chunk is not Valid")
			x.Check(bytes.Equal(s.id, b.id), "roundtrip-id", "id %x parsed back as %x", b.id, s.id)
			x.Check(bytes.Equal(refOwner, b.owner), "reference-owner", "reference recovers %x, key's address is %x", refOwner, b.owner)
			x.Check(s.chunk != nil && bytes.Equal(s.chunk.Address().Bytes(), b.wrappedAddr) && bytes.Equal(s.chunk.Data(), b.payload), "roundtrip-wrapped", "wrapped chunk differs after parsing")
			ca, err := CreateAddress(b.id, b.owner)
			x.Check(err == nil && bytes.Equal(ca.Bytes(), verifKeccak(b.id, b.owner)), "createaddress", "CreateAddress differs from keccak(id||owner)")
			x.Check(len(b.data) == 32+65+len(b.payload) && bytes.Equal(b.data[:32], b.id) && bytes.Equal(b.data[97:], b.payload), "serialization", "signed chunk is not id||sig||span||data")
			if ki >= 3 {
				x.Tag("boundary-key-roundtrip")
				x.Nontrivial()
			}
			x.Outcome("signed->valid")
			return
		}

		x.Nontrivial()
		x.Tag("mutated-" + region)
		switch {
		case want:
			// the mutation produced another encoding of an authentic chunk
			x.Tag("equivalent-encoding-" + region)
			x.Outcome(fmt.Sprintf("encoding-equivalent(%s)->accepted=%v", region, got))
		case ferr == nil:
			// parses and recovers some key, but the address does not commit to it
			x.Tag("recovers-other-owner")
			x.Outcome("mutated->parses-but-invalid")
		default:
			x.Outcome("mutated->parse-error")
		}
	})
}

func regionOr(r, d string) string {
	if r == "" {
		return d
	}
	return r
}
