//go:build verifmasked
// +build verifmasked

// The repository's retrieval_test.go imports the stale pkg/chunkinfo/mock and
// does not compile in the pinned tree; the overlay replaces it with this empty
// file so that the package's test binary (with the injected harness) builds.
package retrieval_test
