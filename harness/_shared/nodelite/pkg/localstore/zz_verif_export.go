//go:build verif
// +build verif

package localstore

import (
	"github.com/gauss-project/aurorafs/pkg/shed"
)

// Accessors for the verification node-lite (pkg/zzverif/nodelite). They add no
// behaviour: they expose unexported state read-only, replace the package's
// test seams (`now`, testHookGCIteratorDone) and let the harness play the GC
// worker's loop body synchronously.

// VerifSetNow installs the logical clock (package var `now`, the seam the
// package's own tests use).
func VerifSetNow(f func() int64) { now = f }

// VerifSetGCIteratorDoneHook sets the existing package hook that
// collectGarbage calls between candidate selection and eviction.
func VerifSetGCIteratorDoneHook(f func()) { testHookGCIteratorDone = f }

// VerifDisownGCWorker terminates the background collectGarbageWorker that New
// started and re-arms the close channel, so that no goroutine of the store
// runs concurrently with the harness. Triggers raised by incGCSizeInBatch then
// accumulate in collectGarbageTrigger where VerifGCWorkerStep consumes them.
func (db *DB) VerifDisownGCWorker() {
	close(db.close)
	<-db.collectGarbageWorkerDone // worker has returned; channel stays closed so Close() does not block
	db.close = make(chan struct{})
}

// VerifGCTriggerPending reports whether a collection has been requested.
func (db *DB) VerifGCTriggerPending() bool { return len(db.collectGarbageTrigger) > 0 }

// VerifGCWorkerStep is one iteration of collectGarbageWorker's loop, run
// synchronously: consume a pending trigger, call the real collectGarbage and
// re-trigger when it reports !done. ran=false when no trigger was pending.
func (db *DB) VerifGCWorkerStep() (ran bool, collected uint64, done bool, err error) {
	select {
	case <-db.collectGarbageTrigger:
	default:
		return false, 0, true, nil
	}
	collected, done, err = db.collectGarbage()
	if !done {
		db.triggerGarbageCollection()
	}
	if testHookCollectGarbage != nil {
		testHookCollectGarbage(collected)
	}
	return true, collected, done, err
}

// VerifForceGCTrigger raises the trigger the way incGCSizeInBatch does.
func (db *DB) VerifForceGCTrigger() { db.triggerGarbageCollection() }

// VerifWaitUpdateGC waits for the access-time goroutines spawned by
// Get(ModeGetRequest).
func (db *DB) VerifWaitUpdateGC() { db.updateGCWG.Wait() }

func (db *DB) VerifCapacity() uint64 { return db.capacity }
func (db *DB) VerifGCTarget() uint64 { return db.gcTarget() }
func (db *DB) VerifGCSize() (uint64, error) {
	return db.gcSize.Get()
}
func (db *DB) VerifGCRunning() (bool, int) {
	db.batchMu.Lock()
	defer db.batchMu.Unlock()
	return db.gcRunning, len(db.dirtyAddresses)
}

// VerifItems dumps one index in index order. which: "data", "access", "gc", "pin".
func (db *DB) VerifItems(which string) (items []shed.Item, err error) {
	var idx shed.Index
	switch which {
	case "data":
		idx = db.retrievalDataIndex
	case "access":
		idx = db.retrievalAccessIndex
	case "gc":
		idx = db.gcIndex
	case "pin":
		idx = db.pinIndex
	default:
		panic("VerifItems: " + which)
	}
	err = idx.Iterate(func(it shed.Item) (bool, error) {
		c := it
		c.Address = append([]byte{}, it.Address...)
		if which == "data" {
			c.Data = nil // payload is determined by the address
		}
		items = append(items, c)
		return false, nil
	}, nil)
	return items, err
}
