//go:build verif && go1.18
// +build verif,go1.18

package pslice

import (
	"fmt"
	"sort"
	"strings"
	"testing"

	"github.com/gauss-project/aurorafs/pkg/boson"
	"github.com/gauss-project/aurorafs/pkg/zzverif/mc"
	"github.com/gauss-project/aurorafs/pkg/zzverif/vsched"
)

func c21addr(first byte, tag byte) boson.Address {
	b := make([]byte, 32)
	b[0], b[31] = first, tag
	return boson.NewAddress(b)
}

type c21upd struct {
	kind string // add | addbatch | remove
	a    []int
}

func (u c21upd) String() string { return fmt.Sprintf("%s%v", u.kind, u.a) }

// concurrent iterate/update on one bin under the controlled scheduler
func TestVerifC21Sched(t *testing.T) {
	maxDev := mc.Pick(2, 3)
	nUpd := mc.Pick(2, 3) // updater threads
	// base = 00..; bin 1 addresses start with 0x40 (po 1), bin 0 with 0x80
	addrs := []boson.Address{c21addr(0x40, 1), c21addr(0x40, 2), c21addr(0x40, 3), c21addr(0x40, 4), c21addr(0x40, 5), c21addr(0x80, 6)}
	name := func(a boson.Address) int {
		for i, x := range addrs {
			if x.Equal(a) {
				return i
			}
		}
		return -1
	}
	updates := []c21upd{{"remove", []int{0}}, {"remove", []int{1}}, {"remove", []int{2}}, {"add", []int{3}}, {"addbatch", []int{3, 4}}, {"add", []int{0}}, {"addbatch", []int{4, 4}}}
	mc.Run(t, mc.Config{ID: "C21", Name: "C21-sched", MaxDev: maxDev, ShardLevels: 3, Params: map[string]interface{}{
		"preemption_bound": maxDev, "updater_threads": nUpd, "initial": "bin1=[a0,a1,a2] bin0=[a5]", "updates": fmt.Sprint(updates),
		"iterator": "EachBin or EachBinRev, callback yields to the scheduler at every element", "watched": "PSlice.peers (field) + every element of every []boson.Address"}},
		func(x *mc.X) {
			rev := x.Bool()
			progs := make([]c21upd, nUpd)
			prev := -1
			for i := range progs {
				k := x.Choose(len(updates))
				if k < prev {
					x.Logf("symmetric duplicate skipped")
					return
				}
				prev = k
				progs[i] = updates[k]
			}
			x.Logf("iterator rev=%v updaters=%v", rev, progs)
			var seen []int
			var ps *PSlice
			verdict := vsched.Run(x, vsched.Options{MaxSteps: 4000}, func(s *vsched.S) {
				ps = New(4, boson.NewAddress(make([]byte, 32)))
				ps.Add(addrs[0], addrs[1], addrs[2], addrs[5])
				s.Go("iter", func() {
					f := func(a boson.Address, po uint8) (bool, bool, error) {
						seen = append(seen, name(a))
						s.Yield()
						return false, false, nil
					}
					if rev {
						_ = ps.EachBinRev(f)
					} else {
						_ = ps.EachBin(f)
					}
				})
				for i, u := range progs {
					u := u
					s.Go(fmt.Sprintf("upd%d", i), func() {
						var as []boson.Address
						for _, k := range u.a {
							as = append(as, addrs[k])
						}
						if u.kind == "remove" {
							ps.Remove(as[0])
						} else {
							ps.Add(as...)
						}
					})
				}
				s.Quiesce()
				if s.Preemptions() > 0 {
					x.Nontrivial()
				}
			})
			if verdict != "" {
				x.Fail("deadlock", "scheduler verdict %s", verdict)
			}
			// the iterator may only report addresses that were members at some time
			ever := map[int]bool{0: true, 1: true, 2: true, 5: true}
			for _, u := range progs {
				if u.kind != "remove" {
					for _, k := range u.a {
						ever[k] = true
					}
				}
			}
			for _, k := range seen {
				if !ever[k] {
					x.Fail("iterator-foreign-address", "iterator reported address %d which was never in the set", k)
				}
			}
			// final contents must equal the result of the updates in some order, each address once
			final := map[string]bool{}
			dump := func() string {
				var parts []string
				for bin := 0; bin < 4; bin++ {
					var ks []int
					for _, a := range ps.BinPeers(uint8(bin)) {
						ks = append(ks, name(a))
					}
					sort.Ints(ks)
					parts = append(parts, fmt.Sprintf("%d:%v", bin, ks))
				}
				return strings.Join(parts, " ")
			}
			got := dump()
			perm := make([]int, 0, nUpd)
			used := make([]bool, nUpd)
			var rec func()
			rec = func() {
				if len(perm) == nUpd {
					set := map[int]bool{0: true, 1: true, 2: true, 5: true}
					for _, i := range perm {
						for _, k := range progs[i].a {
							if progs[i].kind == "remove" {
								delete(set, k)
							} else {
								set[k] = true
							}
						}
					}
					bins := map[int][]int{}
					for k := range set {
						b := 1
						if k == 5 {
							b = 0
						}
						bins[b] = append(bins[b], k)
					}
					var parts []string
					for bin := 0; bin < 4; bin++ {
						sort.Ints(bins[bin])
						var ks []int
						ks = append(ks, bins[bin]...)
						parts = append(parts, fmt.Sprintf("%d:%v", bin, ks))
					}
					final[strings.Join(parts, " ")] = true
					return
				}
				for i := 0; i < nUpd; i++ {
					if !used[i] {
						used[i] = true
						perm = append(perm, i)
						rec()
						perm = perm[:len(perm)-1]
						used[i] = false
					}
				}
			}
			rec()
			x.Logf("iterator saw %v; final %s", seen, got)
			if !final[got] {
				x.Fail("final-state-not-sequential", "final contents %q are not the result of the updates %v in any order (allowed: %v)", got, progs, final)
			}
			x.Outcome(fmt.Sprintf("seen=%d final=%s", len(seen), got))
		})
}
