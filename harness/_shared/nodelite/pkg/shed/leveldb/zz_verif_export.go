//go:build verif
// +build verif

package leveldb

import (
	"sync"

	"github.com/gauss-project/aurorafs/pkg/shed/driver"
	"github.com/syndtr/goleveldb/leveldb"
	"github.com/syndtr/goleveldb/leveldb/opt"
	"github.com/syndtr/goleveldb/leveldb/storage"
)

// VerifDriver is the package's LevelDB driver opened over in-memory storages
// that are kept by name, so that a store can be closed and re-opened
// ("restart") inside one execution. Everything except Open is the real driver
// code (type LevelDB). Buffers are small because a fresh store is opened for
// every execution.
type VerifDriver struct {
	mu     sync.Mutex
	stores map[string]storage.Storage
}

func NewVerifDriver() *VerifDriver { return &VerifDriver{stores: map[string]storage.Storage{}} }

func (d *VerifDriver) Open(path, _ string) (driver.DB, error) {
	d.mu.Lock()
	st := d.stores[path]
	if st == nil {
		st = storage.NewMemStorage()
		d.stores[path] = st
	}
	d.mu.Unlock()
	opts := opt.Options{
		BlockSize:              defaultBlockSize,
		OpenFilesCacheCapacity: 16,
		BlockCacheCapacity:     32 * 1024,
		WriteBuffer:            64 * 1024,
		CompactionTableSize:    defaultCompactionTableSize,
		CompactionTotalSize:    defaultCompactionTotalSize,
	}
	db, err := leveldb.Open(st, &opts)
	if err != nil {
		return nil, err
	}
	return &LevelDB{m: new(sync.RWMutex), db: db, opts: &opts, path: path}, nil
}

// Reset forgets all storages (start of a new execution).
func (d *VerifDriver) Reset() {
	d.mu.Lock()
	d.stores = map[string]storage.Storage{}
	d.mu.Unlock()
}
