//go:build verif
// +build verif

package traffic

import (
	"bytes"
	"context"
	"encoding/json"
	"fmt"
	"io"
	"math/big"
	"strings"
	"testing"

	"github.com/ethereum/go-ethereum/common"
	"github.com/gauss-project/aurorafs/pkg/boson"
	"github.com/gauss-project/aurorafs/pkg/crypto"
	"github.com/gauss-project/aurorafs/pkg/logging"
	"github.com/gauss-project/aurorafs/pkg/p2p"
	chainmock "github.com/gauss-project/aurorafs/pkg/settlement/chain/traffic/mock"
	chequePkg "github.com/gauss-project/aurorafs/pkg/settlement/traffic/cheque"
	"github.com/gauss-project/aurorafs/pkg/settlement/traffic/trafficprotocol"
	"github.com/gauss-project/aurorafs/pkg/settlement/traffic/trafficprotocol/pb"
	statemock "github.com/gauss-project/aurorafs/pkg/statestore/mock"
	"github.com/gauss-project/aurorafs/pkg/subscribe"
	"github.com/gauss-project/aurorafs/pkg/zzverif/mc"
	"github.com/gauss-project/aurorafs/pkg/zzverif/wire"
)

const c37ChainID = 5

var (
	c37Peer  = p2p.Peer{Address: boson.MustParseHexAddress("be00000000000000000000000000000000000000000000000000000000000001")}
	c37Other = boson.MustParseHexAddress("0e00000000000000000000000000000000000000000000000000000000000002")
)

type c37Node struct {
	svc   *Service
	proto *trafficprotocol.Service
	sr    *wire.Streamer
}

func c37Key(b byte) (crypto.Signer, common.Address) {
	k, err := crypto.DecodeSecp256k1PrivateKey(bytes.Repeat([]byte{b}, 32))
	if err != nil {
		panic(err)
	}
	s := crypto.NewDefaultSigner(k)
	a, err := s.EthereumAddress()
	if err != nil {
		panic(err)
	}
	return s, a
}

// c37NewNode: the real traffic.Service (built without its 24 h background
// tickers) behind the real trafficprotocol handlers. knownPeer: the peer's
// beneficiary is already in the address book; prior: a cheque was already received.
func c37NewNode(x *mc.X, reply []byte, knownPeer bool) *c37Node {
	_, own := c37Key(0x41)
	_, ben := c37Key(0x42)
	store := statemock.NewStateStore()
	logger := logging.New(io.Discard, 0)
	n := &c37Node{sr: &wire.Streamer{Reply: func(boson.Address, string, string, int) []byte { return reply }}}
	n.proto = trafficprotocol.New(n.sr, logger, own)
	n.svc = &Service{
		logger:              logger,
		store:               store,
		chainAddress:        own,
		trafficChainService: chainmock.New(chainmock.WithBalanceOf(func(common.Address) (*big.Int, error) { return big.NewInt(1000), nil })),
		metrics:             newMetrics(),
		chequeStore:         chequePkg.NewChequeStore(store, own, chequePkg.RecoverCheque, c37ChainID),
		addressBook:         NewAddressBook(store),
		protocol:            n.proto,
		chainID:             c37ChainID,
		trafficPeers:        TrafficPeer{trafficPeers: make(map[string]*Traffic), balance: big.NewInt(0), totalPaidOut: big.NewInt(0)},
		subPub:              subscribe.NewSubPub(),
		cashChequeChan:      make(chan cashCheque, 5),
	}
	n.proto.SetTraffic(n.svc)
	if knownPeer {
		x.NoErr(n.svc.addressBook.PutBeneficiary(c37Peer.Address, ben), "put beneficiary")
	}
	return n
}

func (n *c37Node) followUp() {
	_, _ = n.svc.LastReceivedCheque(c37Peer.Address)
	_, _ = n.svc.LastSentCheque(c37Peer.Address)
	_, _ = n.svc.TrafficCheques()
	_, _ = n.svc.TrafficInfo()
	_, _ = n.svc.GetPeerBalance(c37Peer.Address)
	_, _ = n.svc.GetUnPaidBalance(c37Peer.Address)
	_, _ = n.svc.TotalReceived(c37Peer.Address)
	_, _ = n.svc.TotalSent(c37Peer.Address)
	_, _ = n.svc.TransferTraffic(c37Peer.Address)
	_, _ = n.svc.AvailableBalance()
	_ = n.svc.UpdatePeerBalance(c37Peer.Address)
}

// JSON documents for the SignedCheque field
func c37ChequeDocs() []wire.BytesVal {
	bsigner, ben := c37Key(0x42)
	_, own := c37Key(0x41)
	ownSigner, _ := c37Key(0x41)
	sign := func(s crypto.Signer, c chequePkg.Cheque) []byte {
		sig, err := chequePkg.NewChequeSigner(s, c37ChainID).Sign(&c)
		if err != nil {
			panic(err)
		}
		return sig
	}
	doc := func(v interface{}) []byte {
		b, err := json.Marshal(v)
		if err != nil {
			panic(err)
		}
		return b
	}
	valid := chequePkg.SignedCheque{Cheque: chequePkg.Cheque{Recipient: own, Beneficiary: ben, CumulativePayout: big.NewInt(10)}}
	valid.Signature = sign(bsigner, valid.Cheque)
	validDoc := doc(valid)
	// a cheque issued by us to the peer (what an honest peer returns in the init handshake)
	ours := chequePkg.SignedCheque{Cheque: chequePkg.Cheque{Recipient: ben, Beneficiary: own, CumulativePayout: big.NewInt(7)}}
	ours.Signature = sign(ownSigner, ours.Cheque)

	out := []wire.BytesVal{
		{Name: "valid", V: validDoc},
		{Name: "our-own-cheque", V: doc(ours)},
		{Name: "absent", V: nil},
		{Name: "empty", V: []byte{}},
		{Name: "null", V: []byte("null")},
		{Name: "empty-object", V: []byte("{}")},
		{Name: "array", V: []byte("[]")},
		{Name: "string", V: []byte(`"cheque"`)},
		{Name: "number", V: []byte("12")},
		{Name: "true", V: []byte("true")},
		{Name: "nested-1000", V: []byte(strings.Repeat("[", 1000) + strings.Repeat("]", 1000))},
		{Name: "garbage", V: []byte{0xff, 0x00, 0x7b}},
	}
	for _, k := range []int{1, 2, len(validDoc) / 2, len(validDoc) - 1} {
		out = append(out, wire.BytesVal{Name: fmt.Sprintf("valid-prefix-%d", k), V: validDoc[:k]})
	}
	// field-level variants of the valid document (raw JSON values)
	var m map[string]json.RawMessage
	_ = json.Unmarshal(validDoc, &m)
	variant := func(name, field, raw string) {
		c := map[string]json.RawMessage{}
		for k, v := range m {
			c[k] = v
		}
		if raw == "<absent>" {
			delete(c, field)
		} else {
			c[field] = json.RawMessage(raw)
		}
		out = append(out, wire.BytesVal{Name: name, V: doc(c)})
	}
	for _, pv := range []string{"<absent>", "null", "0", "-1", "10", "11", "1e3", "1.5", `"10"`, "1" + strings.Repeat("0", 100), "{}", "[1]", "true"} {
		variant("payout="+pv[:min(len(pv), 12)], "CumulativePayout", pv)
	}
	for _, sv := range []string{"<absent>", "null", `""`, `"AA=="`, `"` + strings.Repeat("A", 86) + `=="`, `"` + strings.Repeat("A", 88) + `"`, `"not base64!"`, "12", "{}"} {
		variant("signature="+sv[:min(len(sv), 14)], "Signature", sv)
	}
	for _, f := range []string{"Recipient", "Beneficiary"} {
		for _, av := range []string{"<absent>", "null", `""`, `"0x"`, `"0x12"`, `"0x` + strings.Repeat("ab", 20) + `"`, `"0x` + strings.Repeat("ab", 21) + `"`, `"` + strings.Repeat("zz", 20) + `"`, "5", "{}"} {
			variant(strings.ToLower(f)+"="+av[:min(len(av), 14)], f, av)
		}
	}
	// valid signatures over unusual payouts
	for _, p := range []*big.Int{big.NewInt(0), big.NewInt(-5), new(big.Int).Lsh(big.NewInt(1), 300)} {
		c := chequePkg.SignedCheque{Cheque: chequePkg.Cheque{Recipient: own, Beneficiary: ben, CumulativePayout: p}}
		if sig, err := chequePkg.NewChequeSigner(bsigner, c37ChainID).Sign(&c.Cheque); err == nil {
			c.Signature = sig
			out = append(out, wire.BytesVal{Name: "signed-payout=" + p.String()[:min(len(p.String()), 10)], V: doc(c)})
		}
	}
	return out
}

func min(a, b int) int {
	if a < b {
		return a
	}
	return b
}

func TestVerifC37(t *testing.T) {
	_, ben := c37Key(0x42)
	docs := c37ChequeDocs()
	validMsg := &pb.EmitCheque{Address: ben.Bytes(), SignedCheque: docs[0].V}
	cases := wire.Standard(validMsg)
	for _, a := range append(wire.BytesField(ben.Bytes(), 64<<10)) {
		for _, d := range docs {
			cases = append(cases, wire.Msg(fmt.Sprintf("address=%s,cheque=%s", a.Name, d.Name), &pb.EmitCheque{Address: a.V, SignedCheque: d.V}))
		}
	}
	specs := func(n *c37Node) map[string]p2p.HandlerFunc {
		m := map[string]p2p.HandlerFunc{}
		for _, s := range n.proto.Protocol().StreamSpecs {
			m[s.Name] = s.Handler
		}
		return m
	}
	mk := func(stream string, known bool, twice bool) func(x *mc.X, c wire.Case) string {
		return func(x *mc.X, c wire.Case) string {
			n := c37NewNode(x, nil, known)
			h := specs(n)[stream]
			if h == nil {
				x.Broken("no handler %q", stream)
			}
			if twice {
				// state created by a first, valid message
				_ = h(context.Background(), c37Peer, wire.NewStream(wire.Frame(validMsg)))
			}
			err := h(context.Background(), c37Peer, wire.NewStream(c.Data))
			n.followUp()
			if err == nil {
				x.Tag("traffic-" + stream + "-accepted")
			}
			return wire.ErrClass(err)
		}
	}
	targets := []wire.Target{
		{Name: "handler(traffic/traffic) peer unknown", Cases: cases, Run: mk("traffic", false, false)},
		{Name: "handler(traffic/traffic) peer known", Cases: cases, Run: mk("traffic", true, false)},
		{Name: "handler(traffic/init) peer unknown", Cases: cases, Run: mk("init", false, false)},
		{Name: "handler(traffic/init) peer known", Cases: cases, Run: mk("init", true, false)},
		{Name: "client(ConnectOut init) peer unknown", Cases: cases, Run: func(x *mc.X, c wire.Case) string {
			n := c37NewNode(x, c.Data, false)
			err := n.proto.Protocol().ConnectOut(context.Background(), c37Peer)
			n.followUp()
			return wire.ErrClass(err)
		}},
	}
	if mc.Thorough() {
		targets = append(targets,
			wire.Target{Name: "handler(traffic/traffic) after a valid cheque", Cases: cases, Run: mk("traffic", true, true)},
			wire.Target{Name: "client(ConnectOut init) peer known", Cases: cases, Run: func(x *mc.X, c wire.Case) string {
			n := c37NewNode(x, c.Data, true)
			err := n.proto.Protocol().ConnectOut(context.Background(), c37Peer)
			n.followUp()
			return wire.ErrClass(err)
		}},
		)
	}
	wire.Explore(t, func(cfg mc.Config, body func(*mc.X)) { mc.Run(t, cfg, body) }, "C37-traffic", map[string]interface{}{
		"alphabet": "EmitCheque: standard framing/wire faults + full product address{valid,absent,empty,1,19,21,40,other,64KiB} x SignedCheque JSON{valid, our own cheque, absent, empty, null, {}, [], string, number, true, 1000-deep nesting, garbage, 4 strict prefixes, CumulativePayout in 13 raw values, Signature in 9, Recipient/Beneficiary in 10 each, validly signed cheques with payout 0/-5/2^300}; node states: peer's beneficiary unknown / known / known with an accepted cheque",
		"consumer": "the real traffic.Service (ReceiveCheque, Handshake, LastReceivedCheque, UpdatePeerBalance) with the real cheque store and EIP-712 recovery; chain backend stubbed (BalanceOf = 1000)",
	}, targets)
}
