//go:build verif
// +build verif

package shed

// C19: shed indexes behave as isolated sorted maps; batches apply only and
// entirely on commit; fields/vectors return the last written value, also after
// reopening.
//
// One execution = fresh real DB (leveldb driver; path "" in memory, or a
// per-execution directory for the reopen harness) + a sequence of WRITE
// operations chosen freely, ended by ONE read group (chosen freely as well)
// that compares a whole family of read operations with the reference model.
// Read operations have no side effects, so reading only at the end of a
// sequence loses nothing (every prefix of a sequence is itself a sequence) and
// a failing read cannot mask what lies behind it.

import (
	"bytes"
	"errors"
	"fmt"
	"math"
	"os"
	"sort"
	"strings"
	"testing"

	"github.com/gauss-project/aurorafs/pkg/shed/driver"
	"github.com/gauss-project/aurorafs/pkg/shed/leveldb"
	"github.com/gauss-project/aurorafs/pkg/zzverif/mc"
)

// The package's own tests reference TestDriver, which the tree defines only
// under the build tags `leveldb` / `wiredtiger`; without it the test binary of
// this package does not compile.
var TestDriver = "leveldb"

func init() {
	for _, d := range Drivers() {
		if d == "leveldb" {
			return
		}
	}
	Register("leveldb", leveldb.Driver{})
}

var c19IndexNames = []string{"A", "B"} // adjacent prefix bytes 2 and 3

// key universe: prefix relations (01 < 01ff, ff < ffff) and the 0xff edge
var c19Keys = [][]byte{{0x01}, {0x01, 0xff}, {0xff}, {0xff, 0xff}}

// additional probe keys that are never stored (absent start items, absent lookups)
var c19Probes = [][]byte{{0x00}, {0x01, 0x00}}
var c19Prefixes = [][]byte{nil, {0x01}, {0xff}, {0x01, 0xff}, {0xff, 0xff}, {0x02}}
var c19ValuesA = []string{"x", "y"}
var c19ValuesB = []string{"z"}

func c19Funcs() IndexFuncs {
	return IndexFuncs{
		EncodeKey:   func(i Item) ([]byte, error) { return i.Address, nil },
		DecodeKey:   func(k []byte) (Item, error) { return Item{Address: k}, nil },
		EncodeValue: func(i Item) ([]byte, error) { return i.Data, nil },
		DecodeValue: func(_ Item, v []byte) (Item, error) { return Item{Data: v}, nil },
	}
}

type c19Handles struct {
	db  *DB
	idx [2]Index
	u   Uint64Field
	v   Uint64Vector
	s   StringField
}

// The driver configuration travels in Options.Driver ("name:json"), the way the
// node passes it. A small write buffer keeps the cost of opening a database low
// (goleveldb allocates and zeroes the whole buffer: 32 MiB by default, ~17 ms);
// NoSync avoids one fsync per write on the file-backed database. Neither changes
// a code path the property is about.
const c19DriverMem = `leveldb:{"WriteBuffer":65536}`
const c19DriverDisk = `leveldb:{"WriteBuffer":65536,"NoSync":true}`

func c19Open(x *mc.X, path string, reverseOrder bool) *c19Handles {
	drv := c19DriverMem
	if path != "" {
		drv = c19DriverDisk
	}
	db, err := NewDB(path, &Options{Driver: drv})
	x.NoErr(err, "NewDB")
	h := &c19Handles{db: db}
	order := []int{0, 1}
	if reverseOrder {
		order = []int{1, 0} // the name -> prefix mapping must not depend on creation order after reopen
	}
	for _, i := range order {
		h.idx[i], err = db.NewIndex(c19IndexNames[i], c19Funcs())
		x.NoErr(err, "NewIndex")
	}
	h.u, err = db.NewUint64Field("u")
	x.NoErr(err, "NewUint64Field")
	h.v, err = db.NewUint64Vector("v")
	x.NoErr(err, "NewUint64Vector")
	h.s, err = db.NewStringField("s")
	x.NoErr(err, "NewStringField")
	return h
}

// ---- reference model ------------------------------------------------------

type c19Model struct {
	idx [2]map[string]string
	u   uint64
	vec map[uint64]uint64
	s   string
}

func c19NewModel() *c19Model {
	return &c19Model{idx: [2]map[string]string{{}, {}}, vec: map[uint64]uint64{}}
}

func (m *c19Model) sorted(i int) []string {
	keys := make([]string, 0, len(m.idx[i]))
	for k := range m.idx[i] {
		keys = append(keys, k)
	}
	sort.Strings(keys) // byte-wise, same as bytes.Compare
	return keys
}

func (m *c19Model) dump() string {
	var b strings.Builder
	for i := range m.idx {
		for _, k := range m.sorted(i) {
			fmt.Fprintf(&b, "%d:%x=%s,", i, k, m.idx[i][k])
		}
	}
	vk := make([]uint64, 0)
	for k := range m.vec {
		vk = append(vk, k)
	}
	sort.Slice(vk, func(a, c int) bool { return vk[a] < vk[c] })
	fmt.Fprintf(&b, "u=%d,s=%q,", m.u, m.s)
	for _, k := range vk {
		fmt.Fprintf(&b, "v%d=%d,", k, m.vec[k])
	}
	return b.String()
}

type c19Write struct {
	kind  string // put del u v s
	index int
	key   []byte
	val   string
	n, i  uint64
}

func (w c19Write) String() string {
	switch w.kind {
	case "put":
		return fmt.Sprintf("Put(%s,%x,%s)", c19IndexNames[w.index], w.key, w.val)
	case "del":
		return fmt.Sprintf("Delete(%s,%x)", c19IndexNames[w.index], w.key)
	case "u":
		return fmt.Sprintf("u.Put(%d)", w.n)
	case "v":
		return fmt.Sprintf("v.Put(%d,%d)", w.i, w.n)
	default:
		return fmt.Sprintf("s.Put(%q)", w.val)
	}
}

func (m *c19Model) apply(w c19Write) {
	switch w.kind {
	case "put":
		m.idx[w.index][string(w.key)] = w.val
	case "del":
		delete(m.idx[w.index], string(w.key))
	case "u":
		m.u = w.n
	case "v":
		m.vec[w.i] = w.n
	case "s":
		m.s = w.val
	}
}

type c19Op struct {
	kind  string // read write batch commit discard reopen
	group int
	w     c19Write
}

var c19Groups = []string{"point", "count", "first", "last", "iterate-forward", "iterate-reverse", "fields"}

// c19Alphabet: mode 0 = in-memory harness (full alphabet, 7 read groups);
// mode 1 = file-backed, medium alphabet; mode 2 = file-backed, tiny alphabet.
// The file-backed harnesses have two read choices: every group except "last"
// (group -1), and "last" alone (so that a defect in one cannot mask the other).
func c19Alphabet(mode int) (ops []c19Op, nReads int) {
	if mode == 0 {
		for g := range c19Groups {
			ops = append(ops, c19Op{kind: "read", group: g}) // ops 0.. end the sequence
		}
	} else {
		ops = append(ops, c19Op{kind: "read", group: -1}, c19Op{kind: "read", group: 3})
	}
	nReads = len(ops)
	var direct, batched []c19Write
	switch mode {
	case 0:
		for _, k := range c19Keys {
			for _, v := range c19ValuesA {
				direct = append(direct, c19Write{kind: "put", index: 0, key: k, val: v})
			}
		}
		for _, k := range c19Keys {
			for _, v := range c19ValuesB {
				direct = append(direct, c19Write{kind: "put", index: 1, key: k, val: v})
			}
		}
		for i := range c19IndexNames {
			for _, k := range c19Keys {
				direct = append(direct, c19Write{kind: "del", index: i, key: k})
			}
		}
		direct = append(direct,
			c19Write{kind: "u", n: 1}, c19Write{kind: "u", n: math.MaxUint64},
			c19Write{kind: "v", i: 0, n: 3}, c19Write{kind: "v", i: 0, n: 4}, c19Write{kind: "v", i: math.MaxUint64, n: 5},
			c19Write{kind: "s", val: "a"}, c19Write{kind: "s", val: ""})
		batched = []c19Write{
			{kind: "put", index: 0, key: c19Keys[0], val: "y"}, {kind: "put", index: 0, key: c19Keys[2], val: "y"},
			{kind: "del", index: 0, key: c19Keys[0]}, {kind: "del", index: 0, key: c19Keys[2]},
			{kind: "put", index: 1, key: c19Keys[0], val: "z"}, {kind: "del", index: 1, key: c19Keys[0]},
			{kind: "u", n: 2}, {kind: "v", i: 0, n: 6}, {kind: "s", val: "b"},
		}
	case 1:
		direct = []c19Write{
			{kind: "put", index: 0, key: c19Keys[0], val: "x"}, {kind: "put", index: 1, key: c19Keys[2], val: "z"},
			{kind: "del", index: 0, key: c19Keys[0]},
			{kind: "u", n: 1}, {kind: "v", i: math.MaxUint64, n: 5}, {kind: "s", val: "a"},
		}
		batched = []c19Write{{kind: "put", index: 0, key: c19Keys[2], val: "y"}, {kind: "u", n: 2}, {kind: "del", index: 0, key: c19Keys[0]}}
	case 2:
		direct = []c19Write{
			{kind: "put", index: 0, key: c19Keys[0], val: "x"}, {kind: "put", index: 1, key: c19Keys[2], val: "z"},
			{kind: "del", index: 0, key: c19Keys[0]}, {kind: "u", n: 1},
		}
		batched = []c19Write{{kind: "put", index: 0, key: c19Keys[2], val: "y"}}
	}
	for _, w := range direct {
		ops = append(ops, c19Op{kind: "write", w: w})
	}
	for _, w := range batched {
		ops = append(ops, c19Op{kind: "batch", w: w})
	}
	ops = append(ops, c19Op{kind: "commit"})
	if mode == 0 {
		ops = append(ops, c19Op{kind: "discard"})
	} else {
		ops = append(ops, c19Op{kind: "reopen"}) // reopening also discards the uncommitted batch
	}
	return ops, nReads
}

// ---- reference answers for iteration ---------------------------------------

func c19RefIterate(keys []string, prefix, start []byte, skip, reverse bool) []string {
	var out []string
	for _, k := range keys {
		if !bytes.HasPrefix([]byte(k), prefix) {
			continue
		}
		if start != nil {
			c := bytes.Compare([]byte(k), start)
			if (!reverse && c < 0) || (reverse && c > 0) || (skip && c == 0) {
				continue
			}
		}
		out = append(out, k)
	}
	if reverse {
		for i, j := 0, len(out)-1; i < j; i, j = i+1, j-1 {
			out[i], out[j] = out[j], out[i]
		}
	}
	return out
}

func c19GroupName(g int) string {
	if g < 0 {
		return "all-except-last"
	}
	return c19Groups[g]
}

func c19Hex(keys []string) string {
	h := make([]string, len(keys))
	for i, k := range keys {
		h[i] = fmt.Sprintf("%x", k)
	}
	return "[" + strings.Join(h, " ") + "]"
}

func TestVerifC19Mem(t *testing.T) {
	c19Run(t, "C19-shed-inmemory", 0, mc.EnvInt("VERIF_C19_DEPTH", mc.Pick(3, 4)))
}

// File-backed database with close + reopen. Opening costs 12-25 ms (goleveldb
// fsyncs CURRENT and the manifest unconditionally), hence the small alphabets.
func TestVerifC19Disk(t *testing.T) {
	if mc.Thorough() {
		c19Run(t, "C19-shed-disk-reopen", 1, mc.EnvInt("VERIF_C19_DISK_DEPTH", 3))
		return
	}
	c19Run(t, "C19-shed-disk-reopen", 2, mc.EnvInt("VERIF_C19_DISK_DEPTH", 3))
}

// thorough only: longer sequences (several reopens) over the tiny alphabet
func TestVerifC19DiskDeep(t *testing.T) {
	if !mc.Thorough() {
		t.Skip("thorough tier only")
	}
	c19Run(t, "C19-shed-disk-reopen-deep", 2, mc.EnvInt("VERIF_C19_DISK_DEEP_DEPTH", 4))
}

func c19Run(t *testing.T, harness string, mode int, depth int) {
	disk := mode != 0
	workRoot := os.Getenv("VERIF_WORK")
	if workRoot == "" {
		workRoot = os.TempDir()
	}
	ops, nReads := c19Alphabet(mode)
	var names []string
	for _, o := range ops {
		switch o.kind {
		case "read":
			names = append(names, "read:"+c19GroupName(o.group))
		case "write":
			names = append(names, o.w.String())
		case "batch":
			names = append(names, "batch."+o.w.String())
		default:
			names = append(names, o.kind)
		}
	}
	mc.Run(t, mc.Config{ID: "C19", Name: harness, MaxDev: -1, Params: map[string]interface{}{
		"depth_writes": depth, "ops_per_step": len(ops), "alphabet": names,
		"keys": fmt.Sprintf("%x", c19Keys), "probe_keys": fmt.Sprintf("%x", c19Probes), "prefixes": fmt.Sprintf("%x", c19Prefixes),
		"read_groups": c19Groups, "persistent": disk}},
		func(x *mc.X) {
			path := ""
			if disk {
				dir, err := os.MkdirTemp(workRoot, "c19-db-")
				x.NoErr(err, "MkdirTemp")
				defer os.RemoveAll(dir)
				path = dir
			}
			h := c19Open(x, path, false)
			defer func() { h.db.Close() }()
			m := c19NewModel()
			var batch driver.Batching
			var pending []c19Write
			reopened, dirty := false, false

			for step := 0; ; step++ {
				// the last choice (after `depth` writes) can only be a read group
				n := len(ops)
				if step >= depth {
					n = nReads
				}
				op := ops[x.Choose(n)]
				switch op.kind {
				case "read":
					x.Logf("read group %s on state %s (pending batch: %d ops)", c19GroupName(op.group), m.dump(), len(pending))
					if reopened && !dirty && m.dump() != c19NewModel().dump() {
						x.Tag("read-right-after-reopen-of-nonempty-db")
					}
					if len(pending) > 0 {
						x.Tag("read-with-uncommitted-batch")
						x.Nontrivial()
					}
					if len(m.idx[0]) > 0 && len(m.idx[1]) > 0 {
						x.Tag("read-with-both-indexes-populated")
						x.Nontrivial()
					}
					if op.group >= 0 {
						c19Read(x, h, m, op.group)
					} else {
						for g := range c19Groups {
							if c19Groups[g] != "last" {
								c19Read(x, h, m, g)
							}
						}
					}
					x.Outcome("read:" + c19GroupName(op.group) + ":ok")
					return
				case "write":
					w := op.w
					var err error
					switch w.kind {
					case "put":
						err = h.idx[w.index].Put(Item{Address: w.key, Data: []byte(w.val)})
					case "del":
						err = h.idx[w.index].Delete(Item{Address: w.key})
					case "u":
						err = h.u.Put(w.n)
					case "v":
						err = h.v.Put(w.i, w.n)
					case "s":
						err = h.s.Put(w.val)
					}
					x.Logf("%s -> %v", w, err)
					if err != nil {
						x.Fail("write-error:"+w.kind, "step %d: %s = %v", step, w, err)
					}
					if w.kind == "del" {
						if _, ok := m.idx[w.index][string(w.key)]; !ok {
							x.Tag("delete-absent-key")
						}
					}
					m.apply(w)
					dirty = true
				case "batch":
					w := op.w
					if batch == nil {
						batch = h.db.NewBatch()
					}
					var err error
					switch w.kind {
					case "put":
						err = h.idx[w.index].PutInBatch(batch, Item{Address: w.key, Data: []byte(w.val)})
					case "del":
						err = h.idx[w.index].DeleteInBatch(batch, Item{Address: w.key})
					case "u":
						err = h.u.PutInBatch(batch, w.n)
					case "v":
						err = h.v.PutInBatch(batch, w.i, w.n)
					case "s":
						err = h.s.PutInBatch(batch, w.val)
					}
					x.Logf("batch.%s -> %v", w, err)
					if err != nil {
						x.Fail("batch-write-error:"+w.kind, "step %d: batch %s = %v", step, w, err)
					}
					pending = append(pending, w)
				case "commit":
					if batch == nil {
						batch = h.db.NewBatch() // committing an empty batch is legal
					}
					err := batch.Commit()
					x.Logf("Commit (%d ops) -> %v", len(pending), err)
					if err != nil {
						x.Fail("commit-error", "step %d: Commit = %v", step, err)
					}
					if len(pending) > 1 {
						x.Tag("commit-multi-op-batch")
					}
					for _, w := range pending {
						m.apply(w)
					}
					if len(pending) > 0 {
						dirty = true
					}
					batch, pending = nil, nil
				case "discard":
					x.Logf("discard batch (%d ops)", len(pending))
					if len(pending) > 0 {
						x.Tag("discard-nonempty-batch")
					}
					batch, pending = nil, nil
				case "reopen":
					x.Logf("Close + reopen (uncommitted batch of %d ops is dropped)", len(pending))
					if m.dump() != c19NewModel().dump() {
						x.Tag("reopen-nonempty")
						x.Nontrivial()
					}
					if err := h.db.Close(); err != nil {
						x.Fail("close-error", "step %d: Close = %v", step, err)
					}
					h = c19Open(x, path, true)
					batch, pending = nil, nil
					reopened, dirty = true, false
				}
				// canonical key: logical content + the uncommitted batch (in order) + storage phase
				var key strings.Builder
				key.WriteString(m.dump())
				key.WriteString("|")
				for _, w := range pending {
					key.WriteString(w.String())
					key.WriteString(";")
				}
				fmt.Fprintf(&key, "|%v|%v|%v", batch != nil, reopened, dirty)
				if x.Seen(key.String(), depth-step-1) {
					return
				}
			}
		})
}

// c19Read compares one family of read operations, on both indexes, with the model.
func c19Read(x *mc.X, h *c19Handles, m *c19Model, group int) {
	isNotFound := func(err error) bool { return err != nil && errors.Is(err, driver.ErrNotFound) }
	all := append(append([][]byte{}, c19Keys...), c19Probes...)
	for i := range h.idx {
		ix, name := h.idx[i], c19IndexNames[i]
		other := 1 - i
		ctx := fmt.Sprintf("index %s=%s other=%s", name, c19Hex(m.sorted(i)), c19Hex(m.sorted(other)))
		// a short classification of the state, part of the violation keys so that
		// distinct shapes of failure stay distinct
		pos := map[int]string{0: "lower-index", 1: "higher-index"}[i]
		otherState := "other-index-empty"
		if len(m.idx[other]) > 0 {
			otherState = "other-index-populated"
		}
		keys := m.sorted(i)
		switch c19Groups[group] {
		case "point":
			for _, k := range all {
				want, present := m.idx[i][string(k)]
				got, err := ix.Get(Item{Address: k})
				has, herr := ix.Has(Item{Address: k})
				if herr != nil {
					x.Fail("has-error", "%s: Has(%x) = %v", ctx, k, herr)
				}
				if has != present {
					x.Fail("has-wrong", "%s: Has(%x) = %v", ctx, k, has)
				}
				if present {
					if err != nil {
						x.Fail("get-present-key-fails", "%s: Get(%x) = %v", ctx, k, err)
					}
					if string(got.Data) != want || !bytes.Equal(got.Address, k) {
						x.Fail("get-wrong-item", "%s: Get(%x) = {%x %q}, want value %q", ctx, k, got.Address, got.Data, want)
					}
				} else if !isNotFound(err) {
					x.Fail("get-absent-key", "%s: Get(%x) of an absent key returned err=%v item=%+v, want driver.ErrNotFound", ctx, k, err, got)
				}
			}
			items := make([]Item, len(all))
			for j, k := range all {
				items[j] = Item{Address: k}
			}
			have, err := ix.HasMulti(items...)
			if err != nil || len(have) != len(all) {
				x.Fail("hasmulti-error", "%s: HasMulti = %v, %v", ctx, have, err)
			}
			for j, k := range all {
				if _, present := m.idx[i][string(k)]; have[j] != present {
					x.Fail("hasmulti-wrong", "%s: HasMulti[%x] = %v", ctx, k, have[j])
				}
			}
			// Fill over exactly the present keys succeeds and fills every value
			fill := make([]Item, 0)
			for _, k := range keys {
				fill = append(fill, Item{Address: []byte(k)})
			}
			if err := ix.Fill(fill); err != nil {
				x.Fail("fill-present-keys-fails", "%s: Fill(present keys) = %v", ctx, err)
			}
			for j, k := range keys {
				if string(fill[j].Data) != m.idx[i][k] || string(fill[j].Address) != k {
					x.Fail("fill-wrong-item", "%s: Fill item %x = {%x %q}", ctx, k, fill[j].Address, fill[j].Data)
				}
			}
			// Fill with an absent key reports not-found
			if err := ix.Fill([]Item{{Address: c19Probes[0]}}); !isNotFound(err) {
				x.Fail("fill-absent-key", "%s: Fill(absent key) = %v, want driver.ErrNotFound", ctx, err)
			}
			// The same lookups with items that already carry non-key fields, as a
			// caller has them who re-uses a slice from an earlier Get/Fill: every value
			// the index ever held (x, y, z), a value it never held (q) and a field the
			// index does not encode. What the index stores must win over what the
			// caller brought, for present, overwritten and absent keys alike.
			for _, stale := range []string{"x", "y", "z", "q"} {
				for _, k := range all {
					want, present := m.idx[i][string(k)]
					got, err := ix.Get(Item{Address: k, Data: []byte(stale), StoreTimestamp: 7})
					if present {
						if err != nil || string(got.Data) != want || !bytes.Equal(got.Address, k) {
							x.Fail("get-wrong-item:stale-caller-fields", "%s: Get({%x, Data %q}) = {%x %q}, %v; the index holds %q", ctx, k, stale, got.Address, got.Data, err, want)
						}
					} else if !isNotFound(err) {
						x.Fail("get-absent-key:stale-caller-fields", "%s: Get({%x, Data %q}) of an absent key = %v, item %+v", ctx, k, stale, err, got)
					}
				}
				refill := make([]Item, 0)
				for _, k := range keys {
					refill = append(refill, Item{Address: []byte(k), Data: []byte(stale), StoreTimestamp: 7})
				}
				if err := ix.Fill(refill); err != nil {
					x.Fail("fill-present-keys-fails", "%s: Fill(present keys carrying Data %q) = %v", ctx, stale, err)
				}
				for j, k := range keys {
					if string(refill[j].Data) != m.idx[i][k] || string(refill[j].Address) != k {
						x.Fail("fill-wrong-item:stale-caller-fields", "%s: Fill of item {%x, Data %q} = {%x %q}; the index holds %q", ctx, k, stale, refill[j].Address, refill[j].Data, m.idx[i][k])
					}
					if m.idx[i][k] != stale {
						x.Tag("fill-over-stale-caller-value")
					}
				}
				for _, k := range all {
					if _, present := m.idx[i][string(k)]; !present {
						if err := ix.Fill([]Item{{Address: k, Data: []byte(stale)}}); !isNotFound(err) {
							x.Fail("fill-absent-key:stale-caller-fields", "%s: Fill({%x, Data %q}) of an absent key = %v", ctx, k, stale, err)
						}
					}
				}
			}
		case "count":
			n, err := ix.Count()
			if err != nil || n != len(keys) {
				x.Fail("count-wrong:"+pos+":"+otherState, "%s: Count() = %d, %v", ctx, n, err)
			}
			for _, k := range all {
				want := 0
				for _, mk := range keys {
					if bytes.Compare([]byte(mk), k) >= 0 {
						want++
					}
				}
				n, err := ix.CountFrom(Item{Address: k})
				if err != nil || n != want {
					x.Fail("countfrom-wrong:"+pos+":"+otherState, "%s: CountFrom(%x) = %d, %v; want %d", ctx, k, n, err, want)
				}
			}
		case "first", "last":
			for _, p := range c19Prefixes {
				match := c19RefIterate(keys, p, nil, false, c19Groups[group] == "last")
				var got Item
				var err error
				if c19Groups[group] == "first" {
					got, err = ix.First(p)
				} else {
					got, err = ix.Last(p)
				}
				shape := "prefix-nil"
				if p != nil {
					shape = "prefix-plain"
					allFF := true
					for _, b := range p {
						allFF = allFF && b == 0xff
					}
					if allFF {
						shape = "prefix-all-ff"
					}
				}
				k := c19Groups[group] + "-wrong:" + shape + ":" + pos + ":" + otherState
				if len(match) == 0 {
					if !isNotFound(err) {
						x.Fail(k+":expected-notfound", "%s: %s(%x) = {%x %q}, %v; want driver.ErrNotFound", ctx, c19Groups[group], p, got.Address, got.Data, err)
					}
					continue
				}
				if err != nil {
					x.Fail(k+":error", "%s: %s(%x) = %v; want key %x", ctx, c19Groups[group], p, err, match[0])
				}
				if string(got.Address) != match[0] || string(got.Data) != m.idx[i][match[0]] {
					x.Fail(k+":item", "%s: %s(%x) = {%x %q}; want key %x", ctx, c19Groups[group], p, got.Address, got.Data, match[0])
				}
			}
		case "iterate-forward", "iterate-reverse":
			reverse := c19Groups[group] == "iterate-reverse"
			for _, p := range c19Prefixes {
				starts := append([][]byte{nil}, all...)
				for _, s := range starts {
					if s != nil {
						// weakest reading (upstream's documented use): a start item lies
						// inside the prefix; in reverse order it is a stored item
						if !bytes.HasPrefix(s, p) {
							continue
						}
						if _, present := m.idx[i][string(s)]; reverse && !present {
							continue
						}
					}
					for _, skip := range []bool{false, true} {
						var opts *IterateOptions
						if p != nil || s != nil || skip || reverse {
							opts = &IterateOptions{Prefix: p, SkipStartFromItem: skip, Reverse: reverse}
							if s != nil {
								opts.StartFrom = &Item{Address: s}
							}
						}
						var got []string
						valuesOK := true
						err := ix.Iterate(func(it Item) (bool, error) {
							got = append(got, string(it.Address))
							if string(it.Data) != m.idx[i][string(it.Address)] {
								valuesOK = false
							}
							return false, nil
						}, opts)
						want := c19RefIterate(keys, p, s, skip, reverse)
						desc := fmt.Sprintf("Iterate(prefix=%x start=%x skip=%v reverse=%v)", p, s, skip, reverse)
						startShape := "start-none"
						if s != nil {
							startShape = "start-absent"
							if _, present := m.idx[i][string(s)]; present {
								startShape = "start-present"
							}
						}
						k := fmt.Sprintf("iterate-wrong:reverse=%v:prefix=%v:%s:skip=%v:%s:%s", reverse, p != nil, startShape, skip, pos, otherState)
						if err != nil {
							x.Fail(k+":error", "%s: %s = %v", ctx, desc, err)
						}
						if s == nil && skip {
							// SkipStartFromItem without a start item: the statement defines
							// skip-start relative to a start item, so this corner is left open;
							// the implementation drops an item whose key equals the prefix.
							alt := c19RefIterate(keys, p, p, true, reverse)
							if c19Hex(got) != c19Hex(want) && c19Hex(got) == c19Hex(alt) && p != nil {
								x.Tag("skipstart-without-start-drops-key-equal-to-prefix")
								continue
							}
						}
						if c19Hex(got) != c19Hex(want) {
							x.Fail(k+":keys", "%s: %s visited %s, want %s", ctx, desc, c19Hex(got), c19Hex(want))
						}
						if !valuesOK {
							x.Fail(k+":values", "%s: %s handed out a wrong value", ctx, desc)
						}
						if len(want) >= 2 {
							x.Tag("iterate-2+-items")
						}
					}
				}
			}
		case "fields":
			if i > 0 {
				continue
			}
			u, err := h.u.Get()
			if err != nil || u != m.u {
				x.Fail("uint64field-wrong", "u.Get() = %d, %v; want %d", u, err, m.u)
			}
			for _, vi := range []uint64{0, 1, math.MaxUint64} {
				v, err := h.v.Get(vi)
				if err != nil || v != m.vec[vi] {
					x.Fail("uint64vector-wrong", "v.Get(%d) = %d, %v; want %d", vi, v, err, m.vec[vi])
				}
			}
			s, err := h.s.Get()
			if err != nil || s != m.s {
				x.Fail("stringfield-wrong", "s.Get() = %q, %v; want %q", s, err, m.s)
			}
		}
	}
}
