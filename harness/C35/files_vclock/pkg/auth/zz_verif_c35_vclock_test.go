//go:build verif && go1.18
// +build verif,go1.18

package auth

import (
	"encoding/base64"
	"encoding/json"
	"fmt"
	"io"
	"net/http"
	"net/http/httptest"
	"net/url"
	"testing"
	"time"

	"github.com/gauss-project/aurorafs/pkg/logging"
	"github.com/gauss-project/aurorafs/pkg/zzverif/mc"
	"github.com/gauss-project/aurorafs/pkg/zzverif/vsched"
)

// Expiry boundaries under a virtual clock: in this test entry package `time` inside
// pkg/auth is substituted by the verification clock (starts 2022-01-01, advances only
// through vsched.Sleep), so "now" relative to a token's expiry is exact.

func vcOpen(x *mc.X, a *Authenticator, tok string) authRecord {
	var ar authRecord
	raw, err := base64.StdEncoding.DecodeString(tok)
	x.NoErr(err, "decode issued token")
	ns := a.ciph.gcm.NonceSize()
	if len(raw) < ns {
		x.Broken("issued token too short")
	}
	plain, err := a.ciph.gcm.Open(nil, raw[:ns], raw[ns:], nil)
	x.NoErr(err, "open issued token")
	x.NoErr(json.Unmarshal(plain, &ar), "unmarshal issued token")
	return ar
}

func vcServe(a *Authenticator, tok, path, method string) (passed bool, status int) {
	next := http.HandlerFunc(func(w http.ResponseWriter, r *http.Request) { passed = true; w.WriteHeader(http.StatusOK) })
	req := &http.Request{Method: method, URL: &url.URL{Path: path}, Header: http.Header{}, Proto: "HTTP/1.1", ProtoMajor: 1, ProtoMinor: 1}
	req.Header.Set("Authorization", "Bearer "+tok)
	rec := httptest.NewRecorder()
	PermissionCheckHandler(a)(next).ServeHTTP(rec, req)
	return passed, rec.Code
}

type vcOffset struct {
	name string
	rel  time.Duration // relative to the token's lifetime d
}

var vcOffsets = []vcOffset{
	{"0", -1 << 62}, // marker: no advance at all
	{"d-1s", -time.Second}, {"d-1ns", -time.Nanosecond}, {"d", 0}, {"d+1ns", time.Nanosecond}, {"d+500ms", 500 * time.Millisecond},
	{"d+999ms", 999 * time.Millisecond}, {"d+1s", time.Second}, {"d+1s+1ns", time.Second + time.Nanosecond}, {"d+2s", 2 * time.Second},
}

func (o vcOffset) advance(d int) time.Duration {
	if o.name == "0" {
		return 0
	}
	return time.Duration(d)*time.Second + o.rel
}

// state of a token at virtual time now: -1 alive, 0 exactly at the expiry instant, +1 expired
func vcState(now, expiry time.Time) int {
	switch {
	case now.After(expiry):
		return 1
	case now.Equal(expiry):
		return 0
	}
	return -1
}

func TestVerifC35Clock(t *testing.T) {
	lifetimes := []int{1, 10}
	type rp struct{ role, okPath, okMethod, badPath, badMethod string }
	roles := []rp{{"consumer", "/bytes/abc", "GET", "/privatekey", "GET"}, {"master", "/transaction", "POST", "/transaction", "PUT"}}
	actions := []string{"Enforce", "PermissionCheckHandler", "RefreshKey(1)", "RefreshKey(10)"}
	var offs []string
	for _, o := range vcOffsets {
		offs = append(offs, o.name)
	}
	mc.Run(t, mc.Config{ID: "C35", Name: "C35-clock", MaxDev: -1, Params: map[string]interface{}{
		"lifetimes_s": lifetimes, "clock_advance": offs, "roles": []string{"consumer", "master"}, "actions": actions,
		"after_refresh": "the clock is advanced again by every offset relative to the new lifetime, then Enforce on the old and the new token and a second RefreshKey of the new token"}},
		func(x *mc.X) {
			off := vcOffsets[x.Choose(len(vcOffsets))]
			act := x.Choose(len(actions))
			d := lifetimes[x.Choose(len(lifetimes))]
			r := roles[x.Choose(len(roles))]
			var off2 vcOffset
			if act >= 2 {
				off2 = vcOffsets[x.Choose(len(vcOffsets))]
			}
			vsched.Run(x, vsched.Options{Sequential: true}, func(s *vsched.S) {
				a, err := New("mZIODMvjsiS2VdK1xgI1cOTizhGVNoVz", "x", logging.New(io.Discard, 0))
				x.NoErr(err, "auth.New")
				t0 := vsched.Now()
				tok, err := a.GenerateKey(r.role, d)
				x.Check(err == nil, "generate-failed", "GenerateKey(%q,%d): %v", r.role, d, err)
				ar := vcOpen(x, a, tok)
				want := t0.Add(time.Duration(d) * time.Second)
				x.Check(ar.Role == r.role && ar.Expiry.Equal(want), "generate-expiry-not-issue-time-plus-duration", "GenerateKey(%q,%d) at %v sealed role %q expiry %v", r.role, d, t0, ar.Role, ar.Expiry)
				vsched.Sleep(off.advance(d))
				now := vsched.Now()
				st := vcState(now, want)
				x.Logf("token role=%q lifetime %ds, clock advanced by %s (%v): %s; action %s", r.role, d, off.name, now.Sub(t0), map[int]string{-1: "alive", 0: "at the expiry instant", 1: "expired"}[st], actions[act])
				x.Tag(fmt.Sprintf("first-token-%s", map[int]string{-1: "alive", 0: "at-expiry-instant", 1: "expired"}[st]))

				// judge: use a token for the role's allowed and forbidden request
				use := func(what, tk string, state int, viaHandler bool) {
					var ok, bad bool
					var e error
					if viaHandler {
						var c1, c2 int
						ok, c1 = vcServe(a, tk, r.okPath, r.okMethod)
						bad, c2 = vcServe(a, tk, r.badPath, r.badMethod)
						x.Check((ok || c1 >= 400) && (bad || c2 >= 400), "handler-refusal-without-error-status", "%s: status %d/%d", what, c1, c2)
						x.Outcome(fmt.Sprintf("handler-state%+d-passed=%v-status-%d", state, ok, c1))
					} else {
						ok, e = a.Enforce(tk, r.okPath, r.okMethod)
						bad, _ = a.Enforce(tk, r.badPath, r.badMethod)
						x.Outcome(fmt.Sprintf("enforce-state%+d-allow=%v-err=%v", state, ok, e != nil))
					}
					x.Logf("  %s: allowed request honoured=%v (err=%v), forbidden request honoured=%v", what, ok, e, bad)
					x.Check(!bad, "policy-denied-request-honoured", "%s: role %q %s %s honoured", what, r.role, r.badMethod, r.badPath)
					if state > 0 {
						x.Check(!ok, "expired-token-honoured", "%s: honoured %v after its expiry", what, now.Sub(want))
						if !viaHandler {
							x.Check(e != nil, "expired-token-no-error", "%s: expired but no error", what)
						}
					}
					if state < 0 {
						x.Check(ok, "genuine-token-refused", "%s: live token refused (err=%v)", what, e)
					}
					if ok {
						x.Nontrivial()
					}
				}
				switch act {
				case 0, 1:
					use("first token", tok, st, act == 1)
					return
				}
				d2 := []int{1, 10}[act-2]
				nt, err := a.RefreshKey(tok, d2)
				x.Logf("  RefreshKey(%d) -> err=%v", d2, err)
				x.Outcome(fmt.Sprintf("refresh-state%+d-ok=%v", st, err == nil))
				if st > 0 {
					x.Check(err != nil, "refresh-revived-expired-token", "RefreshKey(%d) succeeded %v after the token's expiry", d2, now.Sub(want))
					if nt != "" {
						h, _ := a.Enforce(nt, r.okPath, r.okMethod)
						x.Check(!h, "refresh-revived-expired-token", "RefreshKey(%d) %v after expiry returned a token that is honoured", d2, now.Sub(want))
					}
					use("first token after the refused refresh", tok, st, false)
					return
				}
				if st < 0 {
					x.Check(err == nil, "refresh-of-live-token-failed", "RefreshKey(%d) of a live token: %v", d2, err)
				}
				if err != nil {
					return // at the expiry instant both answers are accepted
				}
				if st == 0 {
					x.Tag("refreshed-at-the-expiry-instant")
				}
				nr := vcOpen(x, a, nt)
				want2 := now.Add(time.Duration(d2) * time.Second)
				x.Check(nr.Role == r.role, "refresh-role-changed", "refresh sealed role %q, want %q", nr.Role, r.role)
				x.Check(nr.Expiry.Equal(want2), "refresh-expiry-not-issue-time-plus-duration", "RefreshKey(%d) at %v sealed expiry %v", d2, now, nr.Expiry)
				vsched.Sleep(off2.advance(d2))
				now = vsched.Now()
				st1, st2 := vcState(now, want), vcState(now, want2)
				x.Logf("  clock advanced by %s after the refresh: old token %+d, new token %+d", off2.name, st1, st2)
				x.Tag(fmt.Sprintf("refreshed-token-%s", map[int]string{-1: "alive", 0: "at-expiry-instant", 1: "expired"}[st2]))
				want = want2
				use("refreshed token", nt, st2, false)
				want = t0.Add(time.Duration(d) * time.Second)
				use("old token after refresh", tok, st1, false)
				// a second refresh of the refreshed token
				want = want2
				_, err = a.RefreshKey(nt, 10)
				if st2 > 0 {
					x.Check(err != nil, "refresh-revived-expired-token", "second RefreshKey succeeded %v after the refreshed token's expiry", now.Sub(want2))
				}
				if st2 < 0 {
					x.Check(err == nil, "refresh-of-live-token-failed", "second RefreshKey of a live token: %v", err)
				}
			})
		})
}
